"""Cases and oracles for OgreArc / OgreUnique handles."""
from .driver import Case, Suite
from .ringgen import random_sched

HEADER = "From RM Require Import Util RingModel FullSync PoolRun Arc."

def mk_case(N, hs, progs, sched, meta=None, shared=0, ctor=0):
    # ctor=1: the handles come from the bulk constructor new_with_clones::<COUNT> instead of into_ogre_arc + increment_references + raw_copy
    # (the same initial state for the model: one counter holding the number of handles)
    line = "arc N=%d hs=%s%s%s ; " % (N, ",".join(map(str, hs)), " shared=1" if shared else "", " ctor=1" if ctor else "") + " ; ".join(" ".join(p) for p in progs) + " ; S " + " ".join(map(str, sched))
    cop = {"clone": "RClone", "drop": "RDrop", "count": "RCount", "read": "RRead", "sclone": "RSClone", "scount": "RSCount"}
    # shared=1: one more handle, owned by no acting thread and alive throughout, is borrowed by the threads (`sclone` / `scount`): the model's `perm`
    coq = "%s %d [%s] [%s] [%s]%%nat" % ("run_arc_shared" if shared else "run_arc", N, "; ".join(map(str, hs)), "; ".join("[" + "; ".join(cop[o] for o in p) + "]" for p in progs), "; ".join(map(str, sched)))
    m = dict(N=N, hs=hs, progs=progs, sched=sched, shared=shared, ctor=ctor); m.update(meta or {})
    return Case(line, coq, m)

def parse_case_line(line):
    secs = [s.strip() for s in line.split(";")]
    params = dict(kv.split("=") for kv in secs[0].split()[1:])
    progs, sched = [], []
    for sec in secs[1:]:
        if sec.startswith("S ") or sec == "S": sched = [int(x) for x in sec[1:].split()]
        else: progs.append(sec.split())
    return mk_case(int(params["N"]), [int(x) for x in params["hs"].split(",")], progs, sched, shared=int(params.get("shared", 0)), ctor=int(params.get("ctor", 0)))

def gen_shared_case(rng):
    """one handle that no thread owns is borrowed by 2-3 threads, each cloning it (`sclone`) at will - also when it is the sole handle -
    reading the count through it and dropping its own clones"""
    N = rng.choice([2, 4]); nthreads = rng.randint(2, 3)
    hs = [0] * nthreads if rng.random() < 0.7 else [rng.randint(0, 1) for _ in range(nthreads)]
    if sum(hs) == 0: hs_line = hs
    progs = []
    for t in range(nthreads):
        p = ["sclone"] + [rng.choice(["sclone", "drop", "drop", "scount", "read", "clone"]) for _ in range(rng.randint(0, 4))]
        p += ["drop"] * (hs[t] + p.count("sclone") + p.count("clone"))
        progs.append(p)
    total = sum(len(p) for p in progs)
    sched = random_sched(rng, nthreads, rng.randint(0, total * 3), burst=rng.choice([0.2, 0.5]))
    for _ in range(4 * max(len(p) for p in progs) + 8): sched += list(range(nthreads))
    hs2 = hs if sum(hs) > 0 else hs
    return mk_case(N, hs2 if sum(hs2) > 0 else [0] * nthreads, progs, sched, shared=1, ctor=int(rng.random() < 0.4))

def gen_case(rng, max_ops=6):
    N = rng.choice([2, 4]); nthreads = rng.randint(2, 3)
    hs = [rng.randint(0, 2) for _ in range(nthreads)]
    if sum(hs) == 0: hs[0] = 1
    progs = []
    for t in range(nthreads):
        n = rng.randint(1, max_ops)
        progs.append([rng.choice(["clone", "drop", "drop", "count", "read"]) for _ in range(n)])
    if rng.random() < 0.5:
        # make sure everything gets dropped: the last drop (and the dealloc) then happens on whichever thread comes last
        for t in range(nthreads): progs[t] += ["drop"] * (hs[t] + progs[t].count("clone"))
    total = sum(len(p) for p in progs)
    sched = random_sched(rng, nthreads, rng.randint(0, total * 3), burst=rng.choice([0.2, 0.5, 0.8]))
    for _ in range(4 * max(len(p) for p in progs) + 8): sched += list(range(nthreads))
    return mk_case(N, hs, progs, sched, ctor=int(rng.random() < 0.4))

def oracle(case, recs):
    """independent of the model: a count read equals live handles +/- operations in flight; every read returns the value written at
    creation; the slot goes back to the pool exactly once, and only when no handle is left"""
    hits = []
    N = case.meta["N"]; live = dict(enumerate(case.meta["hs"])); progs = case.meta["progs"]; pos = {}
    if case.meta.get("shared"): live[-1] = 1                      # the borrowed handle: alive throughout
    for r in recs:
        if r[0] == "ret":
            t = r[1]; code = r[2]; k = pos.get(t, 0); pos[t] = k + 1
            if code == 50: live[t] = live.get(t, 0) + 1
            elif code == 51: live[t] = live.get(t, 0) - 1
            elif code == 53 and r[3] != 4242: hits.append((None, "a live handle dereferenced to %d instead of the value written at creation (4242)" % r[3]))
            elif code == 52:
                total = sum(live.values())
                if not (total - len(progs) <= r[3] <= total + len(progs)): hits.append((None, "references_count %d with %d live handles" % (r[3], total)))
        if r[0] == "panic": hits.append((None, "panic in thread %d" % r[1]))
    fin = recs[-1][1] if recs and recs[-1][0] == "final" else None
    done = all(any(q[0] == "skip" and q[1] == t for q in recs[-3 * len(progs):]) for t in range(len(progs)))
    if fin and done:
        total = sum(live.values())
        free = fin[0]
        if total == 0 and free != N: hits.append((None, "every handle was dropped but the pool has %d of %d free slots" % (free, N)))
        if total > 0 and free != N - 1: hits.append((None, "%d handles are live but the pool has %d of %d free slots" % (total, free, N)))
    return hits

def nontrivial(case, recs):
    # a handle cloned or dropped while another thread is inside a clone / drop, or the last drop happening on a thread other than 0
    active = set(); sw = False; last = None
    for r in recs:
        if r[0] == "acc":
            t = r[1]
            if last is not None and last != t and active - {t}: sw = True
            active.add(t); last = t
        elif r[0] == "ret": active.discard(r[1])
    return sw
