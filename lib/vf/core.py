"""Common machinery of the checks: building, running the model (coqc + vm_compute) and the implementation
(Rust harness) on the same cases, comparing traces, evidence, verdict lines."""
import os, sys, re, json, time, subprocess, hashlib, random, shutil, tempfile
from concurrent.futures import ThreadPoolExecutor

VERIF = os.path.dirname(os.path.dirname(os.path.dirname(os.path.abspath(__file__))))
COQ = os.path.join(VERIF, "coq")
HARNESS = os.path.join(VERIF, "harness")
WORK = os.path.join(VERIF, "work")
EVID = os.path.join(VERIF, "evidence")
NPROC = 16
MODEL_PROCS = int(os.environ.get('VERIF_MODEL_PROCS', '5'))   # parallel coqc start-up is heavily contended in this sandbox
ENV = dict(os.environ, CARGO_NET_OFFLINE="true")

FORBIDDEN = re.compile(r"\b(Admitted|admit|Axiom|Axioms|Parameter|Parameters|Conjecture|Conjectures|Unset\s+Guard|bypass_check|Admit\s+Obligations|Unset\s+Positivity|Unset\s+Universe)\b|type-in-type|impredicative-set")

class CheckError(Exception):
    pass

def sh(cmd, cwd=None, timeout=3600, env=None, input=None):
    p = subprocess.run(cmd, cwd=cwd, env=env or ENV, input=input, stdout=subprocess.PIPE, stderr=subprocess.STDOUT,
                       text=True, timeout=timeout, shell=isinstance(cmd, str))
    return p.returncode, p.stdout

def strip_comments(src):
    out, depth, i = [], 0, 0
    while i < len(src):
        if src.startswith("(*", i): depth += 1; i += 2; continue
        if src.startswith("*)", i) and depth > 0: depth -= 1; i += 2; continue
        if depth == 0: out.append(src[i])
        i += 1
    return "".join(out)

# ---------------------------------------------------------------------------------------------- Coq side
def coq_build():
    """full .vo build (incremental through make); returns (ok, log)"""
    if not os.path.exists(os.path.join(COQ, "Makefile")):
        rc, out = sh("coq_makefile -f _CoqProject -o Makefile", cwd=COQ)
        if rc != 0: return False, out
    rc, out = sh("ulimit -v 16000000; timeout 1200 make -j8", cwd=COQ)
    return rc == 0, out

def coq_scan():
    """no Admitted / Axiom / ... anywhere in the development (comments stripped)"""
    bad = []
    for root, _, files in os.walk(COQ):
        if os.path.join(COQ, "gen") in root: continue
        for f in files:
            if f.endswith(".v"):
                src = strip_comments(open(os.path.join(root, f)).read())
                for m in FORBIDDEN.finditer(src):
                    bad.append("%s: %s" % (os.path.relpath(os.path.join(root, f), COQ), m.group(0)))
    proj = open(os.path.join(COQ, "_CoqProject")).read()
    for m in FORBIDDEN.finditer(proj): bad.append("_CoqProject: " + m.group(0))
    return bad

ALLOWED_AXIOMS = set()   # none needed so far; extended per property when a stdlib axiom is named in the trusted base

def coq_props(prop_file, allowed=()):
    """re-compiles props/<file>.v capturing `Print Assumptions`; returns dict theorem -> list of axioms, and the theorem list"""
    os.makedirs(WORK, exist_ok=True)
    src_path = os.path.join(COQ, "props", prop_file)
    src = strip_comments(open(src_path).read())
    theorems = re.findall(r"\bTheorem\s+([A-Za-z0-9_']+)", src)
    printed = re.findall(r"\bPrint\s+Assumptions\s+([A-Za-z0-9_']+)", src)
    os.makedirs(os.path.join(WORK, "props"), exist_ok=True)
    out_vo = os.path.join(WORK, "props", "%s.vo" % prop_file[:-2])
    rc, out = sh(["timeout", "1200", "coqc", "-noglob", "-Q", "theories", "RM", "-Q", "props", "RMProps", "-o", out_vo, src_path], cwd=COQ)
    if rc != 0:
        raise CheckError("coqc failed on props/%s:\n%s" % (prop_file, out[-3000:]))
    # split the output into one chunk per Print Assumptions, in order
    chunks = re.split(r"(?m)^(?=Closed under the global context|Axioms:)", out)
    chunks = [c for c in chunks if c.startswith("Closed under") or c.startswith("Axioms:")]
    if len(chunks) != len(printed):
        raise CheckError("props/%s: %d Print Assumptions commands but %d answers" % (prop_file, len(printed), len(chunks)))
    result = {}
    for name, chunk in zip(printed, chunks):
        if chunk.startswith("Closed under"):
            result[name] = []
        else:
            axs = re.findall(r"(?m)^([A-Za-z0-9_.']+)\s*:", chunk[len("Axioms:"):])
            result[name] = axs
    missing = [t for t in theorems if t not in result]
    if missing:
        raise CheckError("props/%s: theorems without Print Assumptions: %s" % (prop_file, missing))
    return result, theorems

def run_model(cases, header, shard_tag):
    """cases: list of Coq terms (strings) of type list Z; evaluates each with vm_compute; returns list of int lists"""
    if not cases: return []
    gen = os.path.join(WORK, "gen_%s_%d" % (shard_tag, os.getpid()))
    shutil.rmtree(gen, ignore_errors=True)
    os.makedirs(gen)
    nshards = min(MODEL_PROCS, max(1, len(cases) // 40))
    shards = [cases[i::nshards] for i in range(nshards)]
    def one(k):
        path = os.path.join(gen, "cases_%d.v" % k)
        with open(path, "w") as f:
            f.write(header + "\nSet Printing Width 100000000.\nSet Printing Depth 100000000.\n")
            for c in shards[k]:
                f.write("Eval vm_compute in (%s).\n" % c)
        rc, out = sh(["timeout", "1800", "coqc", "-noglob", "-Q", os.path.join(COQ, "theories"), "RM", path], cwd=gen)
        if rc != 0:
            raise CheckError("model evaluation failed (%s):\n%s" % (path, out[-2000:]))
        res = []
        for line in out.splitlines():
            line = line.strip()
            if line.startswith("= "):
                body = line[2:].strip()
                if body == "[]": res.append([]); continue
                m = re.match(r"^\[(.*)\]$", body)
                if not m: raise CheckError("cannot parse model output: " + line[:200])
                res.append([int(x) for x in m.group(1).split(";")])
        if len(res) != len(shards[k]):
            raise CheckError("model printed %d results for %d cases" % (len(res), len(shards[k])))
        return res
    with ThreadPoolExecutor(nshards) as ex:
        parts = list(ex.map(one, range(nshards)))
    out = [None] * len(cases)
    for k, part in enumerate(parts):
        for j, r in enumerate(part):
            out[k + j * nshards] = r
    shutil.rmtree(gen, ignore_errors=True)
    return out

# ------------------------------------------------------------------------------------- implementation side
_built = {}
def harness_build(release=False, overflow_checks=None):
    """(re)builds the harness against /repo's working tree; returns path of the binary"""
    key = (release, overflow_checks)
    if key in _built: return _built[key]
    target = "target"
    env = dict(ENV)
    if overflow_checks is not None:
        env["RUSTFLAGS"] = "-C overflow-checks=%s" % ("on" if overflow_checks else "off")
        target = "target/oc_%s" % ("on" if overflow_checks else "off")
    cmd = ["cargo", "build", "--offline", "--target-dir", target] + (["--release"] if release else [])
    if not os.path.exists(os.path.join(HARNESS, "Cargo.lock")):
        shutil.copy("/repo/Cargo.lock", os.path.join(HARNESS, "Cargo.lock"))
    rc, out = sh(cmd, cwd=HARNESS, env=env, timeout=3000)
    if rc != 0:
        raise CheckError("cargo build of the harness failed:\n" + out[-4000:])
    path = os.path.join(HARNESS, target, "release" if release else "debug", "rm-harness")
    _built[key] = path
    return path

STALLS = []      # cases on which the schedule driver stalled and that were re-run (reported in the evidence)
def run_impl(lines, binary=None, timeout=1800, nproc=4):
    """runs the case lines through the harness; returns list of int lists (None for a case the harness died on)"""
    if not lines: return []
    binary = binary or harness_build()
    nshards = min(nproc, max(1, len(lines) // 50))
    shards = [lines[i::nshards] for i in range(nshards)]
    def one(k):
        rows, err, todo = [], "", shards[k]
        while todo:
            p = subprocess.run([binary], input="\n".join(todo) + "\n", stdout=subprocess.PIPE, stderr=subprocess.PIPE, text=True, timeout=timeout, env=ENV)
            got = [[int(x) for x in l.split()] for l in p.stdout.splitlines()]
            err += p.stderr
            if p.returncode == 77 and got and got[-1] == [-9999]:
                # the schedule driver stalled on the case after the answered ones: re-run that case alone, once, in a fresh process
                got = got[:-1]; rows += got; todo = todo[len(got):]
                stalled = todo[0]; todo = todo[1:]
                try:
                    q = subprocess.run([binary], input=stalled + "\n", stdout=subprocess.PIPE, stderr=subprocess.PIPE, text=True, timeout=120, env=ENV)
                    again = [[int(x) for x in l.split()] for l in q.stdout.splitlines()]
                    rows.append(again[0] if again and again[0] != [-9999] else None)
                except subprocess.TimeoutExpired:
                    rows.append(None)
                STALLS.append(stalled)
                continue
            rows += got
            # exit code 75: the harness answered its last case and asks for a fresh process (a worker thread could not be joined)
            if p.returncode == 75 and got: todo = todo[len(got):]
            elif p.returncode not in (0, 75, 77) and len(got) < len(todo):
                # the process was killed by a signal (or aborted) while running the case after the answered ones: that case gets a crash
                # record [3 0 128+signal] as its whole trace and the remaining cases go to a fresh process
                # (killed by signal s: 128 + s; exited by itself with status c - 101 is a Rust panic outside any catch_unwind, 134 an abort -: 1000 + c)
                rows.append([3, 0, 128 + ((-p.returncode) % 128)] if p.returncode < 0 else [3, 0, 1000 + p.returncode])
                # keep what the process said for the diagnosis (the crash record itself is what the checks judge)
                try:
                    q = subprocess.run([binary], input=todo[len(got)] + "\n", stdout=subprocess.PIPE, stderr=subprocess.PIPE, text=True, timeout=120,
                                       env=dict(ENV, HARNESS_VERBOSE="1"))
                    with open(os.path.join(WORK, "crashes.log"), "a") as f:
                        f.write("exit %s in a batch; case: %s\nstderr of the batch: %s\nre-run alone: exit %s, stderr: %s\n\n" % (
                            p.returncode, todo[len(got)][:300], p.stderr[-1500:], q.returncode, q.stderr[-1500:]))
                except Exception:
                    pass
                todo = todo[len(got) + 1:]
            else: break
        if len(rows) != len(shards[k]):
            rows += [None] * (len(shards[k]) - len(rows))
        return rows, err
    with ThreadPoolExecutor(nshards) as ex:
        parts = list(ex.map(one, range(nshards)))
    out = [None] * len(lines)
    for k, (part, _err) in enumerate(parts):
        for j, r in enumerate(part):
            out[k + j * nshards] = r
    return out

def run_impl_valgrind(lines, binary=None, timeout=600):
    """one harness process per case under valgrind memcheck; a case on which valgrind reports an error gets the record [3 0 77]
    (panic record, code 77) prepended to its trace"""
    binary = binary or harness_build()
    def one(line):
        try:
            p = subprocess.run(["valgrind", "-q", "--error-exitcode=9", binary], input=line + "\n", stdout=subprocess.PIPE, stderr=subprocess.PIPE, text=True, timeout=timeout, env=ENV)
        except subprocess.TimeoutExpired:
            return None
        rows = [[int(x) for x in l.split()] for l in p.stdout.splitlines() if l.strip() and l.split()[0].lstrip("-").isdigit()]
        row = rows[0] if rows else [9]
        if p.returncode == 9 or "Invalid read" in p.stderr or "Invalid write" in p.stderr or "Invalid free" in p.stderr:
            row = [3, 0, 77] + row
        elif p.returncode not in (0, 75):
            row = [3, 0, 78] + row
        return row
    with ThreadPoolExecutor(8) as ex:
        return list(ex.map(one, lines))

# --------------------------------------------------------------------------------------------- traces
ARITY = {0: 2, 1: 7, 2: 5, 3: 3, 30: 8}
def parse_trace(flat):
    """-> list of records: ('skip',t) ('acc',t,loc,kind,seen,wrote,ok) ('ret',t,code,a,b) ('panic',t,code) ('final',[...])"""
    recs, i = [], 0
    names = {0: "skip", 1: "acc", 2: "ret", 3: "panic", 30: "op"}
    while i < len(flat):
        tag = flat[i]
        if tag == 9:
            recs.append(("final", flat[i+1:])); break
        if tag not in ARITY: raise CheckError("bad trace tag %r at %d" % (tag, i))
        n = ARITY[tag]
        rec = (names[tag],) + tuple(flat[i+1:i+n])
        if tag == 1:
            # the harness prints u64 values through i64: undo the wrap of values >= 2^63 (-1 stays "nothing written")
            rec = rec[:4] + tuple(v + (1 << 64) if v < -1 else v for v in rec[4:6]) + rec[6:]
        recs.append(rec)
        i += n
    return recs

def first_divergence(a, b):
    ra, rb = parse_trace(a), parse_trace(b)
    for k, (x, y) in enumerate(zip(ra, rb)):
        if x != y: return k, x, y
    if len(ra) != len(rb):
        k = min(len(ra), len(rb))
        return k, (ra[k] if k < len(ra) else None), (rb[k] if k < len(rb) else None)
    return None

# ------------------------------------------------------------------------------------------ reporting
def write_evidence(pid, tier, seed, coverage, wall, violations, assumptions):
    os.makedirs(EVID, exist_ok=True)
    ev = {"property_id": pid, "tier": tier, "seed": seed, "level": "proof", "coverage": coverage,
          "assumptions": assumptions, "wall_s": round(wall, 2), "violations": violations}
    with open(os.path.join(EVID, pid + ".json"), "w") as f:
        json.dump(ev, f, indent=1)

def write_replay(pid, name, content):
    d = os.path.join(WORK, "replays")
    os.makedirs(d, exist_ok=True)
    path = os.path.join(d, "%s_%s.case" % (pid, name))
    with open(path, "w") as f: f.write(content)
    return path

def known_findings():
    with open(os.path.join(VERIF, "known_findings.json")) as f:
        return json.load(f)
