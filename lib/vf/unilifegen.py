"""C10 for the Uni channels: sequential histories of create-stream / drop-stream / send / poll / count (model: Chan/UniLife.v)."""
from .driver import Case

HEADER = "From RM Require Import Util UniLife."
KINDS = ("move_atomic", "move_full_sync", "crossbeam", "zc_atomic", "zc_full_sync")
N = 4

def tok(o): return o[0] if len(o) == 1 else "%s:%d" % o
def cop(o):
    return {"create": "LoCreate", "count": "LoCount"}.get(o[0]) or {"drop": "LoDrop %d", "send": "LoSend %d", "poll": "LoPoll %d"}[o[0]] % o[1]

def mk_case(chan, M, ops):
    line = "unilife chan=%s M=%d ; %s ; S" % (chan, M, " ".join(tok(o) for o in ops))
    coq = "run_unilife %d %d [%s]" % (N, M, "; ".join(cop(o) for o in ops))
    return Case(line, coq, dict(chan=chan, M=M, ops=ops, profile="unilife"))

def parse_case_line(line):
    secs = [s.strip() for s in line.split(";")]
    params = dict(kv.split("=") for kv in secs[0].split()[1:])
    ops = []
    for t in secs[1].split():
        p = t.split(":"); ops.append((p[0],) if len(p) == 1 else (p[0], int(p[1])))
    return mk_case(params["chan"], int(params["M"]), ops)

def gen_history(rng, chan):
    """mostly valid histories: streams are created (now and then one more than MAX_STREAMS allows), dropped with or without events still
    pending, ids recycle many times; sends fill the buffer now and then"""
    M = rng.choice([1, 2, 4]); ops = []; created = 0; alive = []; v = 100
    for _ in range(rng.randint(6, 28)):
        r = rng.random()
        if r < 0.25 or not created:
            if len(alive) < M or rng.random() < 0.35: ops.append(("create",)); alive.append(created) if len(alive) < M else None; created += 1
        elif r < 0.45 and alive:
            j = rng.choice(alive) if rng.random() < 0.9 else rng.randrange(created); ops.append(("drop", j))
            if j in alive: alive.remove(j)
        elif r < 0.7: v += 1; ops.append(("send", v))
        elif r < 0.92: ops.append(("poll", rng.choice(alive) if alive and rng.random() < 0.9 else rng.randrange(max(1, created))))
        else: ops.append(("count",))
    ops.append(("count",))
    return mk_case(chan, M, ops)

def oracle(case, recs):
    """independent of the model: the running count reported after every create / drop / count equals the number of live streams, a create
    succeeds exactly when fewer than MAX_STREAMS streams are alive and gets the id at the head of the vacant FIFO, an event is yielded to
    one stream, once, in send order"""
    hits = []; M = case.meta["M"]; ops = case.meta["ops"]
    rets = [r for r in recs if r[0] == "ret"]
    if len(rets) != len(ops): return [(None, "%d answers for %d operations" % (len(rets), len(ops)))]
    vacant = list(range(M)); streams = []; queue = []
    for o, r in zip(ops, rets):
        code, a, b = r[2], r[3], r[4]
        live = [s for s in streams if s is not None]
        if o[0] == "create":
            if vacant:
                i = vacant.pop(0); streams.append(i)
                if code != 40: hits.append((None, "a stream creation failed although only %d of %d streams are alive" % (len(live), M)))
                elif a != i: hits.append((None, "creation got id %d, the head of the vacant ids is %d" % (a, i)))
                elif b != len(live) + 1: hits.append((None, "running-stream count %d after a creation with %d streams alive" % (b, len(live) + 1)))
            else:
                streams.append(None)
                if code != 41: hits.append((None, "a creation succeeded with MAX_STREAMS = %d streams alive" % M))
                elif b != len(live): hits.append((None, "running-stream count %d after a REFUSED creation, %d streams are alive" % (b, len(live))))
        elif o[0] == "drop":
            j = o[1]
            if j < len(streams) and streams[j] is not None:
                i = streams[j]; streams[j] = None; vacant.append(i)
                if code != 42 or a != i: hits.append((None, "dropping stream %d answered %s" % (i, r[2:])))
                elif b != len(live) - 1: hits.append((None, "running-stream count %d after a drop, %d streams are alive" % (b, len(live) - 1)))
            elif code != 43: hits.append((None, "unexpected answer %s" % (r[2:],)))
        elif o[0] == "send":
            if len(queue) < N:
                queue.append(o[1])
                if code != 10: hits.append((None, "send rejected with %d of %d events pending" % (len(queue) - 1, N)))
            elif code != 11: hits.append((None, "send accepted with the buffer full"))
        elif o[0] == "poll":
            j = o[1]
            if j < len(streams) and streams[j] is not None:
                if queue:
                    x = queue.pop(0)
                    if code != 12 or a != x: hits.append((None, "stream %d polled %s, the oldest pending event is %d" % (streams[j], r[2:], x)))
                elif code != 13: hits.append((None, "stream %d answered %s on an empty channel" % (streams[j], r[2:])))
            elif code != 43: hits.append((None, "unexpected answer %s" % (r[2:],)))
        elif o[0] == "count":
            if (a, b) != (len(live), len(queue)): hits.append((None, "count answered (%d running, %d pending), %d streams are alive and %d events pending" % (a, b, len(live), len(queue))))
        if hits: break
    return hits

def nontrivial(case, recs):
    """an id was recycled and a creation was refused or a stream was dropped with events pending"""
    ops = case.meta["ops"]
    return sum(1 for o in ops if o[0] == "create") > case.meta["M"] and any(o[0] == "drop" for o in ops)
