"""Cases and oracles for the incremental-average metric."""
import struct
from .driver import Case, Suite
from .ringgen import random_sched, call_intervals

HEADER = "From RM Require Import Util Avg."

def f2b(x): return struct.unpack("<I", struct.pack("<f", x))[0]
def b2f(b): return struct.unpack("<f", struct.pack("<I", b & 0xffffffff))[0]

def mk_case(progs, sched, meta=None):
    line = "avg ; " + " ; ".join(" ".join(n if not a else "%s:%d" % (n, a[0]) for n, a in p) for p in progs) + " ; S " + " ".join(map(str, sched))
    cop = lambda o: "AInc %d" % o[1][0] if o[0] == "inc" else "AProbe"
    coq = "run_avg [%s] [%s]%%nat" % ("; ".join("[" + "; ".join(cop(o) for o in p) + "]" for p in progs), "; ".join(map(str, sched)))
    m = dict(progs=progs, sched=sched); m.update(meta or {})
    return Case(line, coq, m)

def parse_case_line(line):
    secs = [s.strip() for s in line.split(";")]
    progs, sched = [], []
    for sec in secs[1:]:
        if sec.startswith("S ") or sec == "S": sched = [int(x) for x in sec[1:].split()]
        else: progs.append([(tok.split(":")[0], [int(x) for x in tok.split(":")[1:]]) for tok in sec.split()])
    return mk_case(progs, sched)

def gen_case(rng, max_ops=5):
    nrec = rng.randint(2, 3)
    progs = []
    for t in range(nrec):
        n = rng.randint(1, max_ops); p = []
        for _ in range(n):
            kind = rng.random()
            if kind < 0.15: v = -1.0                              # the 'no timing' sentinel
            elif kind < 0.5: v = float(rng.randint(0, 1000))
            elif kind < 0.8: v = rng.uniform(0, 1e-3)
            else: v = rng.uniform(-1e6, 1e6)
            p.append(("inc", [f2b(v)]))
        progs.append(p)
    progs.append([("probe", [])] * rng.randint(1, 6))
    nthreads = len(progs)
    total = sum(len(p) for p in progs)
    sched = random_sched(rng, nthreads, rng.randint(0, total * 4), burst=rng.choice([0.2, 0.5, 0.8]))
    for _ in range(4 * max_ops + 8): sched += list(range(nthreads))
    return mk_case(progs, sched)

def oracle(case, recs):
    """independent of the model: the final count is the number of inc calls; every probe (n, avg) has 0 <= n <= #incs and avg within
    tolerance of the mean of SOME n of the recorded measurements that had completed or were in flight; final avg ~ mean of all"""
    hits = []
    ms = [b2f(a[0]) for p in case.meta["progs"] for n, a in p if n == "inc"]
    done = all(any(r[0] == "skip" and r[1] == t for r in recs[-3 * len(case.meta["progs"]):]) for t in range(len(case.meta["progs"])))
    fin = recs[-1][1] if recs and recs[-1][0] == "final" else None
    if fin and done:
        if fin[0] != len(ms): hits.append((None, "final count %d but %d measurements were recorded" % (fin[0], len(ms))))
        if ms:
            mean = sum(ms) / len(ms); got = b2f(fin[1]); tol = 1e-4 * max(1.0, max(abs(x) for x in ms)) * len(ms)
            if abs(got - mean) > tol: hits.append((None, "final average %r differs from the mean %r of the measurements by more than %r" % (got, mean, tol)))
    # order of successful CASes = order of inc returns in the lock-step trace
    order = [b2f(r[3]) for r in recs if r[0] == "ret" and r[2] == 40]
    for r in recs:
        if r[0] == "ret" and r[2] == 41:
            n, avg = r[3], b2f(r[4])
            k = len([1 for q in recs[:recs.index(r)] if q[0] == "ret" and q[2] == 40])
            if n != k: hits.append((None, "probe returned count %d but %d measurements had been applied" % (n, k)))
            elif n > 0:
                mean = sum(order[:n]) / n; tol = 1e-4 * max(1.0, max(abs(x) for x in order[:n])) * n
                if abs(avg - mean) > tol: hits.append((None, "probe returned (count %d, average %r): the average of the first %d measurements is %r" % (n, avg, n, mean)))
        if r[0] == "panic": hits.append((None, "panic in thread %d" % r[1]))
    return hits

def nontrivial(case, recs):
    return any(r[0] == "acc" and r[3] == 3 and r[6] == 0 for r in recs)      # at least one failed compare-exchange
