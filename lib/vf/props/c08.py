from ..driver import Prop, Suite
from .. import resgen, unigen, multigen

class C08(Prop):
    pid = "C08"; prop_file = "C08.v"
    rule = ("cases on the raw lock-free ring AtomicMove<u32,N>, N in {2,4,8}: one producer thread issuing 3-14 of {reserve, fill + send-reserved (mostly the oldest outstanding, sometimes "
            "not), cancel (the latest outstanding), plain send (only with nothing outstanding), length query}; 'sequential' profile: the same thread also consumes, then resolves every "
            "reservation, drains and attempts BUFFER_SIZE+1 plain sends; 'concurrent' profile: a second thread polls under a random bursty schedule; counters start at 0, just below 2^32 "
            "(so they wrap inside the case), around 2^31 or anywhere; dev build (overflow checks on; a panic is a trace record). Lock-step against the model with the code's wrapping "
            "u32 arithmetic. Oracle: sent reservations delivered exactly once with the written value, cancelled ones never, nothing else; afterwards exactly BUFFER_SIZE sends accepted. "
            "non-trivial = a cancel and a send-reserved both answered true, or the counters wrapped")
    trusted_base = ["ring-level API (leak_slot_internal(|| false), slot_index_from_slot_ref, try_publish_leaked_internal_index, try_unleak_slot_index_internal); the channel wrappers above it "
                    "(uni movable atomic reserve_slot / try_send_reserved / try_cancel_slot_reserve incl. their wake-ups; zero-copy and ogre_arc kinds) are not in a lock-step suite",
                    "the caller's write into the reserved slot has no hook: modelled as happening when the first send attempt starts",
                    "one producer thread (the property's quantifier); cancellations in reverse reservation order (documented restriction) are what the generator issues"]
    assumptions = ["payload u32 (no destructor)", "single producer thread, any number of outstanding reservations up to BUFFER_SIZE"]
    def suites(self, tier, rng):
        n = 300 if tier == "quick" else 5000
        F10 = resgen.mk_case(8, 4294967295, [[("res", [0, 100]), ("cres", [0]), ("pub", [900])]], [0] * 30, {"profile": "corpus"})
        return [Suite("sequential", resgen.HEADER, [F10] + [resgen.gen_history(rng, False) for _ in range(n)]),
                Suite("concurrent", resgen.HEADER, [resgen.gen_history(rng, True) for _ in range(n)]),
                # the channel wrappers: reserve_slot / try_send_reserved / try_cancel_slot_reserve of the movable atomic Uni channel in lock-step
                # (Chan/ChanX.v), of the two zero-copy Uni channels through the same scheduler (oracle only)
                Suite("uni_move_atomic_entry_points", unigen.XHEADER, [unigen.gen_entry_case(rng, "move_atomic", async_ok=False) for _ in range(n // 2)]),
                Suite("uni_zc_atomic(oracle only)", unigen.HEADER, [unigen.gen_entry_case(rng, "zc_atomic", async_ok=False) for _ in range(n // 3)], compare=False),
                Suite("uni_zc_full_sync(oracle only)", unigen.HEADER, [unigen.gen_entry_case(rng, "zc_full_sync", async_ok=False) for _ in range(n // 3)], compare=False),
                # the Multi kinds that implement reservations (ogre_arc atomic / full-sync), sequential histories with 0..2 listeners
                Suite("multi_ogre_arc_atomic(oracle only)", "", [multigen.gen_multi_reserve(rng, "ogre_arc_atomic") for _ in range(n // 4)], compare=False),
                Suite("multi_ogre_arc_full_sync(oracle only)", "", [multigen.gen_multi_reserve(rng, "ogre_arc_full_sync") for _ in range(n // 4)], compare=False)]
    def oracle(self, case, recs):
        if case.meta.get("profile") == "reserve": return multigen.oracle_multi_reserve(case, recs)
        if "chan" in case.meta: return unigen.uni_oracle_exactly_once(case, recs) + unigen.uni_oracle_no_leak(case, recs)
        return resgen.oracle(case, recs)
    def nontrivial(self, case, recs):
        if "chan" in case.meta: return any(r[0] == "ret" and r[2] == 27 for r in recs) and any(r[0] == "ret" and r[2] in (24, 13) for r in recs)
        return resgen.nontrivial(case, recs)
    def parse_replay(self, text):
        lines = [l for l in text.splitlines() if l.strip() and not l.startswith("#")]
        cases = [unigen.parse_case_line(l) if l.startswith("uni ") else multigen.parse_case_line(l) if l.startswith("multi ") else resgen.parse_case_line(l) for l in lines]
        for c in cases:
            if c.line.startswith("multi "): c.meta["profile"] = "reserve"
        for c in cases:
            if "chan" not in c.meta: c.meta["profile"] = "sequential" if len(c.meta["progs"]) == 1 else "concurrent"
        return Suite("replay", unigen.XHEADER + "\n" + resgen.HEADER, cases, compare=all(c.coq is not None for c in cases))
