from ..driver import Prop, Suite
from .. import ringgen, unigen

class C16(Prop):
    pid = "C16"; prop_file = ["C16.v", "C13Z.v"]
    rule = ("cases: fill-beyond-capacity / drain cycles and several producers retrying against one consumer on both raw rings (N in {2,4,8}) and both movable Uni channels; "
            "non-trivial = context switch inside a reserve->publish / reserve->release window AND at least one full or empty answer; oracles: justified-full (exactly N can be outstanding), "
            "rejected value never yielded, rejected send = 3 own accesses + 2 per lost recede race, no reservation left at quiescence")
    trusted_base = ["'promptly' is read as: a bounded number of the caller's own steps, never waiting for a consumer, for room or for time (the ring is lock-free, not wait-free: a recede race lost to another producer costs 2 more steps)",
                    "modelled, not verified here: crossbeam and zero-copy Uni channels, ogre_arc Multi channels (their free-list / ring components are covered by C13 / C01)"]
    assumptions = ["payload u32"]
    def suites(self, tier, rng):
        n = 150 if tier == "quick" else 2500
        prof = lambda j: "cycles" if j % 2 == 0 else "contend_full"
        return [Suite("ring", ringgen.HEADER, [ringgen.gen_case(rng, profile=prof(j)) for j in range(n)]),
                Suite("fsring", ringgen.HEADER, [ringgen.gen_case(rng, profile=prof(j), kind="fsring") for j in range(n)]),
                Suite("uni_move_atomic", unigen.HEADER, [unigen.gen_case(rng, "move_atomic", Ns=(2,), profile="drive") for _ in range(n // 2)]),
                Suite("uni_move_full_sync", unigen.HEADER, [unigen.gen_case(rng, "move_full_sync", Ns=(2,), profile="drive") for _ in range(n // 2)])
                ] + unigen.oracle_only_suites(rng, n // 2, profile="drive", Ns=(2,)) + [
                Suite("starved_%s(oracle only)" % ch, unigen.HEADER, [unigen.gen_starve_case(rng, ch) for _ in range(max(6, n // 25))], compare=False)
                for ch in ("zc_full_sync", "zc_atomic")]
    def oracle(self, case, recs):
        if "chan" in case.meta: return unigen.uni_oracle_exactly_once(case, recs) + unigen.uni_oracle_justified_full(case, recs) + unigen.uni_oracle_prompt_alloc(case, recs) + unigen.uni_oracle_probe(case, recs)
        hits = ringgen.oracle_exactly_once(case, recs) + ringgen.oracle_reject_neutral(case, recs)
        hits += [(cls, t) for cls, t in ringgen.oracle_fifo_bounds(case, recs) if "rejected as full" in t or "more than N" in t]
        return hits
    def nontrivial(self, case, recs):
        if "chan" in case.meta: return unigen.uni_nontrivial(case, recs)
        return ringgen.nontrivial_window(case, recs)
    def parse_replay(self, text):
        lines = [l for l in text.splitlines() if l.strip() and not l.startswith("#")]
        cases = [unigen.parse_case_line(l) if l.startswith("uni ") else ringgen.parse_case_line(l) for l in lines]
        return Suite("replay", unigen.XHEADER + "\n" + ringgen.HEADER, cases)
