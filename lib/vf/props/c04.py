from ..driver import Prop, Suite
from .. import unigen, multigen

F1 = "uni chan=move_atomic N=8 M=1 k=1 origin=0 ; drive:0 ; send:100 ; send:101 ; send:102 ; S 0 0 0 0 0 0 0 0 0 1 1 2 2 3 3 1 1 1 1 0 0 0 0 0 0 0 0 0 0 0 0 2 2 2 2 0 0 0 0 0 0 0 0 0 0 0 0 3 3 3 3 3 3 0 0 0 1 2 3 0 1 2 3 0 1 2 3 0"
F13 = "uni chan=move_atomic N=8 M=2 k=2 origin=0 ; drive:0 ; drive:1 ; send:7 ; S 1 1 1 1 1 1 1 1 1 1 1 1 0 0 0 0 0 0 0 0 0 0 0 0 0 0 0 2 2 2 2 2 2 0 0 0 0 0 0 1 1 1 0 1 2 0 1 2 0 1 2"

F15 = "uni chan=move_atomic N=8 M=1 k=1 origin=0 ; drive:0 ; send:1 send:2 send:3 ; S 1 1 1 1 1 1 1 1 1 1 1 1 1 1 1 1 1 1 0 0 0 0 0 0 0 0 0 0 0 0 0 0 0 0 0 0 0 0 0 0 0 0 0 0 0 0 0 0 0 0 0 0 0 0 0 0 0 0 1 1 1 1 0 0 0 0 0 0 0 1 0 1 0 1"

F17 = "uni chan=crossbeam N=4 M=1 k=1 origin=0 ; send:1 send:2 send:3 send:4 ; drive:0 ; S " + "0 " * 19 + "1 " * 40 + "0 " * 6 + "1 " * 6 + "0 1 " * 6

F19 = "multi chan=arc_atomic N=8 M=1 k=1 ; send:1000 ; send:2000 ; send:3000 ; drive:0 ; S " + "2 " * 17 + "3 3 " + "1 " * 14 + "0 0 0 " + "3 " * 24 + "0 1 2 3 " * 14
MULTI_KINDS = ("arc_atomic", "arc_full_sync", "arc_crossbeam", "ogre_arc_atomic", "ogre_arc_full_sync", "mmap_log")

class C04(Prop):
    pid = "C04"; prop_file = ["C04.v", "C04W.v", "C04Z.v", "C04M.v"]
    rule = ("entry points: send, send_with, send_with_async (ready setter), reserve_slot + try_send_reserved / try_cancel_slot_reserve (movable atomic channel; the movable "
            "full-sync channel does not implement reservations); cases: 1-3 producers (send / send_with, 1-4 events each) against 1..MAX_STREAMS executor-driven streams (MAX_STREAMS in {1,2}) on the movable atomic and movable "
            "full-sync Uni channels, random bursty schedule then 60 round-robin rounds to quiescence; non-trivial = a context switch inside another thread's operation AND a Pending answer; "
            "the lost-wake-up oracle looks at the quiescent end of each implementation trace")
    trusted_base = ["task semantics of the harness executor: a stream is polled, parks on Pending, is re-polled once its waker was invoked (wake and the parked look at `notified` are scheduling points) - the documented Waker contract, not tokio itself",
                    "modelled, not verified here: crossbeam / zero-copy Uni channels and the Multi channels (wake rules differ); a send_with_async whose setter suspends (C20)"]
    assumptions = ["each stream is driven by exactly one task (which may hand it a different waker at some polls: 'waker_switch' suites, oracle only - the model and the theorem take one waker per stream)", "no stream is dropped during the run"]
    def suites(self, tier, rng):
        n = 150 if tier == "quick" else 3000
        at = [unigen.parse_case_line(F1), unigen.parse_case_line(F13), unigen.parse_case_line(F15)] + [unigen.gen_case(rng, "move_atomic", profile="drive", tail_rounds=60) for _ in range(n)]
        fs = [unigen.gen_case(rng, "move_full_sync", profile="drive", tail_rounds=60) for _ in range(n)]
        F2 = "uni chan=move_atomic N=4 M=2 k=1 origin=0 ; res:0:100 sres:0 ; drive:0 ; S " + "1 " * 14 + "0 " * 12 + "0 1 " * 30
        en = [unigen.parse_case_line(F2)] + [unigen.gen_entry_case(rng, "move_atomic") for _ in range(n)]
        fa = [unigen.gen_entry_case(rng, "move_full_sync", reserve_ok=False) for _ in range(n // 3)]
        return [Suite("uni_move_full_sync", unigen.HEADER, fs), Suite("uni_move_atomic", unigen.HEADER, at),
                Suite("uni_move_atomic_entry_points", unigen.XHEADER, en), Suite("uni_move_full_sync_async", unigen.HEADER, fa),
                Suite("uni_crossbeam_known_finding", unigen.XHEADER, [unigen.parse_case_line(F17.strip())]),
                # the six Multi kinds with task-driven listeners (arc/atomic and arc/full_sync in lock-step with Multi.v / MultiFS.v, the others oracle only)
                ] + [Suite("multi_" + kind, multigen.HEADER, ([multigen.parse_case_line(F19.strip())] if kind == "arc_atomic" else []) + [multigen.gen_wake(rng, kind) for _ in range(n // 3)])
                     for kind in MULTI_KINDS] + [
                ] + unigen.oracle_only_suites(rng, n // 3, profile="drive", tail_rounds=60) + [
                # the executor passes a different waker at some polls: movable kinds in lock-step with the machine of Chan/ChanW.v, the others oracle only
                Suite("waker_switch_%s" % ch, unigen.XHEADER, [unigen.gen_waker_switch_case(rng, ch) for _ in range(n // 6)])
                for ch in ("move_full_sync", "move_atomic", "zc_atomic", "zc_full_sync", "crossbeam")]
    def oracle(self, case, recs):
        if case.line.startswith("multi"): return multigen.oracle_lost_wakeup(case, recs)
        return unigen.oracle_lost_wakeup(case, recs)
    def nontrivial(self, case, recs):
        if case.line.startswith("multi"): return any(r[0] == "ret" and r[2] == 13 for r in recs)
        return unigen.uni_nontrivial(case, recs)
    def parse_replay(self, text):
        lines = [l for l in text.splitlines() if l.strip() and not l.startswith("#")]
        if all(l.startswith("multi") for l in lines):
            cases = [multigen.parse_case_line(l) for l in lines]
            for c in cases: c.meta["profile"] = "fixed"
            return Suite("replay", multigen.HEADER, cases)
        return Suite("replay", unigen.XHEADER, [unigen.parse_case_line(l) for l in lines])
