from ..driver import Prop, Suite
from .. import multigen

KINDS = ["arc_full_sync", "arc_crossbeam", "ogre_arc_atomic", "ogre_arc_full_sync"]

class C17(Prop):
    pid = "C17"; prop_file = ["C17.v", "C10FS.v"]
    rule = ("cases: MAX_STREAMS 4, BUFFER_SIZE 8, 2-3 pre-existing listeners of which 1..all exist throughout (each driven as a task or polled by its own thread), 1-2 producers "
            "(1-5 sends), ONE churn thread running 1-4 of {create a listener, drop a listener nobody else polls, poll a listener it created} with every shared access of "
            "create_stream_id / report_stream_dropped / sync_vacant_and_used_streams scheduled against the fan-out loops (sometimes a second thread creating a listener at the same time); "
            "random bursty schedule. arc/atomic in lock-step with the model, the other four non-log kinds oracle-only. At the end of a quiescent run every live stream is drained and "
            "BUFFER_SIZE further sends are attempted. Oracle: a listener that exists throughout gets every accepted event exactly once, in producer order; nobody gets an event twice or "
            "an unsent one; the drained channel accepts BUFFER_SIZE new events. non-trivial = a churn access lands inside a fan-out loop")
    trusted_base = ["one churn thread (plus at most one concurrent creator): the property's quantifier; two concurrent removals are not generated",
                    "vacant_streams.peek_remaining() has no hook of its own: it runs in the same granted step as the streams_lock acquisition, and is modelled so",
                    "the mmap-log Multi kind is not in these suites (C09 covers the log topic)",
                    "'suffix for the added / prefix for the removed listener' is checked as no-repeat + producer order on what those listeners yield, not as gap-freeness"]
    assumptions = ["a listener that other threads poll is never the one being created or removed (the churn thread polls its own creations)"]
    def suites(self, tier, rng):
        n = 250 if tier == "quick" else 4000
        m = 80 if tier == "quick" else 2000
        W1 = multigen.parse_case_line("multi chan=arc_atomic N=8 M=4 k=3 probe=1 ; send:7 ; drops:0 ; S " + " ".join(["0"] * 10 + ["1"] * 20 + ["0"] * 30))
        W2 = multigen.parse_case_line("multi chan=arc_atomic N=8 M=4 k=3 probe=1 ; send:7 ; drops:1 ; S " + " ".join(["0"] * 9 + ["1"] * 10 + ["0"] * 30 + ["1"] * 10))
        for w in (W1, W2): w.meta.update({"profile": "churn", "stayers": [2], "churn_tids": [1]})
        out = [Suite("arc_atomic", multigen.HEADER, [W1, W2] + [multigen.gen_churn(rng, "arc_atomic") for _ in range(n)])]
        W3 = multigen.parse_case_line("multi chan=ogre_arc_full_sync N=8 M=4 k=2 probe=1 ; send:1000 ; poll:1 poll:1 poll:1 poll:1 poll:1 poll:1 ; creates creates ; S 2 0 1 1 1 0 1 1 2 1 1 0 0 0 0 0 0 0 0 1 2 0 2 0 1 1 1 1 1 1 0 2 0 0 0 0 1 1 2 0 1 0 1 1 1 1 0 2 2 2 2 1 1 0 0 0 0 0 0 0 0 1 1 0 2 1 2 0 0 0 1 1 1 1 2 2 1 1 0 0 0 1 0 2 2 2 0 2 2 1 0 0 2 2 2 0 0 2 1 0 2 2 2 2 1 0 0 0 0 1 1 0 0 0 2 2 2 2 " + "0 1 2 " * 70)
        W3.meta.update({"profile": "churn", "stayers": [1], "churn_tids": [2]})
        for kind in KINDS:
            out.append(Suite(kind, multigen.HEADER, ([W3] if kind == "ogre_arc_full_sync" else []) + [multigen.gen_churn(rng, kind) for _ in range(m)]))
        return out
    def oracle(self, case, recs): return multigen.oracle_churn(case, recs)
    def nontrivial(self, case, recs): return multigen.nontrivial_churn(case, recs)
    def parse_replay(self, text):
        lines = [l for l in text.splitlines() if l.strip() and not l.startswith("#")]
        cases = [multigen.parse_case_line(l) for l in lines]
        for c in cases:
            progs = c.meta["progs"]
            cts = [t for t, p in enumerate(progs) if any(n in ("creates", "drops") for n, a in p)]
            polled = {a[0] for t, p in enumerate(progs) if t not in cts for n, a in p if n in ("poll", "drive")}
            c.meta.update({"profile": "churn", "stayers": sorted(polled), "churn_tids": cts})
        return Suite("replay", multigen.HEADER, cases, compare=True)
