from ..driver import Prop, Suite
from .. import avggen

class C19(Prop):
    pid = "C19"; prop_file = "C19.v"
    rule = ("cases: 2-3 threads recording 1-5 measurements each (integers, tiny values, large mixed-sign values, the -1.0 'no timing' sentinel) while another thread probes, random bursty "
            "schedule; the model evaluates the update in Coq's SpecFloat binary32 and must agree bit for bit with the implementation on every load / compare-exchange value; non-trivial = at least one failed compare-exchange")
    trusted_base = ["Coq.Floats.SpecFloat (binary32: prec 24, emax 128) and the bit-level of_bits32 / to_bits32 conversions written here are the executable float semantics; their agreement with Rust's f32 is what the lock-step run checks bit for bit",
                    "the floating-point tolerance clause is not a theorem: the exact-mean theorem is over Q; the binary32 result is compared with the real mean by the oracle (1e-4 * n * max|m|) on every generated sequence - a test"]
    assumptions = ["counts below the documented u32::MAX reset", "finite measurements (no NaN / infinity)"]
    def suites(self, tier, rng):
        n = 300 if tier == "quick" else 5000
        return [Suite("avg", avggen.HEADER, [avggen.gen_case(rng) for _ in range(n)])]
    def oracle(self, case, recs): return avggen.oracle(case, recs)
    def nontrivial(self, case, recs): return avggen.nontrivial(case, recs)
    def parse_replay(self, text):
        lines = [l for l in text.splitlines() if l.strip() and not l.startswith("#")]
        return Suite("replay", avggen.HEADER, [avggen.parse_case_line(l) for l in lines])
