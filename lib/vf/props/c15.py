from ..driver import Prop, Suite, Case
from .. import ringgen, unigen, poolgen, lifegen, core

W = 1 << 32

def origins(rng, N, count):
    base = [W - 1, W - 2, W - N, W - N - 1, W - N + 1, W - 2 * N, W - 3, (1 << 31) - 1, (1 << 31), (1 << 31) - N]
    out = []
    for _ in range(count):
        out.append(rng.choice(base + [W - rng.randint(1, 4 * N + 8), rng.randint(1, 4 * N + 8), rng.randrange(W)]))
    return out

class C15(Prop):
    pid = "C15"; prop_file = "C15.v"
    rule = ("every generated case is run twice on the implementation - sequence counters starting at 0 and starting at an origin drawn from a window around 2^32 / 2^31 "
            "(via the verif sequence_origin hook) - and the two runs must give the same accept/reject results, delivered values, order and reported lengths; the run at the "
            "origin is also compared in lock-step with the u32 model started at that origin. Suites: AtomicMove, FullSyncMove, pool allocator (both free lists), movable atomic / "
            "full-sync Uni channels; plus payload life-cycle histories (destructor-counting payload, teardown with leftovers) on nine channel kinds whose counters start just below 2^32. non-trivial = the counters cross the 2^32 (or 2^31) boundary during the case")
    trusted_base = ["the sequence_origin hook builds the rings with all counters = origin (add-only, cfg verif); a ring that really transported origin events is in the same state up to buffer contents that are never read",
                    "overflow-checked builds: the harness is built with the default dev profile (overflow checks ON) - a panic in any operation shows as a panic record"]
    assumptions = ["N divides 2^32 (BUFFER_SIZE is a power of two, enforced by the code)", "at most T threads are inside an operation at once with N + T <= 2^31"]
    def _pairs(self, rng, gen, n, Ns):
        out = []
        for _ in range(n):
            c0 = gen(rng, 0)
            N = c0.meta["N"]
            o = origins(rng, N, 1)[0]
            out.append((c0, o))
        return out
    def suites(self, tier, rng):
        n = 120 if tier == "quick" else 2000
        suites = []
        def twin(c0, o, remk):
            c1 = remk(c0, o)
            c1.meta["twin"] = c0
            return [c0, c1]
        ring = []; fs = []; pa = []; pf = []; ua = []; uf = []; za = []; zf = []
        for _ in range(n):
            c0 = ringgen.gen_case(rng); o = origins(rng, c0.meta["N"], 1)[0]
            ring += twin(c0, o, lambda c, o: ringgen.mk_case(c.meta["N"], o, c.meta["progs"], c.meta["sched"], {"profile": c.meta.get("profile")}))
            c0 = ringgen.gen_case(rng, kind="fsring"); o = origins(rng, c0.meta["N"], 1)[0]
            fs += twin(c0, o, lambda c, o: ringgen.mk_case(c.meta["N"], o, c.meta["progs"], c.meta["sched"], {"profile": c.meta.get("profile")}, kind="fsring"))
        for _ in range(n // 2):
            c0 = poolgen.gen_case(rng, "atomic"); o = origins(rng, c0.meta["N"], 1)[0]
            pa += twin(c0, o, lambda c, o: poolgen.mk_case("atomic", c.meta["N"], o, c.meta["progs"], c.meta["sched"]))
            c0 = poolgen.gen_case(rng, "fullsync"); o = origins(rng, c0.meta["N"], 1)[0]
            pf += twin(c0, o, lambda c, o: poolgen.mk_case("fullsync", c.meta["N"], o, c.meta["progs"], c.meta["sched"]))
            c0 = unigen.gen_case(rng, "move_atomic"); o = origins(rng, c0.meta["N"], 1)[0]
            ua += twin(c0, o, lambda c, o: unigen.mk_case("move_atomic", c.meta["N"], c.meta["M"], c.meta["k"], o, c.meta["progs"], c.meta["sched"]))
            c0 = unigen.gen_case(rng, "move_full_sync"); o = origins(rng, c0.meta["N"], 1)[0]
            uf += twin(c0, o, lambda c, o: unigen.mk_case("move_full_sync", c.meta["N"], c.meta["M"], c.meta["k"], o, c.meta["progs"], c.meta["sched"]))
            for zkind, acc in (("zc_atomic", za), ("zc_full_sync", zf)):
                if rng.random() < 0.5:
                    c0 = unigen.gen_case(rng, zkind); o = origins(rng, c0.meta["N"], 1)[0]
                    acc += twin(c0, o, lambda c, o, zkind=zkind: unigen.mk_case(zkind, c.meta["N"], c.meta["M"], c.meta["k"], o, c.meta["progs"], c.meta["sched"]))
        # a channel that has transported almost 2^32 events carries droppable payloads across the wrap and is torn down with leftovers:
        # the life-cycle model (Alloc/Lifecycle.v, origin-independent) in lock-step + the ownership oracle of C05
        life = []
        for kind in lifegen.KINDS:
            for _ in range(max(6, n // 8)): life.append(lifegen.gen_history(rng, kind, origin=W - rng.randint(0, 5)))
        return [Suite("life_cycle_across_the_wrap", lifegen.HEADER, life), Suite("ring", ringgen.HEADER, ring), Suite("fsring", ringgen.HEADER, fs), Suite("pool_atomic", poolgen.HEADER, pa),
                Suite("pool_fullsync", poolgen.HEADER, pf), Suite("uni_move_atomic", unigen.HEADER, ua), Suite("uni_move_full_sync", unigen.HEADER, uf),
                Suite("uni_zc_atomic", unigen.XHEADER, za), Suite("uni_zc_full_sync", unigen.XHEADER, zf)]
    def oracle(self, case, recs):
        if case.meta.get("profile") == "life":
            return [(cls, text + " (sequence counters started at %d)" % case.meta["origin"]) for cls, text in lifegen.oracle(case, recs)]
        hits = []
        for r in recs:
            if r[0] == "panic": hits.append((None, "panic (kind %d: 1 = arithmetic overflow) in thread %d at origin %d" % (r[2], r[1], case.meta.get("origin", 0))))
        twin = case.meta.get("twin")
        if twin is not None and twin.impl is not None:
            a = [r for r in core.parse_trace(twin.impl) if r[0] in ("ret", "skip", "panic")]
            b = [r for r in recs if r[0] in ("ret", "skip", "panic")]
            if a != b:
                k = next((i for i, (x, y) in enumerate(zip(a, b)) if x != y), min(len(a), len(b)))
                hits.append((None, "origin %d answers differently from origin 0 at response #%d: %s vs %s" % (case.meta["origin"], k, b[k] if k < len(b) else None, a[k] if k < len(a) else None)))
        return hits
    def nontrivial(self, case, recs):
        if case.meta.get("profile") == "life": return lifegen.nontrivial(case, recs)
        o = case.meta.get("origin", 0)
        if o == 0: return False
        vals = [r[4] for r in recs if r[0] == "acc" and r[3] in (0, 2, 3) and r[2] < 5]
        return bool(vals) and (min(vals) < (1 << 31) <= max(vals) or (max(vals) - min(vals)) > (1 << 31))
    def parse_replay(self, text):
        lines = [l for l in text.splitlines() if l.strip() and not l.startswith("#")]
        cases = []
        for l in lines:
            if l.startswith("uni "): cases.append(unigen.parse_case_line(l))
            elif l.startswith("life "): cases.append(lifegen.parse_case_line(l))
            elif l.startswith("pool "): cases.append(poolgen.parse_case_line(l))
            else: cases.append(ringgen.parse_case_line(l))
        return Suite("replay", unigen.XHEADER + "\n" + ringgen.HEADER + "\n" + poolgen.HEADER + "\n" + lifegen.HEADER, cases)
