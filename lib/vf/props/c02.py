from ..driver import Prop, Suite
from .. import ringgen

F5_WITNESS = "ring N=4 origin=0 ; pub:42 ; cons ; cons ; S 1 1 0 0 0 0 2 2 2 1 1"

class C02(Prop):
    pid = "C02"; prop_file = ["C02.v", "C01Z.v", "C13Z.v"]
    rule = ("cases: as C01 plus contention profiles (several producers against a full ring, several consumers against an empty one); "
            "non-trivial = a context switch inside a reserve->publish or reserve->release window AND at least one full or empty answer")
    trusted_base = ["channel level: a rejection is judged by a sound upper bound of the occupancy at every trace position (every other send / reservation counts from its first access, a slot is free again once the yield - zero-copy kinds: the drop of the handle - is recorded); the crossbeam and zero-copy Uni kinds run without a model (oracle only)",
                    "the oracle's reading of 'full at some instant': N slot ids each taken by an accepted-and-unreceived event or by ANOTHER send in progress (the property's own enumeration)"]
    assumptions = ["payload type u32", "one shared access per grant"]
    def corpus_cases(self):
        return [ringgen.parse_case_line(F5_WITNESS)]
    def suites(self, tier, rng):
        n = 300 if tier == "quick" else 4000
        cases = self.corpus_cases()
        for k in range(n):
            prof = None if k % 2 == 0 else ("contend_full" if k % 4 == 1 else "contend_empty")
            cases.append(ringgen.gen_case(rng, profile=prof))
        fs = [ringgen.gen_case(rng, kind="fsring", profile=(None if j % 2 == 0 else ("contend_full" if j % 4 == 1 else "contend_empty"))) for j in range(n)]
        from .. import unigen
        un = n // 2
        return [Suite("ring", ringgen.HEADER, cases), Suite("fsring", ringgen.HEADER, fs),
                Suite("uni_move_atomic", unigen.HEADER, [unigen.gen_case(rng, "move_atomic") for _ in range(un)] + [unigen.gen_preempt_case(rng, "move_atomic") for _ in range(un // 5)]),
                Suite("uni_move_full_sync", unigen.HEADER, [unigen.gen_case(rng, "move_full_sync") for _ in range(un)] + [unigen.gen_preempt_case(rng, "move_full_sync") for _ in range(un // 5)]),
                Suite("uni_move_atomic_entry_points", unigen.XHEADER, [unigen.gen_entry_case(rng, "move_atomic", Ns=(2, 4)) for _ in range(un)])
                ] + unigen.oracle_only_suites(rng, un, Ns=(2, 2, 4))
    def oracle(self, case, recs):
        if "chan" in case.meta:
            from .. import unigen
            return unigen.uni_oracle_exactly_once(case, recs) + unigen.uni_oracle_justified_full(case, recs)
        hits = ringgen.oracle_exactly_once(case, recs) + ringgen.oracle_fifo_bounds(case, recs)
        if case.meta.get("kind") == "fsring":
            # the full-sync ring has no exception class: its full / empty answers are exact
            hits = [(None, text) for cls, text in hits]
        return hits
    def nontrivial(self, case, recs):
        if "chan" in case.meta:
            from .. import unigen
            return unigen.uni_nontrivial(case, recs)
        return ringgen.nontrivial_window(case, recs)
    def parse_replay(self, text):
        lines = [l for l in text.splitlines() if l.strip() and not l.startswith("#")]
        from .. import unigen
        cases = [unigen.parse_case_line(l) if l.startswith("uni ") else ringgen.parse_case_line(l) for l in lines]
        return Suite("replay", unigen.XHEADER + "\n" + ringgen.HEADER, cases)
