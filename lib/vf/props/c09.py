from ..driver import Prop, Suite
from .. import loggen, execgen, multigen

class C09(Prop):
    pid = "C09"; prop_file = "C09.v"
    rule = ("cases: 1-3 publisher threads (1-4 events each) and 1-3 listener threads, each of which subscribes at a random point of the schedule (new only / old+new split / old+new joined) "
            "and then consumes its subscriber(s), on MMapMeta<u32> over a private temp file; random bursty schedule. non-trivial = a subscription call lands while a publisher holds a position that is not yet visible")
    trusted_base = ["the raw log topic MMapMeta is in lock-step; the MmapLog Multi channel above it (streams manager + wake-all) runs with the oracle only: its old / new pair of "
                    "executors under tokio's paused clock (`log_channel_old_new`) and its listeners under the baton scheduler (`log_channel_listeners`, as in C03)",
                    "mmap / file-system behaviour is outside the model (positions < 2^64, file large enough for the case)"]
    assumptions = ["one consuming thread per subscriber (as with one stream per listener)"]
    def suites(self, tier, rng):
        n = 250 if tier == "quick" else 4000
        return [Suite("log", loggen.HEADER, [loggen.gen_case(rng) for _ in range(n)]),
                # the MmapLog Multi channel above the topic: an old / new pair of executors created after some events were sent - the old
                # stream gets exactly those, the new one exactly the later ones (oracle + field-by-field comparison with MExec.v);
                # and 1-2 listeners polled under the scheduler (oracle only)
                Suite("log_channel_old_new", execgen.HEADER, [execgen.gen_logcase(rng) for _ in range(n // 4)]),
                Suite("log_channel_listeners(oracle only)", "", [multigen.gen_fixed(rng, "mmap_log") for _ in range(n // 5)], compare=False),
                # an old / new pair of streams created WHILE producers are sending: every shared access of the creation is a scheduling point, so
                # sends complete in the middle of it; the two streams must still partition the history at one point (oracle only)
                Suite("log_channel_split_under_sends(oracle only)", "", [multigen.gen_split(rng) for _ in range(n // 3)], compare=False)]
    def oracle(self, case, recs):
        if case.meta.get("profile") == "mlog": return execgen.oracle_mlog(case, recs)
        if any(n == "split" for p in case.meta.get("progs", []) for n, a in p): return multigen.oracle_split(case, recs)
        if case.meta.get("profile") == "fixed": return multigen.oracle_fixed(case, recs)
        return loggen.oracle(case, recs)
    def nontrivial(self, case, recs):
        if case.meta.get("profile") == "mlog": return 0 < case.meta["old"] < len(case.meta["items"])
        if case.meta.get("profile") == "split": return any(r[0] == "ret" and r[2] == 12 for r in recs)
        if case.meta.get("profile") == "fixed": return True
        return loggen.nontrivial(case, recs)
    def parse_replay(self, text):
        lines = [l for l in text.splitlines() if l.strip() and not l.startswith("#")]
        if all(l.startswith("mexec") for l in lines): return Suite("replay", "", [execgen.parse_case_line(l) for l in lines], compare=False)
        if all(l.startswith("multi") for l in lines):
            cs = [multigen.parse_case_line(l) for l in lines]
            for c in cs:
                if not any(n == "split" for p in c.meta.get("progs", []) for n, a in p): c.meta.setdefault("profile", "fixed")
            return Suite("replay", "", cs, compare=False)
        return Suite("replay", loggen.HEADER, [loggen.parse_case_line(l) for l in lines])
