from ..driver import Prop, Suite
from .. import loggen

class C09(Prop):
    pid = "C09"; prop_file = "C09.v"
    rule = ("cases: 1-3 publisher threads (1-4 events each) and 1-3 listener threads, each of which subscribes at a random point of the schedule (new only / old+new split / old+new joined) "
            "and then consumes its subscriber(s), on MMapMeta<u32> over a private temp file; random bursty schedule. non-trivial = a subscription call lands while a publisher holds a position that is not yet visible")
    trusted_base = ["the raw log topic MMapMeta is in lock-step; the MmapLog Multi channel above it (streams manager + wake-all) is not in this suite",
                    "gap-free consecutive delivery per listener and per-producer order are checked by the oracle on every implementation history, not proved (the theorems give: one total order, entitlement bounds, split partition, reference stability)",
                    "mmap / file-system behaviour is outside the model (positions < 2^64, file large enough for the case)"]
    assumptions = ["one consuming thread per subscriber (as with one stream per listener)"]
    def suites(self, tier, rng):
        n = 250 if tier == "quick" else 4000
        return [Suite("log", loggen.HEADER, [loggen.gen_case(rng) for _ in range(n)])]
    def oracle(self, case, recs): return loggen.oracle(case, recs)
    def nontrivial(self, case, recs): return loggen.nontrivial(case, recs)
    def parse_replay(self, text):
        lines = [l for l in text.splitlines() if l.strip() and not l.startswith("#")]
        return Suite("replay", loggen.HEADER, [loggen.parse_case_line(l) for l in lines])
