from ..driver import Prop, Suite
from .. import multigen, unilifegen

KINDS = ["arc_full_sync", "arc_crossbeam", "ogre_arc_atomic", "ogre_arc_full_sync"]

class C10(Prop):
    pid = "C10"; prop_file = ["C10.v", "C10U.v", "C10FS.v"]
    rule = ("cases: sequential histories of create-listener / send / receive-some / drop-listener (with or without unconsumed events) / running_streams_count, 4-14 steps, "
            "MAX_STREAMS in {1,2,4}, BUFFER_SIZE 8; arc/atomic in lock-step with the model (incl. what every live stream still holds at the end), the other four non-log Multi kinds "
            "with the oracle only. Oracle: a stream yields exactly the events accepted during its lifetime, in order, at most once; Pending only when nothing of its lifetime is left; "
            "running_streams_count() = number of live streams; create succeeds whenever fewer than MAX_STREAMS streams live. non-trivial = a stream id was reused")
    trusted_base = ["create_stream_for_new_events / stream drop are single steps of the model (the harness runs them unscheduled); their interleaving with sends is C17's model",
                    "the same create/drop bookkeeping of the Uni channels: sequential histories on the five Uni kinds in lock-step with Chan/UniLife.v (whole calls as steps)",
                    "'all of them if it keeps polling until told to end' is checked at the end of each history by draining every live stream, not by cancel"]
    assumptions = ["'between sends' suites: two threads create / remove listeners at the same time, no send overlaps them (overlapping sends are C17)", "one thread issues the history (the property's quantifier is over histories)"]
    def suites(self, tier, rng):
        n = 250 if tier == "quick" else 4000
        m = 80 if tier == "quick" else 2000
        F8 = multigen.mk_case("arc_atomic", 8, 1, 0, [[("create", []), ("send", [7]), ("drop", [0]), ("create", []), ("poll", [0])]], [0] * 80, {"profile": "history"})
        out = [Suite("arc_atomic", multigen.HEADER, [F8] + [multigen.gen_history(rng, "arc_atomic") for _ in range(n)])]
        for kind in KINDS:
            out.append(Suite(kind, multigen.HEADER, [multigen.gen_history(rng, kind) for _ in range(m)]))
        # listeners added and removed between sends by two threads at once (every shared access of the creations / removals scheduled)
        out.append(Suite("between_sends_arc_atomic", multigen.HEADER, [multigen.gen_phased(rng, "arc_atomic") for _ in range(n // 2)]))
        for kind in KINDS:
            out.append(Suite("between_sends_" + kind, multigen.HEADER, [multigen.gen_phased(rng, kind) for _ in range(m // 2)]))
        out.append(Suite("recycled_id_race(oracle only)", multigen.HEADER, [multigen.gen_recycle_race(rng) for _ in range(n // 3)], compare=False))
        # the same bookkeeping on the Uni channels: create / drop / send / poll / count histories, ids recycled, creations beyond MAX_STREAMS
        F18 = unilifegen.mk_case("move_full_sync", 1, [("create",), ("create",), ("count",), ("drop", 0), ("count",)])
        for kind in unilifegen.KINDS:
            out.append(Suite("uni_streams_" + kind, unilifegen.HEADER, ([F18] if kind == "move_full_sync" else []) + [unilifegen.gen_history(rng, kind) for _ in range(m // 2)]))
        return out
    def oracle(self, case, recs):
        if case.meta.get("profile") == "unilife": return unilifegen.oracle(case, recs)
        if case.meta.get("profile") == "churn":
            # (the 'no payload storage stays occupied' probe belongs to C17's statement, not to this property: it is judged there)
            # a send that overlaps a creation / removal (it can only happen when a creation outlasts its phase of the schedule) is C17's quantifier
            return [(cls, text) for cls, text in multigen.oracle_churn(case, recs)
                    if not text.startswith("after everything live was consumed") and not (cls or "").startswith("C17.")]
        return multigen.oracle_history(case, recs)
    def nontrivial(self, case, recs):
        if case.meta.get("profile") == "unilife": return unilifegen.nontrivial(case, recs)
        if case.meta.get("profile") == "churn":
            iv = multigen.op_intervals(case, recs)
            c = [(a, b) for t in case.meta["churn_tids"] for (op, a, b) in iv.get(t, []) if op[0] in ("creates", "drops")]
            return any(not (b1 < a2 or b2 < a1) for j, (a1, b1) in enumerate(c) for (a2, b2) in c[j+1:])
        return multigen.nontrivial_history(case, recs)
    def parse_replay(self, text):
        lines = [l for l in text.splitlines() if l.strip() and not l.startswith("#")]
        if all(l.startswith("unilife") for l in lines): return Suite("replay", unilifegen.HEADER, [unilifegen.parse_case_line(l) for l in lines])
        cases = [multigen.parse_case_line(l) for l in lines]
        for c in cases:
            progs = c.meta["progs"]
            cts = [t for t, p in enumerate(progs) if any(n in ("creates", "createv", "drops") for n, a in p)]
            if cts:
                c.meta["recycle"] = any(n == "createv" for p in progs for n, a in p)
                polled = {a[0] for t, p in enumerate(progs) if t not in cts for n, a in p if n in ("poll", "drive")}
                c.meta.update({"profile": "churn", "stayers": sorted(polled), "churn_tids": cts})
            else: c.meta["profile"] = "history"
        return Suite("replay", multigen.HEADER, cases, compare=True)
