from ..driver import Prop, Suite
from .. import multigen

KINDS = ["arc_full_sync", "arc_crossbeam", "ogre_arc_atomic", "ogre_arc_full_sync"]

class C10(Prop):
    pid = "C10"; prop_file = "C10.v"
    rule = ("cases: sequential histories of create-listener / send / receive-some / drop-listener (with or without unconsumed events) / running_streams_count, 4-14 steps, "
            "MAX_STREAMS in {1,2,4}, BUFFER_SIZE 8; arc/atomic in lock-step with the model (incl. what every live stream still holds at the end), the other four non-log Multi kinds "
            "with the oracle only. Oracle: a stream yields exactly the events accepted during its lifetime, in order, at most once; Pending only when nothing of its lifetime is left; "
            "running_streams_count() = number of live streams; create succeeds whenever fewer than MAX_STREAMS streams live. non-trivial = a stream id was reused")
    trusted_base = ["create_stream_for_new_events / stream drop are single steps of the model (the harness runs them unscheduled); their interleaving with sends is C17's model",
                    "the same create/drop bookkeeping of the Uni channels is exercised through the Uni suites of C01/C04 (streams created before the run), not by histories",
                    "'all of them if it keeps polling until told to end' is checked at the end of each history by draining every live stream, not by cancel"]
    assumptions = ["one thread issues the history (the property's quantifier is over histories)"]
    def suites(self, tier, rng):
        n = 250 if tier == "quick" else 4000
        m = 80 if tier == "quick" else 2000
        F8 = multigen.mk_case("arc_atomic", 8, 1, 0, [[("create", []), ("send", [7]), ("drop", [0]), ("create", []), ("poll", [0])]], [0] * 80, {"profile": "history"})
        out = [Suite("arc_atomic", multigen.HEADER, [F8] + [multigen.gen_history(rng, "arc_atomic") for _ in range(n)])]
        for kind in KINDS:
            out.append(Suite(kind, "", [multigen.gen_history(rng, kind) for _ in range(m)], compare=False))
        return out
    def oracle(self, case, recs): return multigen.oracle_history(case, recs)
    def nontrivial(self, case, recs): return multigen.nontrivial_history(case, recs)
    def parse_replay(self, text):
        lines = [l for l in text.splitlines() if l.strip() and not l.startswith("#")]
        cases = [multigen.parse_case_line(l) for l in lines]
        for c in cases: c.meta["profile"] = "history"
        return Suite("replay", multigen.HEADER, cases, compare=all(c.meta["chan"] == "arc_atomic" for c in cases))
