from ..driver import Prop, Suite
from .. import execgen

RULE = ("cases: a real Uni (movable full-sync / atomic / crossbeam channel, MAX_STREAMS 1, metrics on) with one of the four executor kinds (futures+fallible, futures, fallible, plain), "
        "concurrency limit 1..%d, futures timeout none / 30 / 50 ms, 0-8 events sent at virtual time 0, each item taking 10-60 ms (tokio::time::sleep under the paused clock) and then "
        "succeeding or failing, close(unbounded) called at 0..305 ms; compared field by field with the model's prediction: outcome counters, error callbacks, maximum number of item futures "
        "in progress, number of events fully processed when close returned, finish time, close callbacks, status found by the callback. Plus the status-cell cases (report_scheduled_to_finish "
        "never / before the start / from inside an item / from the logger when the executor logs that it ended).")
TB = ["tokio 1.x current-thread runtime with the paused clock (tokio test-util) is the time base: 'slow' = tokio::time::sleep, 'timed out' = tokio::time::timeout",
      "futures 0.3 for_each / for_each_concurrent are modelled by their documented polling discipline (source polled only while fewer than `limit` futures are in flight, dropped when it ends)",
      "one stream per Uni (MAX_STREAMS 1); events are all sent before the executor first runs; multi-thread runtimes are not exercised",
      "Multi executors: Multi::close over k listeners is modelled (MExec.v) and compared; flush_and_cancel_executor and the sequential old/new transition of the log channel are judged by oracles only"]

class C11(Prop):
    pid = "C11"; prop_file = "C11.v"
    rule = RULE % 8
    trusted_base = TB; assumptions = ["item durations are multiples of 10 ms, close is called at 0 or 5 mod 10 ms (no ties)"]
    def suites(self, tier, rng):
        n = 250 if tier == "quick" else 4000
        return [Suite("exec", execgen.HEADER, [execgen.gen_case(rng, maxL=8) for _ in range(n)])]
    def oracle(self, case, recs): return execgen.oracle_c11(case, recs)
    def nontrivial(self, case, recs):
        m = case.meta; return m["profile"] == "exec" and len(m["items"]) >= 3 and (m["tau"] > 0 or any(f for d, f in m["items"]))
    def parse_replay(self, text):
        lines = [l for l in text.splitlines() if l.strip() and not l.startswith("#")]
        return Suite("replay", execgen.HEADER, [execgen.parse_case_line(l) for l in lines])
