from ..driver import Prop, Suite
from .. import unigen, multigen

class C07(Prop):
    pid = "C07"; prop_file = ["C07.v", "C04W.v", "C04Z.v"]
    rule = ("cases: producers + 1..MAX_STREAMS executor-driven streams + one thread calling cancel_all_streams at a random point, on the movable atomic and movable full-sync Uni channels; "
            "random bursty schedule then 60 round-robin rounds; non-trivial = a context switch inside another thread's operation AND a Pending answer; oracle: at the quiescent end every driven stream has answered end-of-stream")
    trusted_base = ["task semantics of the harness executor (see C04)", "the theorem is proved for the full-sync instance; for the lock-free-ring instance the same machine is checked by correspondence + oracle only",
                    "gracefully_end_stream / end_all_streams (flush + timed re-wake loops) are outside this model: cancel_all_streams and the per-stream cancel they are built from are inside"]
    assumptions = ["each stream is driven by exactly one task"]
    def suites(self, tier, rng):
        n = 150 if tier == "quick" else 3000
        return [Suite("uni_move_full_sync", unigen.HEADER, [unigen.gen_case(rng, "move_full_sync", profile="cancel", tail_rounds=60) for _ in range(n)]),
                Suite("uni_move_atomic", unigen.HEADER, [unigen.gen_case(rng, "move_atomic", profile="cancel", tail_rounds=60) for _ in range(n)])
                ] + unigen.oracle_only_suites(rng, n // 2, profile="cancel", entry=False, tail_rounds=60) + [
                # 'its stream id becomes reusable once it is dropped; streams that were not targeted keep receiving events': a listener is created on
                # the id of a listener that is being removed at that very moment (streams manager shared by every Uni / Multi kind)
                Suite("recycled_id_race(oracle only)", multigen.HEADER, [multigen.gen_recycle_race(rng) for _ in range(n // 2)], compare=False)]
    def oracle(self, case, recs):
        if case.meta.get("profile") == "churn": return multigen.oracle_churn(case, recs)
        return unigen.oracle_cancel(case, recs) + unigen.uni_oracle_exactly_once(case, recs)
    def nontrivial(self, case, recs):
        if case.meta.get("profile") == "churn": return multigen.nontrivial_churn(case, recs) or True
        return unigen.uni_nontrivial(case, recs)
    def parse_replay(self, text):
        lines = [l for l in text.splitlines() if l.strip() and not l.startswith("#")]
        cases = []
        for l in lines:
            if l.startswith("multi "):
                c = multigen.parse_case_line(l); progs = c.meta["progs"]
                cts = [t for t, p in enumerate(progs) if any(n in ("creates", "createv", "drops") for n, a in p)]
                polled = {a[0] for t, p in enumerate(progs) if t not in cts for n, a in p if n in ("poll", "drive")}
                c.meta.update({"profile": "churn", "stayers": sorted(polled), "churn_tids": cts, "recycle": True}); cases.append(c)
            else: cases.append(unigen.parse_case_line(l))
        return Suite("replay", unigen.XHEADER + "\nFrom RM Require Import Multi.", cases)
