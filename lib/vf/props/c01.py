from ..driver import Prop, Suite
from .. import ringgen, unigen

class C01(Prop):
    pid = "C01"; prop_file = ["C01.v", "C01Z.v"]; design_ref = "DESIGN.md §4 C01"
    rule = ("cases: random programs for 2-5 threads, random bursty schedule then round-robin; suites: raw AtomicMove ring, raw FullSyncMove ring "
            "(publish/consume/length), movable atomic and movable full-sync Uni channels (send/send_with/poll/executor-driven streams/cancel_all/length, "
            "N in {2,4,8}, MAX_STREAMS in {1,2}, 1..MAX_STREAMS streams); non-trivial = a context switch inside another thread's operation AND a full/empty/pending answer; distinct by sha1")
    trusted_base = ["the crossbeam and the two zero-copy Uni channels have no lock-step model yet: they run the same generated programs and schedules through the same scheduler and are judged by the exactly-once oracle only (their ring / pool components are in lock-step under C13 / C18)"]
    assumptions = ["payload type u32 (no destructor)", "threads are OS threads serialised by the baton scheduler: one shared access per grant"]
    def suites(self, tier, rng):
        n = 150 if tier == "quick" else 2500
        return [Suite("ring", ringgen.HEADER, [ringgen.gen_case(rng) for _ in range(n)]),
                Suite("fsring", ringgen.HEADER, [ringgen.gen_case(rng, kind="fsring") for _ in range(n)]),
                Suite("uni_move_atomic", unigen.HEADER, [unigen.gen_case(rng, "move_atomic") for _ in range(n)]),
                Suite("uni_move_full_sync", unigen.HEADER, [unigen.gen_case(rng, "move_full_sync") for _ in range(n)]),
                Suite("uni_move_atomic_entry_points", unigen.XHEADER, [unigen.gen_entry_case(rng, "move_atomic") for _ in range(n)]),
                Suite("uni_move_full_sync_async", unigen.HEADER, [unigen.gen_entry_case(rng, "move_full_sync") for _ in range(n // 3)])
                ] + unigen.oracle_only_suites(rng, n // 3)
    def oracle(self, case, recs):
        if "chan" in case.meta: return unigen.uni_oracle_exactly_once(case, recs)
        return ringgen.oracle_exactly_once(case, recs)
    def nontrivial(self, case, recs):
        if "chan" in case.meta: return unigen.uni_nontrivial(case, recs)
        return ringgen.nontrivial_window(case, recs)
    def parse_replay(self, text):
        lines = [l for l in text.splitlines() if l.strip() and not l.startswith("#")]
        cases = [unigen.parse_case_line(l) if l.startswith("uni ") else ringgen.parse_case_line(l) for l in lines]
        return Suite("replay", unigen.XHEADER + "\n" + ringgen.HEADER, cases)
