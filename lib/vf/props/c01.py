from ..driver import Prop, Suite
from .. import ringgen, unigen

class C01(Prop):
    pid = "C01"; prop_file = ["C01.v", "C01Z.v"]; design_ref = "DESIGN.md §4 C01"
    rule = ("cases: random programs for 2-5 threads, random bursty schedule then round-robin; suites: raw AtomicMove ring, raw FullSyncMove ring "
            "(publish/consume/length), movable atomic and movable full-sync Uni channels (send/send_with/poll/executor-driven streams/cancel_all/length, "
            "N in {2,4,8}, MAX_STREAMS in {1,2}, 1..MAX_STREAMS streams); non-trivial = a context switch inside another thread's operation AND a full/empty/pending answer; distinct by sha1")
    trusted_base = ["the crossbeam and the two zero-copy Uni channels run in lock-step with their own machines (ChanXb.v, ChanZ.v / ChanZX.v); crossbeam's own queue is a library without hooks (one step per call - trusted)",
                    "payload accesses (a setter's write, the stream's read) are not scheduling points: they are exercised free-running by the `uni_stress_dawdling_setter` suite and judged by the oracle only"]
    assumptions = ["payload type u32 (no destructor)", "threads are OS threads serialised by the baton scheduler: one shared access per grant"]
    def suites(self, tier, rng):
        n = 150 if tier == "quick" else 2500
        return [Suite("ring", ringgen.HEADER, [ringgen.gen_case(rng) for _ in range(n)]),
                Suite("fsring", ringgen.HEADER, [ringgen.gen_case(rng, kind="fsring") for _ in range(n)]),
                Suite("uni_move_atomic", unigen.HEADER, [unigen.gen_case(rng, "move_atomic") for _ in range(n)]),
                Suite("uni_move_full_sync", unigen.HEADER, [unigen.gen_case(rng, "move_full_sync") for _ in range(n)]),
                Suite("uni_move_atomic_entry_points", unigen.XHEADER, [unigen.gen_entry_case(rng, "move_atomic") for _ in range(n)]),
                Suite("uni_move_full_sync_async", unigen.HEADER, [unigen.gen_entry_case(rng, "move_full_sync") for _ in range(n // 3)])
                ] + unigen.oracle_only_suites(rng, n // 3) + [
                # payload accesses (the setter's write into the lent slot, the stream's read) are not scheduling points of the lock-step runs:
                # free-running producers whose setters dawdle before writing, one busy-polling consumer, all five kinds (oracle only)
                Suite("uni_stress_dawdling_setter", "", [unigen.gen_unistress(rng, chan) for chan in unigen.UNI_KINDS for _ in range(max(3, n // 50))], compare=False)]
    def oracle(self, case, recs):
        if case.meta.get("profile") == "unistress": return unigen.oracle_unistress(case, recs)
        if "chan" in case.meta: return unigen.uni_oracle_exactly_once(case, recs)
        return ringgen.oracle_exactly_once(case, recs)
    def nontrivial(self, case, recs):
        if case.meta.get("profile") == "unistress": return case.meta["P"] >= 2
        if "chan" in case.meta: return unigen.uni_nontrivial(case, recs)
        return ringgen.nontrivial_window(case, recs)
    def parse_replay(self, text):
        lines = [l for l in text.splitlines() if l.strip() and not l.startswith("#")]
        cases = [unigen.parse_unistress_line(l) if l.startswith("unistress ") else unigen.parse_case_line(l) if l.startswith("uni ") else ringgen.parse_case_line(l) for l in lines]
        return Suite("replay", unigen.XHEADER + "\n" + ringgen.HEADER, cases)
