from ..driver import Prop, Suite
from .. import ringgen

class C01(Prop):
    pid = "C01"; prop_file = "C01.v"; design_ref = "DESIGN.md §4 C01"
    rule = ("cases: random programs (publish/consume/length) for 2-4 threads on AtomicMove<u32,N>, N in {2,4,8}, random bursty schedule then round-robin to completion; "
            "non-trivial = a context switch inside a reserve->publish or reserve->release window AND at least one full or empty answer; distinct by sha1 of the case line")
    trusted_base = ["modelled, not verified: the Uni channel glue above the ring is covered only as far as the suites listed in this evidence reach it"]
    assumptions = ["payload type u32 (no destructor)", "threads are OS threads serialised by the baton scheduler: one shared access per grant"]
    def suites(self, tier, rng):
        n = 300 if tier == "quick" else 4000
        return [Suite("ring", ringgen.HEADER, [ringgen.gen_case(rng) for _ in range(n)])]
    def oracle(self, case, recs):
        return ringgen.oracle_exactly_once(case, recs)
    def nontrivial(self, case, recs):
        return ringgen.nontrivial_window(case, recs)
    def parse_replay(self, text):
        lines = [l for l in text.splitlines() if l.strip() and not l.startswith("#")]
        return Suite("replay", ringgen.HEADER, [ringgen.parse_case_line(l) for l in lines])
