from ..driver import Prop, Suite
from .. import multigen

KINDS = ["arc_full_sync", "arc_crossbeam", "ogre_arc_atomic", "ogre_arc_full_sync", "mmap_log"]

class C03(Prop):
    pid = "C03"; prop_file = "C03.v"
    rule = ("cases: a fixed set of k in 1..MAX_STREAMS listeners (MAX_STREAMS in {1,2,4}; each listener a task-driven stream or a series of single polls), 1-3 producers sending fewer "
            "events than the buffer holds (N in {4,8}), random bursty schedule switching inside the fan-out loops; arc/atomic in lock-step with the model (every shared access of the "
            "fan-out loop, the rings and the streams manager, every result, and at the end what every stream still yields); arc/full_sync, arc/crossbeam, ogre_arc/atomic and "
            "ogre_arc/full_sync under the same scheduler with the oracle only. Oracle on every implementation history: per listener no duplicate, nothing unsent, each producer's events "
            "in order; when the run ends with no operation in progress, yielded + still queued = every accepted event, per listener; every event seen at ONE address by all listeners. "
            "A second family ('setup'): 2-3 threads each create a listener concurrently (every shared access of create_stream_id scheduled) and poll it while a producer sends; "
            "everything accepted after the last creation returned must reach every listener. "
            "non-trivial = at least 2 listeners and a context switch inside a fan-out loop (setup: two creations overlap)")
    trusted_base = ["arc/atomic is the modelled kind; the other four non-log kinds run the same generated cases through the same scheduler hooks but are judged by the oracle only (no lock-step model)",
                    "the mmap-log Multi channel runs here through the same scheduler, oracle only (its log topic is in lock-step under C09)",
                    "completeness ('every accepted event reaches every listener') is checked on every implementation history at quiescence, the theorems give per-listener at-most-once / order / nothing invented for every schedule",
                    "send / send_with entry points; send_with_async, send_derived and reserve+try_send_reserved are not driven"]
    assumptions = ["the set of listeners does not change during a case (C10 covers changes)", "fewer events than BUFFER_SIZE per case, payload u32"]
    def suites(self, tier, rng):
        n = 200 if tier == "quick" else 3000
        m = 60 if tier == "quick" else 1500
        out = [Suite("arc_atomic", multigen.HEADER, [multigen.gen_fixed(rng, "arc_atomic") for _ in range(n)])]
        for kind in KINDS:
            out.append(Suite(kind, multigen.HEADER, [multigen.gen_fixed(rng, kind) for _ in range(m)]))      # (lock-step where the kind has a model: arc/full_sync)
        # listeners set up concurrently by several threads (every access of the creations scheduled), then steady state
        out.append(Suite("setup_arc_atomic", multigen.HEADER, [multigen.gen_setup(rng, "arc_atomic") for _ in range(n // 2)]))
        for kind in KINDS:
            out.append(Suite("setup_" + kind, multigen.HEADER, [multigen.gen_setup(rng, kind) for _ in range(m // 2)]))
        return out
    def oracle(self, case, recs):
        return multigen.oracle_setup(case, recs) if case.meta.get("profile") == "setup" else multigen.oracle_fixed(case, recs)
    def nontrivial(self, case, recs):
        return multigen.nontrivial_setup(case, recs) if case.meta.get("profile") == "setup" else multigen.nontrivial_fixed(case, recs)
    def parse_replay(self, text):
        lines = [l for l in text.splitlines() if l.strip() and not l.startswith("#")]
        cases = [multigen.parse_case_line(l) for l in lines]
        for c in cases:
            if any(n == "creates" for p in c.meta["progs"] for n, a in p):
                c.meta["profile"] = "setup"; c.meta["creators"] = [t for t, p in enumerate(c.meta["progs"]) if p and p[0][0] == "creates"]
        return Suite("replay", multigen.HEADER, cases, compare=True)
