from ..driver import Prop, Suite
from .. import execgen
from .c11 import RULE, TB

class C12(Prop):
    pid = "C12"; prop_file = "C12.v"
    rule = RULE % 4
    trusted_base = TB + ["the 'after the stream ended, before the callback' window is hit deterministically through the log::Log hook (the executor logs between register_execution_finish and the callback); "
                         "in production the same window is open to any other thread calling report_scheduled_to_finish()"]
    assumptions = ["the executor workloads use MAX_STREAMS 1; the latch cases use Unis with 1, 2 and 4 executors (limit 2, events of 10-30 ms)"]
    def suites(self, tier, rng):
        n = 150 if tier == "quick" else 3000
        st = [execgen.mk_status(s, rng.randint(1, 5)) for s in execgen.SCHEDS for _ in range(2 if tier == "quick" else 20)]
        la = [execgen.mk_latch(rng.choice([1, 2, 4]), rng.randint(0, 9), rng.choice([0, 5, 15, 105])) for _ in range(30 if tier == "quick" else 600)]
        return [Suite("status", execgen.HEADER, st), Suite("latch", execgen.HEADER, la), Suite("exec", execgen.HEADER, [execgen.gen_case(rng, maxL=4) for _ in range(n)]),
                # Multi executors: 1-4 listeners, one of them removed individually (flush_and_cancel_executor) between two batches of events,
                # the others ended all at once by Multi::close (five non-log Multi kinds; judged by the oracle, and - the cases without
                # an individual removal - compared field by field with MExec.v: one callback per executor, after its last item, status StreamEnded)
                Suite("multi_executors", execgen.HEADER, [execgen.gen_mcase_removal(rng) for _ in range(n // 2)]),
                # the log channel's old / new pair of executors, sequential_transition on and off: compared field by field with MExec.v
                # (events per stream, last old end / first new start in virtual ms, callbacks) and judged by the oracle
                Suite("log_old_new_executors", execgen.HEADER, [execgen.gen_logcase(rng) for _ in range(n // 3)])]
    def oracle(self, case, recs):
        if case.meta.get("profile") == "mexec": return execgen.oracle_mexec_c12(case, recs)
        if case.meta.get("profile") == "mlog": return execgen.oracle_mlog(case, recs)
        return execgen.oracle_c12(case, recs)
    def nontrivial(self, case, recs):
        m = case.meta
        if m["profile"] == "mexec": return m["k"] >= 2 and m.get("cancel", -1) >= 0
        if m["profile"] == "mlog": return 0 < m["old"] < len(m["items"])
        return (m["profile"] == "status" and m["sched"] != "never") or (m["profile"] == "latch" and m["M"] > 1) or (m["profile"] == "exec" and len(m["items"]) >= 2)
    def parse_replay(self, text):
        lines = [l for l in text.splitlines() if l.strip() and not l.startswith("#")]
        return Suite("replay", execgen.HEADER, [execgen.parse_case_line(l) for l in lines])
