from ..driver import Prop, Suite
from .. import suspgen

class C20(Prop):
    pid = "C20"; prop_file = "C20.v"
    rule = ("ring level, lock-step against the existing ring / full-sync ring models: thread 0 starts a publish and is granted exactly the steps that take it to the point where "
            "send_with_async awaits its setter (lock-free ring: slot reserved, before the slot write; full-sync ring: flag taken), then is not scheduled during a window in which 1-3 "
            "other threads run sends / polls / length queries (random schedule, then 30 round-robin rounds), then (60%) resumes; an operation still in progress when the window closes "
            "is blocked. Channel level, free-running on real threads (oracle only), all ten in-memory kinds: the real send_with_async with a setter that waits for a flag is polled once, "
            "then another thread sends 1-3 events, a third polls the stream, a fourth asks the length, each with a 1.5 s deadline; then the send is resumed (or not) and deliveries are "
            "collected. non-trivial = thread 0 holds its reservation during the window and others operate meanwhile")
    trusted_base = ["the channel-level suites run unscheduled with wall-clock deadlines (1.5 s to call an operation blocked); only 'blocked' verdicts depend on time",
                    "ring-level suspension = not scheduling the thread at the hook before the slot write (lock-free ring) / after taking the flag (full-sync ring): exactly where send_with_async awaits",
                    "mmap-log kind and two simultaneous suspended sends are not generated"]
    assumptions = ["payload u32", "one suspended send per case"]
    def suites(self, tier, rng):
        n = 200 if tier == "quick" else 3000
        reps = 1 if tier == "quick" else 4
        out = [Suite("ring_parked", suspgen.HEADER, [suspgen.gen_parked(rng, "ring") for _ in range(n)]),
               Suite("fsring_parked", suspgen.HEADER, [suspgen.gen_parked(rng, "fsring") for _ in range(n)])]
        cases = []
        for _ in range(reps):
            for chan in suspgen.KINDS:
                cases.append(suspgen.mk_async(chan, rng.randint(1, 3), 1))
                if rng.random() < 0.3: cases.append(suspgen.mk_async(chan, rng.randint(1, 3), 0))
            # the consumer as a real task (parks on Pending, re-polled only when woken), with 0..2 events already buffered when the
            # asynchronous send starts: 'when the suspended send finally completes, its event is delivered as well' then needs the
            # channel's wake-up.  Only on the full-sync kinds (C04: no lost wake-up there for every schedule).
            for chan in ("uni_zero_copy_full_sync", "multi_arc_full_sync", "multi_ogre_arc_full_sync"):
                for pre in (0, 1, 2): cases.append(suspgen.mk_async(chan, rng.randint(0, 2), 1, parked=1, pre=pre))
        out.append(Suite("channels_async", "", cases, compare=False))
        # producer and consumer on ONE thread of control: the resumed send finds the buffer full and must yield the thread
        out.append(Suite("channels_async_same_thread", "", [suspgen.mk_same_thread(ch) for ch in suspgen.SAME_THREAD_KINDS for _ in range(reps)], compare=False))
        return out
    def oracle(self, case, recs):
        if case.meta.get("profile") == "async_same": return suspgen.oracle_same_thread(case, recs)
        return suspgen.oracle_async(case, recs) if case.meta.get("profile") == "async" else suspgen.oracle_parked(case, recs)
    def nontrivial(self, case, recs):
        return True if case.meta.get("profile") in ("async", "async_same") else suspgen.nontrivial_parked(case, recs)
    def parse_replay(self, text):
        lines = [l for l in text.splitlines() if l.strip() and not l.startswith("#")]
        cases = [suspgen.parse_async_line(l) if l.startswith("async") else suspgen.parse_case_line(l) for l in lines]
        return Suite("replay", suspgen.HEADER, cases, compare=not any(c.meta.get("profile") in ("async", "async_same") for c in cases))
