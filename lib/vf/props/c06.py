from ..driver import Prop, Suite
from .. import execgen
from .c11 import RULE, TB

class C06(Prop):
    pid = "C06"; prop_file = "C06.v"
    rule = RULE % 4
    trusted_base = TB + ["'fully processed' = the item's future completed, failed or was cancelled by its timeout"]
    assumptions = ["item durations are multiples of 10 ms, close is called at 0 or 5 mod 10 ms (no ties)"]
    def suites(self, tier, rng):
        n = 250 if tier == "quick" else 4000
        F7 = execgen.mk_case("fn", "full_sync", 4, 0, 0, [(200, False), (200, False)])
        return [Suite("exec", execgen.HEADER, [F7] + [execgen.gen_case(rng, maxL=4) for _ in range(n)]),
                # executor limit 1 with a pipeline that itself reads ahead (`.buffered(R)`): close must still wait for every item (oracle only)
                Suite("read_ahead_pipeline(oracle only)", execgen.HEADER, [execgen.gen_readahead_case(rng) for _ in range(n // 4)], compare=False),
                # the unbounded close after a bounded close that timed out (which cancels the streams) or after cancel_all_streams(): it must
                # still wait for everything buffered / in flight (oracle only; concurrency limit 1)
                Suite("close_again(oracle only)", execgen.HEADER, [execgen.gen_reclose_case(rng) for _ in range(n // 3)], compare=False),
                # Multi::close with 1-4 listeners consuming at different speeds, on the five non-log Multi kinds: compared field by field
                # with MExec.v (k independent executor models, one shared cancellation instant) and judged by the oracle
                Suite("multi_close", execgen.HEADER, [execgen.gen_mcase(rng) for _ in range(n // 2)])]
    def oracle(self, case, recs):
        if case.meta.get("profile") == "mexec": return execgen.oracle_mexec(case, recs)
        return execgen.oracle_c06(case, recs)
    def nontrivial(self, case, recs):
        m = case.meta
        if m["profile"] == "mexec": return m["k"] >= 2 and len(m["items"]) >= 2
        return m["profile"] == "exec" and len(m["items"]) >= 2 and m["kind"] in ("ff", "fn", "fb")
    def parse_replay(self, text):
        lines = [l for l in text.splitlines() if l.strip() and not l.startswith("#")]
        return Suite("replay", execgen.HEADER, [execgen.parse_case_line(l) for l in lines])
