import os
from ..driver import Prop, Suite
from .. import lifegen, core, teardown_gen, poolgen

class C05(Prop):
    pid = "C05"; prop_file = "C05.v"
    rule = ("(1) life-cycle histories, lock-step against the ownership model (Alloc/Lifecycle.v) on nine channel kinds with a destructor-counting payload (heap-owning, so that a destruction "
            "after free or a double destruction is also a memory error): 3-16 of {send, receive into a handle slot, clone a handle (Arc / OgreArc kinds), drop a handle on this or on another "
            "thread}, 1-2 listeners on the Multi kinds, then every handle is released and (80%) the channel is torn down with whatever is still buffered; after EVERY operation the "
            "destructor count of every accepted payload is compared with the model's and judged by the oracle (never twice, never while queued or held, at once when the last owner lets go). "
            "(2) teardown under valgrind memcheck: every kind dropped with 1-3 events buffered (0-1 consumed): any invalid read / write / free is a violation. "
            "(2b) pool allocator with a payload whose destructor is a scheduling point, lock-step (dealloc = destructor, then the id back to the free list), 2-3 threads on an almost exhausted pool: "
            "a slot must not be handed out before the destructor of its previous payload ran. (3) the field order of every channel / queue struct is re-read from /repo's sources on every run (translator lib/vf/teardown_gen.py -> coq/gen/TeardownGen.v) and the theorem "
            "'every struct tears down safely for every number of buffered events' is re-proved against it. non-trivial = a teardown after clones / cross-thread drops, or >= 2 receives")
    trusted_base = ["translator lib/vf/teardown_gen.py (regexes over struct definitions: an owned `OgreAllocatorType` field, an `Arc<OgreAllocatorType>` field, a queue whose element type is OgreArc<..> / OgreUnique<..>) "
                    "and the two facts the teardown model takes from Rust / the crate: fields are dropped in declaration order after Drop::drop; dropping an OgreArc / OgreUnique dereferences its allocator - "
                    "both are exercised by the valgrind suite of this very check",
                    "valgrind 3.19 memcheck as the detector of 'memory touched after it was freed'",
                    "life-cycle histories are sequential (one thread, plus handle drops on a second thread); concurrent clone/drop races on one payload are C14's theorem (OgreArc counting)",
                    "setters initialise the slot without reading it; handles do not outlive their channel (the property's assumptions, enforced by the generator)"]
    assumptions = ["payload = struct with a destructor and a heap allocation", "BUFFER_SIZE 4"]
    def extra_obligations(self):
        gen = os.path.join(core.COQ, "gen", "TeardownGen.v")
        try:
            ss = teardown_gen.emit(gen)
        except Exception as e:
            return [("translator: struct field orders read from /repo/src", False, repr(e))]
        inter = [n for n, ks in ss if any(k == "FQHandles" for _, k in ks)]
        obl = [("translator: %d struct definitions read from /repo/src, %d hold a queue of payload handles (%s)" % (len(ss), len(inter), ", ".join(inter)), len(inter) >= 2,
                "" if len(inter) >= 2 else "the translator no longer finds the ogre_arc channel structs: its patterns need attention")]
        rc, out = core.sh(["timeout", "600", "coqc", "-noglob", "-Q", "theories", "RM", "-Q", "gen", "RMGen", "gen/TeardownGen.v"], cwd=core.COQ)
        okp = rc == 0 and "Closed under the global context" in out
        bad = [n for n, ks in ss if not _ordered([k for _, k in ks])]
        obl.append(("theorem every_struct_tears_down_safely (coq/gen/TeardownGen.v, regenerated from the sources): checked, axioms none", okp,
                    "" if okp else "does not check: %s\nstructs whose owned allocator is declared before a queue of handles (freed first): %s" % (out[-600:], bad)))
        return obl
    def suites(self, tier, rng):
        n = 40 if tier == "quick" else 600
        out = []
        for chan in lifegen.KINDS:
            out.append(Suite("life_" + chan, lifegen.HEADER, [lifegen.gen_history(rng, chan) for _ in range(n)]))
        td = []
        for chan in lifegen.KINDS:
            td.append(lifegen.mk_teardown(chan, rng.randint(1, 3), 0))
            if tier != "quick" or rng.random() < 0.5: td.append(lifegen.mk_teardown(chan, rng.randint(2, 3), 1))
        out.append(Suite("teardown_valgrind", "", td, compare=False, runner=core.run_impl_valgrind))
        # pooled storage: the payload's destructor is a scheduling point, allocations race with releases on an almost exhausted pool
        m = 150 if tier == "quick" else 3000
        for fl in ("atomic", "fullsync"):
            out.append(Suite("pool_destructor_" + fl, poolgen.HEADER, [poolgen.gen_drop_case(rng, fl) for _ in range(m)]))
        # shared pooled payloads (OgreArc) while listeners come and go: a payload released or overwritten while a listener still holds it
        # shows as a crash, a wrong value or a repeat in the churn histories of the ogre_arc Multi kinds (oracle only; C17's known
        # deviations are judged under C17)
        from .. import multigen
        for kind in ("ogre_arc_atomic", "ogre_arc_full_sync"):
            out.append(Suite("ogre_arc_churn_" + kind, "", [multigen.gen_churn(rng, kind) for _ in range(m // 2)], compare=False))
        return out
    def oracle(self, case, recs):
        if case.meta.get("profile") == "churn":
            from .. import multigen
            return [(cls, text) for cls, text in multigen.oracle_churn(case, recs) if not (cls or "").startswith("C17.")]
        if case.meta.get("profile") == "pooldrop": return poolgen.oracle_drop(case, recs)
        return lifegen.oracle(case, recs)
    def nontrivial(self, case, recs):
        if case.meta.get("profile") == "churn":
            from .. import multigen
            return multigen.nontrivial_churn(case, recs)
        if case.meta.get("profile") == "pooldrop": return any(r[0] == "ret" and r[2] == 2 for r in recs)      # the pool ran dry at some point
        return lifegen.nontrivial(case, recs)
    def parse_replay(self, text):
        lines = [l for l in text.splitlines() if l.strip() and not l.startswith("#")]
        if all(l.startswith("teardown") for l in lines):
            return Suite("replay", "", [lifegen.parse_teardown_line(l) for l in lines], compare=False, runner=core.run_impl_valgrind)
        if all(l.startswith("multi") for l in lines):
            from .. import multigen
            cases = [multigen.parse_case_line(l) for l in lines]
            for c in cases:
                progs = c.meta["progs"]
                cts = [t for t, p in enumerate(progs) if any(n in ("creates", "createv", "drops") for n, a in p)]
                polled = {a[0] for t, p in enumerate(progs) if t not in cts for n, a in p if n in ("poll", "drive")}
                c.meta.update({"profile": "churn", "stayers": sorted(polled), "churn_tids": cts})
            return Suite("replay", "", cases, compare=False)
        if all(l.startswith("pool") for l in lines):
            return Suite("replay", poolgen.HEADER, [poolgen.parse_drop_case_line(l) for l in lines])
        return Suite("replay", lifegen.HEADER, [lifegen.parse_case_line(l) for l in lines if l.startswith("life")])

def _ordered(kinds):
    seen = False
    for k in kinds:
        if k == "FAllocOwned": seen = True
        elif k == "FQHandles" and seen: return False
    return True
