from ..driver import Prop, Suite
from .. import poolgen

F5_POOL = "pool fl=atomic N=2 origin=0 ; alloc alloc dealloc ; alloc ; alloc ; S 0 0 0 0 0 0 0 0 0 0 1 1 0 0 0 0 2 2 2 1 1 0 1 2 0 1 2"

class C13(Prop):
    pid = "C13"; prop_file = ["C13.v", "C13P.v", "C01Z.v", "C13Z.v"]
    rule = ("cases: 2-4 threads with alloc / dealloc (by id and by ref; a thread gives back the id it allocated last) programs on OgreArrayPoolAllocator<u32,_,N>, N in {2,4,8}, "
            "both free lists (AtomicMove, FullSyncMove), profiles mixed / exhaust / churn, random bursty schedule; non-trivial = context switch inside another thread's operation AND a failed allocation or an empty-handed dealloc")
    trusted_base = ["client discipline (a thread deallocates only an id it owns) is enforced by the case generator and assumed by the ownership reading of C13_owned_id_not_handed_out_again; it is not formalised as a theorem hypothesis"]
    assumptions = ["payload type u32 (needs_drop = false)"]
    def suites(self, tier, rng):
        n = 200 if tier == "quick" else 3000
        return [Suite("pool_atomic", poolgen.HEADER, [poolgen.parse_case_line(F5_POOL)] + [poolgen.gen_case(rng, "atomic") for _ in range(n)]),
                Suite("pool_fullsync", poolgen.HEADER, [poolgen.gen_case(rng, "fullsync") for _ in range(n)])]
    def oracle(self, case, recs): return poolgen.oracle(case, recs)
    def nontrivial(self, case, recs): return poolgen.nontrivial(case, recs)
    def parse_replay(self, text):
        lines = [l for l in text.splitlines() if l.strip() and not l.startswith("#")]
        return Suite("replay", poolgen.HEADER, [poolgen.parse_case_line(l) for l in lines])
