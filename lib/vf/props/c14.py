from ..driver import Prop, Suite
from .. import arcgen

class C14(Prop):
    pid = "C14"; prop_file = "C14.v"
    rule = ("cases: one pooled value created as an OgreUnique, converted with into_ogre_arc, its handles multiplied with increment_references + raw_copy and distributed over 2-3 threads, "
            "which then clone / drop / read references_count / dereference under a random bursty schedule; half of the cases drop every handle so that the last drop (fence + dealloc on the "
            "full-sync free list) lands on whichever thread comes last. non-trivial = a context switch while another thread is inside a clone or drop")
    trusted_base = ["one pooled value per case (the counter protocol does not involve other values); the pool behind it is the full-sync one (its model is C13's)",
                    "values with destructors: the drop_in_place call inside dealloc_id is outside this model (C05)"]
    assumptions = ["threads only use handles they own (Rust's ownership rules)"]
    def suites(self, tier, rng):
        n = 300 if tier == "quick" else 5000
        return [Suite("arc", arcgen.HEADER, [arcgen.gen_case(rng) for _ in range(n)]),
                # OgreArc is Sync and clone() takes &self: one handle - possibly the sole one - borrowed and cloned by several threads (oracle only)
                Suite("shared_handle(oracle only)", arcgen.HEADER, [arcgen.gen_shared_case(rng) for _ in range(n // 2)], compare=False)]
    def oracle(self, case, recs): return arcgen.oracle(case, recs)
    def nontrivial(self, case, recs): return arcgen.nontrivial(case, recs)
    def parse_replay(self, text):
        lines = [l for l in text.splitlines() if l.strip() and not l.startswith("#")]
        return Suite("replay", arcgen.HEADER, [arcgen.parse_case_line(l) for l in lines])
