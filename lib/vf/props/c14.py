from ..driver import Prop, Suite
from .. import arcgen, poolgen

class C14(Prop):
    pid = "C14"; prop_file = "C14.v"
    rule = ("cases: one pooled value created as an OgreUnique, converted with into_ogre_arc, its handles multiplied with increment_references + raw_copy and distributed over 2-3 threads, "
            "which then clone / drop / read references_count / dereference under a random bursty schedule; half of the cases drop every handle so that the last drop (fence + dealloc on the "
            "full-sync free list) lands on whichever thread comes last. non-trivial = a context switch while another thread is inside a clone or drop")
    trusted_base = ["one pooled value per case (the counter protocol does not involve other values); the pool behind it is the full-sync one (its model is C13's)",
                    "values with destructors: the drop_in_place call inside dealloc_id is outside this model (C05)"]
    assumptions = ["threads only use handles they own (Rust's ownership rules)"]
    def suites(self, tier, rng):
        n = 300 if tier == "quick" else 5000
        return [Suite("arc", arcgen.HEADER, [arcgen.gen_case(rng) for _ in range(n)]),
                # OgreArc is Sync and clone() takes &self: one handle - possibly the sole one - kept alive by the environment, borrowed and
                # cloned by several threads (the model's `perm`; in lock-step)
                Suite("shared_handle", arcgen.HEADER, [arcgen.gen_shared_case(rng) for _ in range(n // 2)]),
                ] + [
                # what the last drop ends in: OgreArrayPoolAllocator::dealloc_id with a payload whose destructor is a scheduling point, allocations
                # racing with releases on an almost exhausted pool - the value must be destroyed BEFORE its slot can be handed out again, or a live
                # handle's value is destroyed under it (lock-step with the pool model, as in C05)
                Suite("last_drop_dealloc_" + fl, poolgen.HEADER, [poolgen.gen_drop_case(rng, fl) for _ in range(n // 3)]) for fl in ("atomic", "fullsync")]
    def oracle(self, case, recs):
        if case.meta.get("profile") == "pooldrop": return poolgen.oracle_drop(case, recs)
        return arcgen.oracle(case, recs)
    def nontrivial(self, case, recs):
        if case.meta.get("profile") == "pooldrop": return any(r[0] == "ret" and r[2] == 2 for r in recs)
        return arcgen.nontrivial(case, recs)
    def parse_replay(self, text):
        lines = [l for l in text.splitlines() if l.strip() and not l.startswith("#")]
        if all(l.startswith("pool") for l in lines): return Suite("replay", poolgen.HEADER, [poolgen.parse_case_line(l) for l in lines])
        return Suite("replay", arcgen.HEADER, [arcgen.parse_case_line(l) for l in lines])
