from ..driver import Prop, Suite
from .. import stackgen, zcqgen

class C18(Prop):
    pid = "C18"; prop_file = "C18.v"
    rule = ("lock-step suites: atomic-flag stack (push/pop/len, 2-4 threads, capacity 2..8) and the two zero-copy NonBlockingQueues (enqueue/dequeue/len) against their models; "
            "free-running multi-core suites (no model, oracle only): parking-lot stack and atomic-flag stack, 2-4 threads x 14 operations started together round by round. "
            "Every history goes through a Wing-Gong linearizability check against the bounded LIFO / FIFO specification. non-trivial = two operations overlap in time AND a full or empty answer occurs")
    trusted_base = ["parking_lot::RawMutex is not instrumented: the parking-lot stack is covered by free-running runs + linearizability oracle only (its critical sections are the atomic-flag stack's)",
                    "queues: 'full' is accepted in the slot-accounting sense of C02 (payload handles held by in-progress operations count); the payload-level FIFO statement is checked by the oracle and by lock-step payload equality, the theorems are at the slot-id level (component projection)"]
    assumptions = ["payload u32 (Copy)"]
    def suites(self, tier, rng):
        n = 150 if tier == "quick" else 2500
        F5 = zcqgen.parse_case_line("zcq impl=atomic N=4 origin=0 ; enq:42 ; deq ; deq ; S 1 1 0 0 0 0 0 0 0 0 2 2 2 1 1 0 1 2 0 1 2")
        return [Suite("stack_atomic", stackgen.HEADER, [stackgen.gen_case(rng, "atomic") for _ in range(n)]),
                Suite("zcq_atomic", zcqgen.HEADER, [F5] + [zcqgen.gen_case(rng, "atomic") for _ in range(n)]),
                Suite("zcq_fullsync", zcqgen.HEADER, [zcqgen.gen_case(rng, "fullsync") for _ in range(n)]),
                Suite("stack_parking_lot_free", "", [stackgen.gen_case(rng, "parking_lot", lockstep=False) for _ in range(n)], compare=False),
                Suite("stack_atomic_free", "", [stackgen.gen_case(rng, "atomic_free", lockstep=False) for _ in range(n)], compare=False),
                # small, frequently full stacks hammered by 4-8 free-running threads: conservation of the pushed elements (oracle only)
                Suite("stack_stress", "", [stackgen.mk_stress(impl, rng.choice([2, 2, 4]), rng.randint(4, 8), 3000, rng.randint(1, 10**6))
                                            for impl in ("atomic_stress", "parking_lot_stress") for _ in range(max(8, n // 15))], compare=False),
                # the zero-copy queues' payload accesses (the plain read / write of a pool slot) are not scheduling points of the lock-step
                # runs: small, mostly full queues hammered by 4 free-running threads, judged by conservation + per-producer FIFO (oracle only)
                Suite("zcq_stress", "", [zcqgen.mk_stress(impl, rng.choice([2, 2, 4]), 4, 20000, rng.randint(1, 10**6))
                                          for impl in ("atomic_stress", "fullsync_stress") for _ in range(max(6, n // 25))], compare=False),
                # the same with 1 KiB payloads whose words all carry the value (an element made visible before - or while - its payload is
                # written shows up as a torn or never-enqueued value), capacities 2-8 (oracle only)
                Suite("zcq_stress_big_payload", "", [zcqgen.mk_stress(impl, rng.choice([2, 4, 8, 8]), 4, 20000, rng.randint(1, 10**6))
                                          for impl in ("atomic_stress_big", "fullsync_stress_big") for _ in range(max(6, n // 25))], compare=False)]
    def oracle(self, case, recs):
        if case.meta.get("profile") == "stress": return zcqgen.oracle_stress(case, recs) if case.line.startswith("zcq") else stackgen.oracle_stress(case, recs)
        if "impl" in case.meta and case.line.startswith("zcq"): return zcqgen.oracle(case, recs)
        return stackgen.oracle(case, recs)
    def nontrivial(self, case, recs):
        if case.meta.get("profile") == "stress": return True
        if case.line.startswith("zcq"): return zcqgen.nontrivial(case, recs)
        return stackgen.nontrivial(case, recs)
    def parse_replay(self, text):
        lines = [l for l in text.splitlines() if l.strip() and not l.startswith("#")]
        cases = [zcqgen.parse_case_line(l) if l.startswith("zcq") else stackgen.parse_case_line(l) for l in lines]
        lock = [c for c in cases if c.meta.get("impl") in ("atomic", "fullsync") and c.meta.get("sched")]
        return Suite("replay", stackgen.HEADER + "\n" + zcqgen.HEADER, cases, compare=(len(lock) == len(cases)))
