"""Cases and oracles for the mmap log topic."""
from .driver import Case, Suite
from .ringgen import random_sched

HEADER = "From RM Require Import Util Log."

def tok(o):
    n, a = o
    return n if not a else n + ":" + ":".join(map(str, a))
def cop(o):
    n, a = o
    return {"pub": "LPub %d" % (a[0] if a else 0), "cons": "LCons %d" % (a[0] if a else 0), "sub_new": "LSubNew %d" % (a[0] if a else 0),
            "sub_split": "LSubSplit %d %d" % (tuple(a[:2]) if len(a) > 1 else (0, 1)), "sub_joined": "LSubJoined %d" % (a[0] if a else 0)}[n]

def mk_case(progs, sched, meta=None):
    line = "log ; " + " ; ".join(" ".join(tok(o) for o in p) for p in progs) + " ; S " + " ".join(map(str, sched))
    coq = "run_log [%s] [%s]%%nat" % ("; ".join("[" + "; ".join(cop(o) for o in p) + "]" for p in progs), "; ".join(map(str, sched)))
    m = dict(progs=progs, sched=sched); m.update(meta or {})
    return Case(line, coq, m)

def parse_case_line(line):
    secs = [s.strip() for s in line.split(";")]
    progs, sched = [], []
    for sec in secs[1:]:
        if sec.startswith("S ") or sec == "S": sched = [int(x) for x in sec[1:].split()]
        else: progs.append([(t.split(":")[0], [int(x) for x in t.split(":")[1:]]) for t in sec.split()])
    return mk_case(progs, sched)

def gen_case(rng):
    npub = rng.randint(1, 3)
    progs = [[("pub", [100 * (t + 1) + j]) for j in range(rng.randint(1, 4))] for t in range(npub)]
    # listeners: each listener thread subscribes (late, at a random point of its program) and then consumes its own subscriber(s)
    nl = rng.randint(1, 3); nxt = 0
    for l in range(nl):
        kind = rng.choice(["sub_new", "sub_split", "sub_joined"])
        if kind == "sub_split":
            i, j = nxt, nxt + 1; nxt += 2
            if rng.random() < 0.5:
                p = [("sub_split", [i, j])] + [("cons", [rng.choice([i, j])]) for _ in range(rng.randint(2, 8))]
            else:
                # drain the old stream to its end (it answers 'nothing' once), then read the new one
                p = [("sub_split", [i, j])] + [("cons", [i])] * 14 + [("cons", [j])] * rng.randint(1, 6)
        else:
            i = nxt; nxt += 1
            p = [(kind, [i])] + [("cons", [i]) for _ in range(rng.randint(1, 6))]
        progs.append(p)
    nthreads = len(progs)
    total = sum(len(p) for p in progs)
    sched = random_sched(rng, nthreads, rng.randint(0, total * 4), burst=rng.choice([0.2, 0.5, 0.8]))
    for _ in range(4 * max(len(p) for p in progs) + 8): sched += list(range(nthreads))
    return mk_case(progs, sched)

def oracle(case, recs):
    """on the implementation history only: one total order for everybody (value at a position is the same for every listener and is the
    publication that got that position); a listener yields consecutive positions without gap or repeat starting at its entitlement;
    an old/new split partitions at one point; a producer's events get increasing positions"""
    hits = []
    progs = case.meta["progs"]; pos = {}
    pubs = {}           # position -> value (from publishers' returns)
    got = {}            # subscriber -> list of (position, value)
    ended = set()       # subscribers that answered 'nothing' at least once
    kinds = {}          # subscriber -> ("new"|"joined"|"old"|"newsplit", partner)
    last_pub_pos = {}
    for r in recs:
        if r[0] != "ret": continue
        t = r[1]; k = pos.get(t, 0); pos[t] = k + 1
        op = progs[t][k] if k < len(progs[t]) else ("?", [])
        if r[2] == 60:
            if r[4] in pubs: hits.append((None, "two publications got position %d" % r[4]))
            pubs[r[4]] = r[3]
            if t in last_pub_pos and r[4] <= last_pub_pos[t]: hits.append((None, "producer %d's events got non-increasing positions" % t))
            last_pub_pos[t] = r[4]
        elif r[2] == 63:
            if op[0] == "sub_split": kinds[op[1][0]] = ("old", op[1][1]); kinds[op[1][1]] = ("newsplit", op[1][0])
            elif op[0] == "sub_new": kinds[op[1][0]] = ("new", None)
            else: kinds[op[1][0]] = ("joined", None)
        elif r[2] == 61:
            got.setdefault(op[1][0], []).append((r[4], r[3]))
        elif r[2] == 62:
            ended.add(r[3])
        elif r[0] == "panic": hits.append((None, "panic"))
    for i, l in got.items():
        ps = [p for p, v in l]
        if ps != list(range(ps[0], ps[0] + len(ps))): hits.append((None, "subscriber %d yielded positions %s: not consecutive" % (i, ps)))
        for p, v in l:
            if p in pubs and pubs[p] != v: hits.append((None, "subscriber %d got %d at position %d where %d was published" % (i, v, p, pubs[p])))
        k = kinds.get(i, ("?", None))[0]
        if k in ("joined", "old") and ps and ps[0] != 0: hits.append((None, "subscriber %d (%s) did not start at position 0 but at %d" % (i, k, ps[0])))
    for i, (k, partner) in kinds.items():
        if k == "old" and i in got and partner in got:
            old = [p for p, v in got[i]]; new = [p for p, v in got[partner]]
            if set(old) & set(new): hits.append((None, "positions %s were yielded by both the old and the new stream of a split" % sorted(set(old) & set(new))))
            if old and new and max(old) + 1 != min(new) and max(old) >= min(new): hits.append((None, "old/new split overlaps"))
        if k == "old" and i in ended and partner in got:
            # the old stream was read to its end: it holds exactly the events before the split point, the new stream starts right there
            old = [p for p, v in got.get(i, [])]; new = [p for p, v in got[partner]]
            if new and min(new) != len(old):
                hits.append((None, "an old/new split lost events: the old stream ended after positions %s and the new stream starts at position %d" % (old, min(new))))
    # same value at the same position for all listeners
    seen = {}
    for i, l in got.items():
        for p, v in l:
            if p in seen and seen[p] != v: hits.append((None, "position %d read as %d by one listener and %d by another" % (p, seen[p], v)))
            seen[p] = v
    return hits

def nontrivial(case, recs):
    """a subscription happened while a publisher held a position that was not yet visible"""
    holding = set(); hit = False
    for r in recs:
        if r[0] == "acc":
            if r[2] == 0 and r[3] == 2: holding.add(r[1])
            if r[2] == 1 and r[3] == 3 and r[6] == 1: holding.discard(r[1])
            if r[2] == 1 and r[3] == 0 and holding and r[1] not in holding: hit = True
    return hit
