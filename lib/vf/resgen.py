"""Cases and oracle for the reserve / send-reserved / cancel API of the lock-free ring (C08)."""
from .driver import Case
from .ringgen import random_sched

HEADER = "From RM Require Import RingModel Reserve."
W32 = 1 << 32

def tok(o):
    n, a = o
    return n if not a else n + ":" + ":".join(map(str, a))
def cop(o):
    n, a = o
    return {"res": lambda: "RoReserve %d %d" % (a[0], a[1]), "sres": lambda: "RoSend %d" % a[0], "cres": lambda: "RoCancel %d" % a[0],
            "pub": lambda: "RoRing (OpPub %d)" % a[0], "cons": lambda: "RoRing OpCons", "len": lambda: "RoRing OpLen"}[n]()

def mk_case(N, origin, progs, sched, meta=None):
    line = "resring N=%d origin=%d ; " % (N, origin) + " ; ".join(" ".join(tok(o) for o in p) for p in progs) + " ; S " + " ".join(map(str, sched))
    coq = "run_reserve32 %d %d [%s] [%s]%%nat" % (N, origin, "; ".join("[" + "; ".join(cop(o) for o in p) + "]" for p in progs), "; ".join(map(str, sched)))
    m = dict(N=N, origin=origin, progs=progs, sched=sched); m.update(meta or {})
    return Case(line, coq, m)

def parse_case_line(line):
    secs = [s.strip() for s in line.split(";")]
    params = dict(kv.split("=") for kv in secs[0].split()[1:])
    progs, sched = [], []
    for sec in secs[1:]:
        if sec.startswith("S ") or sec == "S": sched = [int(x) for x in sec[1:].split()]
        else: progs.append([(t.split(":")[0], [int(x) for x in t.split(":")[1:]]) for t in sec.split()])
    return mk_case(int(params["N"]), int(params["origin"]), progs, sched)

def pick_origin(rng, N):
    r = rng.random()
    if r < 0.3: return 0
    if r < 0.75: return (W32 - rng.randint(0, 3 * N)) % W32          # the counters wrap during the case
    if r < 0.9: return (1 << 31) - rng.randint(0, 2 * N)
    return rng.randrange(W32)

def gen_history(rng, concurrent):
    """one producer thread: reserve / fill+send-reserved / cancel (latest outstanding only) / plain send (only with nothing outstanding) / len;
    consumption by the same thread (sequential profile, ends with drain + BUFFER_SIZE+1 plain sends) or by a second thread (concurrent profile)"""
    N = rng.choice([2, 4, 4, 8]); origin = pick_origin(rng, N)
    prog = []; out = []; k = 0; val = 100; inq = 0
    steps = rng.randint(3, 14)
    for _ in range(steps):
        r = rng.random()
        if r < 0.35 and k < 60:
            prog.append(("res", [k, val])); out.append(k); k += 1; val += 1       # may answer "no slot": later ops on k are then no-ops
        elif r < 0.6 and out:
            j = out[0] if rng.random() < 0.8 else rng.choice(out)                 # mostly the oldest (the one that can go), sometimes not
            prog.append(("sres", [j]))
            if j == out[0]: out.pop(0); inq += 1
        elif r < 0.75 and out:
            prog.append(("cres", [out[-1]])); out.pop()
        elif r < 0.85 and not out:
            prog.append(("pub", [val])); val += 1; inq += 1
        elif r < 0.92:
            prog.append(("len", []))
        elif not concurrent:
            prog.append(("cons", [])); inq = max(0, inq - 1)
    if not concurrent:
        # resolve everything, drain, then the ring must take exactly BUFFER_SIZE plain sends
        while out:
            if rng.random() < 0.5: prog.append(("cres", [out.pop()]))
            else: prog.append(("sres", [out.pop(0)]))
        prog += [("cons", [])] * (N + 1)
        prog += [("pub", [900 + i]) for i in range(N + 1)]
        progs = [prog]
        sched = [0] * (len(prog) * 8 + 10)
        return mk_case(N, origin, progs, sched, {"profile": "sequential"})
    cons = [("cons", [])] * rng.randint(2, 10)
    progs = [prog, cons]
    sched = random_sched(rng, 2, rng.randint(0, (len(prog) + len(cons)) * 6), burst=rng.choice([0.3, 0.6, 0.85]))
    for _ in range(40): sched += [0, 1]
    return mk_case(N, origin, progs, sched, {"profile": "concurrent"})

def oracle(case, recs):
    """C08 on the implementation history: a reservation whose send answered true is delivered exactly once with what was written; one whose
    cancel answered true never is; nothing else is delivered; (sequential profile) afterwards exactly BUFFER_SIZE plain sends are accepted"""
    hits = []
    progs = case.meta["progs"]; N = case.meta["N"]
    val = {}; 
    for p in progs:
        for n, a in p:
            if n == "res": val[a[0]] = a[1]
    granted, sent, cancelled = set(), [], set()
    plain = []; got = []
    for r in recs:
        if r[0] == "panic": hits.append((None, "panic in thread %d (record %r)" % (r[1], r))); continue
        if r[0] != "ret": continue
        c = r[2]
        if c == 20: granted.add(r[3])
        elif c == 22:
            if r[3] not in granted: hits.append((None, "send-reserved of %d answered true without a granted reservation" % r[3]))
            sent.append(r[3])
        elif c == 24:
            if r[3] not in granted: hits.append((None, "cancel of %d answered true without a granted reservation" % r[3]))
            cancelled.add(r[3])
        elif c == 1: plain.append(r[3])
        elif c == 3: got.append(r[3])
    expect = {val[k] for k in sent} | set(plain)
    for v in got:
        if got.count(v) > 1: hits.append((None, "value %d delivered %d times" % (v, got.count(v)))); break
    for v in got:
        if v not in expect:
            ks = [k for k in val if val[k] == v]
            what = "a cancelled reservation" if ks and ks[0] in cancelled else "a reservation that was never sent" if ks else "nothing that was sent"
            hits.append((None, "delivered %d, which belongs to %s" % (v, what)))
    # order: deliveries follow the order in which sends / send-reserveds succeeded
    order = []
    for r in recs:
        if r[0] == "ret" and r[2] == 22: order.append(val[r[3]])
        elif r[0] == "ret" and r[2] == 1: order.append(r[3])
    if got != order[:len(got)] and len(progs) == 1: hits.append((None, "deliveries %s are not a prefix of the accepted sequence %s" % (got, order)))
    if case.meta.get("profile") == "sequential":
        probe = [r for r in recs if r[0] == "ret" and r[2] in (0, 1) and r[3] >= 900]
        if len(probe) == N + 1:
            okc = sum(1 for r in probe if r[2] == 1)
            if okc != N: hits.append((None, "after every reservation was sent or cancelled and everything was consumed the ring accepted %d of %d+1 sends (expected exactly %d)" % (okc, N, N)))
            missing = [v for v in order if v < 900 and v not in got]
            if missing: hits.append((None, "accepted values %s were never delivered although the ring was drained" % missing))
    return hits

def nontrivial(case, recs):
    """a cancel answered true AND a send-reserved answered true in the same history, or the counters wrapped"""
    c22 = any(r[0] == "ret" and r[2] == 22 for r in recs); c24 = any(r[0] == "ret" and r[2] == 24 for r in recs)
    fin = [r for r in recs if r[0] == "final"]
    wrapped = bool(fin) and case.meta["origin"] > (1 << 31) and fin[0][1] and fin[0][1][2] < (1 << 31)
    return (c22 and c24) or wrapped
