"""C06 / C11 / C12: workloads for a Uni + stream executor under tokio's virtual clock, and the status-cell cases."""
from .driver import Case

HEADER = "From Coq Require Import List ZArith. Import ListNotations. From RM Require Import Exec MExec. Open Scope Z_scope."

ERRDELAY = 3      # ms the (awaited) error callback of the futures+fallible executor takes in the harness
def mk_case(kind, chan, L, tau, tclose, items, instr="metrics", R=0, tpre=0, precancel=0):
    line = "exec kind=%s chan=%s L=%d tau=%d tclose=%d instr=%s%s%s%s ; %s ; S" % (kind, chan, L, tau, tclose, instr, " R=%d" % R if R else "",
            " tpre=%d" % tpre if tpre else "", " precancel=1" if precancel else "", " ".join("it:%d:%d" % (d, int(f)) for d, f in items))
    its = "[%s]" % "; ".join("{| dur := %d; fails := %s |}" % (d, "true" if f else "false") for d, f in items)
    met = "false" if instr == "none" else "true"
    coq = ("exec_trace %d %d %d %s %s %d" % (L, tau, ERRDELAY if kind == "ff" else 0, met, its, tclose)) if kind in ("ff", "fn") else ("exec_trace_sync %s %s" % (met, its))
    if kind == "fb": coq = None          # a pipeline that reads ahead of the executor (`.buffered(R)`): no model, judged by the oracle only
    if tpre or precancel: coq = None     # the unbounded close comes after a bounded one / a cancel_all_streams(): oracle only
    return Case(line, coq, dict(profile="exec", kind=kind, chan=chan, L=L, tau=tau, tclose=tclose, items=items, instr=instr, R=R, tpre=tpre, precancel=precancel))

def parse_case_line(line):
    secs = [s.strip() for s in line.split(";")]
    params = dict(kv.split("=") for kv in secs[0].split()[1:])
    if secs[0].startswith("status"): return mk_status(params["sched"], int(params["n"]))
    if secs[0].startswith("latch"): return mk_latch(int(params["M"]), int(params["n"]), int(params["tclose"]))
    if secs[0].startswith("mexec") and params["chan"] == "mmap_log":
        return mk_logcase(int(params.get("seq", 1)), int(params["L"]), int(params.get("old", 0)), int(params["tclose"]), [int(t.split(":")[1]) for t in secs[1].split()])
    if secs[0].startswith("mexec"): return mk_mcase(params["chan"], int(params["k"]), int(params["L"]), int(params["tclose"]), [int(t.split(":")[1]) for t in secs[1].split()],
                                                     cancel=int(params.get("cancel", -1)), tcancel=int(params.get("tcancel", 0)))
    items = [(int(t.split(":")[1]), t.split(":")[2] == "1") for t in secs[1].split()]
    return mk_case(params["kind"], params["chan"], int(params["L"]), int(params["tau"]), int(params["tclose"]), items, params.get("instr", "metrics"), int(params.get("R", 0)),
                   tpre=int(params.get("tpre", 0)), precancel=int(params.get("precancel", 0)))

def gen_case(rng, maxL=4):
    kind = rng.choice(["ff", "ff", "ff", "fn", "nf", "nn"])
    chan = rng.choice(["full_sync", "full_sync", "atomic", "crossbeam"])
    L = rng.randint(1, maxL)
    n = rng.randint(0, 8)
    if kind in ("ff", "fn"):
        tau = rng.choice([0, 0, 30, 50]) if kind == "ff" else 0
        items = [(rng.choice([10, 10, 20, 30, 40, 60]), kind == "ff" and rng.random() < 0.3) for _ in range(n)]
        tclose = rng.choice([0, 0, 5, 15, 25, 45, 105, 305])
    else:
        tau = 0; items = [(0, kind == "nf" and rng.random() < 0.3) for _ in range(n)]; tclose = rng.choice([0, 5])
    return mk_case(kind, chan, L, tau, tclose, items, rng.choice(["metrics", "metrics", "expensive", "counters", "none"]))

def gen_readahead_case(rng):
    """executor concurrency limit 1, but the pipeline itself drives up to R item futures at a time (`.buffered(R)`); close is called while
    some of them are still pending"""
    n = rng.randint(1, 8)
    items = [(rng.choice([10, 20, 30, 40, 60]), False) for _ in range(n)]
    return mk_case("fb", rng.choice(["full_sync", "atomic", "crossbeam"]), 1, 0, rng.choice([0, 0, 5, 15, 25, 45]), items, rng.choice(["metrics", "none"]), R=rng.randint(2, 4))

def gen_reclose_case(rng):
    """the unbounded close is not the first thing that ends the streams: a bounded close that times out with events still buffered / in
    flight (it cancels the streams), or a programmatic cancel_all_streams(), comes first; concurrency limit 1 (C06's positive half)"""
    kind = rng.choice(["ff", "fn", "fn", "nf", "nn"])
    chan = rng.choice(["full_sync", "atomic", "crossbeam"])
    n = rng.randint(1, 8)
    if kind in ("ff", "fn"):
        items = [(rng.choice([10, 20, 30, 40, 60]), kind == "ff" and rng.random() < 0.2) for _ in range(n)]
        tclose = rng.choice([0, 0, 5, 15, 25])
    else:
        items = [(0, kind == "nf" and rng.random() < 0.3) for _ in range(n)]; tclose = rng.choice([0, 5])
    if rng.random() < 0.6: return mk_case(kind, chan, 1, 0, tclose, items, rng.choice(["metrics", "none"]), tpre=rng.choice([2, 7, 13, 27]))
    return mk_case(kind, chan, 1, 0, tclose, items, rng.choice(["metrics", "none"]), precancel=1)

MKINDS = ("arc_atomic", "arc_full_sync", "arc_crossbeam", "ogre_arc_atomic", "ogre_arc_full_sync")
def mk_mcase(chan, k, L, tclose, durs, cancel=-1, tcancel=0):
    """a Multi with k listeners, each with a futures executor of concurrency limit L; listener i takes dur * (i + 1) ms per item; optionally
    listener `cancel` is removed individually (flush_and_cancel_executor) at `tcancel` ms, after the first half of the events (then: oracle only)"""
    line = "mexec chan=%s k=%d L=%d tclose=%d%s ; %s ; S" % (chan, k, L, tclose, " cancel=%d tcancel=%d" % (cancel, tcancel) if cancel >= 0 else "", " ".join("it:%d" % d for d in durs))
    coq = ("mexec_trace %d %d [%s] %d" % (k, L, "; ".join(str(d) for d in durs), tclose)) if cancel < 0 else None   # model: MExec.v (no individual removal)
    return Case(line, coq, dict(profile="mexec", chan=chan, k=k, L=L, tclose=tclose, items=durs, cancel=cancel, tcancel=tcancel))

def gen_mcase_removal(rng):
    k = rng.randint(1, 4)
    return mk_mcase(rng.choice(MKINDS), k, rng.choice([1, 1, 2, 4]), rng.choice([0, 5, 15, 45, 105]), [rng.choice([0, 10, 10, 20, 30]) for _ in range(rng.randint(1, 8))],
                    cancel=rng.randrange(k) if rng.random() < 0.75 else -1, tcancel=rng.choice([0, 5, 15, 35]))

def mk_logcase(seq, L, n_old, tclose, durs):
    """the log (mmap) Multi channel: n_old events are sent, then an old / new pair of executors is spawned (sequential_transition = seq), then
    the remaining events are sent; close at tclose (model: MExec.v mlog_trace)"""
    line = "mexec chan=mmap_log seq=%d L=%d old=%d tclose=%d ; %s ; S" % (seq, L, n_old, tclose, " ".join("it:%d" % d for d in durs))
    coq = "mlog_trace %s %d %d [%s]" % ("true" if seq else "false", L, min(n_old, len(durs)), "; ".join(str(d) for d in durs))   # model: MExec.v
    return Case(line, coq, dict(profile="mlog", seq=seq, L=L, old=min(n_old, len(durs)), tclose=tclose, items=durs))

def gen_logcase(rng):
    durs = [rng.choice([0, 10, 10, 20, 30]) for _ in range(rng.randint(0, 8))]
    return mk_logcase(rng.choice([1, 1, 0]), rng.choice([1, 1, 2, 4]), rng.randint(0, len(durs)), rng.choice([0, 5, 15, 45, 105]), durs)

def oracle_mlog(case, recs):
    """C12 (last clause) and C09 at the Multi level: the old stream processes exactly the events sent before the pair was created, the new
    stream exactly the others - none missing, none in both; with a sequential transition no new event starts before every old one is done;
    each executor's close callback runs once; close answers true"""
    hits = []; m = case.meta
    r = {x[2]: (x[3], x[4]) for x in recs if x[0] == "ret"}
    if 90 not in r: return [(None, "no result")]
    n = len(m["items"]); n_old = m["old"]
    if not r[90][0]: hits.append((None, "Multi::close(unbounded) answered false"))
    if r[94] != (1, 1): hits.append((None, "the old stream processed %d events and the new one %d; %d were sent before the split and %d after it (old exact: %d, new exact: %d)" % (r[91][0], r[91][1], n_old, n - n_old, r[94][0], r[94][1])))
    if r[93] != (1, 1): hits.append((None, "close callbacks: old executor %d, new executor %d" % r[93]))
    if m["seq"] == 1 and n_old > 0 and n > n_old and r[92][1] < r[92][0]:
        hits.append((None, "sequential transition: a new event started at %d ms, the last old event finished at %d ms" % (r[92][1], r[92][0])))
    return hits[:1]

def oracle_mexec_c12(case, recs):
    """C12 on a Multi: every executor's close callback runs exactly once, after the last item of its stream was fully processed (the listener
    removed individually: everything accepted before its removal, nothing sent afterwards), finds an ended status - programmatically ended
    exactly for the executor that was scheduled to finish (removed individually) - and a finish time not before the start time"""
    hits = []; m = case.meta
    rets = [x for x in recs if x[0] == "ret"]
    head = {x[2]: (x[3], x[4]) for x in rets if x[2] in (80, 83)}
    if 80 not in head: return [(None, "no result")]
    accepted = head[83][0]
    per = {c: {x[3]: x[4] for x in rets if x[2] == c} for c in (82, 84, 85, 86, 87, 88)}
    for i in range(m["k"]):
        owed = per[88].get(i, -1) if m.get("cancel", -1) == i else accepted
        if per[84].get(i) != 1: hits.append((None, "the close callback of executor %d ran %s times" % (i, per[84].get(i))))
        elif per[82].get(i) != owed: hits.append((None, "listener %d processed %s events, %d were accepted while it existed" % (i, per[82].get(i), owed)))
        elif per[85].get(i) != owed: hits.append((None, "the close callback of executor %d ran when %s of its %d events had been fully processed" % (i, per[85].get(i), owed)))
        elif per[86].get(i) not in (3, 4): hits.append((None, "the close callback of executor %d found the non-ended status %s" % (i, per[86].get(i))))
        elif per[86].get(i) == 3 and m.get("cancel", -1) != i: hits.append((None, "executor %d ended 'programmatically' although it was never scheduled to finish" % i))
        # (scheduled before its task was first polled - tcancel = 0 - the executor still ends as 'stream ended': the property only says 'only if')
        elif per[86].get(i) == 4 and m.get("cancel", -1) == i and m.get("tcancel", 0) > 0: hits.append((None, "executor %d was scheduled to finish while running, yet ended with status 'stream ended'" % i))
        elif per[87].get(i) != 1: hits.append((None, "executor %d: finish time before start time" % i))
        if hits: break
    return hits

def gen_mcase(rng):
    return mk_mcase(rng.choice(MKINDS), rng.randint(1, 4), rng.choice([1, 1, 1, 2, 4]), rng.choice([0, 0, 5, 15, 25, 45, 105]),
                    [rng.choice([0, 10, 10, 20, 30, 40]) for _ in range(rng.randint(0, 8))])

def oracle_mexec(case, recs):
    """C06 on a Multi: close(unbounded) answers true and returns only after EVERY listener processed every accepted event (limit 1;
    with a limit above 1 the shortfall is the known finding F7); nothing is discarded; every executor's close callback runs once"""
    hits = []; m = case.meta
    rets = [x for x in recs if x[0] == "ret"]
    head = {x[2]: (x[3], x[4]) for x in rets if x[2] in (80, 83)}
    if 80 not in head: return [(None, "no result")]
    closed, cbs = head[80]; accepted = head[83][0]
    at_close = {x[3]: x[4] for x in rets if x[2] == 81}; total = {x[3]: x[4] for x in rets if x[2] == 82}
    if not closed: hits.append((None, "Multi::close(unbounded) answered false"))
    if cbs != m["k"]: hits.append((None, "%d close callbacks ran for %d executors" % (cbs, m["k"])))
    for i in range(m["k"]):
        if at_close.get(i, -1) < accepted:
            hits.append((F7 if m["L"] > 1 else None, "Multi::close() returned when listener %d had fully processed only %d of the %d accepted events" % (i, at_close.get(i, -1), accepted)))
        if total.get(i, -1) != accepted: hits.append((None, "closing discarded events: listener %d processed %d of %d in the end" % (i, total.get(i, -1), accepted)))
    return hits[:1] if hits and hits[0][0] is None else hits[:1]

SCHEDS = {"never": "[SStart; SFinish]", "before": "[SSched; SStart; SFinish]", "during": "[SStart; SSched; SFinish]", "endlog": "[SStart; SFinish; SSched]"}
def mk_status(sched, n):
    return Case("status n=%d sched=%s ; S" % (n, sched), "status_trace %s %d" % (SCHEDS[sched], n), dict(profile="status", sched=sched, n=n))

def mk_latch(M, n, tclose):
    return Case("latch M=%d n=%d tclose=%d ; S" % (M, n, tclose), "latch_trace %d %d" % (M, n), dict(profile="latch", M=M, n=n))

def fields(recs):
    r = {x[2]: (x[3], x[4]) for x in recs if x[0] == "ret"}
    return r

F7 = "C06.close_returns_with_items_in_flight"
F9 = "C12.scheduled_to_finish_stored_after_the_stream_ended"

def oracle_c11(case, recs):
    hits = []; m = case.meta
    if m["profile"] != "exec": return hits
    r = fields(recs); n = len(m["items"])
    if 70 not in r: return [(None, "no result")]
    ok, failed = r[70]; timed, errcb = r[71]; maxf, _ = r[72]; _, total = r[74]
    if m.get("instr") == "none":
        if ok + failed + timed != 0: hits.append((None, "metrics are disabled but the counters read %d / %d / %d" % (ok, failed, timed)))
        exp_failed = sum(1 for d, f in m["items"] if f and not (m["tau"] > 0 and d > m["tau"])) if m["kind"] in ("ff", "nf") else 0
        if errcb != exp_failed: hits.append((None, "the error callback ran %d times for %d failed items" % (errcb, exp_failed)))
        if total != n: hits.append((None, "only %d of %d items were processed" % (total, n)))
        return hits
    if ok + failed + timed != n: hits.append((None, "outcome counters %d ok + %d failed + %d timed out do not add up to the %d items" % (ok, failed, timed, n)))
    if errcb != failed: hits.append((None, "the error callback ran %d times for %d failed items" % (errcb, failed)))
    if total != n: hits.append((None, "only %d of %d items were processed (a failed / timed-out item stopped the rest?)" % (total, n)))
    if m["kind"] in ("ff", "fn") and maxf > m["L"]: hits.append((None, "%d item futures were in progress at once, concurrency limit %d" % (maxf, m["L"])))
    exp_timed = sum(1 for d, f in m["items"] if m["tau"] > 0 and d > m["tau"]) if m["kind"] == "ff" else 0
    exp_failed = sum(1 for d, f in m["items"] if f and not (m["tau"] > 0 and d > m["tau"])) if m["kind"] in ("ff", "nf") else 0
    if timed != exp_timed: hits.append((None, "%d items counted as timed out, %d take longer than the timeout" % (timed, exp_timed)))
    if failed != exp_failed: hits.append((None, "%d items counted as failed, %d fail" % (failed, exp_failed)))
    return hits

def oracle_c06(case, recs):
    hits = []; m = case.meta
    if m["profile"] != "exec": return hits
    r = fields(recs); n = len(m["items"])
    if 72 not in r: return [(None, "no result")]
    _, done_at_close = r[72]; _, closed = r[73]; cbs, total = r[74]
    if not closed: hits.append((None, "close(unbounded) answered false"))
    if done_at_close < n:
        cls = F7 if m["kind"] in ("ff", "fn") and m["L"] > 1 else None
        hits.append((cls, "close() returned when only %d of the %d accepted events had been fully processed" % (done_at_close, n)))
    if total != n: hits.append((None, "closing discarded events: %d of %d processed in the end" % (total, n)))
    return hits

def oracle_c12(case, recs):
    hits = []; m = case.meta
    r = fields(recs)
    if m["profile"] == "exec":
        if 74 not in r: return [(None, "no result")]
        cbs, total = r[74]; status, _ = r[75]
        if cbs != 1: hits.append((None, "the close callback ran %d times" % cbs))
        if 78 in r:
            fin, started = r[78]; exp_failed = sum(1 for d, f in m["items"] if f and not (m["tau"] > 0 and d > m["tau"])) if m["kind"] in ("ff", "nf") else 0
            if fin != exp_failed: hits.append((None, "the close callback ran when %d of the %d failed items' error callbacks had completed (%d started): not after the last item was fully processed" % (fin, exp_failed, started)))
        if status not in (3, 4): hits.append((None, "the close callback found the executor in status %d (not an ended one)" % status))
        if status == 3: hits.append((None, "the close callback found 'programmatically ended' although the executor was never scheduled to finish"))
        return hits
    if m["profile"] == "latch":
        if 79 not in r: return [(None, "no result")]
        cbs, at_cb = r[79]; fin, M = r[80]
        if cbs != 1: hits.append((None, "the Uni's close callback ran %d times (MAX_STREAMS %d)" % (cbs, M)))
        if at_cb != m["n"]: hits.append((None, "the Uni's close callback ran when %d of %d events had been processed" % (at_cb, m["n"])))
        if fin != M: hits.append((None, "%d of %d executors finished" % (fin, M)))
        return hits
    if 76 not in r: return [(None, "no result")]
    status, _ = r[76]; cbs, processed = r[77]
    if cbs != 1: hits.append((None, "the close callback ran %d times" % cbs))
    if processed != m["n"]: hits.append((None, "the close callback ran after %d of %d items" % (processed, m["n"])))
    if status not in (3, 4):
        hits.append((F9 if m["sched"] == "endlog" else None, "the close callback found the executor in status %d (2 = scheduled to finish), not in an ended one" % status))
    elif status == 3 and m["sched"] not in ("during",): hits.append((None, "'programmatically ended' without having been scheduled to finish while running"))
    return hits
