"""Cases and oracles for the Multi channels."""
from .driver import Case, Suite
from .ringgen import random_sched

HEADER = "From RM Require Import RingModel FullSync Chan Multi MultiFS."

def tok(o):
    n, a = o
    return n if not a else n + ":" + ":".join(map(str, a))
def cop(o):
    n, a = o
    return {"send": "MoSend %d" % (a[0] if a else 0), "poll": "MoPoll %d" % (a[0] if a else 0), "drive": "MoDrive %d" % (a[0] if a else 0),
            "count": "MoCount", "pollc": "MoPollMine", "creates": "MoCreateS", "drops": "MoDropS %d" % (a[0] if a else 0), "create": "MoCreate", "drop": "MoDrop %d" % (a[0] if a else 0)}[n]

def mk_case(chan, N, M, k, progs, sched, meta=None, probe=False):
    line = "multi chan=%s N=%d M=%d k=%d%s ; " % (chan, N, M, k, " probe=1" if probe else "") + " ; ".join(" ".join(tok(o) for o in p) for p in progs) + " ; S " + " ".join(map(str, sched))
    MRUN = {"arc_atomic": "run_multi_arc_atomic", "arc_full_sync": "MFS.run_multi_arc_full_sync"}
    if chan not in MRUN or any(n in ("createv", "res", "sres", "cres") for p in progs for n, a in p):
        coq = None                                       # no lock-step model for this kind / these operations: oracle only
    else:
        coq = "%s%s %d %d %d [%s] [%s]%%nat" % (MRUN[chan], "_probe" if probe else "", N, M, k, "; ".join("[" + "; ".join(cop(o) for o in p) + "]" for p in progs), "; ".join(map(str, sched)))
    m = dict(chan=chan, N=N, M=M, k=k, progs=progs, sched=sched, probe=probe); m.update(meta or {})
    return Case(line, coq, m)

def parse_case_line(line):
    secs = [s.strip() for s in line.split(";")]
    params = dict(kv.split("=") for kv in secs[0].split()[1:])
    progs, sched = [], []
    for sec in secs[1:]:
        if sec.startswith("S ") or sec == "S": sched = [int(x) for x in sec[1:].split()]
        else: progs.append([(t.split(":")[0], [int(x) for x in t.split(":")[1:]]) for t in sec.split()])
    return mk_case(params["chan"], int(params["N"]), int(params["M"]), int(params["k"]), progs, sched, probe=params.get("probe") == "1")

def gen_fixed(rng, chan, Ms=(1, 2, 4)):
    """C03: a fixed set of listeners, 1-3 producers, fewer events than the buffer holds"""
    N = rng.choice([4, 8]); M = rng.choice(Ms); k = rng.randint(1, M)
    if chan != "mmap_log" and 4 in Ms and rng.random() < 0.2: N = 2; M = 4; k = rng.randint(3, 4)        # more listeners than buffer slots
    nprod = rng.randint(1, 3)
    total = rng.randint(1, N - 1)
    progs = [[] for _ in range(nprod)]
    for e in range(total): progs[rng.randrange(nprod)].append(("send", [100 * (e + 1)]))
    progs = [p for p in progs if p] or [[("send", [100])]]
    # re-number so that a producer's values increase in its send order
    for t, p in enumerate(progs):
        for j, (n, a) in enumerate(p): a[0] = 1000 * (t + 1) + j
    for i in range(k):
        progs.append([("drive", [i])] if rng.random() < 0.7 else [("poll", [i]) for _ in range(rng.randint(1, 6))])
    nthreads = len(progs)
    tot = sum(len(p) for p in progs) + 3 * k
    sched = random_sched(rng, nthreads, rng.randint(0, tot * 8), burst=rng.choice([0.3, 0.6, 0.85]))
    for _ in range(50): sched += list(range(nthreads))
    return mk_case(chan, N, M, k, progs, sched, {"profile": "fixed"})

def gen_history(rng, chan):
    """C10: one thread runs a sequential history of create / send / receive-some / drop; ids recycle"""
    N = 8; M = rng.choice([1, 2, 4]); k = 0
    prog = []; alive = []; free = list(range(M)); sent = 0; pend = {}
    for _ in range(rng.randint(4, 14)):
        r = rng.random()
        if r < 0.3 and free:
            i = free.pop(0); alive.append(i); pend.setdefault(i, 0); prog.append(("create", []))
        elif r < 0.36 and not free:
            prog.append(("create", [])); prog.append(("count", []))          # every id in use: the creation must be refused and change nothing (F18)
        elif r < 0.6 and alive and all(pend[i] < N - 1 for i in alive):
            sent += 1; prog.append(("send", [sent]))
            for i in alive: pend[i] += 1
        elif r < 0.85 and alive:
            i = rng.choice(alive); prog.append(("poll", [i])); pend[i] = max(0, pend[i] - 1)
        elif alive:
            i = rng.choice(alive); alive.remove(i); free.append(i); prog.append(("drop", [i]))
        if rng.random() < 0.3: prog.append(("count", []))
    if not prog: prog = [("create", []), ("send", [1]), ("poll", [0])]
    sched = [0] * (len(prog) * 14 + 10)
    return mk_case(chan, N, M, k, [prog], sched, {"profile": "history"})

def gen_churn(rng, chan):
    """C17: 2-3 listeners exist throughout and are polled / driven by their own threads; 1-2 producers send; ONE churn thread creates
    and drops listeners with every shared access of create_stream_id / report_stream_dropped scheduled against the fan-out loops.
    The churn thread drops only listeners nobody else polls (a pre-existing one without a thread, or one it created itself)."""
    N = 8; M = 4; k = rng.choice([2, 3, 3])
    nstay = rng.randint(1, k) if k < M else rng.randint(1, k)
    stayers = list(range(k))[:nstay] if rng.random() < 0.5 else sorted(rng.sample(range(k), nstay))
    droppable = [i for i in range(k) if i not in stayers]
    nprod = rng.randint(1, 2)
    progs = []
    total = rng.randint(1, 5)
    for t in range(nprod): progs.append([])
    for e in range(total): progs[rng.randrange(nprod)].append(("send", [0]))
    progs = [p for p in progs if p] or [[("send", [0])]]
    for t, p in enumerate(progs):
        for j, (n, a) in enumerate(p): a[0] = 1000 * (t + 1) + j
    nprod = len(progs)
    for i in stayers:
        progs.append([("drive", [i])] if rng.random() < 0.6 else [("poll", [i]) for _ in range(rng.randint(2, 7))])
    vac = list(range(k, M)); mine = []; churn = []; live = k; last = None
    for _ in range(rng.randint(1, 4)):
        r = rng.random()
        if r < 0.45 and vac:
            i = vac.pop(0); mine.append(i); churn.append(("creates", [])); live += 1; last = i
        elif r < 0.8 and (droppable or mine):
            i = rng.choice(droppable + mine)
            (droppable if i in droppable else mine).remove(i); vac.append(i); churn.append(("drops", [i])); live -= 1
        elif mine and mine[-1] == last:
            churn.append(("pollc", []))
    if not churn:
        if droppable: churn = [("drops", [droppable[0]])]
        else: vac.pop(0); churn = [("creates", [])]
    progs.append(churn)
    churn_tids = [len(progs) - 1]
    ncreates = sum(1 for n, a in churn if n == "creates")
    own_drop = any(n == "drops" and a[0] >= k for n, a in churn)     # (a removal addressed by id presumes which id its own creation got)
    if ncreates < M - k and not own_drop and rng.random() < 0.5:
        # a second thread creating a listener at the same time (within the budget of the ids that are vacant from the start, so that
        # ids cannot run out whatever the interleaving with the first thread's creations and removals)
        progs.append([("creates", [])] + [("pollc", []) for _ in range(rng.randint(0, 3))]); churn_tids.append(len(progs) - 1)
    nthreads = len(progs)
    tot = sum(len(p) for p in progs)
    sched = random_sched(rng, nthreads, rng.randint(10, tot * 14), burst=rng.choice([0.3, 0.6, 0.85]))
    for _ in range(60): sched += list(range(nthreads))
    return mk_case(chan, N, M, k, progs, sched, {"profile": "churn", "stayers": stayers, "churn_tids": churn_tids}, probe=True)

def gen_phased(rng, chan):
    """C10: listeners are added and removed BETWEEN sends, by two threads at the same time: producer A sends alone; then a thread that
    creates / drops listeners and a second thread that creates one run against each other (every shared access scheduled); then
    producer B sends alone; then everybody polls.  No send overlaps a creation or a removal."""
    c = gen_churn(rng, chan)
    m = c.meta; progs = [list(p) for p in m["progs"]]; cts = m["churn_tids"]
    # the first thread only removes listeners that exist from the start; the second thread creates one and polls it
    progs[cts[0]] = [o for o in progs[cts[0]] if o[0] == "drops" and o[1][0] < m["k"]] or [("count", [])]
    if len(cts) < 2:
        progs.append([("creates", [])] + [("pollc", []) for _ in range(rng.randint(1, 3))]); cts = cts + [len(progs) - 1]
    if not any(n == "drops" for n, a in progs[cts[0]]):
        dr = [i for i in range(m["k"]) if i not in m["stayers"]]
        if dr: progs[cts[0]] = [("drops", [dr[0]])] + [o for o in progs[cts[0]] if not (o[0] == "drops" and o[1] == [dr[0]])]
    producers = [t for t, p in enumerate(progs) if p and p[0][0] == "send"]
    a = producers[0]
    progs[a] = [("send", [1000 + j]) for j in range(rng.randint(1, 2))]
    for t in producers[1:]: progs[t] = [("count", [])]
    progs.append([("send", [2000 + j]) for j in range(rng.randint(1, 3))]); b = len(progs) - 1
    pollers = [t for t, p in enumerate(progs) if p and p[0][0] in ("drive", "poll")]
    sched = [a] * (60 * len(progs[a]))
    for t in pollers: sched += [t] * 12
    nch = sum(len(progs[t]) for t in cts)
    sched += [cts[x] for x in random_sched(rng, len(cts), rng.randint(20, 60 * nch), burst=rng.choice([0.3, 0.6, 0.85]))]
    for _ in range(400): sched += cts
    sched += [b] * (60 * len(progs[b]))
    others = [t for t in range(len(progs)) if t != b]
    for _ in range(60): sched += list(range(len(progs)))
    return mk_case(chan, m["N"], m["M"], m["k"], progs, sched, {"profile": "churn", "stayers": m["stayers"], "churn_tids": cts, "phased": True}, probe=True)

def gen_recycle_race(rng, chan="arc_atomic"):
    """C07 / C10: every stream id is in use; one thread removes a listener (every shared access of the removal scheduled) while another
    thread creates a listener as soon as an id is vacant - possibly before the removal has returned - and polls it; then a producer
    sends.  The new listener was never told to end: it must not answer end-of-stream and it gets every event sent after its creation."""
    N = 8; M = rng.choice([1, 2, 4]); k = M
    victim = rng.randrange(k)
    stayers = [i for i in range(k) if i != victim]
    progs = [[("drops", [victim])], [("createv", [])] + [("pollc", []) for _ in range(rng.randint(2, 5))],
             [("send", [2000 + j]) for j in range(rng.randint(1, 3))]]
    for i in stayers[:2]: progs.append([("poll", [i]) for _ in range(rng.randint(1, 4))])
    # the creator stands at its first look at the vacant count, the remover gets r steps, then the two alternate
    sched = [1] + [0] * rng.randint(1, 40)
    sched += [x for x in random_sched(rng, 2, rng.randint(10, 120), burst=rng.choice([0.3, 0.6, 0.85]))]
    for _ in range(60): sched += [0, 1]
    sched += [2] * 200
    for _ in range(40): sched += list(range(len(progs)))
    return mk_case(chan, N, M, k, progs, sched, {"profile": "churn", "stayers": stayers[:2], "churn_tids": [0, 1], "recycle": True}, probe=False)

def gen_multi_reserve(rng, chan):
    """C08 on a Multi channel: one thread, k in 0..2 listeners (none at all included), a sequential history of reserve / fill +
    send-reserved (the oldest outstanding first, now and then another) / cancel (the latest) / send / poll (which releases the payload);
    at the end everything is resolved and consumed and BUFFER_SIZE reservations are attempted"""
    N = rng.choice([4, 8]); M = 2; k = rng.choice([0, 0, 1, 2])
    prog = []; out = []; kk = 0; val = 100
    for _ in range(rng.randint(4, 3 * N)):
        r = rng.random()
        if r < 0.4 and kk < 50 and len(out) < N:
            prog.append(("res", [kk, val])); out.append(kk); kk += 1; val += 1
        elif r < 0.7 and out:
            prog.append(("sres", [out.pop(0)]))
        elif r < 0.8 and out:
            prog.append(("cres", [out.pop()]))
        elif r < 0.9 and not out:
            prog.append(("send", [val])); val += 1
        elif k:
            prog.append(("poll", [rng.randrange(k)]))
    while out: prog.append(("sres", [out.pop(0)]) if rng.random() < 0.6 else ("cres", [out.pop()]))
    for i in range(k): prog += [("poll", [i])] * (3 * N + 2)
    base = kk
    prog += [("res", [base + j, 900 + j]) for j in range(N)]
    prog += [("cres", [base + j]) for j in reversed(range(N))]
    sched = [0] * (len(prog) * 40 + 50)
    return mk_case(chan, N, M, k, [prog], sched, {"profile": "reserve"})

def oracle_multi_reserve(case, recs):
    """a reservation is refused ('no slot') only if BUFFER_SIZE slots are taken: by outstanding reservations or by events some listener
    has not consumed yet (each poll releases the payload at once; with no listener an event takes no slot); sent reservations reach
    every listener exactly once with the written value, cancelled ones nobody"""
    hits = []
    prog = case.meta["progs"][0]; N = case.meta["N"]; k = case.meta["k"]
    rets = [r for r in recs if r[0] == "ret" and r[1] == 0]
    val = {a[0]: a[1] for n, a in prog if n == "res"}
    outstanding = set(); queue = {i: [] for i in range(k)}; cancelled = set()
    for r in recs:
        if r[0] == "panic": hits.append((None, "panic in thread %d" % r[1]))
    for (n, a), r in zip(prog, rets):
        occ = len(outstanding) + len({v for i in queue for v in queue[i]})
        if n == "res":
            if r[2] == 20: outstanding.add(a[0])
            elif r[2] == 21 and occ < N:
                hits.append((None, "reserve_slot answered 'no slot' although only %d of %d slots are taken (%d reservations outstanding, %d events not yet consumed by every listener)" % (occ, N, len(outstanding), occ - len(outstanding))))
        elif n == "sres":
            if r[2] == 27:
                outstanding.discard(a[0])
                for i in queue: queue[i].append(val[a[0]])
        elif n == "cres":
            if r[2] == 24: outstanding.discard(a[0]); cancelled.add(val[a[0]])
        elif n == "send":
            if r[2] == 10:
                for i in queue: queue[i].append(a[0])
            elif r[2] == 11 and occ < N:
                hits.append((None, "send was rejected as full although only %d of %d slots are taken" % (occ, N)))
        elif n == "poll":
            i = a[0]
            if r[2] == 12:
                if not queue[i] or queue[i][0] != r[3]:
                    what = "the content of a cancelled reservation" if r[3] in cancelled else "not the next accepted event %s" % queue[i][:1]
                    hits.append((None, "listener %d yielded %d: %s" % (i, r[3], what)))
                    if r[3] in queue[i]: queue[i].remove(r[3])
                else: queue[i].pop(0)
            elif r[2] == 13 and queue[i]:
                hits.append((None, "listener %d answered Pending although %s are queued for it" % (i, queue[i])))
    return hits

def op_intervals(case, recs):
    """per thread: [(op, first record index, last record index)] for the operations of its program, in order"""
    progs = case.meta["progs"]; out = {t: [] for t in range(len(progs))}
    nxt = {t: 0 for t in out}; cur = {}
    ends = {"send": (10, 11), "poll": (12, 13, 14, 19), "pollc": (12, 13, 14, 19), "creates": (17, 19), "createv": (17, 19), "drops": (18, 19), "create": (17, 19), "drop": (18, 19), "count": (15,)}
    for idx, r in enumerate(recs):
        if r[0] not in ("acc", "ret"): continue
        t = r[1]
        if t not in out or nxt[t] >= len(progs[t]): continue
        op = progs[t][nxt[t]]
        if t not in cur: cur[t] = idx
        if r[0] == "ret" and op[0] != "drive" and r[2] in ends.get(op[0], ()):
            out[t].append((op, cur.pop(t), idx)); nxt[t] += 1
    for t, a in cur.items():
        if nxt[t] < len(progs[t]): out[t].append((progs[t][nxt[t]], a, len(recs)))
    return out

def oracle_churn(case, recs):
    """C17 on the implementation history: a listener that exists throughout yields (plus still holds, at quiescence) every accepted
    event exactly once, each producer's in order; deviations are filed under the two known classes only when the send of the event
    overlaps a stepped removal (miss) or creation (repeat) - the used_streams array shifting under the fan-out loop."""
    hits = []
    MISS, REP, PIN = "C17.fanout_skips_listener_while_used_streams_is_rewritten", "C17.fanout_repeats_listener_while_used_streams_is_rewritten", "C17.orphan_queue_pins_pool_slots"
    PINRC = "C17.refcount_preincrement_exceeds_publications"
    progs = case.meta["progs"]; stayers = case.meta["stayers"]; cts = case.meta["churn_tids"]
    sent = {}
    for t, p in enumerate(progs):
        for n, a in p:
            if n == "send": sent[a[0]] = t
    ok = [r[3] for r in recs if r[0] == "ret" and r[2] == 10]
    iv = op_intervals(case, recs)
    send_iv = {op[1][0]: (a, b) for t in iv for (op, a, b) in iv[t] if op[0] == "send"}
    churn_iv = [(op[0], a, b) for ct in cts for (op, a, b) in iv.get(ct, []) if op[0] in ("creates", "createv", "drops")]
    for r in recs:
        if r[0] == "ret" and r[2] == 14:
            hits.append((None, "a listener (id %d) answered end-of-stream although nobody told it to end" % r[3]))
    def overlaps(v):
        # the send of v is in progress at some point of a stepped creation / removal (whose used_streams rewrite is in place)
        if v not in send_iv: return False
        a, b = send_iv[v]
        return any(not (b2 < a or b < a2) for (k, a2, b2) in churn_iv)
    per = {}
    for r in recs:
        if r[0] == "ret" and r[2] == 12: per.setdefault(r[4], []).append(r[3])
        if r[0] == "panic": hits.append((None, "panic in thread %d" % r[1]))
    fin = final_info(recs)
    quiet = fin is not None and fin[0]
    drained = fin[1] if fin else {}
    for i in set(per) | set(drained):
        allv = per.get(i, []) + (drained.get(i, []) if quiet else [])
        for v in set(allv):
            if v not in sent: hits.append((None, "listener %d got %d which was never sent" % (i, v)))
            elif allv.count(v) > 1:
                hits.append((REP if overlaps(v) else None, "listener %d got event %d %d times%s" % (i, v, allv.count(v), " (its send overlapped a listener creation / removal)" if overlaps(v) else "")))
        for t in set(sent.values()):
            mine = [v for v in allv if sent.get(v) == t]
            ded = [v for j, v in enumerate(mine) if v not in mine[:j]]
            if ded != sorted(ded): hits.append((None, "listener %d gets producer %d's events out of order: %s" % (i, t, mine)))
    if quiet and len(ok) == len(sent):
        for i in stayers:
            allv = per.get(i, []) + drained.get(i, [])
            for v in ok:
                if v not in allv:
                    hits.append((MISS if overlaps(v) else None, "listener %d exists throughout but never gets accepted event %d%s" % (i, v, " (its send overlapped a listener creation / removal)" if overlaps(v) else "")))
    # a listener ADDED during the case (first owner of an id that was vacant from the start): it yields nothing that was sent before its
    # creation began, and - if it is still alive when the run goes quiet - every event whose send began after its creation returned
    k0 = case.meta["k"]
    dropped_ids = {op[1][0] for ct in cts for (op, a, b) in iv.get(ct, []) if op[0] == "drops"}
    first_owner = {}
    for ct in cts:
        for (op, a, b) in iv.get(ct, []):
            if op[0] in ("creates", "createv") and b < len(recs) and recs[b][0] == "ret" and recs[b][2] == 17:
                i = recs[b][3]
                if (i >= k0 or case.meta.get("recycle")) and i not in first_owner: first_owner[i] = (a, b)
                elif i in first_owner: first_owner[i] = None                 # the id was handed out twice in this case: not judged here
    for i, ab in first_owner.items():
        if ab is None: continue
        a0, b0 = ab
        allv = per.get(i, []) + (drained.get(i, []) if quiet else [])
        for v in allv:
            if v in send_iv and send_iv[v][1] < a0:
                hits.append((None, "listener %d, created during the run, got event %d whose send had returned before the creation began" % (i, v)))
        if quiet and i not in dropped_ids:
            for v in ok:
                if v in send_iv and send_iv[v][0] > b0 and v not in allv:
                    hits.append((MISS if overlaps(v) else None, "listener %d, created during the run and alive to the end, never gets event %d, sent and accepted after its creation returned%s" % (i, v, " (its send overlapped another creation / removal)" if overlaps(v) else "")))
    if fin is not None and len(fin) > 3 and isinstance(fin[3], tuple):
        hits.append((None, "after everything live was consumed and released a send never returns (%d of %d further events were accepted before)" % (fin[3][1], case.meta["N"])))
    elif fin is not None and len(fin) > 3 and fin[3] is not None and fin[3] != case.meta["N"]:
        ogre = case.meta["chan"].startswith("ogre_arc")
        orphan = any(k == "drops" for (k, a, b) in churn_iv)
        raced = any(overlaps(v) for v in ok)
        cls = (PIN if orphan else PINRC if raced else None) if ogre else None
        hits.append((cls, "after everything live was consumed and released the channel accepts only %d of %d new events%s" % (fin[3], case.meta["N"],
                     " (a listener was removed: what it left unconsumed pins pool slots)" if cls == PIN else " (a send overlapped a listener creation: reference count pre-incremented by a listener count the fan-out loop did not serve)" if cls == PINRC else "")))
    return hits

def nontrivial_churn(case, recs):
    """a churn step lands inside a fan-out loop (between two used_streams reads of one send)"""
    iv = op_intervals(case, recs); cts = case.meta["churn_tids"]
    churn_iv = [(a, b) for ct in cts for (op, a, b) in iv.get(ct, []) if op[0] in ("creates", "drops")]
    for t in iv:
        for (op, a, b) in iv[t]:
            if op[0] == "send" and any(a < idx < b and recs[idx][0] == "acc" and recs[idx][1] in cts for (a2, b2) in churn_iv for idx in range(max(a, a2), min(b, b2) + 1)): return True
    return False

def gen_setup(rng, chan):
    """C03, listeners set up concurrently: 2..M threads each create a listener (every shared access scheduled) and then poll it, while a
    producer sends; what is sent after the last creation returned must reach every listener"""
    N = 8; M = rng.choice([2, 4]); c = rng.randint(2, min(M, 3))
    progs = [[("send", [1000 + j]) for j in range(rng.randint(1, 4))]]
    for _ in range(c): progs.append([("creates", [])] + [("pollc", []) for _ in range(rng.randint(1, 5))])
    nthreads = len(progs)
    creators = list(range(1, nthreads))
    sched = []
    pre = random_sched(rng, c, rng.randint(0, 16 * c), burst=rng.choice([0.3, 0.6, 0.85]))
    sched += [1 + x for x in pre]
    sched += random_sched(rng, nthreads, rng.randint(0, 60), burst=rng.choice([0.3, 0.6, 0.85]))
    for _ in range(40): sched += list(range(nthreads))
    return mk_case(chan, N, M, 0, progs, sched, {"profile": "setup", "creators": creators})

def oracle_setup(case, recs):
    hits = []
    progs = case.meta["progs"]; creators = case.meta["creators"]
    iv = op_intervals(case, recs)
    created = {}; last_create_end = -1
    for t in creators:
        for (op, a, b) in iv.get(t, []):
            if op[0] == "creates" and b < len(recs) and recs[b][0] == "ret" and recs[b][2] == 17:
                created[t] = recs[b][3]; last_create_end = max(last_create_end, b)
    if len(created) != len(creators): return hits          # a creation did not finish inside the schedule
    if len(set(created.values())) != len(created): hits.append((None, "two listeners were given the same id: %s" % created))
    owed = [op[1][0] for (op, a, b) in iv.get(0, []) if op[0] == "send" and a > last_create_end and b < len(recs) and recs[b][2] == 10]
    per = {}
    for r in recs:
        if r[0] == "ret" and r[2] == 12: per.setdefault(r[4], []).append(r[3])
        if r[0] == "panic": hits.append((None, "panic in thread %d" % r[1]))
    fin = final_info(recs)
    for i, vs in per.items():
        if len(set(vs)) != len(vs): hits.append((None, "listener %d yielded an event twice: %s" % (i, vs)))
        if vs != sorted(vs): hits.append((None, "listener %d yields the producer's events out of order: %s" % (i, vs)))
    if fin is not None and fin[0]:
        for t, i in created.items():
            allv = per.get(i, []) + fin[1].get(i, [])
            missing = [v for v in owed if v not in allv]
            if missing: hits.append((None, "listener %d (created by thread %d) never gets %s, sent and accepted after every listener was set up" % (i, t, missing)))
            if len(set(allv)) != len(allv): hits.append((None, "listener %d gets an event twice: %s" % (i, allv)))
    return hits

def nontrivial_setup(case, recs):
    """two creations overlap"""
    iv = op_intervals(case, recs)
    c = [(a, b) for t in case.meta["creators"] for (op, a, b) in iv.get(t, []) if op[0] == "creates"]
    return any(not (b1 < a2 or b2 < a1) for k, (a1, b1) in enumerate(c) for (a2, b2) in c[k+1:])

def oracle_fixed(case, recs):
    """C03 on the implementation history: every listener yields every accepted event exactly once, each producer's events in its
    send order, nothing that was not sent (checked when the run went quiet with every listener driven)"""
    hits = []
    progs = case.meta["progs"]; k = case.meta["k"]
    sent = {}
    for t, p in enumerate(progs):
        for n, a in p:
            if n == "send": sent[a[0]] = t
    ok = [r[3] for r in recs if r[0] == "ret" and r[2] == 10]
    per = {}
    for r in recs:
        if r[0] == "ret" and r[2] == 12: per.setdefault(r[4], []).append(r[3])
        if r[0] == "panic": hits.append((None, "panic in thread %d" % r[1]))
    for i, vs in per.items():
        if len(set(vs)) != len(vs): hits.append((None, "listener %d yielded an event twice: %s" % (i, vs)))
        for v in vs:
            if v not in sent: hits.append((None, "listener %d yielded %d which was never sent" % (i, v)))
        for t in set(sent.values()):
            mine = [v for v in vs if sent.get(v) == t]
            if mine != sorted(mine): hits.append((None, "listener %d yields producer %d's events out of order: %s" % (i, t, mine)))
    # completeness at quiescence (no operation in progress): what a listener yielded plus what it still yields when polled
    # now is, per listener, every accepted event exactly once with each producer's events in order
    fin = final_info(recs)
    if fin is not None:
        quiet, drained, bad = fin[:3]
        for v in bad:
            if list(sent).count(v) == 1: hits.append((None, "event %d reached the listeners at different addresses (not one shared allocation)" % v))
        if quiet and len(ok) == len(sent):
            for i in range(k):
                allv = per.get(i, []) + drained.get(i, [])
                if sorted(allv) != sorted(ok):
                    missing = sorted(set(ok) - set(allv)); extra = [v for v in allv if allv.count(v) > 1 or v not in sent]
                    hits.append((None, "listener %d: accepted events %s never reach it / surplus %s (yielded %s, still queued %s)" % (i, missing, extra, per.get(i, []), drained.get(i, []))))
                for t in set(sent.values()):
                    mine = [v for v in allv if sent.get(v) == t]
                    if mine != sorted(mine): hits.append((None, "listener %d gets producer %d's events out of order: %s" % (i, t, mine)))
    return hits

def final_info(recs):
    """(quiescent, {stream: [values still queued]}, [values seen at several addresses]) from the final record"""
    f = [r for r in recs if r[0] == "final"]
    if not f or not f[0][1]: return None
    d = list(f[0][1]); quiet = d[0] == 1; j = 1; drained = {}
    while j < len(d) and d[j] != -1:
        i, n = d[j], d[j+1]; drained[i] = d[j+2:j+2+n]; j += 2 + n
    bad = d[j+2:j+2+d[j+1]] if j < len(d) else []
    j = j + 2 + (d[j+1] if j < len(d) else 0)
    probe = d[j+1] if j + 1 < len(d) and d[j] == -2 else ("blocked", d[j+1]) if j + 1 < len(d) and d[j] == -3 else None
    return quiet, drained, bad, probe

def oracle_lost_wakeup(case, recs):
    """C04 on a Multi channel: at the quiescent end of the run (nobody inside an operation, every producer done) a listener that is driven by
    a task sits parked and not notified although events accepted for it are still in its queue (what it yields when polled now)"""
    from . import unigen
    fin = final_info(recs)
    if fin is None or not fin[0]: return []
    drained = fin[1]
    progs = case.meta["progs"]
    st = unigen.end_states(case, recs)
    if any(v == "running" for v in st.values()): return []
    hits = []
    for t, p in enumerate(progs):
        if p and p[0][0] == "drive":
            i = p[0][1][0]
            if st.get(t) == ("parked", i) and drained.get(i):
                cls = None
                if case.meta["chan"] in ("arc_atomic", "ogre_arc_atomic"):
                    # one lock-free ring per listener, wake decision from the length sampled at the slot reservation: the known family of
                    # the movable atomic Uni channel (F1) whenever that sample can be stale, i.e. another thread acted inside some send
                    if unigen.sends_overlap(case, recs): cls = "C04.multi_atomic.overlapping_sends"
                    elif unigen.consumer_inside_a_send(case, recs): cls = "C04.multi_atomic.overlapping_sends"
                    # the known mechanism, exactly: a publication goes un-woken only when its sample was >= 3 (`len_after <= 2` wakes), i.e. at
                    # least two earlier events of this listener's ring were unreleased when the send looked at `head`; for the listener to sit
                    # parked in the end it consumed them before that send published: the send of the FIRST event still queued has >= 2 of this
                    # listener's yields inside it. Fewer: not the known finding.
                    inside = unigen.yields_inside_send(case, recs, drained[i][0], listener=i)
                    if cls is not None and inside is not None and inside[0] < 2: cls = None
                hits.append((cls, "lost wake-up: listener %d is parked and not notified with %d accepted event(s) in its queue, all producers returned" % (i, len(drained[i]))))
    return hits[:1]

def gen_wake(rng, chan):
    """C04: 1-4 producers (1-3 events each) against 1..MAX_STREAMS task-driven listeners, bursty schedule then round-robin to quiescence"""
    N = 8; M = rng.choice([1, 2]); k = rng.randint(1, M)
    nprod = rng.randint(1, 4)
    progs = [[("send", [1000 * (t + 1) + j]) for j in range(rng.randint(1, 2 if nprod > 2 else 3))] for t in range(nprod)]
    for i in range(k): progs.append([("drive", [i])])
    nth = len(progs)
    sched = random_sched(rng, nth, rng.randint(10, 40 * nth), burst=rng.choice([0.3, 0.6, 0.85, 0.9]))
    for _ in range(50): sched += list(range(nth))
    return mk_case(chan, N, M, k, progs, sched, {"profile": "fixed"})

def oracle_history(case, recs):
    """C10 on a sequential history: a stream yields exactly the events accepted during its lifetime, in order, at most once.
    The one known deviation (F8) is pinned down exactly: `left[i]` holds what earlier owners of id i left unconsumed, in order;
    only a delivery of the head of that list to a later owner is in the known class - anything else is unclassified."""
    hits = []
    F8 = "C10.stale_events_on_recycled_id"
    prog = case.meta["progs"][0]; M = case.meta["M"]
    live = set(range(case.meta.get("k", 0))); life = {i: [] for i in live}; left = {}
    rets = [r for r in recs if r[0] == "ret"]
    for (n, a), r in zip(prog, rets):
        if n in ("create", "creates"):
            if r[2] == 17:
                if r[3] in live: hits.append((None, "create handed out id %d which is alive" % r[3]))
                live.add(r[3]); life[r[3]] = []
            elif len(live) < M: hits.append((None, "create refused although only %d of %d streams are alive" % (len(live), M)))
        elif n == "send":
            if r[2] == 10:
                for i in live: life[i].append(a[0])
        elif n == "poll":
            i = a[0]
            if r[2] == 12:
                v = r[3]
                if i not in live: hits.append((None, "dead stream %d yielded %d" % (i, v))); continue
                if left.get(i) and left[i][0] == v:
                    left[i].pop(0)
                    hits.append((F8, "stream %d yielded %d, left unconsumed by an earlier owner of the id (sent before the stream was created)" % (i, v)))
                elif not left.get(i) and life[i] and life[i][0] == v: life[i].pop(0)
                else:
                    hits.append((None, "stream %d yielded %d but the next event of its lifetime is %s (leftovers of earlier owners of the id: %s)" % (i, v, life[i][:1], left.get(i, []))))
                    if v in life[i]: life[i].remove(v)
            elif r[2] == 13 and i in live and (life[i] or left.get(i)):
                hits.append((None, "stream %d answered Pending although %s are queued for it" % (i, left.get(i, []) + life[i])))
        elif n in ("drop", "drops"):
            if r[2] == 18:
                i = a[0]; left[i] = left.get(i, []) + life.get(i, []); life[i] = []; live.discard(i)
        elif n == "count":
            if r[3] != len(live): hits.append((None, "running_streams_count() = %d with %d live streams" % (r[3], len(live))))
    for r in recs:
        if r[0] == "panic": hits.append((None, "panic in thread %d" % r[1]))
    # at the end: what each live stream still yields must be exactly the rest of its lifetime's events
    fin = final_info(recs)
    if fin is not None and fin[0]:
        for i, vs in fin[1].items():
            if i not in live: hits.append((None, "dead stream %d is reported alive at the end" % i)); continue
            if vs == life[i]: continue
            if left.get(i) and vs == left[i] + life[i]:
                hits.append((F8, "stream %d still holds %s, left unconsumed by an earlier owner of the id, before its own %s" % (i, left[i], life[i])))
            else:
                hits.append((None, "stream %d still holds %s but the unconsumed events of its lifetime are %s (leftovers of earlier owners: %s)" % (i, vs, life[i], left.get(i, []))))
    return hits

def nontrivial_fixed(case, recs):
    """>= 2 listeners and a context switch inside a fan-out loop"""
    if case.meta["k"] < 2: return False
    senders = set(); last = None; sw = False
    for r in recs:
        if r[0] == "acc":
            t = r[1]
            if r[3] == 16: senders.add(t)
            if last is not None and last != t and last in senders: sw = True
            last = t
        elif r[0] == "ret" and r[2] == 10: senders.discard(r[1])
    return sw

def nontrivial_history(case, recs):
    """an id was reused"""
    ids = [r[3] for r in recs if r[0] == "ret" and r[2] == 17]
    return len(ids) != len(set(ids))


# ---- the log channel's old / new split while producers are sending (C09; oracle only) ----
def gen_split(rng):
    """mmap_log: 1-2 producers send while one thread creates an old / new pair of streams (every shared access of the creation is a
    scheduling point, so sends complete in the middle of it) and then polls the new one; the final drain collects the rest of both"""
    M = 4; nprod = rng.randint(1, 2)
    progs = []
    for t in range(nprod): progs.append([("send", [1000 * (t + 1) + j]) for j in range(rng.randint(2, 7))])
    progs.append([("split", [])] + [("pollc", []) for _ in range(rng.randint(0, 3))])
    nthreads = len(progs)
    pre = []
    # a few sends first, then a phase in which the splitter and the producers alternate in short bursts
    for _ in range(rng.randint(0, 30)): pre.append(rng.randrange(nprod))
    mid = []
    for _ in range(rng.randint(20, 120)):
        t = rng.choice([nthreads - 1] * 2 + list(range(nprod)))
        mid += [t] * rng.choice([1, 1, 2, 3, 6])
    sched = pre + mid
    for _ in range(80): sched += list(range(nthreads))
    return mk_case("mmap_log", 8, M, 0, progs, sched, {"profile": "split"})

def oracle_split(case, recs):
    """C09: the old stream yields exactly the events before one point of the log and ends, the new stream exactly those after it: every
    accepted event is yielded by exactly one of the two, and of one producer's events the old stream gets a prefix, the new one the rest"""
    hits = []
    progs = case.meta["progs"]; sent = {}
    for t, p in enumerate(progs):
        for n, a in p:
            if n == "send": sent[a[0]] = t
    for r in recs:
        if r[0] == "panic": hits.append((None, "panic in thread %d" % r[1]))
    sp = [r for r in recs if r[0] == "ret" and r[2] == 16]
    if not sp: return hits
    old_id, new_id = sp[0][3], sp[0][4]
    ok = [r[3] for r in recs if r[0] == "ret" and r[2] == 10]
    per = {}
    for r in recs:
        if r[0] == "ret" and r[2] == 12: per.setdefault(r[4], []).append(r[3])
    fin = final_info(recs)
    if fin is None or not fin[0] or len(ok) != len(sent): return hits
    drained = fin[1]
    old = per.get(old_id, []) + drained.get(old_id, []); new = per.get(new_id, []) + drained.get(new_id, [])
    both = sorted(set(old) & set(new)); missing = sorted(set(ok) - set(old) - set(new))
    if both: hits.append((None, "events %s were yielded by the old AND the new stream of the split" % both))
    if missing: hits.append((None, "accepted events %s were yielded by neither the old nor the new stream of the split (old: %s, new: %s)" % (missing, old, new)))
    if len(set(old)) != len(old) or len(set(new)) != len(new): hits.append((None, "a stream of the split yielded an event twice (old: %s, new: %s)" % (old, new)))
    for t in set(sent.values()):
        o = [v for v in old if sent.get(v) == t]; n = [v for v in new if sent.get(v) == t]
        if o + n != sorted(o + n): hits.append((None, "producer %d's events are not split at one point in its send order: old %s, new %s" % (t, o, n)))
    return hits[:1]
