"""Case generators and oracles for the raw lock-free ring (AtomicMove) -- shared by C01, C02, C13, C15, C16, C18."""
from .driver import Case, Suite
from . import core

HEADER = "From RM Require Import RingModel RingRun."

def coq_op(op):
    name, args = op
    return {"pub": "OpPub %d" % (args[0] if args else 0), "cons": "OpCons", "len": "OpLen"}[name]

def mk_case(N, origin, progs, sched, meta=None, kind="ring"):
    line = "%s N=%d origin=%d ; " % (kind, N, origin) + " ; ".join(
        " ".join(n if not a else n + ":" + ":".join(str(x) for x in a) for n, a in p) for p in progs) + " ; S " + " ".join(map(str, sched))
    coq = "%s %d %d [%s] [%s]%%nat" % ("run_case32" if kind == "ring" else "run_case_fs32", N, origin, "; ".join("[" + "; ".join(coq_op(o) for o in p) + "]" for p in progs),
                                            "; ".join(map(str, sched)))
    m = dict(N=N, origin=origin, progs=progs, sched=sched, kind=kind)
    m.update(meta or {})
    return Case(line, coq, m)

def parse_case_line(line):
    """inverse of mk_case for replay files"""
    secs = [s.strip() for s in line.split(";")]
    head = secs[0].split()
    params = dict(kv.split("=") for kv in head[1:])
    progs, sched = [], []
    for sec in secs[1:]:
        if sec.startswith("S ") or sec == "S":
            sched = [int(x) for x in sec[1:].split()]
        else:
            prog = []
            for tok in sec.split():
                parts = tok.split(":")
                prog.append((parts[0], [int(x) for x in parts[1:]]))
            progs.append(prog)
    return mk_case(int(params.get("N", 4)), int(params.get("origin", 0)), progs, sched, kind=head[0])

def random_sched(rng, nthreads, length, burst=0.6):
    sched, cur = [], rng.randrange(nthreads)
    for _ in range(length):
        if rng.random() > burst: cur = rng.randrange(nthreads)
        sched.append(cur)
    return sched

def gen_case(rng, Ns=(2, 4, 8), origin=0, max_threads=4, max_ops=5, profile=None, kind="ring"):
    N = rng.choice(Ns)
    nthreads = rng.randint(2, max_threads)
    profile = profile or rng.choice(["mixed", "fill", "drain", "pc", "contend_full", "contend_empty"])
    if profile == "cycles":
        # fill beyond capacity, drain, fill again ... : every cycle must allow exactly N outstanding events
        N = rng.choice(Ns); rounds = rng.randint(1, 2)
        prod = []; cons = []
        for c in range(rounds):
            prod += [("pub", [1000 * (c + 1) + j]) for j in range(N + rng.randint(1, 2))]
            cons += [("cons", [])] * (N + 1)
        progs = [prod, cons] + ([[("pub", [7000 + j]) for j in range(rng.randint(1, 3))]] if rng.random() < 0.5 else [])
        nthreads = len(progs)
        total = sum(len(p) for p in progs)
        sched = random_sched(rng, nthreads, rng.randint(total * 2, total * 5), burst=rng.choice([0.6, 0.85, 0.95]))
        for _ in range(5 * max(len(p) for p in progs) + 8): sched += list(range(nthreads))
        return mk_case(N, origin, progs, sched, {"profile": profile}, kind=kind)
    progs = []
    for t in range(nthreads):
        n = rng.randint(1, max_ops)
        prog = []
        for k in range(n):
            if profile == "mixed":   name = rng.choice(["pub", "pub", "cons", "cons", "len"])
            elif profile == "fill":  name = rng.choice(["pub", "pub", "pub", "cons", "len"])
            elif profile == "drain": name = "pub" if (t == 0 and k < 3) else rng.choice(["cons", "cons", "cons", "pub", "len"])
            elif profile == "pc":    name = "pub" if t % 2 == 0 else "cons"
            elif profile == "contend_full":  name = "pub" if t < nthreads - 1 else rng.choice(["cons", "len"])
            else:                    name = "cons" if t < nthreads - 1 else rng.choice(["pub", "len"])
            prog.append((name, [100 * (t + 1) + k] if name == "pub" else []))
        progs.append(prog)
    total = sum(len(p) for p in progs)
    sched = random_sched(rng, nthreads, rng.randint(0, total * 5), burst=rng.choice([0.3, 0.6, 0.85]))
    # then everybody runs to completion, round robin
    for _ in range(6 * max_ops + 8):
        sched += list(range(nthreads))
    return mk_case(N, origin, progs, sched, {"profile": profile}, kind=kind)

# ------------------------------------------------------------------------------------------- oracles
def call_intervals(recs):
    """per completed operation: dict(tid, first=index of first access, last=index of ret, code, a, b)"""
    open_, calls = {}, []
    for i, r in enumerate(recs):
        if r[0] == "acc":
            open_.setdefault(r[1], i)
        elif r[0] == "ret":
            t = r[1]
            calls.append(dict(tid=t, first=open_.pop(t, i), last=i, code=r[2], a=r[3], b=r[4]))
    return calls, open_

def oracle_exactly_once(case, recs):
    """C01 on the observable history: yielded is a prefix of accepted (in lock-step traces returns are logged at the
    linearisation access), nothing invented, nothing twice"""
    acc = [r[3] for r in recs if r[0] == "ret" and r[2] == 1]
    yld = [r[3] for r in recs if r[0] == "ret" and r[2] == 3]
    hits = []
    if yld != acc[:len(yld)]:
        hits.append((None, "yielded %s is not a prefix of accepted %s" % (yld, acc)))
    sent = [a[0] for p in case.meta["progs"] for n, a in p if n == "pub"]
    for r in recs:
        if r[0] == "ret" and r[2] == 0 and r[3] not in sent:
            hits.append((None, "rejected send handed back %d which was never given to it" % r[3]))
    for r in recs:
        if r[0] == "panic": hits.append((None, "panic (kind %d) in thread %d" % (r[2], r[1])))
    return hits

def timeline(case, recs):
    """state after each record: (pending = accepted - yielded, set of threads with a send in progress, set of threads with a
    consume in progress).  An operation is in progress from its first access (the reservation) to its return."""
    progs = case.meta["progs"]
    pos, active = {}, {}
    p = 0; states = []
    for r in recs:
        if r[0] == "acc":
            t = r[1]
            if t not in active:
                k = pos.get(t, 0)
                active[t] = progs[t][k][0] if k < len(progs[t]) else "?"
        elif r[0] == "ret":
            t = r[1]
            if r[2] == 1: p += 1
            if r[2] == 3: p -= 1
            active.pop(t, None); pos[t] = pos.get(t, 0) + 1
        states.append((p, frozenset(t for t, o in active.items() if o == "pub"), frozenset(t for t, o in active.items() if o == "cons")))
    return states

def oracle_fifo_bounds(case, recs):
    """C02 on the observable history: capacity, justified Full answers, justified Empty answers"""
    N = case.meta["N"]
    hits = []
    calls, _ = call_intervals(recs)
    states = timeline(case, recs)
    init = (0, frozenset(), frozenset())
    for (p, _, _) in states:
        if p > N: hits.append((None, "more than N=%d events pending (%d)" % (N, p))); break
    for c in calls:
        lo, hi, t = c["first"], c["last"], c["tid"]
        window = [states[i] if i >= 0 else init for i in range(lo - 1, hi + 1)]
        if c["code"] == 0:
            # Full: at some instant of the call N slots were taken by accepted-unreceived events or by OTHER sends in progress
            if not any(p + len(snd - {t}) >= N for (p, snd, _) in window):
                hits.append((None, "send of thread %d rejected as full although fewer than N=%d slots were taken at every instant of the call" % (t, N)))
        if c["code"] == 2:
            if not any(p == 0 for (p, _, _) in window):
                other = any(len(cns - {t}) > 0 for (_, _, cns) in window)
                hits.append(("C02.ring.spurious_empty" if other else None,
                             "poll of thread %d answered empty although the queue held an accepted event at every instant of the call%s"
                             % (t, " (another consumer held a reservation meanwhile)" if other else "")))
    return hits

def nontrivial_window(case, recs):
    """a context switch inside a reserve->publish or reserve->release window and at least one full or empty answer"""
    holders = set(); switch = False; last = None
    for r in recs:
        if r[0] == "acc":
            t = r[1]
            if last is not None and last != t and (holders - {t} or t in holders and last in holders): switch = True
            if r[3] == 2: holders.add(t)          # fetch_add = reservation
            last = t
        elif r[0] == "ret":
            holders.discard(r[1])
    fe = any(r[0] == "ret" and r[2] in (0, 2) for r in recs)
    return switch and fe

def oracle_reject_neutral(case, recs):
    """C16 on the observable history of a ring: a rejected send takes 3 accesses plus 2 per lost recede race (and only another
    producer's reservation makes it lose one); when everything is over no reservation is left behind"""
    hits = []
    calls, open_ = call_intervals(recs)
    if case.meta.get("kind", "ring") == "ring":
        for c in calls:
            if c["code"] == 0:
                accs = [r for r in recs[c["first"]:c["last"]] if r[0] == "acc" and r[1] == c["tid"]]
                failed = [r for r in accs if r[3] == 3 and r[6] == 0]
                if len(accs) != 3 + 2 * len(failed):
                    hits.append((None, "rejected send of thread %d took %d accesses with %d lost recede races" % (c["tid"], len(accs), len(failed))))
        fin = recs[-1][1] if recs and recs[-1][0] == "final" else None
        done = all(any(r[0] == "skip" and r[1] == t for r in recs[-2 * len(case.meta["progs"]):]) for t in range(len(case.meta["progs"])))
        if fin and done and len(fin) >= 4 and not (fin[2] == fin[1] and fin[3] == fin[0]):
            hits.append((None, "reservation counters did not return to the published ones at quiescence: head=%d tail=%d enqueuer_tail=%d dequeuer_head=%d" % tuple(fin[:4])))
    return hits
