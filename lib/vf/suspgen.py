"""C20: a producer suspended between reserving its slot and publishing it (what send_with_async does while its setter is pending).
Ring level (lock-step, existing ring / full-sync ring models): thread 0 is granted exactly the steps that take it to the
suspension point, then is not scheduled during a window in which the others run (with many round-robin rounds at its end), then
(sometimes) resumes. Channel level (free-running, oracle-only): the real send_with_async with a setter that waits for a flag."""
from .driver import Case
from . import ringgen
from .ringgen import random_sched

HEADER = ringgen.HEADER

def gen_parked(rng, kind):
    N = rng.choice([2, 4, 8])
    nthreads = rng.randint(2, 4)
    # some events already in the queue, sent and partly consumed by thread 1 before thread 0 starts
    pre_pub = rng.randint(0, N - 1); pre_cons = rng.randint(0, pre_pub)
    progs = [[("pub", [7])]]
    for t in range(1, nthreads):
        p = []
        if t == 1: p += [("pub", [50 + j]) for j in range(pre_pub)] + [("cons", [])] * pre_cons
        for _ in range(rng.randint(1, 4)): p.append(rng.choice([("pub", [100 * t + len(p)]), ("cons", []), ("cons", []), ("len", [])]))
        progs.append(p)
    pre_steps = (pre_pub * 4 + pre_cons * 4) if kind == "ring" else (pre_pub * 2 + pre_cons * 2)
    sched = [1] * pre_steps
    sched += [0] * (2 if kind == "ring" else 1)            # ring: fetch_add + head.load -> parked before the slot write ; full-sync: flag taken
    w0 = len(sched)
    others = list(range(1, nthreads))
    sched += [others[x] for x in random_sched(rng, len(others), rng.randint(0, 30), burst=rng.choice([0.3, 0.6, 0.85]))]
    for _ in range(30): sched += others
    w1 = len(sched)
    resume = rng.random() < 0.6
    if resume:
        sched += [0] * 4
        for _ in range(30): sched += list(range(nthreads))
    return ringgen.mk_case(N, 0, progs, sched, {"profile": "parked", "window": (w0, w1), "resume": resume, "pre_steps": pre_steps}, kind=kind)

def parse_case_line(line):
    c = ringgen.parse_case_line(line)
    sched = c.meta["sched"]
    # recover the window: thread 0's first run of grants ends the set-up; the window lasts until thread 0 is granted again
    i = 0
    while i < len(sched) and sched[i] != 0: i += 1
    j = i
    while j < len(sched) and sched[j] == 0: j += 1
    k = j
    while k < len(sched) and sched[k] != 0: k += 1
    c.meta.update({"profile": "parked", "window": (j, k), "resume": k < len(sched), "pre_steps": i})
    return c

def oracle_parked(case, recs):
    """while thread 0 stays suspended every other operation completes; what is in progress when the window (which ends with 30
    round-robin rounds over the other threads) closes is blocked"""
    hits = []
    kind = case.meta["kind"]; w0, w1 = case.meta["window"]; progs = case.meta["progs"]
    RING = "C20.movable_atomic.later_sends_spin_behind_suspended_reservation"
    FS = "C20.movable_full_sync.flag_held_across_the_suspension"
    # records are one access (or skip) per grant plus result records: walk grant by grant
    g = -1; inprog = {}; nxt = {t: 0 for t in range(len(progs))}; parked_ok = False; state_at_close = None
    for r in recs:
        if r[0] in ("acc", "skip"):
            g += 1
            if g == w1 and state_at_close is None: state_at_close = dict(inprog)
            if r[0] == "acc":
                t = r[1]
                if t not in inprog and nxt[t] < len(progs[t]): inprog[t] = (progs[t][nxt[t]], 0, [])
                if t in inprog: inprog[t] = (inprog[t][0], inprog[t][1] + 1, (inprog[t][2] + [r])[-3:])
        elif r[0] == "ret":
            t = r[1]
            if t in inprog: del inprog[t]; nxt[t] += 1
        elif r[0] == "panic": hits.append((None, "panic in thread %d" % r[1]))
    if state_at_close is None: state_at_close = dict(inprog)
    if 0 not in state_at_close: return hits          # thread 0's send was rejected / finished before the window: nothing is suspended
    for t, (op, steps, last) in state_at_close.items():
        if t == 0: continue
        # the known classes are exactly: (ring) a later send spinning on its publication CAS of `tail` ; (full-sync) a send or a poll
        # spinning on the flag
        spin = lambda loc: len(last) == 3 and all(a[2] == loc and a[3] == 3 and a[6] == 0 for a in last)
        if kind == "ring":
            cls = RING if op[0] == "pub" and spin(1) else None
        else:
            cls = FS if op[0] in ("pub", "cons") and spin(4) else None
        hits.append((cls, "thread %d's %s is still in progress after %d own steps and 30 further rounds while thread 0's send is suspended" % (t, op[0], steps)))
    return hits

def nontrivial_parked(case, recs):
    """thread 0 really is suspended holding a reservation and somebody operates meanwhile"""
    w0, w1 = case.meta["window"]
    g = -1; seen0 = 0; others = 0
    for r in recs:
        if r[0] in ("acc", "skip"):
            g += 1
            if r[0] == "acc" and r[1] == 0 and g < w1: seen0 += 1
            if r[0] == "acc" and r[1] != 0 and w0 <= g < w1: others += 1
    return seen0 >= 1 and others >= 2

# ---- channel level (free-running, oracle only)
KINDS = ["uni_move_atomic", "uni_move_full_sync", "uni_move_crossbeam", "uni_zero_copy_atomic", "uni_zero_copy_full_sync",
         "multi_arc_atomic", "multi_arc_full_sync", "multi_arc_crossbeam", "multi_ogre_arc_atomic", "multi_ogre_arc_full_sync"]

def mk_async(chan, sends, resume, parked=0, pre=0):
    """parked=1: the consumer is a task that parks on Pending and is re-polled only when woken; pre: events already buffered when the
    asynchronous send starts"""
    return Case("async chan=%s sends=%d resume=%d parked=%d pre=%d ; S" % (chan, sends, resume, parked, pre), None,
                {"profile": "async", "chan": chan, "sends": sends, "resume": resume, "parked": parked, "pre": pre})

SAME_THREAD_KINDS = ["uni_move_crossbeam", "uni_zero_copy_atomic", "uni_zero_copy_full_sync"]    # (the movable atomic / full-sync kinds: known finding F12)
def mk_same_thread(chan):
    """one thread of control, as on a current-thread runtime: while the send is suspended the buffer is filled up, the setter is released, and
    the suspended send is polled BEFORE anything was consumed - it must give the thread back; then the stream is drained and the send finishes"""
    return Case("async chan=%s sends=0 resume=1 same=1 ; S" % chan, None, {"profile": "async_same", "chan": chan})

def oracle_same_thread(case, recs):
    hits = []
    r = {c: [x for x in recs if x[0] == "ret" and x[2] == c] for c in (44, 45, 46, 48, 49)}
    if r[46]: return hits
    if not r[48]: return [(None, "the harness produced no result")]
    if not r[48][0][3]: return [(None, "plain sends did not return within 1.5 s while a send_with_async was suspended")]
    n_ok = r[48][0][4]
    if r[49][0][3] == 2: return [(None, "the resumed send_with_async did not give the thread back when it found the buffer full (its poll did not return within 1.5 s): on a current-thread runtime no consumer could ever run")]
    res = r[44][0][3] if r[44] else 0
    got = [x[3] for x in r[45]]
    if res != 1: hits.append((None, "the resumed send_with_async did not complete with Ok although the consumer drained the buffer (code %d)" % res))
    elif sorted(got) != sorted([100 + j for j in range(n_ok)] + [7]): hits.append((None, "accepted %d plain events + the suspended one, delivered %s" % (n_ok, got)))
    return hits

def parse_async_line(line):
    params = dict(kv.split("=") for kv in line.split(";")[0].split()[1:])
    if params.get("same") == "1": return mk_same_thread(params["chan"])
    return mk_async(params["chan"], int(params["sends"]), int(params["resume"]), int(params.get("parked", 0)), int(params.get("pre", 0)))

def oracle_async(case, recs):
    """while one send_with_async is suspended: the other producer's sends return (within 1.5 s), the length query returns, what was
    accepted meanwhile is delivered before the resumption; after the resumption the suspended event is delivered as well"""
    hits = []
    chan = case.meta["chan"]; sends = case.meta["sends"]
    CLS = {"uni_move_atomic": "C20.movable_atomic.later_sends_spin_behind_suspended_reservation",
           "uni_move_full_sync": "C20.movable_full_sync.flag_held_across_the_suspension"}.get(chan)
    r = {c: [x for x in recs if x[0] == "ret" and x[2] == c] for c in (40, 41, 43, 44, 45, 46, 47)}
    if r[46]: return hits                      # the async send did not suspend (no room): nothing to observe
    if not r[40]: return [(None, "the harness produced no result")]
    p_done, n_ok = r[40][0][3], r[40][0][4]
    before = [x[3] for x in r[43]]
    pre = [50 + j for j in range(case.meta.get("pre", 0))]
    if not p_done: hits.append((CLS, "another producer's plain sends did not return within 1.5 s while a send_with_async was suspended (%d of %d accepted)" % (n_ok, sends)))
    if not r[41][0][3]: hits.append((CLS if chan == "uni_move_full_sync" else None, "the length query did not return while a send_with_async was suspended"))
    if p_done and sorted(before) != pre + [100 + j for j in range(n_ok)]:
        hits.append((None, "events accepted while a send_with_async was suspended were not delivered before its resumption: accepted %d, delivered %s" % (n_ok, before)))
    if 7 in before: hits.append((None, "the suspended send's event was delivered before the send was resumed"))
    res = r[44][0][3] if r[44] else 0
    if case.meta["resume"]:
        after = [x[3] for x in r[45]]
        n_ok2 = r[47][0][3] if r[47] else n_ok
        if res != 1: hits.append((None, "the resumed send_with_async did not complete with Ok (code %d)" % res))
        elif 7 not in after: hits.append((None, "the resumed send's event was never delivered (delivered afterwards: %s)" % after))
        allv = before + after
        if sorted(v for v in allv if v != 7) != pre + [100 + j for j in range(n_ok2)]: hits.append((None, "accepted plain events %d, delivered %s" % (n_ok2, allv)))
        if len(set(allv)) != len(allv): hits.append((None, "an event was delivered twice: %s" % allv))
    return hits
