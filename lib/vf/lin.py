"""Wing-Gong style linearizability check of a complete timestamped history against a sequential specification."""
import sys

def linearizable(ops, init, apply):
    """ops: list of dicts(inv, ret, op, res); apply(state, op) -> (state', res); state must be hashable. Returns True/False."""
    n = len(ops)
    ops = sorted(ops, key=lambda o: o["inv"])
    sys.setrecursionlimit(10000)
    seen = set()
    def go(done, state):
        if done == (1 << n) - 1: return True
        key = (done, state)
        if key in seen: return False
        seen.add(key)
        # an operation may be linearised next if no other pending operation returned before it was invoked
        min_ret = min(ops[i]["ret"] for i in range(n) if not done >> i & 1)
        for i in range(n):
            if done >> i & 1: continue
            if ops[i]["inv"] > min_ret: continue
            st2, res = apply(state, ops[i]["op"])
            if res == ops[i]["res"] and go(done | 1 << i, st2): return True
        return False
    return go(0, init)

def lifo_spec(N):
    def apply(state, op):
        if op[0] == "push":
            if len(state) >= N: return state, ("full", op[1])
            return state + (op[1],), ("pushed", op[1])
        if not state: return state, ("empty", 0)
        return state[:-1], ("popped", state[-1])
    return apply

def fifo_spec(N):
    def apply(state, op):
        if op[0] == "enq":
            if len(state) >= N: return state, ("full", op[1])
            return state + (op[1],), ("ok", op[1])
        if not state: return state, ("empty", 0)
        return state[1:], ("got", state[0])
    return apply
