"""Cases and oracles for the bounded pool allocator (both free lists)."""
from .driver import Case, Suite
from .ringgen import random_sched

HEADER = "From RM Require Import RingModel FullSync PoolRun."

def mk_case(fl, N, origin, progs, sched, meta=None):
    line = "pool fl=%s N=%d origin=%d ; " % (fl, N, origin) + " ; ".join(" ".join(p) for p in progs) + " ; S " + " ".join(map(str, sched))
    coq = "%s %d %d [%s] [%s]%%nat" % ("run_pool_atomic" if fl == "atomic" else "run_pool_fullsync", N, origin,
            "; ".join("[" + "; ".join("PAlloc" if o == "alloc" else "PDealloc" for o in p) + "]" for p in progs), "; ".join(map(str, sched)))
    m = dict(fl=fl, N=N, origin=origin, progs=progs, sched=sched)
    m.update(meta or {})
    return Case(line, coq, m)

def parse_case_line(line):
    secs = [s.strip() for s in line.split(";")]
    params = dict(kv.split("=") for kv in secs[0].split()[1:])
    progs, sched = [], []
    for sec in secs[1:]:
        if sec.startswith("S ") or sec == "S": sched = [int(x) for x in sec[1:].split()]
        else: progs.append(sec.split())
    return mk_case(params["fl"], int(params["N"]), int(params.get("origin", 0)), progs, sched)

def gen_case(rng, fl, Ns=(2, 4, 8), origin=0):
    N = rng.choice(Ns); nthreads = rng.randint(2, 4)
    profile = rng.choice(["mixed", "exhaust", "churn"])
    progs = []
    for t in range(nthreads):
        n = rng.randint(2, 7); p = []
        for k in range(n):
            if profile == "exhaust": p.append("alloc" if k < n - 2 else rng.choice(["dealloc", "dealloc_ref"]))
            elif profile == "churn": p.append("alloc" if k % 2 == 0 else rng.choice(["dealloc", "dealloc_ref"]))
            else: p.append(rng.choice(["alloc", "alloc", "dealloc", "dealloc_ref"]))
        progs.append(p)
    total = sum(len(p) for p in progs)
    sched = random_sched(rng, nthreads, rng.randint(0, total * 5), burst=rng.choice([0.3, 0.6, 0.85]))
    for _ in range(6 * 7 + 8): sched += list(range(nthreads))
    return mk_case(fl, N, origin, progs, sched, {"profile": profile})

def oracle(case, recs):
    """exclusive ownership, bound, justified failure, bijection marker"""
    N = case.meta["N"]; hits = []
    owner = {}
    # an id is owned from the return of its alloc to the START (first access) of its dealloc by the same thread.
    # outcome of every operation, to know which in-progress allocations really take an id (unfinished ones count as taking one)
    progs = case.meta["progs"]; pos = {}; held = {}
    outcome = {}; cnt = {}
    for r in recs:
        if r[0] == "ret":
            t = r[1]; outcome[(t, cnt.get(t, 0))] = r[2]; cnt[t] = cnt.get(t, 0) + 1
    timeline = []
    active = {}
    for i, r in enumerate(recs):
        if r[0] == "acc":
            t = r[1]
            if t not in active:
                k = pos.get(t, 0)
                op = progs[t][k] if k < len(progs[t]) else "?"
                if op == "alloc" and outcome.get((t, k), 3) != 3: op = "alloc_fails"
                active[t] = op
                if op.startswith("dealloc") and held.get(t):
                    v = held[t].pop(); owner.pop(v, None)           # given back from here on
        elif r[0] == "ret":
            t = r[1]; pos[t] = pos.get(t, 0) + 1; active.pop(t, None)
            if r[2] == 3:
                v = r[3]
                if not (0 <= v < N): hits.append((None, "alloc returned id %d outside the pool" % v))
                if v in owner: hits.append((None, "id %d handed to thread %d while thread %d still owns it" % (v, t, owner[v])))
                owner[v] = t; held.setdefault(t, []).append(v)
                if len(owner) > N: hits.append((None, "more than POOL_SIZE ids outstanding"))
        timeline.append((len(owner), sum(1 for o in active.values() if o.startswith("dealloc")), sum(1 for o in active.values() if o == "alloc"),
                         sum(1 for o in active.values() if o == "alloc_fails")))
    # failure justified: at some instant of the call all N ids were owned or in transit (being deallocated, or being taken by an
    # allocation that succeeds)
    first = {}
    for i, r in enumerate(recs):
        if r[0] == "acc": first.setdefault(r[1], i)
        elif r[0] == "ret":
            t = r[1]; lo = first.pop(t, i)
            if r[2] == 2:
                window = timeline[max(lo - 1, 0):i + 1]
                if not any(o + d + a >= N for (o, d, a, f) in window):
                    other = any(f - 1 > 0 for (o, d, a, f) in window)
                    cls = "C13.freelist.spurious_empty" if (case.meta["fl"] == "atomic" and other) else None
                    hits.append((cls, "alloc of thread %d failed although a slot was free at every instant of the call%s" % (t, " (another allocation was overshooting meanwhile)" if other else "")))
    if recs and recs[-1][0] == "final" and -777 in recs[-1][1]:
        hits.append((None, "id <-> reference conversion is not a bijection onto the pool"))
    for r in recs:
        if r[0] == "panic": hits.append((None, "panic in thread %d" % r[1]))
    return hits

def nontrivial(case, recs):
    sw = False; last = None; active = set()
    for r in recs:
        if r[0] == "acc":
            t = r[1]
            if last is not None and last != t and active - {t}: sw = True
            active.add(t); last = t
        elif r[0] == "ret": active.discard(r[1])
    return sw and any(r[0] == "ret" and r[2] in (2, 5) for r in recs)


# ---- payload with a destructor (C05): the payload's Drop is a scheduling point; dealloc = drop_in_place, then the id goes back to the free list
def mk_drop_case(fl, N, progs, sched, meta=None):
    line = "pool fl=%s N=%d dropper=1 ; " % (fl, N) + " ; ".join(" ".join(p) for p in progs) + " ; S " + " ".join(map(str, sched))
    coq = "%s %d [%s] [%s]%%nat" % ("run_pooldrop_atomic" if fl == "atomic" else "run_pooldrop_fullsync", N,
            "; ".join("[" + "; ".join("PAlloc" if o == "alloc" else "PDealloc" for o in p) + "]" for p in progs), "; ".join(map(str, sched)))
    m = dict(fl=fl, N=N, progs=progs, sched=sched, profile="pooldrop"); m.update(meta or {})
    return Case(line, coq, m)

def parse_drop_case_line(line):
    secs = [s.strip() for s in line.split(";")]
    params = dict(kv.split("=") for kv in secs[0].split()[1:])
    progs, sched = [], []
    for sec in secs[1:]:
        if sec.startswith("S ") or sec == "S": sched = [int(x) for x in sec[1:].split()]
        else: progs.append(sec.split())
    return mk_drop_case(params["fl"], int(params["N"]), progs, sched)

def gen_drop_case(rng, fl):
    """pool (almost) exhausted, so that the slot being released is the next one handed out; allocations racing with the release"""
    N = rng.choice([2, 4]); nthreads = rng.randint(2, 3)
    progs = []
    for t in range(nthreads):
        p = ["alloc"] * rng.randint(1, max(1, N // nthreads + 1))
        for _ in range(rng.randint(1, 4)): p.append(rng.choice(["dealloc", "dealloc", "alloc", "dealloc_ref"]))
        p += ["alloc"] * rng.randint(0, 2)
        progs.append(p)
    total = sum(len(p) for p in progs)
    sched = random_sched(rng, nthreads, rng.randint(total * 2, total * 7), burst=rng.choice([0.3, 0.6, 0.85]))
    for _ in range(6 * 8 + 8): sched += list(range(nthreads))
    return mk_drop_case(fl, N, progs, sched)

def oracle_drop(case, recs):
    """a pool slot is not handed to a new allocation before the destructor of its previous payload has run (and that runs exactly once per release)"""
    hits = []
    progs = case.meta["progs"]
    state = {}          # id -> "owned" | "releasing" (dealloc started, destructor not yet run) | "free"
    pos = {t: 0 for t in range(len(progs))}; held = {t: [] for t in range(len(progs))}; started = {}
    for r in recs:
        if r[0] == "acc":
            t = r[1]
            if t not in started and pos[t] < len(progs[t]):
                op = progs[t][pos[t]]; started[t] = op
                if op.startswith("dealloc") and held[t]:
                    i = held[t][-1]; state[i] = "releasing"
            if r[3] == 18:
                i = r[2] - 400
                if state.get(i) != "releasing": hits.append((None, "the destructor of the payload in slot %d ran although that slot is not being released (state %s)" % (i, state.get(i))))
                state[i] = "destroyed"
        elif r[0] == "ret":
            t = r[1]; op = started.pop(t, None); pos[t] += 1
            if r[2] == 3:
                i = r[3]
                if state.get(i) in ("releasing", "owned"):
                    hits.append((None, "slot %d was handed to a new allocation %s" % (i, "before the destructor of its previous payload ran" if state.get(i) == "releasing" else "while it is owned")))
                state[i] = "owned"; held[t].append(i)
            elif r[2] == 1:
                i = r[3]
                if held[t] and held[t][-1] == i: held[t].pop()
                if state.get(i) == "releasing": hits.append((None, "slot %d went back to the free list without its payload's destructor having run" % i))
                if state.get(i) == "destroyed": state[i] = "free"
        elif r[0] == "panic": hits.append((None, "panic in thread %d" % r[1]))
    return hits[:3]
