"""Cases and oracles for the stand-alone stacks."""
from .driver import Case, Suite
from .ringgen import random_sched, call_intervals
from . import lin

HEADER = "From RM Require Import Util Stack."

def coq_op(op):
    n, a = op
    return {"push": "SPush %d" % (a[0] if a else 0), "pop": "SPop", "len": "SLen"}[n]

def mk_case(impl, N, progs, sched, meta=None):
    line = "stack impl=%s N=%d ; " % (impl, N) + " ; ".join(" ".join(n if not a else "%s:%d" % (n, a[0]) for n, a in p) for p in progs) + " ; S " + " ".join(map(str, sched))
    coq = "run_stack %d [%s] [%s]%%nat" % (N, "; ".join("[" + "; ".join(coq_op(o) for o in p) + "]" for p in progs), "; ".join(map(str, sched)))
    m = dict(impl=impl, N=N, progs=progs, sched=sched); m.update(meta or {})
    return Case(line, coq, m)

def parse_case_line(line):
    secs = [s.strip() for s in line.split(";")]
    params = dict(kv.split("=") for kv in secs[0].split()[1:])
    progs, sched = [], []
    for sec in secs[1:]:
        if sec.startswith("S ") or sec == "S": sched = [int(x) for x in sec[1:].split()]
        else: progs.append([(tok.split(":")[0], [int(x) for x in tok.split(":")[1:]]) for tok in sec.split()])
    if "ops" in params: return mk_stress(params["impl"], int(params["N"]), int(params["T"]), int(params["ops"]), int(params["seed"]))
    return mk_case(params["impl"], int(params["N"]), progs, sched)

def gen_case(rng, impl, Ns=(2, 4, 8), lockstep=True, max_ops=5):
    N = rng.choice(Ns); nthreads = rng.randint(2, 4)
    progs = []
    for t in range(nthreads):
        n = rng.randint(1, max_ops) if lockstep else 14
        kinds = ["push", "push", "pop", "pop"] + (["len"] if lockstep else [])
        progs.append([(k, [100 * (t + 1) + j] if k == "push" else []) for j, k in enumerate(rng.choice(kinds) for _ in range(n))])
    sched = []
    if lockstep:
        total = sum(len(p) for p in progs)
        sched = random_sched(rng, nthreads, rng.randint(0, total * 4), burst=rng.choice([0.3, 0.6, 0.85]))
        for _ in range(3 * max_ops + 6): sched += list(range(nthreads))
    return mk_case(impl, N, progs, sched)

def mk_stress(impl, N, T, ops, seed):
    """free-running: T threads, `ops` operations each in bursts of pushes / pops of unique values on a stack of capacity N, then a drain"""
    return Case("stack impl=%s N=%d T=%d ops=%d seed=%d ; S" % (impl, N, T, ops, seed), None, dict(impl=impl, N=N, T=T, ops=ops, seed=seed, profile="stress"))

def oracle_stress(case, recs):
    """conservation: every accepted push is returned exactly once (by a pop or by the final drain), nothing else is returned, no panic"""
    hits = []
    r = {x[2]: (x[3], x[4]) for x in recs if x[0] == "ret"}
    for x in recs:
        if x[0] == "panic": hits.append((None, "a stack operation panicked in thread %d (index out of range / arithmetic underflow)" % x[1]))
    if 31 in r:
        acc, ret = r[31]; twice, never = r[32]
        if twice: hits.append((None, "%d elements were returned twice" % twice))
        if never: hits.append((None, "%d returned elements were never pushed" % never))
        if acc != ret: hits.append((None, "%d pushes were accepted but %d elements came back (pops + final drain): elements were lost or duplicated" % (acc, ret)))
    elif not hits: hits.append((None, "no result"))
    return hits

def history_of(case, recs):
    """-> list of dicts(inv, ret, op, res) from a lock-step trace or a free-running log"""
    names = {20: "pushed", 21: "full", 22: "popped", 23: "empty"}
    ops = []
    if any(r[0] == "op" for r in recs):
        for r in recs:
            if r[0] == "op":
                ops.append(dict(inv=r[6], ret=r[7], op=("push", r[3]) if r[2] == 0 else ("pop", 0), res=(names[r[4]], r[5])))
        return ops
    calls, _ = call_intervals(recs)
    progs = case.meta["progs"]; pos = {}
    for c in sorted(calls, key=lambda c: c["last"]):
        t = c["tid"]; k = pos.get(t, 0); pos[t] = k + 1
        name, a = progs[t][k]
        if name == "len": continue
        ops.append(dict(inv=c["first"], ret=c["last"], op=(name, a[0] if a else 0), res=(names[c["code"]], c["a"])))
    return ops

def oracle(case, recs):
    hits = []
    ops = history_of(case, recs)
    if len(ops) <= 64 and not lin.linearizable(ops, (), lin.lifo_spec(case.meta["N"])):
        hits.append((None, "history is not linearizable as a bounded LIFO stack of capacity %d: %s" % (case.meta["N"], [(o["op"], o["res"]) for o in sorted(ops, key=lambda o: o["inv"])])))
    for r in recs:
        if r[0] == "panic": hits.append((None, "panic in thread %d" % r[1]))
    return hits

def nontrivial(case, recs):
    ops = history_of(case, recs)
    overlap = any(a["inv"] < b["ret"] and b["inv"] < a["ret"] for i, a in enumerate(ops) for b in ops[i + 1:])
    return overlap and any(o["res"][0] in ("full", "empty") for o in ops)
