"""What MANIFEST.json claims, per property (bin/gen_manifest turns this into MANIFEST.json)."""
NOTES = ("All checks: Coq theorems about hand-written executable models + a lock-step correspondence run of model vs /repo on every invocation. "
         "See DESIGN.md for the trusted base and for which checks catch which seeded changes.")
NOT_CLAIMED = {}
CLAIMS = {
 "C01": {
  "text": "Theorems (Coq, no axioms) about the executable one-access-per-step model of the lock-free ring: for every schedule, every operation sequence, any number of threads and any N>0 the values yielded are exactly a prefix of the values accepted (exactly once, in order, nothing invented), pending = accepted - yielded, every response belongs to its call (a rejected payload is handed back unchanged), plain slot accesses are exclusive. The model is tied to the code on every run by lock-step equality of access/result traces on generated programs and schedules.",
  "note": "Trusted: Coq kernel + vm_compute, the hand-written model, the harness and the `verif` shim, SC interleaving semantics. Partial: proved for the ring under the movable atomic Uni channel; the other Uni kinds are covered as their models land (see evidence suites).",
 },
 "C02": {
  "text": "Theorems (Coq, no axioms): lock-free ring - FIFO (yielded = prefix of accepted, in linearisation order), capacity (tail-head <= N), a 'full' answer is justified by N slot ids each accepted-unreleased or held by another send in progress (coverage invariant), an 'empty' answer is exact unless another consumer holds a lower un-receded reservation; that exception is a proven refutation (C02_ring_empty_refuted, finding F5, listed as known finding). Full-sync ring: mutual exclusion, capacity, EXACT full/empty. Tied to the code by lock-step trace equality on the two rings and the two movable Uni channels every run.",
  "note": "Trusted: Coq kernel + vm_compute, hand-written models, harness + verif shim, SC semantics; the oracle's reading of 'full at some instant' is the property's own enumeration of slot holders. The crossbeam / zero-copy Uni channels are not yet in a lock-step suite.",
 },
 "C04": {
  "text": "Theorem (Coq, no axioms) on the movable full-sync Uni channel machine - the very model the lock-step correspondence runs against the code: for every schedule, any number of producers/length queries/cancel_all callers, every MAX_STREAMS and every 0<k<=MAX_STREAMS task-driven streams, the state 'all producers returned, events pending, every stream parked and un-notified' is unreachable (inductive invariant WInv, 700 lines). For the movable atomic (lock-free ring) channel the property is REFUTED by two vm_compute witnesses (F1 overlapping sends, F13 two streams / one send) which are replayed on the implementation every run and listed as known findings; any lost wake-up outside those classes (in particular any on the full-sync channel, or with one stream and serial sends on the atomic one) is reported as a violation.",
  "note": "Partial: proved for the full-sync movable Uni channel with send/send_with; the crossbeam, zero-copy and Multi kinds and the send_with_async / try_send_reserved entry points are not yet in this model. Trusted: harness executor = documented Waker contract (not tokio), SC semantics, plain waker-slot / keep-flag cells treated as atomic per element.",
 },
 "C07": {
  "text": "Theorem (Coq, no axioms) on the same machine: after cancel_all_streams a targeted stream is never left parked un-notified with its keep flag cleared, for every schedule / any number of producers and cancellers / any MAX_STREAMS / any number of task-driven streams (same invariant as C04: the self-wake after storing a waker closes the registration window; buffered events are still yielded first - see the non-vacuity example). Lock-step correspondence on both movable Uni channels with cancel_all in the programs; quiescence oracle on the implementation traces.",
  "note": "Partial: theorem proved for the full-sync instance (the lock-free-ring instance runs the same streams-manager code and is covered by correspondence + oracle); gracefully_end_stream's timed re-wake loop and report_stream_dropped are not in this model; 'untargeted streams unaffected' is not exercised because cancel_all targets every stream.",
 },
}
