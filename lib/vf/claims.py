"""What MANIFEST.json claims, per property (bin/gen_manifest turns this into MANIFEST.json)."""
NOTES = ("All checks: Coq theorems about hand-written executable models + a lock-step correspondence run of model vs /repo on every invocation. "
         "See DESIGN.md for the trusted base and for which checks catch which seeded changes.")
NOT_CLAIMED = {}
CLAIMS = {
 "C01": {
  "text": "Theorems (Coq, no axioms) about the executable one-access-per-step model of the lock-free ring: for every schedule, every operation sequence, any number of threads and any N>0 the values yielded are exactly a prefix of the values accepted (exactly once, in order, nothing invented), pending = accepted - yielded, every response belongs to its call (a rejected payload is handed back unchanged), plain slot accesses are exclusive. The model is tied to the code on every run by lock-step equality of access/result traces on generated programs and schedules.",
  "note": "Trusted: Coq kernel + vm_compute, the hand-written model, the harness and the `verif` shim, SC interleaving semantics. Partial: proved for the ring under the movable atomic Uni channel; the other Uni kinds are covered as their models land (see evidence suites).",
 },
 "C02": {
  "text": "Theorems (Coq, no axioms): lock-free ring - FIFO (yielded = prefix of accepted, in linearisation order), capacity (tail-head <= N), a 'full' answer is justified by N slot ids each accepted-unreleased or held by another send in progress (coverage invariant), an 'empty' answer is exact unless another consumer holds a lower un-receded reservation; that exception is a proven refutation (C02_ring_empty_refuted, finding F5, listed as known finding). Full-sync ring: mutual exclusion, capacity, EXACT full/empty. Tied to the code by lock-step trace equality on the two rings and the two movable Uni channels every run.",
  "note": "Trusted: Coq kernel + vm_compute, hand-written models, harness + verif shim, SC semantics; the oracle's reading of 'full at some instant' is the property's own enumeration of slot holders. The crossbeam / zero-copy Uni channels are not yet in a lock-step suite.",
 },
}
