"""What MANIFEST.json claims, per property (bin/gen_manifest turns this into MANIFEST.json)."""
NOTES = ("All checks: Coq theorems about hand-written executable models + a lock-step correspondence run of model vs /repo on every invocation. "
         "See DESIGN.md for the trusted base and for which checks catch which seeded changes.")
NOT_CLAIMED = {}
CLAIMS = {
 "C01": {
  "text": "Theorems (Coq, no axioms) about the executable one-access-per-step model of the lock-free ring: for every schedule, every operation sequence, any number of threads and any N>0 the values yielded are exactly a prefix of the values accepted (exactly once, in order, nothing invented), pending = accepted - yielded, every response belongs to its call (a rejected payload is handed back unchanged), plain slot accesses are exclusive. The model is tied to the code on every run by lock-step equality of access/result traces on generated programs and schedules.",
  "note": "Trusted: Coq kernel + vm_compute, the hand-written model, the harness and the `verif` shim, SC interleaving semantics. Partial: proved for the ring under the movable atomic Uni channel; the other Uni kinds are covered as their models land (see evidence suites).",
 },
}
