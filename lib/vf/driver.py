"""Generic check driver: obligations (Coq) + correspondence (model vs implementation) + oracles + known findings."""
import os, sys, time, json, random, hashlib, traceback
from . import core
from .core import CheckError

class Case:
    """one correspondence case: `line` goes to the Rust harness, `coq` is the model term (list Z), meta is free-form"""
    def __init__(self, line, coq, meta=None, header=None):
        self.line, self.coq, self.meta = line, coq, (meta or {})
        self.impl = None; self.model = None
    def key(self): return hashlib.sha1(self.line.encode()).hexdigest()

class Suite:
    """a family of cases sharing one model header (the Require lines)"""
    def __init__(self, name, header, cases, binary_opts=None, compare=True, runner=None):
        self.name, self.header, self.cases = name, header, cases
        self.binary_opts = binary_opts or {}
        self.compare = compare
        self.runner = runner          # optional: (lines, binary) -> list of int lists, instead of core.run_impl

class Prop:
    pid = "C00"; prop_file = None; allowed_axioms = (); design_ref = ""
    trusted_base = []; assumptions = []; rule = ""
    def suites(self, tier, rng): return []
    def search_suites(self, tier, rng): return self.suites("thorough", rng)
    def oracle(self, case, recs): return []      # list of (class_id, text); class_id None = unclassified
    def nontrivial(self, case, recs): return True
    def corpus(self): return []                   # list of (name, Case, expected_class or None)
    def extra_obligations(self): return []        # list of (name, ok, detail)
    def parse_replay(self, text): raise CheckError("replay not supported")

COMMON_TB = [
    "Coq 8.16.1 kernel; vm_compute used for Example/witness goals and for evaluating the model on correspondence cases; no native_compute",
    "hand-written Gallina models of the code (coq/theories); their tie to /repo is the lock-step correspondence check of this run, which compares every shared access (thread, cell, kind, value seen, value written, outcome) and every operation result of the implementation with the model's on the same programs and schedule",
    "Rust harness (/verif/harness) + the add-only `verif` feature of /repo (src/verif.rs shim atomics, yield points); compare_exchange_weak runs as the strong version under the hook",
    "sequentially consistent interleaving semantics: weak-memory effects of the Relaxed/Acquire/Release arguments, torn reads and compiler reordering are outside the model",
    "Python orchestration, case generators and oracles (/verif/lib/vf)",
]

def _obligations(prop):
    obl = []
    ok, log = core.coq_build()
    obl.append(("coq: full .vo build of the development (make)", ok, "" if ok else log[-3000:]))
    bad = core.coq_scan()
    obl.append(("coq: no Admitted/admit/Axiom/Parameter/Conjecture/guard switches in the development", not bad, "; ".join(bad)))
    theorems = []
    if ok and prop.prop_file:
        files = prop.prop_file if isinstance(prop.prop_file, (list, tuple)) else [prop.prop_file]
        for pf in files:
            try:
                assum, ths = core.coq_props(pf)
                for th in ths:
                    extra = [a for a in assum[th] if a not in prop.allowed_axioms]
                    obl.append(("theorem %s (props/%s): checked, axioms %s" % (th, pf, assum[th] or "none"), not extra,
                                "unexpected axioms: %s" % extra if extra else ""))
                    theorems.append(th)
            except CheckError as e:
                obl.append(("props/%s compiles" % pf, False, str(e)))
    for name, okx, detail in prop.extra_obligations():
        obl.append((name, okx, detail))
    return obl, theorems

def _run_suite(prop, suite, stats):
    """fills case.impl / case.model; returns (divergences, oracle_hits)"""
    binary = core.harness_build(**suite.binary_opts)
    impl = (suite.runner or core.run_impl)([c.line for c in suite.cases], binary)
    # (cases of a kind that has no lock-step model carry no model term: they are judged by the oracles only)
    with_model = [c for c in suite.cases if c.coq is not None] if suite.compare else []
    tag = "".join(ch if ch.isalnum() else "_" for ch in suite.name)
    mres = core.run_model([c.coq for c in with_model], suite.header, prop.pid + "_" + tag) if with_model else []
    mmap = {id(c): m for c, m in zip(with_model, mres)}
    model = [mmap.get(id(c)) for c in suite.cases]
    div, hits = [], []
    for c, i, m in zip(suite.cases, impl, model):
        c.impl, c.model = i, m
        stats["evaluations"] += 1
        if i is None:
            # twice (in a batch, then alone in a fresh process) the implementation did not come back from this case within the harness's
            # limits: an operation that blocks for ever on this very input - a concrete failing input
            div.append((c, "the harness died on this case"))
            hits.append((c, None, "the implementation did not come back from this case (twice: in a batch, then alone in a fresh process): some operation never returns"))
            continue
        if len(i) == 3 and i[0] == 3 and i[2] >= 128:
            # the implementation (inside the harness process) was killed by a signal on this very input: a concrete failing input
            div.append((c, "the process crashed on this case"))
            hits.append((c, None, ("the implementation crashed (killed by signal %d: memory fault / abort) while running this case" % (i[2] - 128)) if i[2] < 1000 else
                                  ("the harness process died with exit status %d while running this case (101: a panic that no operation-level catch could contain, e.g. in a stream task or a destructor)" % (i[2] - 1000))))
            continue
        if suite.compare and c.coq is not None:
            d = core.first_divergence(c.norm(i) if getattr(c, "norm", None) else i, m)
            if d is not None:
                div.append((c, "record #%d: implementation %s / model %s" % d))
            else:
                stats["traces_validated"] += 1
        recs = core.parse_trace(i)
        for cls, text in prop.oracle(c, recs):
            hits.append((c, cls, text))
        try:
            if prop.nontrivial(c, recs): stats["nontrivial"].add(c.key())
        except Exception:
            pass
        kinds = stats["dist"]
        for r in recs:
            if r[0] == "ret": kinds["ret_code_%d" % r[2]] = kinds.get("ret_code_%d" % r[2], 0) + 1
            elif r[0] == "acc": kinds["accesses"] = kinds.get("accesses", 0) + 1
            elif r[0] == "skip": kinds["skips"] = kinds.get("skips", 0) + 1
    return div, hits

def check(prop, tier, seed, replay=None):
    t0 = time.time()
    rng = random.Random("%s/%s/%d" % (prop.pid, tier, seed))
    pid = prop.pid
    lines_out = []
    violations = []          # (text, replay_path)
    stats = {"evaluations": 0, "traces_validated": 0, "nontrivial": set(), "dist": {}}
    samples = []
    known = [f for f in core.known_findings().get("findings", []) if f["property"] == pid]
    known_classes = {f["class"] for f in known}
    try:
        obl, theorems = _obligations(prop)
    except Exception as e:
        obl, theorems = [("obligation machinery", False, traceback.format_exc()[-2000:])], []
    failed = [o for o in obl if not o[1]]
    for name, ok, detail in failed:
        path = core.write_replay(pid, "obligation", "proof obligation that no longer checks:\n%s\n%s\n" % (name, detail))
        violations.append(("obligation failed: " + name, path, True))

    diverged, hits = [], []
    suites = []
    try:
        if replay:
            suites = [prop.parse_replay(open(replay).read())]
        else:
            corpus = prop.corpus()
            suites = prop.suites(tier, rng)
        for s in suites:
            d, h = _run_suite(prop, s, stats)
            diverged += [(s, c, why) for c, why in d]; hits += [(s, c, cls, text) for c, cls, text in h]
            for c in s.cases[:2]:
                if len(samples) < 6: samples.append({"suite": s.name, "case": c.line, "trace_len": len(c.impl or [])})
    except CheckError as e:
        path = core.write_replay(pid, "machinery", str(e))
        violations.append(("check machinery failed: " + str(e)[:200], path, True))

    # known findings: each listed witness must still fail the same way on the implementation
    known_seen = set()
    for s, c, cls, text in hits:
        if cls in known_classes: known_seen.add(cls)
    new_hits = [(s, c, cls, text) for s, c, cls, text in hits if cls not in known_classes]
    for s, c, cls, text in new_hits[:1]:
        path = core.write_replay(pid, "oracle", "# property oracle failed on the implementation: %s\n# class: %s\n%s\n" % (text, cls, c.line))
        violations.append(("oracle: " + text, path, False))

    if diverged and not new_hits:
        # the tie between model and code is broken: search the implementation for a concrete failing input
        s, c, why = diverged[0]
        found = None
        try:
            for ss in prop.search_suites(tier, rng):
                ss.compare = False
                d, h = _run_suite(prop, ss, stats)
                h = [(cc, cls, text) for cc, cls, text in h if cls not in known_classes]
                if h: found = h[0]; break
        except CheckError as e:
            pass
        if found:
            cc, cls, text = found
            path = core.write_replay(pid, "search", "# correspondence broke (%s); search found a failing input: %s\n%s\n" % (why, text, cc.line))
            violations.append(("correspondence broke and the search found a failing input: " + text, path, False))
        else:
            path = core.write_replay(pid, "correspondence",
                "# the lock-step correspondence between the Coq model and the implementation no longer checks\n"
                "# suite: %s\n# %s\n# theorems of %s are therefore no longer tied to this code\n%s\n" % (s.name, why, prop.prop_file, c.line))
            violations.append(("correspondence broke (%s): %s" % (s.name, why), path, True))

    if not replay:
        for f in known:
            if f["class"] in known_seen:
                lines_out.append("KNOWN-FINDING: property=%s %s [%s]" % (pid, f["what"], f["class"]))
            else:
                lines_out.append("note: listed finding %s did not reproduce in this run" % f["class"])

    concrete = [v for v in violations if not v[2]]
    for text, path, nofail in violations:
        if nofail and concrete:
            # a theorem / correspondence no longer checks AND a concrete failing input was found: point at that input
            with open(path, "a") as f: f.write("# failing input found by the same run: see %s\n%s\n" % (concrete[0][1], open(concrete[0][1]).read()))
            nofail = False
        lines_out.append("VIOLATION property=%s replay=%s%s" % (pid, path, " no-failing-input-found" if nofail else ""))
        lines_out.append("  detail: " + text[:400])

    coverage = {
        "obligations": len(obl), "discharged": len([o for o in obl if o[1]]),
        "theorems": theorems,
        "obligation_list": [o[0] for o in obl],
        "checker_cmd": "make -C /verif/coq (coqc 8.16.1, full .vo build) + coqc props/%s with Print Assumptions; bin/setup also runs coqchk -o -silent" % (prop.prop_file,),
        "trusted_base": COMMON_TB + list(prop.trusted_base),
        "evaluations": stats["evaluations"], "distinct_nontrivial": len(stats["nontrivial"]),
        "traces_validated_against_impl": stats["traces_validated"],
        "rule": prop.rule, "samples": samples, "input_distribution": stats["dist"],
        "known_findings_replayed": sorted(known_seen),
        "suites": [{"name": s.name, "cases": len(s.cases)} for s in suites],
        "driver_stalls_rerun": len(core.STALLS),
    }
    core.write_evidence(pid, tier, seed, coverage, time.time() - t0, len(violations), list(prop.assumptions))
    for l in lines_out: print(l)
    print("%s %s: %d obligations (%d discharged), %d cases, %d traces equal to the model's, %d violations, %.1fs" % (
        pid, tier, len(obl), coverage["discharged"], stats["evaluations"], stats["traces_validated"], len(violations), time.time() - t0))
    return 1 if violations else 0
