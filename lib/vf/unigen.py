"""Case generators and oracles for the Uni channels (movable atomic / full-sync ...) at the channel level."""
from .driver import Case, Suite
from . import core
from .ringgen import random_sched

HEADER = "From RM Require Import RingModel FullSync Chan."
XHEADER = "From RM Require Import RingModel FullSync Chan Reserve ChanX ChanW ZeroCopy ZcUni ChanZ ChanXb ChanZX."
ZRUNNERS = {"zc_atomic": "ZC.run_uni_zc_atomic", "zc_full_sync": "ZC.run_uni_zc_fullsync"}
ZOPS = ("send", "sendw", "senda", "poll", "drive", "cancel_all", "len")   # (send_with_async with a ready setter: allocation, publication and wake decision of send)
ZXRUNNERS = {"zc_atomic": "run_unizx_atomic", "zc_full_sync": "run_unizx_fullsync"}      # ... with the reserve API (Chan/ChanZX.v)
def coq_zxop(op):
    n, a = op
    if n == "res": return "ZoReserve %d %d" % (a[0], a[1])
    if n == "sres": return "ZoSendRes %d" % a[0]
    if n == "cres": return "ZoCancelRes %d" % a[0]
    return "ZoBase (%s)" % coq_op(op)
def strip_handle_drops(flat):
    """the record [2 t 17 i 0] marks the end of the drop of a payload handle in the harness; the model's release phase has no such record"""
    out = []; i = 0
    from .core import ARITY
    while i < len(flat):
        n = ARITY.get(flat[i], 1)
        if flat[i] == 9: out += flat[i:]; break
        if not (flat[i] == 2 and flat[i + 2] == 17): out += flat[i:i + n]
        i += n
    return out
WRUNNERS = {"move_atomic": "W.run_uni_atomic", "move_full_sync": "W.run_uni_fullsync"}
def coq_wop(op):
    """the machine of Chan/ChanW.v (a task may pass a different waker to each poll): `drivem:i:mask` is a drive whose poll j uses waker bit j of mask"""
    n, a = op
    if n == "drivem": return "W.CoDrive %d" % a[0]
    return "W." + coq_op(op)
def waker_plan(p):
    for n, a in p:
        if n == "drivem": return "[" + "; ".join(str((a[1] >> j) & 1) for j in range(16)) + "]"
    return "[]"
XOPS = ("res", "sres", "cres", "senda")

def coq_op(op):
    n, a = op
    return {"send": "CoSend %d" % (a[0] if a else 0), "sendw": "CoSend %d" % (a[0] if a else 0), "senda": "CoSend %d" % (a[0] if a else 0), "poll": "CoPoll %d" % (a[0] if a else 0),
            "drive": "CoDrive %d" % (a[0] if a else 0), "cancel_all": "CoCancelAll", "len": "CoLen"}[n]

def coq_xop(op):
    n, a = op
    if n == "res": return "XoReserve %d %d" % (a[0], a[1])
    if n == "sres": return "XoSendRes %d" % a[0]
    if n == "cres": return "XoCancelRes %d" % a[0]
    if n == "senda": return "XoSendAsync %d" % a[0]
    return "XoBase (%s)" % coq_op(op)

def coq_bop(op):
    """the crossbeam Uni channel (Chan/ChanXb.v): send / send_with (send_with_async with a ready setter performs the same accesses) are the layer's own operations"""
    n, a = op
    if n == "send": return "BoSend %d" % a[0]
    if n in ("sendw", "senda"): return "BoSendWith %d" % a[0]
    return "BoBase (%s)" % coq_op(op)
BOPS = ("send", "sendw", "senda", "poll", "drive", "cancel_all", "len")

RUNNERS = {"move_atomic": "run_uni_atomic", "move_full_sync": "run_uni_fullsync"}
XRUNNERS = {"move_atomic": "run_unix_atomic"}
ACCEPT_OPS = ("send", "sendw", "senda")
SLOW_KINDS = ("zc_atomic", "zc_full_sync")          # more accesses per operation: longer round-robin tails

def mk_case(chan, N, M, k, origin, progs, sched, meta=None, probe=False):
    line = "uni chan=%s N=%d M=%d k=%d origin=%d%s ; " % (chan, N, M, k, origin, " probe=1" if probe else "") + " ; ".join(
        " ".join(n if not a else n + ":" + ":".join(str(x) for x in a) for n, a in p) for p in progs) + " ; S " + " ".join(map(str, sched))
    ext = any(n in XOPS for p in progs for n, a in p)
    switching = any(n == "drivem" for p in progs for n, a in p)
    if switching and chan in WRUNNERS and not ext and not probe:
        coq = "%s %d %d %d %d [%s] [%s]%%nat [%s]%%nat" % (WRUNNERS[chan], N, M, k, origin,
                "; ".join("[" + "; ".join(coq_wop((("send", a) if n == "senda" else (n, a))) for n, a in p) + "]" for p in progs),
                "; ".join(waker_plan(p) for p in progs), "; ".join(map(str, sched)))
    elif chan in ZRUNNERS and not probe and not switching and all(n in ZOPS for p in progs for n, a in p):
        # the zero-copy Uni channels: machine of Chan/ChanZ.v over the pool + id-ring component of Alloc/ZcUni.v (counters of both rings at `origin`)
        coq = "%s_at %d %d %d %d [%s] [%s]%%nat" % (ZRUNNERS[chan], origin, N, M, k,
                "; ".join("[" + "; ".join(coq_op(o) for o in p) + "]" for p in progs), "; ".join(map(str, sched)))
    elif chan in ZXRUNNERS and not probe and not switching and origin == 0 and all(n in ZOPS + ("res", "sres", "cres") for p in progs for n, a in p):
        # ... and their reserve API: the layer of Chan/ChanZX.v (reserve = allocation, send-reserved = publication of the id, cancel = deallocation)
        coq = "%s %d %d %d [%s] [%s]%%nat" % (ZXRUNNERS[chan], N, M, k,
                "; ".join("[" + "; ".join(coq_zxop(o) for o in p) + "]" for p in progs), "; ".join(map(str, sched)))
    elif chan == "crossbeam" and not probe and not switching and origin == 0 and all(n in BOPS for p in progs for n, a in p):
        # the crossbeam Uni channel: the send entry points of Chan/ChanXb.v over an atomic FIFO (crossbeam's queue, one step per call)
        coq = "run_uni_crossbeam %d %d %d [%s] [%s]%%nat" % (N, M, k,
                "; ".join("[" + "; ".join(coq_bop(o) for o in p) + "]" for p in progs), "; ".join(map(str, sched)))
    elif chan not in RUNNERS or probe or switching:
        coq = None                                                # a kind without a lock-step model: judged by the oracles only
    elif ext and chan in XRUNNERS:
        coq = "%s %d %d %d %d [%s] [%s]%%nat" % (XRUNNERS[chan], N, M, k, origin,
                "; ".join("[" + "; ".join(coq_xop(o) for o in p) + "]" for p in progs), "; ".join(map(str, sched)))
    else:
        # (on the full-sync channel send_with_async with a ready setter performs the accesses of send)
        coq = "%s %d %d %d %d [%s] [%s]%%nat" % (RUNNERS[chan], N, M, k, origin,
                "; ".join("[" + "; ".join(coq_op((("send", a) if n == "senda" else (n, a))) for n, a in p) + "]" for p in progs), "; ".join(map(str, sched)))
    m = dict(chan=chan, N=N, M=M, k=k, origin=origin, progs=progs, sched=sched, probe=probe)
    m.update(meta or {})
    c = Case(line, coq, m)
    if chan in ZRUNNERS and coq is not None: c.norm = strip_handle_drops
    return c

def parse_case_line(line):
    secs = [s.strip() for s in line.split(";")]
    head = secs[0].split()
    params = dict(kv.split("=") for kv in head[1:])
    progs, sched = [], []
    for sec in secs[1:]:
        if sec.startswith("S ") or sec == "S":
            sched = [int(x) for x in sec[1:].split()]
        else:
            progs.append([(tok.split(":")[0], [int(x) for x in tok.split(":")[1:]]) for tok in sec.split()])
    return mk_case(params["chan"], int(params.get("N", 4)), int(params.get("M", 1)), int(params.get("k", 1)), int(params.get("origin", 0)), progs, sched, probe=params.get("probe") == "1")

def gen_case(rng, chan, Ns=(2, 4), Ms=(1, 2), origin=0, profile=None, tail_rounds=40):
    N = rng.choice(Ns); M = rng.choice(Ms); k = rng.randint(1, M)
    nprod = rng.randint(1, 3)
    profile = profile or rng.choice(["drive", "drive", "poll", "cancel"])
    progs = []
    # (the crossbeam kind's send_with may spin until a consumer makes room when another producer fills the buffer meanwhile - documented)
    kinds = ["send"] if (chan == "crossbeam" and nprod > 1) else ["send", "send", "sendw"]
    if chan in SLOW_KINDS: tail_rounds = tail_rounds * 3
    for t in range(nprod):
        n = rng.randint(1, 4)
        progs.append([(rng.choice(kinds), [100 * (t + 1) + j]) for j in range(n)] + ([("len", [])] if rng.random() < 0.3 else []))
    for i in range(k):
        if profile == "poll":
            progs.append([("poll", [i]) for _ in range(rng.randint(1, 5))])
        else:
            progs.append([("drive", [i])])
    if profile == "cancel":
        progs.append([("len", [])] * rng.randint(0, 1) + [("cancel_all", [])])
    nthreads = len(progs)
    total = sum(len(p) for p in progs) + 4 * k
    sched = random_sched(rng, nthreads, rng.randint(0, total * 6), burst=rng.choice([0.3, 0.6, 0.85]))
    for _ in range(tail_rounds):
        sched += list(range(nthreads))
    return mk_case(chan, N, M, k, origin, progs, sched, {"profile": profile})

def gen_preempt_case(rng, chan, Ns=(2, 4), tail_rounds=40):
    """a producer is stopped after its first 1..6 accesses; meanwhile a second producer and an executor-driven stream push BUFFER_SIZE
    (or a few more) complete send -> yield -> release cycles through the channel, one after the other; then the first producer goes on"""
    N = rng.choice(Ns); M = rng.choice([1, 2]); k = 1
    if chan in SLOW_KINDS: tail_rounds = tail_rounds * 3
    kinds = ["send"] if chan == "crossbeam" else ["send", "sendw"]
    n2 = N + rng.randint(0, 2)
    progs = [[(rng.choice(kinds), [100])] + ([(rng.choice(kinds), [101])] if rng.random() < 0.5 else []),
             [(rng.choice(kinds), [200 + j]) for j in range(n2)],
             [("drive", [0])]]
    per = 30 if chan in SLOW_KINDS else 14
    sched = [2] * per + [0] * rng.randint(1, 6)
    for _ in range(n2): sched += [1] * per + [2] * (per + 10)
    sched += random_sched(rng, 3, rng.randint(0, 30), burst=0.5)
    for _ in range(tail_rounds): sched += [0, 1, 2]
    return mk_case(chan, N, M, k, 0, progs, sched, {"profile": "preempt"})

def gen_waker_switch_case(rng, chan, tail_rounds=60):
    """the executor hands the stream a DIFFERENT waker at 1-3 of its first polls (a task that migrated, select_all, a hand-written
    executor): only the waker passed to the latest poll has to be woken.  Producers as in the drive profile; no model (oracle only)."""
    c = gen_case(rng, chan, profile="drive", tail_rounds=tail_rounds)
    progs = []
    for p in c.meta["progs"]:
        if p and p[0][0] == "drive":
            mask = 0
            for _ in range(rng.randint(1, 3)): mask |= 1 << rng.randint(1, 5)
            if rng.random() < 0.5: mask |= 0xffff & ~((1 << rng.randint(2, 6)) - 1)      # ... and keeps the second waker from some poll on
            progs.append([("drivem", [p[0][1][0], mask])])
        else: progs.append(p)
    return mk_case(chan, c.meta["N"], c.meta["M"], c.meta["k"], 0, progs, c.meta["sched"], {"profile": "waker_switch"})

def gen_starve_case(rng, chan, Ns=(2, 4)):
    """one thread gets several thousand consecutive grants while the others stand wherever the random prefix left them (possibly inside a
    critical section): nothing may be given up on - afterwards, with everything drained, the channel accepts BUFFER_SIZE events again"""
    N = rng.choice(Ns); M = 1; k = 1
    kinds = ["send"] if chan == "crossbeam" else ["send", "sendw"]
    progs = [[(rng.choice(kinds), [100 + j]) for j in range(rng.randint(2, 2 * N))],
             [(rng.choice(kinds), [200 + j]) for j in range(rng.randint(0, 3))],
             [("drive", [0])]]
    progs = [p for p in progs if p]
    nt = len(progs)
    if rng.random() < 0.7:
        # producer A keeps the stream supplied (one complete send per round), producer B advances ONE step per round - so that it stands,
        # in turn, at every point of its sends, inside every critical section of the ring and of the payload pool - and then the stream's
        # thread gets a 4200-grant burst in which it consumes A's event and releases the payload
        progs = [[(rng.choice(kinds), [100 + j]) for j in range(34)], [(rng.choice(kinds), [200 + j]) for j in range(2)], [("drive", [0])]]
        nt = 3
        sched = [2] * 16
        for _ in range(32): sched += [0] * 24 + [1] + [2] * 4200
    elif chan in ZC_KINDS and rng.random() < 0.5:
        # the stream's thread advances ONE step per round - so that it stands, in turn, at every point between taking an event and giving
        # its payload back - while producer A gets 40 grants per round: with the pool exhausted every one of its sends must be refused at once
        progs = [[(rng.choice(kinds), [100 + j]) for j in range(120)], [("drive", [0])]]
        nt = 2
        sched = []
        for _ in range(60): sched += [0] * 40 + [1]
    else:
        sched = random_sched(rng, nt, rng.randint(5, 120), burst=rng.choice([0.3, 0.6]))
        sched += [rng.randrange(nt)] * 6000
    sched += random_sched(rng, nt, rng.randint(0, 60), burst=0.5)
    for _ in range(150): sched += list(range(nt))
    return mk_case(chan, N, M, k, 0, progs, sched, {"profile": "starve"}, probe=True)

def uni_oracle_prompt_alloc(case, recs):
    """C16 'returns promptly instead of waiting', zero-copy atomic channel: one send makes ONE attempt to take a slot from the payload
    pool (one fetch_add on the free list's dequeuer head, cell 503) and reports 'buffer full' when that fails; a send that makes a
    second attempt inside the same call is retrying the allocation, i.e. waits for a consumer to release a payload. (Spinning on the
    free list's in-order head release behind another allocator, or on a publication behind another producer, is not counted: that is
    the lock-free rings' own behaviour.)"""
    if case.meta.get("chan") != "zc_atomic": return []
    progs = case.meta["progs"]
    senders = {t for t, p in enumerate(progs) if p and all(n in ("send", "sendw") for n, a in p)}     # threads that only send (every ret = one call)
    attempts = {}
    for r in recs:
        if r[0] == "acc" and r[1] in senders and r[2] == 503 and r[3] == 2:
            attempts[r[1]] = attempts.get(r[1], 0) + 1
            if attempts[r[1]] > 1:
                return [(None, "thread %d made a second attempt to allocate a pool slot inside one send call: the send retries the allocation (waits for a payload to be released) instead of reporting 'buffer full' at once" % r[1])]
        elif r[0] == "ret" and r[1] in senders: attempts[r[1]] = 0
    return []

def uni_oracle_probe(case, recs):
    """(cases run with probe=1) when the run went quiet, after draining every stream the channel accepted exactly BUFFER_SIZE of BUFFER_SIZE+1 sends"""
    fin = [r for r in recs if r[0] == "final"]
    if not fin or len(fin[0][1]) < 2 or fin[0][1][-2] != -2: return []
    st = end_states(case, recs)
    if any(v == "running" for v in st.values()): return []
    granted = {r[3] for r in recs if r[0] == "ret" and r[2] == 20}; resolved = {r[3] for r in recs if r[0] == "ret" and r[2] in (27, 24)}
    if granted - resolved: return []
    acc = fin[0][1][-1]
    if acc != case.meta["N"]:
        return [(None, "with every stream drained and every payload released the channel accepted %d of %d+1 new events (expected exactly %d)" % (acc, case.meta["N"], case.meta["N"]))]
    return []

def gen_entry_case(rng, chan, Ns=(2, 4, 8), tail_rounds=50, async_ok=True, reserve_ok=True):
    """the other entry points: thread 0 issues reserve / fill + send-reserved (mostly the oldest outstanding) / cancel (the latest
    outstanding) / send_with_async / send / send_with (the last three only with nothing outstanding: a publication by id waits for every
    earlier reservation) / len and resolves every reservation at the end; in a third of the cases a second producer sends plainly
    (then no cancels: another producer's reservation above it makes a cancel fail by design); 1..MAX_STREAMS streams are driven or polled"""
    N = rng.choice(Ns); M = rng.choice([1, 2, 2, 4] if N >= 4 else [1, 2, 2]); k = rng.randint(1, M)
    second = rng.random() < 0.33
    if chan == "crossbeam": reserve_ok = False; async_ok = async_ok and not second
    if chan == "move_full_sync": reserve_ok = False          # (reservations are not implemented by this kind)
    if chan in SLOW_KINDS: tail_rounds = tail_rounds * 3
    plain = ["send", "sendw"] if not (chan == "crossbeam" and second) else ["send"]
    prog = []; out = []; kk = 0; val = 100
    for _ in range(rng.randint(2, 10)):
        r = rng.random()
        if r < 0.3 and reserve_ok and kk < 60 and len(out) < N + 1:
            prog.append(("res", [kk, val])); out.append(kk); kk += 1; val += 1
        elif r < 0.55 and out:
            j = out[0] if rng.random() < 0.85 else rng.choice(out)
            prog.append(("sres", [j]))
            if j == out[0]: out.pop(0)
        elif r < 0.65 and out and not second:
            prog.append(("cres", [out[-1]])); out.pop()
        elif r < 0.9 and not out:
            prog.append((rng.choice(["senda", "senda"] + plain) if async_ok else rng.choice(plain), [val])); val += 1
        elif r < 0.95:
            prog.append(("len", []))
    while out:
        if rng.random() < 0.3 and not second: prog.append(("cres", [out.pop()]))
        else: prog.append(("sres", [out.pop(0)]))
    progs = [prog]
    if second:
        progs.append([(rng.choice(plain + ["senda"] if async_ok else plain), [500 + j]) for j in range(rng.randint(1, 3))])
    polls = rng.random() < 0.2
    for i in range(k):
        progs.append([("poll", [i]) for _ in range(rng.randint(1, 5))] if polls else [("drive", [i])])
    nthreads = len(progs)
    total = sum(len(p) for p in progs) + 4 * k
    sched = random_sched(rng, nthreads, rng.randint(0, total * 6), burst=rng.choice([0.3, 0.6, 0.85]))
    if rng.random() < 0.25:
        # consumers first park, then the producer runs alone, then everybody: the purely sequential shape
        sched = [t for t in range(len(progs) - k, len(progs)) for _ in range(14)] + [0] * (len(prog) * 9) + sched
    for _ in range(tail_rounds):
        sched += list(range(nthreads))
    return mk_case(chan, N, M, k, 0, progs, sched, {"profile": "entry"})

ORACLE_ONLY_KINDS = ("zc_atomic", "zc_full_sync", "crossbeam")
def oracle_only_suites(rng, n, profile=None, Ns=(2, 4), entry=True, tail_rounds=40):
    """the Uni kinds that have no lock-step model yet (zero-copy atomic / full-sync, crossbeam): the same generated programs and
    schedules through the same scheduler, judged by the property oracles only (no comparison with a model)"""
    from .driver import Suite
    out = []
    for ch in ORACLE_ONLY_KINDS:
        cases = [gen_case(rng, ch, Ns=Ns, profile=profile, tail_rounds=tail_rounds) for _ in range(n - (n // 2 if entry else 0))]
        if profile != "cancel": cases += [gen_preempt_case(rng, ch, Ns=tuple(set(Ns))) for _ in range(max(10, n // 5))]
        if entry: cases += [gen_entry_case(rng, ch, Ns=tuple(x for x in (2, 4, 8) if x in Ns or x == 4)) for _ in range(n // 2)]
        # (zero-copy kinds: cases made of send / send_with / poll / drive / cancel_all / len carry a model term and are compared in lock-step)
        out.append(Suite("uni_%s" % ch, XHEADER, cases, compare=True))
    return out

# ------------------------------------------------------------------------------------------- oracles
def uni_oracle_exactly_once(case, recs):
    """C01 at the channel level, on the observable history only: every yielded value was sent, no value is yielded twice,
    per-producer order is kept within each stream's yields, Full hands back a payload that was given to that very call, and a
    send answered Full is never yielded (payload ids are unique per case)."""
    hits = []
    sent = {}; resval = {}
    for t, p in enumerate(case.meta["progs"]):
        for n, a in p:
            if n in ACCEPT_OPS: sent[a[0]] = t
            if n == "res": resval[a[0]] = (a[1], t)
    granted = {r[3] for r in recs if r[0] == "ret" and r[2] == 20}
    for r in recs:
        if r[0] == "ret" and r[2] in (27, 24) and r[3] not in granted:
            hits.append((None, "%s of reservation %d answered true although no slot was granted to it" % ("send-reserved" if r[2] == 27 else "cancel", r[3])))
        if r[0] == "ret" and r[2] == 27 and r[3] in resval: sent[resval[r[3]][0]] = resval[r[3]][1]
    cancelled = {resval[r[3]][0] for r in recs if r[0] == "ret" and r[2] == 24 and r[3] in resval}
    ok = [r[3] for r in recs if r[0] == "ret" and r[2] == 10]
    full = [r[3] for r in recs if r[0] == "ret" and r[2] == 11]
    yields = [(r[3], r[4]) for r in recs if r[0] == "ret" and r[2] == 12]
    seen = set()
    for v, i in yields:
        if v in cancelled: hits.append((None, "stream %d yielded %d, the content of a reservation whose cancellation answered true" % (i, v)))
        elif v not in sent and any(v == rv for rv, _ in resval.values()): hits.append((None, "stream %d yielded %d, the content of a reservation that was never sent" % (i, v)))
        elif v not in sent: hits.append((None, "stream %d yielded %d which was never sent" % (i, v)))
        if v in seen: hits.append((None, "value %d yielded twice" % v))
        seen.add(v)
        if v in full: hits.append((None, "value %d was rejected as full and yet yielded" % v))
    for v in full:
        if v not in sent: hits.append((None, "rejected send handed back %d which was never given to it" % v))
    # per stream, per producer: the order in which that producer's events were accepted (a send / send_with / send_with_async that
    # returned Ok, a try_send_reserved that answered true - reservations may be sent in any order where the channel allows it)
    rank = {}
    for r in recs:
        if r[0] == "ret" and r[2] == 10: rank.setdefault(r[3], len(rank))
        elif r[0] == "ret" and r[2] == 27 and r[3] in resval: rank.setdefault(resval[r[3]][0], len(rank))
    per = {}
    for v, i in yields:
        if v in sent and v in rank: per.setdefault((i, sent[v]), []).append(v)
    for (i, t), vs in per.items():
        if vs != sorted(vs, key=lambda v: rank[v]): hits.append((None, "stream %d yields producer %d's events out of the order in which they were accepted: %s" % (i, t, vs)))
    for r in recs:
        if r[0] == "panic": hits.append((None, "panic (kind %d) in thread %d" % (r[2], r[1])))
    return hits

def op_intervals(case, recs, with_open=False):
    """per operation: (thread, index in its program, name, args, position of its first access (or of the thread's previous return when it
    has no access of its own), position of its return record, return code) - positions are indices into recs.  with_open: also the
    operations that began (made an access) and had not returned when the run ended - return position len(recs), return code None"""
    progs = case.meta["progs"]
    pos = {}; first = {}; prev_ret = {}; out = []
    for i, r in enumerate(recs):
        if r[0] == "acc":
            t = r[1]
            if t not in first: first[t] = i
        elif r[0] == "ret":
            t = r[1]
            if r[2] == 17: continue                                   # (the drop of a payload handle: part of the poll / drive operation)
            j = pos.get(t, 0)
            if j >= len(progs[t]): continue
            n, a = progs[t][j]
            if n in ("drive", "drivem"):                              # one drive = many polls: every Ready / Pending answer is a record
                out.append((t, j, "poll", a, first.get(t, prev_ret.get(t, 0)), i, r[2]))
                first.pop(t, None); prev_ret[t] = i
                if r[2] == 14: pos[t] = j + 1
                continue
            out.append((t, j, n, a, first.get(t, prev_ret.get(t, 0)), i, r[2]))
            first.pop(t, None); prev_ret[t] = i; pos[t] = j + 1
    if with_open:
        for t, i0 in sorted(first.items()):
            j = pos.get(t, 0)
            if j < len(progs[t]) and progs[t][j][0] not in ("drive", "drivem"):
                out.append((t, j, progs[t][j][0], progs[t][j][1], i0, len(recs), None))
    return out

ZC_KINDS = ("zc_atomic", "zc_full_sync")
def uni_oracle_no_leak(case, recs):
    """C08, last clause, at the channel level: once every thread has finished and every granted reservation was sent or cancelled, no
    reservation is left in the dispatching ring (reservation counter = publication counter) and - when every stream was driven to the
    quiescent end - everything accepted was delivered"""
    st = end_states(case, recs)
    if any(v == "running" for v in st.values()): return []
    granted = {r[3] for r in recs if r[0] == "ret" and r[2] == 20}
    resolved = {r[3] for r in recs if r[0] == "ret" and r[2] in (27, 24)}
    if granted - resolved: return []
    hits = []
    fin = [r for r in recs if r[0] == "final"]
    chan = case.meta["chan"]
    if fin and chan in ("move_atomic", "zc_atomic") and len(fin[0][1]) >= 4:
        head, tail, etail, dhead = fin[0][1][:4]
        if etail != tail: hits.append((None, "every reservation was sent or cancelled and every thread finished, yet the reservation counter (%d) is ahead of the publication counter (%d): a slot leaked" % (etail, tail)))
    driven = sorted(a[0] for p in case.meta["progs"] for n, a in p if n in ("drive", "drivem"))
    if driven == list(range(case.meta["k"])) and not any(n == "cancel_all" for p in case.meta["progs"] for n, a in p):
        ok = len([r for r in recs if r[0] == "ret" and r[2] in (10, 27)]); yl = len([r for r in recs if r[0] == "ret" and r[2] == 12])
        if ok != yl and not oracle_lost_wakeup(case, recs):
            hits.append((None, "%d events were accepted but %d delivered although every stream was driven until the run went quiet" % (ok, yl)))
    return hits

def uni_oracle_justified_full(case, recs):
    """C02 / C16 at the channel level: a send / reserve answered 'buffer full' only if at some instant of the call all BUFFER_SIZE slots
    were taken.  Sound upper bound of the occupancy at every trace position: +1 from the start of every other send / send_with /
    send_with_async / reserve (whatever its outcome), -1 when such a call returned 'full', when a cancel answered true, and when a
    delivered event gave its slot back (movable kinds: the yield; zero-copy kinds: the drop of the handle, record 17).  A rejection
    during which that bound never reaches BUFFER_SIZE is unjustified."""
    N = case.meta["N"]; chan = case.meta["chan"]
    ops = op_intervals(case, recs, with_open=True)     # (a send that began and never returned - e.g. spinning behind a reservation - holds a slot)
    occupying = [o for o in ops if o[2] in ACCEPT_OPS + ("res",)]
    rel_code = 17 if chan in ZC_KINDS else 12
    releases = [i for i, r in enumerate(recs) if r[0] == "ret" and (r[2] == rel_code or r[2] == 24)]
    hits = []
    for x in occupying:
        if x[6] not in (11, 21): continue
        ev = {}
        for o in occupying:
            if o is x: continue
            ev[o[4]] = ev.get(o[4], 0) + 1
            if o[6] in (11, 21): ev[o[5]] = ev.get(o[5], 0) - 1
        for i in releases: ev[i] = ev.get(i, 0) - 1
        u = 0; best = -1
        for p in sorted(ev):
            if p > x[5]: break
            # an increment at position p takes effect from p on; a decrement at position p too (the slot is free once the record is written)
            u += ev[p]
            if p >= x[4]: best = max(best, u)
        # occupancy when the call started (carried over from the events before it)
        u0 = sum(d for p, d in ev.items() if p < x[4])
        best = max(best, u0)
        if best < N:
            cls = None
            if chan == "zc_atomic" and freelist_contended(recs, x): cls = "C02.zc_atomic.spurious_full"
            hits.append((cls, "%s of thread %d was rejected as 'buffer full' although at most %d of the %d slots were taken at any instant of the call" % (x[2], x[0], max(best, 0), N)))
    return hits

def freelist_contended(recs, x):
    """zero-copy atomic kind: while the rejected call looked at the free list (cells 500..), another thread held a lower, not yet receded
    reservation on the free-list ring (F5's mechanism: between its fetch_add on dequeuer_head and its recede / its slot read)"""
    t0 = x[0]; inside = set()
    for i, r in enumerate(recs[:x[5] + 1]):
        if r[0] != "acc": continue
        t, loc, kind = r[1], r[2], r[3]
        if loc == 503 and kind == 2: inside.add(t)                     # fetch_add on the free list's dequeuer_head
        elif loc == 503 and kind == 3 and r[6] == 1: inside.discard(t)  # receded
        elif 600 <= loc < 700 and kind == 7: inside.discard(t)          # read its slot: the reservation is validated
        if i >= x[4] and t == t0 and loc == 501 and (inside - {t0}): return True
    return False

def uni_nontrivial(case, recs):
    """a context switch while some send or poll is between its first and last access, and a Pending or Full answer"""
    active = set(); switch = False; last = None
    for r in recs:
        if r[0] == "acc":
            t = r[1]
            if last is not None and last != t and active - {t}: switch = True
            active.add(t); last = t
        elif r[0] == "ret":
            active.discard(r[1])
    return switch and any(r[0] == "ret" and r[2] in (11, 13) for r in recs)

# --------------------------------------------------------------------------------- quiescence oracles (C04, C07)
def end_states(case, recs):
    """per thread: 'done' (its program is over), ('parked', i) (its last two grants read notified[i] = 0), or 'running'"""
    last = {}
    for r in recs:
        if r[0] in ("acc", "skip"): last.setdefault(r[1], []).append(r)
    out = {}
    for t in range(len(case.meta["progs"])):
        rs = last.get(t, [])[-2:]
        if len(rs) == 2 and all(r[0] == "skip" for r in rs): out[t] = "done"
        elif len(rs) == 2 and all(r[0] == "acc" and r[3] == 11 and r[4] == 0 for r in rs): out[t] = ("parked", (rs[-1][2] - 300) % 20)
        else: out[t] = "running"
    return out

def sends_overlap(case, recs):
    """two send operations whose [first access, return] intervals overlap in the trace"""
    open_, intervals = {}, []
    progs = case.meta["progs"]; pos = {}
    for i, r in enumerate(recs):
        if r[0] == "acc":
            t = r[1]
            if t not in open_:
                k = pos.get(t, 0)
                if k < len(progs[t]) and progs[t][k][0] in ACCEPT_OPS + ("sres",): open_[t] = i
        elif r[0] == "ret":
            t = r[1]; pos[t] = pos.get(t, 0) + 1
            if t in open_: intervals.append((open_.pop(t), i))
    for t, i in open_.items(): intervals.append((i, len(recs)))
    intervals.sort()
    return any(a2 < b1 for (a1, b1), (a2, b2) in zip(intervals, intervals[1:]))

def consumer_inside_a_send(case, recs):
    """some access of a stream-driving thread falls between the first access and the return of a send / send_with / send_with_async
    (the entry points whose wake decision uses the length sampled at the slot reservation)"""
    progs = case.meta["progs"]
    consumers = {t for t, p in enumerate(progs) if any(n in ("drive", "poll", "drivem") for n, a in p)}
    open_ = set(); pos = {}
    for r in recs:
        if r[0] == "acc":
            t = r[1]
            if t in consumers:
                if open_ and r[3] != 11: return True         # (a parked look at `notified` is not a consume step)
            else:
                j = pos.get(t, 0)
                if j < len(progs[t]) and progs[t][j][0] in ACCEPT_OPS: open_.add(t)
        elif r[0] == "ret" and r[1] not in consumers:
            open_.discard(r[1]); pos[r[1]] = pos.get(r[1], 0) + 1
    return False

def yields_inside_send(case, recs, value, listener=None):
    """how many events the stream (Multi: listener `listener`) yielded between the first access and the return of the plain send /
    send_with / send_with_async that carried `value`; None when the value did not come from such an operation"""
    for (t, j, n, a, first, retpos, code) in op_intervals(case, recs, with_open=True):
        if n in ("send", "sendw", "senda") and a and a[0] == value:
            return len([1 for r in recs[first + 1:retpos] if r[0] == "ret" and r[2] == 12 and (listener is None or r[4] == listener)]), n
    return None

def oracle_lost_wakeup(case, recs):
    """C04: at the end of the run everything is quiescent, no cancel happened, an accepted event is still pending and every
    stream is parked un-notified"""
    if any(n == "cancel_all" for p in case.meta["progs"] for n, a in p): return []
    st = end_states(case, recs)
    if any(v == "running" for v in st.values()): return []
    ok = len([r for r in recs if r[0] == "ret" and r[2] in (10, 27)])
    yl = len([r for r in recs if r[0] == "ret" and r[2] == 12])
    parked = [v[1] for v in st.values() if v != "done"]
    k = case.meta["k"]
    driven = [a[0] for p in case.meta["progs"] for n, a in p if n in ("drive", "drivem")]
    if ok - yl > 0 and sorted(parked) == list(range(k)) and sorted(driven) == list(range(k)):
        cls = None
        if case.meta["chan"] in ("move_atomic", "zc_atomic"):
            # the lock-free ring channel decides whom to wake from a length sampled at slot reservation: its lost wake-ups are the
            # known family F1 / F13 whenever that sample can be stale, i.e. another thread acted inside some send
            if k >= 2: cls = "C04.ring.multi_consumer"
            elif sends_overlap(case, recs): cls = "C04.ring.overlapping_sends"
            elif consumer_inside_a_send(case, recs): cls = "C04.ring.stale_length_sample"
            # the known mechanism, exactly: with one stream (MAX_STREAMS 1) a publication goes un-woken only when its sample was >= 3, i.e. at
            # least two earlier events were still unreleased when the send looked at `head` - and for the stream to sit parked in the end
            # they were consumed before that send published: the first lost event's send has >= 2 yields inside it. When every lost event
            # can be traced to its send and NONE of them has, this is not the known finding.
            if cls is not None and k == 1 and case.meta.get("M", 1) == 1:
                acc_v = [r[3] for r in recs if r[0] == "ret" and r[2] == 10]; got_v = {r[3] for r in recs if r[0] == "ret" and r[2] == 12}
                lost = [v for v in acc_v if v not in got_v]
                inside = [yields_inside_send(case, recs, v) for v in lost]
                # (send / send_with wake when the sample is <= MAX_STREAMS + 1 = 2; the movable atomic channel's send_with_async only when its
                # sample BEFORE the publication is 0: there one earlier unreleased event is enough)
                need = lambda name: 1 if (name == "senda" and case.meta["chan"] == "move_atomic") else 2
                if lost and ok == len(acc_v) and all(x is not None for x in inside) and all(c < need(name) for c, name in inside): cls = None
        elif case.meta["chan"] == "crossbeam":
            # the crossbeam channel decides from the length sampled BEFORE its try_send (len_before <= 2): known finding F17 whenever
            # that sample can be stale, i.e. another thread acted inside some send
            if sends_overlap(case, recs) or consumer_inside_a_send(case, recs): cls = "C04.crossbeam.stale_length_sample"
        return [(cls, "lost wake-up: %d accepted event(s) pending, all producers returned, every stream parked and not notified" % (ok - yl))]
    return []

def oracle_cancel(case, recs):
    """C07: after cancel_all returned and everything went quiet, every driven stream has answered end-of-stream; nothing
    buffered at that time is dropped by the cancel (it is yielded first)"""
    if not any(r[0] == "ret" and r[2] == 16 for r in recs): return []
    st = end_states(case, recs)
    if any(v == "running" for v in st.values()): return []
    hits = []
    for t, v in st.items():
        if v != "done":
            hits.append((None, "stream %d is still parked (not notified) after cancel_all returned and the run went quiet" % v[1]))
    return hits

# ---- free-running stress of the Uni channels with dawdling setters (harness/src/unistress.rs; oracle only) ----
UNI_KINDS = ("move_atomic", "move_full_sync", "zc_atomic", "zc_full_sync", "crossbeam")
def mk_unistress(chan, N, P, n, delay):
    return Case("unistress chan=%s N=%d P=%d n=%d delay=%d ; S" % (chan, N, P, n, delay), None, dict(profile="unistress", chan=chan, N=N, P=P, n=n, delay=delay))
def gen_unistress(rng, chan=None):
    return mk_unistress(chan or rng.choice(UNI_KINDS), rng.choice([2, 4, 8]), rng.choice([1, 2, 2, 3]), rng.choice([100, 200]), rng.choice([5, 20, 50]))
def oracle_unistress(case, recs):
    """exactly-once, unaltered, in producer order: the stream yields exactly the accepted values - none twice, none that was never sent (a payload
    read before / while its setter wrote it), none missing - and one producer's values in its send order; nobody panics or hangs"""
    hits = []
    r = {x[2]: (x[3], x[4]) for x in recs if x[0] == "ret"}
    for x in recs:
        if x[0] == "panic": hits.append((None, "a channel operation panicked in thread %d" % x[1]))
    if 35 in r:
        acc, got = r[35]; twice, never = r[36]; disorder, timed_out = r[37]
        if never: hits.append((None, "the stream yielded %d values that no producer sent (payload read before or while its setter wrote it)" % never))
        if twice: hits.append((None, "%d values were yielded twice" % twice))
        if timed_out: hits.append((None, "the consumer gave up after 30 s: %d of the %d accepted events arrived" % (got, acc)))
        elif acc != got: hits.append((None, "%d events were accepted, %d yielded" % (acc, got)))
        if disorder: hits.append((None, "%d times one producer's events were yielded out of its send order" % disorder))
    elif not hits: hits.append((None, "no result"))
    return hits[:1]
def parse_unistress_line(line):
    params = dict(kv.split("=") for kv in line.split(";")[0].split()[1:])
    return mk_unistress(params["chan"], int(params["N"]), int(params["P"]), int(params["n"]), int(params["delay"]))
