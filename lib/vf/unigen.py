"""Case generators and oracles for the Uni channels (movable atomic / full-sync ...) at the channel level."""
from .driver import Case, Suite
from . import core
from .ringgen import random_sched

HEADER = "From RM Require Import RingModel FullSync Chan."

def coq_op(op):
    n, a = op
    return {"send": "CoSend %d" % (a[0] if a else 0), "sendw": "CoSend %d" % (a[0] if a else 0), "poll": "CoPoll %d" % (a[0] if a else 0),
            "drive": "CoDrive %d" % (a[0] if a else 0), "cancel_all": "CoCancelAll", "len": "CoLen"}[n]

RUNNERS = {"move_atomic": "run_uni_atomic", "move_full_sync": "run_uni_fullsync"}

def mk_case(chan, N, M, k, origin, progs, sched, meta=None):
    line = "uni chan=%s N=%d M=%d k=%d origin=%d ; " % (chan, N, M, k, origin) + " ; ".join(
        " ".join(n if not a else n + ":" + ":".join(str(x) for x in a) for n, a in p) for p in progs) + " ; S " + " ".join(map(str, sched))
    coq = "%s %d %d %d %d [%s] [%s]%%nat" % (RUNNERS[chan], N, M, k, origin,
            "; ".join("[" + "; ".join(coq_op(o) for o in p) + "]" for p in progs), "; ".join(map(str, sched)))
    m = dict(chan=chan, N=N, M=M, k=k, origin=origin, progs=progs, sched=sched)
    m.update(meta or {})
    return Case(line, coq, m)

def parse_case_line(line):
    secs = [s.strip() for s in line.split(";")]
    head = secs[0].split()
    params = dict(kv.split("=") for kv in head[1:])
    progs, sched = [], []
    for sec in secs[1:]:
        if sec.startswith("S ") or sec == "S":
            sched = [int(x) for x in sec[1:].split()]
        else:
            progs.append([(tok.split(":")[0], [int(x) for x in tok.split(":")[1:]]) for tok in sec.split()])
    return mk_case(params["chan"], int(params.get("N", 4)), int(params.get("M", 1)), int(params.get("k", 1)), int(params.get("origin", 0)), progs, sched)

def gen_case(rng, chan, Ns=(2, 4), Ms=(1, 2), origin=0, profile=None, tail_rounds=40):
    N = rng.choice(Ns); M = rng.choice(Ms); k = rng.randint(1, M)
    nprod = rng.randint(1, 3)
    profile = profile or rng.choice(["drive", "drive", "poll", "cancel"])
    progs = []
    for t in range(nprod):
        n = rng.randint(1, 4)
        progs.append([(rng.choice(["send", "send", "sendw"]), [100 * (t + 1) + j]) for j in range(n)] + ([("len", [])] if rng.random() < 0.3 else []))
    for i in range(k):
        if profile == "poll":
            progs.append([("poll", [i]) for _ in range(rng.randint(1, 5))])
        else:
            progs.append([("drive", [i])])
    if profile == "cancel":
        progs.append([("len", [])] * rng.randint(0, 1) + [("cancel_all", [])])
    nthreads = len(progs)
    total = sum(len(p) for p in progs) + 4 * k
    sched = random_sched(rng, nthreads, rng.randint(0, total * 6), burst=rng.choice([0.3, 0.6, 0.85]))
    for _ in range(tail_rounds):
        sched += list(range(nthreads))
    return mk_case(chan, N, M, k, origin, progs, sched, {"profile": profile})

# ------------------------------------------------------------------------------------------- oracles
def uni_oracle_exactly_once(case, recs):
    """C01 at the channel level, on the observable history only: every yielded value was sent, no value is yielded twice,
    per-producer order is kept within each stream's yields, Full hands back a payload that was given to that very call, and a
    send answered Full is never yielded (payload ids are unique per case)."""
    hits = []
    sent = {}
    for t, p in enumerate(case.meta["progs"]):
        for n, a in p:
            if n in ("send", "sendw"): sent[a[0]] = t
    ok = [r[3] for r in recs if r[0] == "ret" and r[2] == 10]
    full = [r[3] for r in recs if r[0] == "ret" and r[2] == 11]
    yields = [(r[3], r[4]) for r in recs if r[0] == "ret" and r[2] == 12]
    seen = set()
    for v, i in yields:
        if v not in sent: hits.append((None, "stream %d yielded %d which was never sent" % (i, v)))
        if v in seen: hits.append((None, "value %d yielded twice" % v))
        seen.add(v)
        if v in full: hits.append((None, "value %d was rejected as full and yet yielded" % v))
    for v in full:
        if v not in sent: hits.append((None, "rejected send handed back %d which was never given to it" % v))
    # per stream, per producer: send order
    per = {}
    for v, i in yields:
        if v in sent: per.setdefault((i, sent[v]), []).append(v)
    for (i, t), vs in per.items():
        if vs != sorted(vs): hits.append((None, "stream %d yields producer %d's events out of order: %s" % (i, t, vs)))
    for r in recs:
        if r[0] == "panic": hits.append((None, "panic (kind %d) in thread %d" % (r[2], r[1])))
    return hits

def uni_nontrivial(case, recs):
    """a context switch while some send or poll is between its first and last access, and a Pending or Full answer"""
    active = set(); switch = False; last = None
    for r in recs:
        if r[0] == "acc":
            t = r[1]
            if last is not None and last != t and active - {t}: switch = True
            active.add(t); last = t
        elif r[0] == "ret":
            active.discard(r[1])
    return switch and any(r[0] == "ret" and r[2] in (11, 13) for r in recs)

# --------------------------------------------------------------------------------- quiescence oracles (C04, C07)
def end_states(case, recs):
    """per thread: 'done' (its program is over), ('parked', i) (its last two grants read notified[i] = 0), or 'running'"""
    last = {}
    for r in recs:
        if r[0] in ("acc", "skip"): last.setdefault(r[1], []).append(r)
    out = {}
    for t in range(len(case.meta["progs"])):
        rs = last.get(t, [])[-2:]
        if len(rs) == 2 and all(r[0] == "skip" for r in rs): out[t] = "done"
        elif len(rs) == 2 and all(r[0] == "acc" and r[3] == 11 and r[4] == 0 for r in rs): out[t] = ("parked", rs[-1][2] - 300)
        else: out[t] = "running"
    return out

def sends_overlap(case, recs):
    """two send operations whose [first access, return] intervals overlap in the trace"""
    open_, intervals = {}, []
    progs = case.meta["progs"]; pos = {}
    for i, r in enumerate(recs):
        if r[0] == "acc":
            t = r[1]
            if t not in open_:
                k = pos.get(t, 0)
                if k < len(progs[t]) and progs[t][k][0] in ("send", "sendw"): open_[t] = i
        elif r[0] == "ret":
            t = r[1]; pos[t] = pos.get(t, 0) + 1
            if t in open_: intervals.append((open_.pop(t), i))
    for t, i in open_.items(): intervals.append((i, len(recs)))
    intervals.sort()
    return any(a2 < b1 for (a1, b1), (a2, b2) in zip(intervals, intervals[1:]))

def consumer_inside_a_send(case, recs):
    """some access of a stream-driving thread falls between the first access and the return of a send"""
    progs = case.meta["progs"]
    consumers = {t for t, p in enumerate(progs) if any(n in ("drive", "poll") for n, a in p)}
    open_ = set()
    for r in recs:
        if r[0] == "acc":
            t = r[1]
            if t in consumers:
                if open_ and r[3] != 11: return True         # (a parked look at `notified` is not a consume step)
            else: open_.add(t)
        elif r[0] == "ret" and r[1] not in consumers:
            open_.discard(r[1])
    return False

def oracle_lost_wakeup(case, recs):
    """C04: at the end of the run everything is quiescent, no cancel happened, an accepted event is still pending and every
    stream is parked un-notified"""
    if any(n == "cancel_all" for p in case.meta["progs"] for n, a in p): return []
    st = end_states(case, recs)
    if any(v == "running" for v in st.values()): return []
    ok = len([r for r in recs if r[0] == "ret" and r[2] == 10])
    yl = len([r for r in recs if r[0] == "ret" and r[2] == 12])
    parked = [v[1] for v in st.values() if v != "done"]
    k = case.meta["k"]
    driven = [a[0] for p in case.meta["progs"] for n, a in p if n == "drive"]
    if ok - yl > 0 and sorted(parked) == list(range(k)) and sorted(driven) == list(range(k)):
        cls = None
        if case.meta["chan"] in ("move_atomic", "zc_atomic"):
            # the lock-free ring channel decides whom to wake from a length sampled at slot reservation: its lost wake-ups are the
            # known family F1 / F13 whenever that sample can be stale, i.e. another thread acted inside some send
            if k >= 2: cls = "C04.ring.multi_consumer"
            elif sends_overlap(case, recs): cls = "C04.ring.overlapping_sends"
            elif consumer_inside_a_send(case, recs) or k < case.meta["M"]: cls = "C04.ring.stale_length_sample"
        return [(cls, "lost wake-up: %d accepted event(s) pending, all producers returned, every stream parked and not notified" % (ok - yl))]
    return []

def oracle_cancel(case, recs):
    """C07: after cancel_all returned and everything went quiet, every driven stream has answered end-of-stream; nothing
    buffered at that time is dropped by the cancel (it is yielded first)"""
    if not any(r[0] == "ret" and r[2] == 16 for r in recs): return []
    st = end_states(case, recs)
    if any(v == "running" for v in st.values()): return []
    hits = []
    for t, v in st.items():
        if v != "done":
            hits.append((None, "stream %d is still parked (not notified) after cancel_all returned and the run went quiet" % v[1]))
    return hits
