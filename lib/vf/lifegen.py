"""C05: payload life-cycle histories (model Alloc/Lifecycle.v vs the real channels with a destructor-counting payload) and the
teardown-under-valgrind cases."""
from .driver import Case

HEADER = "From Coq Require Import List ZArith. Import ListNotations. From RM Require Import Lifecycle. Open Scope Z_scope."
KINDS = {  # kind -> (drains at teardown, handles clonable, max listeners)
    "uni_move_atomic": (True, False, 1), "uni_move_full_sync": (True, False, 1),
    "uni_zero_copy_atomic": (False, False, 1), "uni_zero_copy_full_sync": (False, False, 1),
    "multi_arc_atomic": (True, True, 2), "multi_arc_full_sync": (True, True, 2), "multi_arc_crossbeam": (True, True, 2),
    "multi_ogre_arc_atomic": (True, True, 2), "multi_ogre_arc_full_sync": (True, True, 2),
}

def tok(o):
    n, a = o
    return n if not a else n + ":" + ":".join(map(str, a))
def cop(o):
    n, a = o
    return {"send": lambda: "LSend %d" % a[0], "recv": lambda: "LRecv %d %d" % (a[0], a[1]), "clone": lambda: "LClone %d %d" % (a[0], a[1]),
            "drop": lambda: "LDrop %d" % a[0], "xdrop": lambda: "LDrop %d" % a[0], "teardown": lambda: "LTeardown"}[n]()

def mk_case(chan, k, prog, meta=None, origin=0):
    drains, clones, _ = KINDS[chan]
    line = "life chan=%s k=%d%s ; %s ; S" % (chan, k, " origin=%d" % origin if origin else "", " ".join(tok(o) for o in prog))
    coq = "run_life %s %s %d [%s]%%nat" % (str(drains).lower(), str(clones).lower(), k, "; ".join(cop(o) for o in prog))
    m = dict(chan=chan, k=k, prog=prog, profile="life", origin=origin); m.update(meta or {})
    return Case(line, coq, m)

def parse_case_line(line):
    secs = [s.strip() for s in line.split(";")]
    params = dict(kv.split("=") for kv in secs[0].split()[1:])
    prog = [(t.split(":")[0], [int(x) for x in t.split(":")[1:]]) for t in secs[1].split()]
    return mk_case(params["chan"], int(params["k"]), prog, origin=int(params.get("origin", 0)))

def gen_history(rng, chan, origin=0):
    drains, clones, kmax = KINDS[chan]
    k = rng.randint(1, kmax)
    prog = []; nid = 0
    queues = [[] for _ in range(k)]; held = {}; live = {}      # live[id] = owners
    for _ in range(rng.randint(3, 16)):
        r = rng.random()
        free = [h for h in range(8) if h not in held]
        if r < 0.35 and len(live) < 3 and all(len(q) < 3 for q in queues):
            prog.append(("send", [nid])); 
            for q in queues: q.append(nid)
            live[nid] = k; nid += 1
        elif r < 0.6 and free and any(queues):
            l = rng.choice([i for i, q in enumerate(queues) if q]); h = rng.choice(free)
            prog.append(("recv", [l, h])); held[h] = queues[l].pop(0)
        elif r < 0.7 and clones and held and free:
            h = rng.choice(list(held)); h2 = rng.choice(free)
            prog.append(("clone", [h, h2])); held[h2] = held[h]; live[held[h]] += 1
        elif held:
            h = rng.choice(list(held)); prog.append((rng.choice(["drop", "drop", "xdrop"]), [h]))
            i = held.pop(h); live[i] -= 1
            if live[i] == 0: del live[i]
    # the end: release every handle (handles must not outlive their channel), then - mostly - tear the channel down with whatever is still buffered
    for h in list(held): prog.append(("drop", [h]))
    if rng.random() < 0.8: prog.append(("teardown", []))
    return mk_case(chan, k, prog, origin=origin)

def oracle(case, recs):
    """the property, on the implementation history alone: a payload's destructor never runs twice; never while a handle to it is held or
    while it is still queued; runs as soon as the last owner lets go"""
    hits = []
    if case.meta.get("profile") == "teardown":
        for r in recs:
            if r[0] == "panic" and r[2] == 77: hits.append((None, "valgrind: memory is read / written after it was freed while the channel is torn down with events still buffered"))
            elif r[0] == "panic": hits.append((None, "the teardown run died (code %d)" % r[2]))
        return hits
    chan = case.meta["chan"]; drains, clones, _ = KINDS[chan]; k = case.meta["k"]; prog = case.meta["prog"]
    # replay the ownership bookkeeping next to the reported counters
    queues = [[] for _ in range(k)]; held = {}; owners = {}; torn = False
    snaps = []; cur = None
    for r in recs:
        if r[0] == "ret" and r[2] == 61: cur = {}; snaps.append(cur)
        elif r[0] == "ret" and r[2] == 60 and cur is not None: cur[r[3]] = r[4]
        elif r[0] == "panic": hits.append((None, "panic / crash (code %d)" % r[2]))
    for (n, a), snap in zip(prog, snaps):
        if n == "send" and a[0] in snap and a[0] not in owners and not torn:
            owners[a[0]] = k
            for q in queues: q.append(a[0])
        elif n == "recv" and not torn and a[0] < k and queues[a[0]] and a[1] not in held: held[a[1]] = queues[a[0]].pop(0)
        elif n == "clone" and clones and a[0] in held and a[1] not in held: held[a[1]] = held[a[0]]; owners[held[a[0]]] += 1
        elif n in ("drop", "xdrop") and a[0] in held: owners[held.pop(a[0])] -= 1
        elif n == "teardown" and not torn:
            torn = True
            if drains:
                for q in queues:
                    for i in q: owners[i] -= 1
                    q.clear()
        for i, d in snap.items():
            if d > 1: hits.append((None, "payload %d was destroyed %d times" % (i, d)))
            elif d == 1 and owners.get(i, 0) > 0: hits.append((None, "payload %d was destroyed while %d owner(s) (queued copies / handles) still exist" % (i, owners[i])))
            elif d == 0 and i in owners and owners[i] == 0: hits.append((None, "payload %d has no owner left but its destructor has not run" % i))
        if hits: break
    return hits[:3]

def nontrivial(case, recs):
    if case.meta.get("profile") == "teardown": return True
    prog = case.meta["prog"]
    return any(n == "teardown" for n, a in prog) and any(n in ("clone", "xdrop") for n, a in prog) or sum(1 for n, a in prog if n == "recv") >= 2

def mk_teardown(chan, pending, consumed):
    return Case("teardown chan=%s pending=%d consumed=%d ; S" % (chan, pending, consumed), None, {"profile": "teardown", "chan": chan})
def parse_teardown_line(line):
    params = dict(kv.split("=") for kv in line.split(";")[0].split()[1:])
    return mk_teardown(params["chan"], int(params["pending"]), int(params["consumed"]))
