"""Cases and oracles for the stand-alone zero-copy NonBlockingQueues."""
from .driver import Case, Suite
from .ringgen import random_sched, call_intervals
from . import lin

HEADER = "From RM Require Import RingModel FullSync PoolRun ZeroCopy."

def mk_case(impl, N, origin, progs, sched, meta=None):
    line = "zcq impl=%s N=%d origin=%d ; " % (impl, N, origin) + " ; ".join(" ".join(n if not a else "%s:%d" % (n, a[0]) for n, a in p) for p in progs) + " ; S " + " ".join(map(str, sched))
    cop = lambda o: {"enq": "ZEnq %d" % (o[1][0] if o[1] else 0), "deq": "ZDeq", "len": "ZLen"}[o[0]]
    coq = "%s %d %d [%s] [%s]%%nat" % ("run_zcq_atomic" if impl == "atomic" else "run_zcq_fullsync", N, origin,
            "; ".join("[" + "; ".join(cop(o) for o in p) + "]" for p in progs), "; ".join(map(str, sched)))
    m = dict(impl=impl, N=N, origin=origin, progs=progs, sched=sched); m.update(meta or {})
    return Case(line, coq, m)

def mk_stress(impl, N, T, ops, seed):
    """free-running: T threads (even ones mostly enqueue unique values, odd ones mostly dequeue) on a queue of capacity N, then a drain"""
    return Case("zcq impl=%s N=%d T=%d ops=%d seed=%d ; S" % (impl, N, T, ops, seed), None, dict(impl=impl, N=N, T=T, ops=ops, seed=seed, profile="stress"))

def oracle_stress(case, recs):
    """conservation + FIFO: every accepted enqueue is returned exactly once (by a dequeue or by the final drain), nothing else is returned, a
    consumer sees one producer's elements in enqueue order, no panic"""
    hits = []
    r = {x[2]: (x[3], x[4]) for x in recs if x[0] == "ret"}
    for x in recs:
        if x[0] == "panic": hits.append((None, "a queue operation panicked in thread %d" % x[1]))
    if 31 in r:
        acc, ret = r[31]; twice, never = r[32]; disorder = r.get(33, (0, 0))[0]
        if twice: hits.append((None, "%d elements were dequeued twice" % twice))
        if never: hits.append((None, "%d dequeued elements were never enqueued (torn / invented payloads)" % never))
        if acc != ret: hits.append((None, "%d enqueues were accepted but %d elements came back (dequeues + final drain): elements were lost or duplicated" % (acc, ret)))
        if disorder: hits.append((None, "%d times a consumer got one producer's elements out of enqueue order" % disorder))
    elif not hits: hits.append((None, "no result"))
    return hits

def parse_case_line(line):
    secs = [s.strip() for s in line.split(";")]
    params = dict(kv.split("=") for kv in secs[0].split()[1:])
    if "_stress" in params["impl"]: return mk_stress(params["impl"], int(params["N"]), int(params.get("T", 4)), int(params.get("ops", 3000)), int(params.get("seed", 1)))
    progs, sched = [], []
    for sec in secs[1:]:
        if sec.startswith("S ") or sec == "S": sched = [int(x) for x in sec[1:].split()]
        else: progs.append([(tok.split(":")[0], [int(x) for x in tok.split(":")[1:]]) for tok in sec.split()])
    return mk_case(params["impl"], int(params["N"]), int(params.get("origin", 0)), progs, sched)

def gen_case(rng, impl, Ns=(2, 4), origin=0, max_ops=4):
    N = rng.choice(Ns); nthreads = rng.randint(2, 4)
    progs = []
    for t in range(nthreads):
        n = rng.randint(1, max_ops)
        progs.append([(k, [100 * (t + 1) + j] if k == "enq" else []) for j, k in enumerate(rng.choice(["enq", "enq", "deq", "deq", "len"]) for _ in range(n))])
    total = sum(len(p) for p in progs)
    sched = random_sched(rng, nthreads, rng.randint(0, total * 9), burst=rng.choice([0.3, 0.6, 0.85]))
    for _ in range(11 * max_ops + 8): sched += list(range(nthreads))
    return mk_case(impl, N, origin, progs, sched)

def oracle(case, recs):
    """linearizable as a bounded FIFO queue: 'full' in the slot-accounting sense is not decidable from outside, so a Full answer is
    accepted whenever N slots may be taken (payload handles held by in-progress operations count); everything else is exact"""
    names = {30: "ok", 31: "full", 32: "got", 33: "empty"}
    calls, _ = call_intervals(recs)
    progs = case.meta["progs"]; pos = {}; ops = []
    for c in sorted(calls, key=lambda c: c["last"]):
        t = c["tid"]; k = pos.get(t, 0); pos[t] = k + 1
        name, a = progs[t][k]
        if name == "len": continue
        ops.append(dict(inv=c["first"], ret=c["last"], op=(name, a[0] if a else 0), res=(names[c["code"]], c["a"])))
    hits = []
    # values: every dequeued value was enqueued (accepted), at most once, per-producer order kept
    acc = [o["op"][1] for o in ops if o["res"][0] == "ok"]
    got = [o["res"][1] for o in ops if o["res"][0] == "got"]
    if len(set(got)) != len(got): hits.append((None, "a value was dequeued twice: %s" % got))
    for v in got:
        if v not in acc: hits.append((None, "dequeued %d which was never accepted" % v))
    full_ops = [o for o in ops if o["res"][0] == "full"]
    empties = [o for o in ops if o["res"][0] == "empty"]
    # linearizability of the non-full part against an unbounded FIFO, with Empty only allowed on an empty queue
    part = [o for o in ops if o["res"][0] != "full"]
    spec = lin.fifo_spec(10 ** 9)
    if len(part) <= 40 and not lin.linearizable(part, (), spec):
        # the known spurious-empty class of the lock-free ring: drop Empty answers that overlap another dequeue and retry
        cls = None
        if case.meta["impl"] == "atomic":
            deqs = [o for o in ops if o["op"][0] == "deq"]
            sp = [o for o in empties if any(d is not o and d["inv"] < o["ret"] and o["inv"] < d["ret"] for d in deqs)]
            rest = [o for o in part if o not in sp]
            if sp and lin.linearizable(rest, (), spec): cls = "C18.atomic_queue.spurious_empty"
        hits.append((cls, "history is not linearizable as a FIFO queue: %s" % [(o["op"], o["res"]) for o in sorted(ops, key=lambda o: o["inv"])]))
    for r in recs:
        if r[0] == "panic": hits.append((None, "panic in thread %d" % r[1]))
    return hits

def nontrivial(case, recs):
    calls, _ = call_intervals(recs)
    overlap = any(a["first"] < b["last"] and b["first"] < a["last"] for i, a in enumerate(calls) for b in calls[i + 1:])
    return overlap and any(c["code"] in (31, 33) for c in calls)
