//! Case format (one case per line):
//!   `<kind> k=v k=v ... ; <op> <op> ... ; <op> ... ; S <tid> <tid> ...`
//! where each `;`-separated middle section is the program of one thread (thread ids in order) and an
//! op is `name` or `name:arg:arg`.
use std::collections::HashMap;

#[derive(Clone, Debug)]
pub struct Op { pub name: String, pub args: Vec<i64> }
impl Op { pub fn arg(&self, i: usize) -> i64 { self.args.get(i).copied().unwrap_or(0) } }

#[derive(Clone, Debug)]
pub struct Case { pub kind: String, pub params: HashMap<String, i64>, pub sparams: HashMap<String, String>, pub progs: Vec<Vec<Op>>, pub sched: Vec<usize> }
impl Case {
    pub fn get(&self, k: &str, default: i64) -> i64 { self.params.get(k).copied().unwrap_or(default) }
    pub fn gets(&self, k: &str) -> &str { self.sparams.get(k).map(|s| s.as_str()).unwrap_or("") }
    pub fn parse(line: &str) -> Case {
        let sections: Vec<&str> = line.split(';').map(|s| s.trim()).collect();
        let mut head = sections[0].split_whitespace();
        let kind = head.next().unwrap_or("").to_string();
        let mut params = HashMap::new();
        let mut sparams = HashMap::new();
        for kv in head {
            if let Some((k, v)) = kv.split_once('=') {
                match v.parse::<i64>() { Ok(n) => { params.insert(k.to_string(), n); }, Err(_) => { sparams.insert(k.to_string(), v.to_string()); } }
            }
        }
        let mut progs = vec![];
        let mut sched = vec![];
        for sec in &sections[1..] {
            if let Some(rest) = sec.strip_prefix("S") {
                if rest.is_empty() || rest.starts_with(' ') {
                    sched = rest.split_whitespace().map(|t| t.parse().expect("tid")).collect();
                    continue
                }
            }
            progs.push(sec.split_whitespace().map(|tok| {
                let mut parts = tok.split(':');
                let name = parts.next().unwrap().to_string();
                Op { name, args: parts.map(|a| a.parse().expect("op arg")).collect() }
            }).collect());
        }
        Case { kind, params, sparams, progs, sched }
    }
}
