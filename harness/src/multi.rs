//! Lock-step (multi arc atomic) and scheduled oracle-only (the other kinds) runs of the Multi channels through
//! `FullDuplexMultiChannel`; listeners are created / dropped by worker threads as one unscheduled step.
use crate::sched::*;
use crate::case::*;
use crate::uni::{TaskWaker, AsI64, sm_locs, NOTIFIED_BASE};
use reactive_mutiny::verif;
use reactive_mutiny::prelude::advanced::*;
use std::sync::{Arc, Mutex, atomic::{AtomicBool, Ordering::SeqCst}};
use std::task::{Context, Poll, Waker};
use futures::StreamExt;

pub fn run_generic<C>(case: &Case, chan: Arc<C>, locs: LocMap, max_streams: usize) -> Vec<i64>
where C: FullDuplexMultiChannel<ItemType = u32> + Send + Sync + 'static,
      C::DerivedItemType: AsI64 + Send {
    run_generic_v(case, chan, locs, max_streams, None)
}
/// `vacant`: how many stream ids are vacant right now (only where the harness can reach the streams manager)
pub fn run_generic_v<C>(case: &Case, chan: Arc<C>, locs: LocMap, max_streams: usize, vacant: Option<Box<dyn Fn() -> u32 + Send + Sync>>) -> Vec<i64>
where C: FullDuplexMultiChannel<ItemType = u32> + Send + Sync + 'static,
      C::DerivedItemType: AsI64 + Send {
    let k = case.get("k", 1) as usize;
    let chan: &'static Arc<C> = Box::leak(Box::new(chan));
    type Slot<C> = Mutex<Option<Arc<Mutex<MutinyStream<'static, u32, C, <C as FullDuplexMultiChannel>::DerivedItemType>>>>>;
    let table: &'static Vec<Slot<C>> = Box::leak(Box::new((0..max_streams).map(|_| Mutex::new(None)).collect()));
    let tasks: &'static Vec<Arc<TaskWaker>> = Box::leak(Box::new((0..max_streams).map(|id| Arc::new(TaskWaker { id, notified: AtomicBool::new(false) })).collect()));
    for _ in 0..k {
        let (stream, id) = chan.create_stream_for_new_events();
        *table[id as usize].lock().unwrap() = Some(Arc::new(Mutex::new(stream)));
    }
    let at_park: &'static Vec<AtomicBool> = Box::leak(Box::new((0..case.progs.len()).map(|_| AtomicBool::new(false)).collect()));
    let seen: &'static Mutex<Vec<(i64, usize)>> = Box::leak(Box::new(Mutex::new(vec![])));   // (value, address of the shared payload)
    let vacant: &'static Option<Box<dyn Fn() -> u32 + Send + Sync>> = Box::leak(Box::new(vacant));
    // outstanding reservations of the case: k -> (address of the slot handed out by reserve_slot, value to write into it)
    let reservations: &'static Mutex<Vec<Option<(usize, u32)>>> = Box::leak(Box::new(Mutex::new((0..64).map(|_| None).collect())));
    verif::reset(case.progs.len());
    let mut handles = vec![];
    for (tid, prog) in case.progs.iter().enumerate() {
        let prog = prog.clone();
        handles.push(spawn_worker(tid, move || {
            let mut last_created: Option<usize> = None;
            for op in prog {
                match op.name.as_str() {
                    "send" => match chan.send(op.arg(0) as u32) {
                        keen_retry::RetryResult::Ok { .. }               => ret(tid, 10, op.arg(0), 0),
                        keen_retry::RetryResult::Transient { input, .. } => ret(tid, 11, input as i64, 0),
                        keen_retry::RetryResult::Fatal { .. }            => ret(tid, 99, 0, 0),
                    },
                    "poll" | "drive" | "pollc" => {
                        let i = if op.name == "pollc" { match last_created { Some(i) => i, None => { verif::yield_point("yield", 2); ret(tid, 19, 0, 0); continue } } } else { op.arg(0) as usize };
                        let drive = op.name == "drive";
                        let stream = table[i].lock().unwrap().clone();
                        let Some(stream) = stream else { verif::yield_point("yield", 2); ret(tid, 19, 0, 0); continue };
                        let mut stream = stream.lock().unwrap_or_else(|p| p.into_inner());
                        let task = &tasks[i];
                        let waker = Waker::from(task.clone());
                        let mut cx = Context::from_waker(&waker);
                        loop {
                            match stream.poll_next_unpin(&mut cx) {
                                Poll::Ready(Some(item)) => { seen.lock().unwrap().push((item.as_i64(), item.addr())); ret(tid, 12, item.as_i64(), i as i64); drop(item); if !drive { break } },
                                Poll::Ready(None)       => { ret(tid, 14, i as i64, 0); break },
                                Poll::Pending           => {
                                    ret(tid, 13, i as i64, 0);
                                    if !drive { break }
                                    loop {
                                        let mut notified = false;
                                        at_park[tid].store(true, SeqCst);
                                        verif::yield_value("parked", NOTIFIED_BASE + i, || { at_park[tid].store(false, SeqCst); notified = task.notified.swap(false, SeqCst); notified as u64 });
                                        if notified { break }
                                    }
                                },
                            }
                        }
                    },
                    "count" => { let n = chan.running_streams_count(); ret(tid, 15, n as i64, 0) },
                    "createv" => {
                        // a creation that starts as soon as a stream id is vacant - possibly while the removal that vacated it is still in
                        // progress on another thread (each look at the vacant count is a scheduling point)
                        loop {
                            verif::yield_point("yield", 2);
                            if vacant.as_ref().map(|f| f()).unwrap_or(1) > 0 { break }
                        }
                        let (stream, id) = chan.create_stream_for_new_events();
                        *table[id as usize].lock().unwrap() = Some(Arc::new(Mutex::new(stream)));
                        last_created = Some(id as usize);
                        ret(tid, 17, id as i64, 0);
                    },
                    "res" => {
                        let k = op.arg(0) as usize;
                        match chan.reserve_slot() {
                            Some(slot) => { reservations.lock().unwrap()[k] = Some((slot as *mut u32 as usize, op.arg(1) as u32)); ret(tid, 20, k as i64, 0) },
                            None       => ret(tid, 21, k as i64, 0),
                        }
                    },
                    "sres" => {
                        let k = op.arg(0) as usize;
                        let r = reservations.lock().unwrap()[k];
                        match r {
                            Some((slot, value)) => {
                                unsafe { std::ptr::write(slot as *mut u32, value) };
                                if chan.try_send_reserved(unsafe { &mut *(slot as *mut u32) }) { reservations.lock().unwrap()[k] = None; ret(tid, 27, k as i64, 0) }
                                else { ret(tid, 23, k as i64, 0) }
                            },
                            None => { verif::yield_point("yield", 2); ret(tid, 26, k as i64, 0) },
                        }
                    },
                    "cres" => {
                        let k = op.arg(0) as usize;
                        let r = reservations.lock().unwrap()[k];
                        match r {
                            Some((slot, _)) => {
                                if chan.try_cancel_slot_reserve(unsafe { &mut *(slot as *mut u32) }) { reservations.lock().unwrap()[k] = None; ret(tid, 24, k as i64, 0) }
                                else { ret(tid, 25, k as i64, 0) }
                            },
                            None => { verif::yield_point("yield", 2); ret(tid, 26, k as i64, 0) },
                        }
                    },
                    "creates" => {
                        // listener creation with every shared access scheduled (C17)
                        let free = table.iter().any(|s| s.lock().unwrap().is_none());
                        if free {
                            let (stream, id) = chan.create_stream_for_new_events();
                            *table[id as usize].lock().unwrap() = Some(Arc::new(Mutex::new(stream)));
                            last_created = Some(id as usize);
                            ret(tid, 17, id as i64, 0);
                        } else { verif::yield_point("yield", 2); ret(tid, 19, 0, 0); }
                    },
                    "split" => {
                        // (log channel only) an old / new pair of streams created with every shared access scheduled - possibly while sends are in progress
                        let free = table.iter().filter(|s| s.lock().unwrap().is_none()).count();
                        if free >= 2 {
                            let ((old, old_id), (new, new_id)) = chan.create_streams_for_old_and_new_events();
                            *table[old_id as usize].lock().unwrap() = Some(Arc::new(Mutex::new(old)));
                            *table[new_id as usize].lock().unwrap() = Some(Arc::new(Mutex::new(new)));
                            last_created = Some(new_id as usize);
                            ret(tid, 16, old_id as i64, new_id as i64);
                        } else { verif::yield_point("yield", 2); ret(tid, 19, 0, 0); }
                    },
                    "drops" => {
                        let i = op.arg(0) as usize;
                        let s = table[i].lock().unwrap().take();
                        if s.is_some() { drop(s); ret(tid, 18, i as i64, 0) } else { verif::yield_point("yield", 2); ret(tid, 19, 0, 0) }
                    },
                    "create" => {
                        verif::yield_point("yield", 2);
                        let me = verif::suspend();
                        let free = table.iter().any(|s| s.lock().unwrap().is_none());
                        if free {
                            let (stream, id) = chan.create_stream_for_new_events();
                            *table[id as usize].lock().unwrap() = Some(Arc::new(Mutex::new(stream)));
                            last_created = Some(id as usize);
                            verif::resume(me);
                            ret(tid, 17, id as i64, 0);
                        } else {
                            // every id is in use: the creation is attempted all the same - it must be refused (it panics) and change nothing
                            let r = std::panic::catch_unwind(std::panic::AssertUnwindSafe(|| chan.create_stream_for_new_events().1));
                            verif::resume(me);
                            match r { Err(_) => ret(tid, 19, 0, 0), Ok(id) => ret(tid, 17, id as i64, 0) }
                        }
                    },
                    "drop" => {
                        let i = op.arg(0) as usize;
                        verif::yield_point("yield", 2);
                        let me = verif::suspend();
                        let s = table[i].lock().unwrap().take();
                        let had = s.is_some();
                        drop(s);
                        verif::resume(me);
                        if had { ret(tid, 18, i as i64, 0) } else { ret(tid, 19, 0, 0) }
                    },
                    other => panic!("multi: unknown op {other}"),
                }
            }
        }));
    }
    let mut out = run_schedule(&case.sched, &locs);
    out.push(9);
    // quiescent: every worker either finished its program or sits parked between two polls -> no operation is in progress
    let quiescent = (0..case.progs.len()).all(|t| !verif::is_parked(t) || at_park[t].load(SeqCst));
    wind_down(handles, 0);
    out.push(quiescent as i64);
    if quiescent {
        // what every live stream still yields when polled now, without any further send
        let waker = futures::task::noop_waker();
        let mut cx = Context::from_waker(&waker);
        for (i, slot) in table.iter().enumerate() {
            let stream = slot.lock().unwrap_or_else(|p| p.into_inner()).clone();
            let Some(stream) = stream else { continue };
            let mut stream = stream.lock().unwrap_or_else(|p| p.into_inner());
            let mut got = vec![];
            for _ in 0..1000 {
                match stream.poll_next_unpin(&mut cx) {
                    Poll::Ready(Some(item)) => { seen.lock().unwrap().push((item.as_i64(), item.addr())); got.push(item.as_i64()); },
                    _ => break,
                }
            }
            out.push(i as i64); out.push(got.len() as i64); out.extend(got);
        }
    }
    // values that were observed at more than one address (the listeners did not share one allocation)
    let seen = seen.lock().unwrap();
    let mut bad: Vec<i64> = vec![];
    for (v, a) in seen.iter() { if seen.iter().any(|(w, b)| w == v && b != a) && !bad.contains(v) { bad.push(*v); } }
    out.push(-1); out.push(bad.len() as i64); out.extend(bad);
    drop(seen);
    // C17's last clause: with everything consumed and released, the channel accepts BUFFER_SIZE new events
    if quiescent && case.get("probe", 0) == 1 {
        let n = case.get("N", 4);
        // on a helper thread: a send that finds a full queue retries for good, and must not take the harness with it
        let accepted: &'static std::sync::atomic::AtomicI64 = Box::leak(Box::new(std::sync::atomic::AtomicI64::new(0)));
        let prober = std::thread::spawn(move || {
            for e in 0..n {
                if let keen_retry::RetryResult::Ok { .. } = chan.send(900_000 + e as u32) { accepted.fetch_add(1, SeqCst); }
            }
        });
        let give_up = std::time::Instant::now() + std::time::Duration::from_millis(1500);
        while !prober.is_finished() && std::time::Instant::now() < give_up { std::thread::sleep(std::time::Duration::from_micros(200)); }
        if prober.is_finished() { let _ = prober.join(); out.push(-2); out.push(accepted.load(SeqCst)); }
        else { LEAKED.store(true, SeqCst); out.push(-3); out.push(accepted.load(SeqCst)); }   // a send never returned
    }
    out
}

macro_rules! dispatch_nm {
    ($f:ident, $case:expr) => {
        match ($case.get("N", 4), $case.get("M", 2)) {
            (2, 2) => $f::<2, 2>($case), (2, 4) => $f::<2, 4>($case),           // (more listeners than buffer slots)
            (4, 1) => $f::<4, 1>($case), (4, 2) => $f::<4, 2>($case), (4, 4) => $f::<4, 4>($case),
            (8, 1) => $f::<8, 1>($case), (8, 2) => $f::<8, 2>($case), (8, 4) => $f::<8, 4>($case),
            (n, m) => panic!("unsupported N={n} M={m}"),
        }
    };
}

fn arc_atomic<const N: usize, const M: usize>(case: &Case) -> Vec<i64> {
    let chan = ChannelMultiArcAtomic::<u32, N, M>::new("c");
    let mut locs = LocMap::new();
    {
        let (sm, rings) = chan.verif_parts();
        sm_locs(sm, &mut locs);
        for (i, ring) in rings.iter().enumerate() {
            let (addrs, slot_size) = ring.verif_addrs();
            let base = 1000 * (i as i64 + 1);
            for (c, a) in addrs[..4].iter().enumerate() { locs.cell(*a, base + c as i64); }
            locs.array(addrs[4], slot_size, N, base + 100);
        }
        locs.cell(2, 2);
    }
    let chan2 = chan.clone();
    run_generic_v(case, chan, locs, M, Some(Box::new(move || chan2.verif_parts().0.verif_vacant_count())))
}
fn arc_full_sync<const N: usize, const M: usize>(case: &Case) -> Vec<i64> {
    let chan = ChannelMultiArcFullSync::<u32, N, M>::new("c");
    let mut locs = LocMap::new();
    {
        let (sm, rings) = chan.verif_parts();
        sm_locs(sm, &mut locs);
        for (i, ring) in rings.iter().enumerate() {
            let (addrs, slot_size) = ring.verif_addrs();
            let base = 1000 * (i as i64 + 1);
            locs.cell(addrs[0], base); locs.cell(addrs[1], base + 1); locs.cell(addrs[2], base + 4);
            locs.array(addrs[3], slot_size, N, base + 100);
        }
        locs.cell(2, 2);
    }
    let chan2 = chan.clone();
    run_generic_v(case, chan, locs, M, Some(Box::new(move || chan2.verif_parts().0.verif_vacant_count())))
}
fn arc_crossbeam<const N: usize, const M: usize>(case: &Case) -> Vec<i64> { run_generic(case, ChannelMultiArcCrossbeam::<u32, N, M>::new("c"), LocMap::new(), M) }
fn ogre_arc_atomic<const N: usize, const M: usize>(case: &Case) -> Vec<i64> { run_generic(case, ChannelMultiOgreArcAtomic::<u32, N, M>::new("c"), LocMap::new(), M) }
fn ogre_arc_full_sync<const N: usize, const M: usize>(case: &Case) -> Vec<i64> { run_generic(case, ChannelMultiOgreArcFullSync::<u32, N, M>::new("c"), LocMap::new(), M) }

/// the log (mmap) Multi channel: no BUFFER_SIZE (the log only grows); its backing file is unlinked as soon as the case is over
fn mmap_log<const N: usize, const M: usize>(case: &Case) -> Vec<i64> {
    static SEQ: std::sync::atomic::AtomicU64 = std::sync::atomic::AtomicU64::new(0);
    let name = format!("rm_harness_multi_{}_{}", std::process::id(), SEQ.fetch_add(1, SeqCst));
    let chan = reactive_mutiny::multi::channels::reference::mmap_log::MmapLog::<u32, M>::new(name.clone());
    let _ = std::fs::remove_file(format!("/tmp/{}.mmap", name));
    // every MmapLog maps 2^38 slots (1 TiB of address space for u32 events) and a case that leaves a thread or a stream behind never
    // unmaps it: after a few dozen such cases a process runs out of address space and `MmapLog::new` panics on its `unwrap()`.
    // That is the harness's resource, not the channel's behaviour: ask for a fresh process every 32 log-channel cases.
    let out = run_generic(case, chan, LocMap::new(), M);
    if SEQ.load(SeqCst) % 32 == 0 { LEAKED.store(true, SeqCst); }
    out
}

pub fn run(case: &Case) -> Vec<i64> {
    match case.gets("chan") {
        "mmap_log"           => dispatch_nm!(mmap_log, case),
        "arc_atomic"         => dispatch_nm!(arc_atomic, case),
        "arc_full_sync"      => dispatch_nm!(arc_full_sync, case),
        "arc_crossbeam"      => dispatch_nm!(arc_crossbeam, case),
        "ogre_arc_atomic"    => dispatch_nm!(ogre_arc_atomic, case),
        "ogre_arc_full_sync" => dispatch_nm!(ogre_arc_full_sync, case),
        other => panic!("multi: unknown channel kind '{other}'"),
    }
}
