//! C05, payload life cycle: sequential histories of send / receive-and-hold / clone / drop (also on another thread) / teardown with a
//! destructor-counting payload; after every operation the destructor count of every payload accepted so far is reported.
//! Records: [2 0 61 0 0] after each operation, followed by [2 0 60 id drops] per accepted payload (in acceptance order).
use crate::case::*;
use crate::sched::LEAKED;
use reactive_mutiny::prelude::advanced::*;
use std::sync::atomic::{AtomicI64, Ordering::SeqCst};
use std::sync::Arc;
use std::fmt::Debug;
use futures::StreamExt;

static DROPS: [AtomicI64; 128] = [const { AtomicI64::new(0) }; 128];
#[derive(Debug, Default)]
pub struct Counted(pub u32, pub Option<Box<u32>>);
impl Drop for Counted { fn drop(&mut self) { if self.1.is_some() { DROPS[self.0 as usize % 128].fetch_add(1, SeqCst); } } }

pub trait Handle: Send + 'static { fn try_clone(&self) -> Option<Self> where Self: Sized { None } }
impl Handle for Counted {}
impl Handle for Arc<Counted> { fn try_clone(&self) -> Option<Self> { Some(self.clone()) } }
impl<A: BoundedOgreAllocator<Counted> + Send + Sync + 'static> Handle for OgreArc<Counted, A> { fn try_clone(&self) -> Option<Self> { Some(self.clone()) } }
impl<A: BoundedOgreAllocator<Counted> + Send + Sync + 'static> Handle for OgreUnique<Counted, A> {}

fn run_generic<C, D>(case: &Case, chan: Arc<C>, streams: Vec<MutinyStream<'static, Counted, C, D>>) -> Vec<i64>
where C: ChannelProducer<'static, Counted, D> + ChannelCommon<Counted, D> + ChannelConsumer<'static, D> + Send + Sync + 'static,
      D: Handle + Debug {
    for d in DROPS.iter() { d.store(0, SeqCst); }
    let mut out = vec![];
    let mut chan = Some(chan);
    let mut streams: Vec<Option<MutinyStream<'static, Counted, C, D>>> = streams.into_iter().map(Some).collect();
    let mut handles: Vec<Option<D>> = (0..32).map(|_| None).collect();
    let mut sent: Vec<u32> = vec![];
    let waker = futures::task::noop_waker();
    for op in case.progs.get(0).cloned().unwrap_or_default() {
        match op.name.as_str() {
            "send" => if let Some(chan) = &chan {
                let id = op.arg(0) as u32;
                if !sent.contains(&id) {
                    if let keen_retry::RetryResult::Ok { .. } = chan.send(Counted(id, Some(Box::new(id)))) { sent.push(id); }
                }
            },
            "recv" => {
                let (l, h) = (op.arg(0) as usize, op.arg(1) as usize);
                if handles[h].is_none() {
                    if let Some(Some(stream)) = streams.get_mut(l) {
                        let mut cx = std::task::Context::from_waker(&waker);
                        if let std::task::Poll::Ready(Some(item)) = stream.poll_next_unpin(&mut cx) { handles[h] = Some(item); }
                    }
                }
            },
            "clone" => {
                let (h, h2) = (op.arg(0) as usize, op.arg(1) as usize);
                if handles[h2].is_none() { if let Some(c) = handles[h].as_ref().and_then(|x| x.try_clone()) { handles[h2] = Some(c); } }
            },
            "drop" => { handles[op.arg(0) as usize] = None; },
            "xdrop" => { if let Some(x) = handles[op.arg(0) as usize].take() { std::thread::spawn(move || drop(x)).join().unwrap(); } },
            "teardown" => { for s in streams.iter_mut() { *s = None; } chan = None; },
            other => panic!("life: unknown op {other}"),
        }
        out.extend_from_slice(&[2, 0, 61, 0, 0]);
        for id in &sent { out.extend_from_slice(&[2, 0, 60, *id as i64, DROPS[*id as usize % 128].load(SeqCst)]); }
    }
    out.push(9);
    // whatever is left (handles, channel) goes away now, handles first
    handles.clear(); drop(streams); drop(chan);
    let _ = &LEAKED;
    out
}

macro_rules! uni { ($t:ident, $case:expr) => {{
    // (C15: the channel's sequence counters start at `origin` - a channel that has already transported that many events)
    reactive_mutiny::verif::set_sequence_origin($case.get("origin", 0) as u32);
    let chan = $t::<Counted, 4, 1>::new("c");
    reactive_mutiny::verif::set_sequence_origin(0);
    let (stream, _id) = chan.create_stream();
    run_generic($case, chan, vec![stream])
}}; }
macro_rules! multi { ($t:ident, $case:expr) => {{
    reactive_mutiny::verif::set_sequence_origin($case.get("origin", 0) as u32);
    let chan = $t::<Counted, 4, 2>::new("c");
    reactive_mutiny::verif::set_sequence_origin(0);
    let k = $case.get("k", 1);
    let streams = (0..k).map(|_| chan.create_stream_for_new_events().0).collect();
    run_generic($case, chan, streams)
}}; }

pub fn run(case: &Case) -> Vec<i64> {
    reactive_mutiny::verif::deactivate();
    match case.gets("chan") {
        "uni_move_atomic"        => uni!(ChannelUniMoveAtomic, case),
        "uni_move_full_sync"     => uni!(ChannelUniMoveFullSync, case),
        "uni_zero_copy_atomic"   => uni!(ChannelUniZeroCopyAtomic, case),
        "uni_zero_copy_full_sync"=> uni!(ChannelUniZeroCopyFullSync, case),
        "multi_arc_atomic"       => multi!(ChannelMultiArcAtomic, case),
        "multi_arc_full_sync"    => multi!(ChannelMultiArcFullSync, case),
        "multi_arc_crossbeam"    => multi!(ChannelMultiArcCrossbeam, case),
        "multi_ogre_arc_atomic"  => multi!(ChannelMultiOgreArcAtomic, case),
        "multi_ogre_arc_full_sync" => multi!(ChannelMultiOgreArcFullSync, case),
        other => panic!("life: unknown channel kind '{other}'"),
    }
}
