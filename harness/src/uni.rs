//! Lock-step runs of the Uni channels through their public traits (`FullDuplexUniChannel`), streams driven by the
//! harness's own task semantics: a stream task is polled, parks when it answers `Pending` and is re-polled once its
//! waker was invoked; `wake` and every look at the `notified` flag are scheduling points.
use crate::sched::*;
use crate::case::*;
use reactive_mutiny::verif;
use reactive_mutiny::prelude::advanced::*;
use reactive_mutiny::verif_exports::StreamsManagerBase;
use std::sync::{Arc, Mutex, atomic::{AtomicBool, Ordering::SeqCst}};
use std::task::{Context, Poll, Wake, Waker};
use futures::StreamExt;

pub const NOTIFIED_BASE: usize = 0x1000;

pub struct TaskWaker { pub id: usize, pub notified: AtomicBool }
impl Wake for TaskWaker {
    fn wake(self: Arc<Self>) { self.wake_by_ref() }
    fn wake_by_ref(self: &Arc<Self>) {
        verif::yield_point("wake", NOTIFIED_BASE + self.id);
        self.notified.store(true, SeqCst);
    }
}

/// what a stream item looks like as a number
pub trait AsI64 { fn as_i64(&self) -> i64; fn addr(&self) -> usize { 0 } }
impl AsI64 for u32 { fn as_i64(&self) -> i64 { *self as i64 } }
impl<A: BoundedOgreAllocator<u32> + Send + Sync + 'static> AsI64 for OgreUnique<u32, A> { fn as_i64(&self) -> i64 { **self as i64 } fn addr(&self) -> usize { &**self as *const u32 as usize } }
impl<A: BoundedOgreAllocator<u32> + Send + Sync + 'static> AsI64 for OgreArc<u32, A> { fn as_i64(&self) -> i64 { **self as i64 } fn addr(&self) -> usize { &**self as *const u32 as usize } }
impl AsI64 for &'static u32 { fn as_i64(&self) -> i64 { **self as i64 } fn addr(&self) -> usize { *self as *const u32 as usize } }
impl AsI64 for Arc<u32> { fn as_i64(&self) -> i64 { **self as i64 } fn addr(&self) -> usize { &**self as *const u32 as usize } }

pub fn sm_locs<const M: usize>(sm: &StreamsManagerBase<M>, locs: &mut LocMap) {
    let (a, waker_size) = sm.verif_addrs();
    locs.array(a[0], waker_size, M, 200);
    locs.array(a[1], 1, M, 220);
    locs.array(a[2], 4, M, 240);
    locs.cell(a[3], 260); locs.cell(a[4], 261); locs.cell(a[5], 262); locs.cell(a[6], 263); locs.cell(a[7], 264); locs.cell(a[8], 265);
    for i in 0..M { locs.cell(NOTIFIED_BASE + i, 300 + i as i64); locs.cell(NOTIFIED_BASE + 20 + i, 320 + i as i64); }
}

pub fn run_generic<C>(case: &Case, chan: Arc<C>, locs: LocMap, len_yield: Option<usize>, final_state: impl Fn(&C) -> Vec<i64>) -> Vec<i64>
where C: FullDuplexUniChannel<ItemType = u32> + Send + Sync + 'static,
      C::DerivedItemType: AsI64 + Send {
    let k = case.get("k", 1) as usize;
    // streams are created by the (unscheduled) driver before the run
    let mut streams = vec![];
    for _ in 0..k {
        let (stream, id) = chan.create_stream();
        streams.push((id, Arc::new(Mutex::new(stream)), Arc::new(TaskWaker { id: id as usize, notified: AtomicBool::new(false) }),
                      // a second waker of the same task (`drivem`: the executor hands the stream a different waker at some polls)
                      Arc::new(TaskWaker { id: 20 + id as usize, notified: AtomicBool::new(false) })));
    }
    let chan: &'static Arc<C> = Box::leak(Box::new(chan));
    let streams: &'static Vec<_> = Box::leak(Box::new(streams));
    // outstanding reservations of the case: k -> (address of the slot handed out by reserve_slot, value to write into it)
    let table: &'static Mutex<Vec<Option<(usize, u32)>>> = Box::leak(Box::new(Mutex::new((0..64).map(|_| None).collect())));
    verif::reset(case.progs.len());
    let mut handles = vec![];
    for (tid, prog) in case.progs.iter().enumerate() {
        let prog = prog.clone();
        handles.push(spawn_worker(tid, move || {
            for op in prog {
                match op.name.as_str() {
                    "send" => match chan.send(op.arg(0) as u32) {
                        keen_retry::RetryResult::Ok { .. }               => ret(tid, 10, op.arg(0), 0),
                        keen_retry::RetryResult::Transient { input, .. } => ret(tid, 11, input as i64, 0),
                        keen_retry::RetryResult::Fatal { .. }            => ret(tid, 99, 0, 0),
                    },
                    "sendw" => {
                        let v = op.arg(0) as u32;
                        match chan.send_with(move |slot: &mut u32| *slot = v) {
                            keen_retry::RetryResult::Ok { .. }        => ret(tid, 10, op.arg(0), 0),
                            keen_retry::RetryResult::Transient { .. } => ret(tid, 11, op.arg(0), 0),
                            keen_retry::RetryResult::Fatal { .. }     => ret(tid, 99, 0, 0),
                        }
                    },
                    "poll" | "drive" | "drivem" => {
                        let i = op.arg(0) as usize;
                        let drive = op.name != "poll";
                        // drivem:i:mask - poll number j (j < 16) is made with the task's second waker iff bit j of mask is set; later polls
                        // keep the waker of poll 15; the task parks on the flag of the waker it passed to its latest poll
                        let mask = if op.name == "drivem" { op.arg(1) as u64 } else { 0 };
                        let (id, stream, task_a, task_b) = &streams[i];
                        let id = *id as usize;
                        let mut stream = stream.lock().unwrap_or_else(|p| p.into_inner());
                        let mut polls = 0u32;
                        loop {
                            let task = if (mask >> polls.min(15)) & 1 == 1 { task_b } else { task_a };
                            polls += 1;
                            let waker = Waker::from(task.clone());
                            let mut cx = Context::from_waker(&waker);
                            match stream.poll_next_unpin(&mut cx) {
                                Poll::Ready(Some(item)) => {
                                    ret(tid, 12, item.as_i64(), id as i64);
                                    // a payload handle (zero-copy kinds) gives its slot back when it is dropped: marked by a record of its own
                                    let handle = item.addr() != 0;
                                    drop(item);
                                    if handle { ret(tid, 17, id as i64, 0); }
                                    if !drive { break }
                                },
                                Poll::Ready(None)       => { ret(tid, 14, id as i64, 0); break },
                                Poll::Pending           => {
                                    ret(tid, 13, id as i64, 0);
                                    if !drive { break }
                                    loop {
                                        let mut notified = false;
                                        verif::yield_value("parked", NOTIFIED_BASE + task.id, || { notified = task.notified.swap(false, SeqCst); notified as u64 });
                                        if notified { break }
                                    }
                                },
                            }
                        }
                    },
                    "cancel_all" => { chan.cancel_all_streams(); ret(tid, 16, 0, 0) },
                    // ---- the other entry points that can accept an event
                    "res" => {
                        let k = op.arg(0) as usize;
                        match chan.reserve_slot() {
                            Some(slot) => { table.lock().unwrap()[k] = Some((slot as *mut u32 as usize, op.arg(1) as u32)); ret(tid, 20, k as i64, 0) },
                            None       => ret(tid, 21, k as i64, 0),
                        }
                    },
                    "sres" => {
                        let k = op.arg(0) as usize;
                        let r = table.lock().unwrap()[k];
                        match r {
                            Some((slot, value)) => {
                                unsafe { std::ptr::write(slot as *mut u32, value) };
                                if chan.try_send_reserved(unsafe { &mut *(slot as *mut u32) }) { table.lock().unwrap()[k] = None; ret(tid, 27, k as i64, 0) }
                                else { ret(tid, 23, k as i64, 0) }
                            },
                            None => { verif::yield_point("yield", 2); ret(tid, 26, k as i64, 0) },
                        }
                    },
                    "cres" => {
                        let k = op.arg(0) as usize;
                        let r = table.lock().unwrap()[k];
                        match r {
                            Some((slot, _value)) => {
                                if chan.try_cancel_slot_reserve(unsafe { &mut *(slot as *mut u32) }) { table.lock().unwrap()[k] = None; ret(tid, 24, k as i64, 0) }
                                else { ret(tid, 25, k as i64, 0) }
                            },
                            None => { verif::yield_point("yield", 2); ret(tid, 26, k as i64, 0) },
                        }
                    },
                    "senda" => {
                        // send_with_async with a setter that is ready at its first poll
                        let v = op.arg(0) as u32;
                        let r = futures::executor::block_on(chan.send_with_async(move |slot: &'static mut u32| async move { *slot = v; slot }));
                        match r {
                            keen_retry::RetryResult::Ok { .. }        => ret(tid, 10, op.arg(0), 0),
                            keen_retry::RetryResult::Transient { .. } => ret(tid, 11, op.arg(0), 0),
                            keen_retry::RetryResult::Fatal { .. }     => ret(tid, 99, 0, 0),
                        }
                    },
                    "len" => {
                        // a length query without any shared access of its own gets a scheduling point from the harness
                        if let Some(addr) = len_yield { verif::yield_point("yield", addr); }
                        ret(tid, 15, chan.pending_items_count() as i64, 0)
                    },
                    other => panic!("uni: unknown op {other}"),
                }
            }
        }));
    }
    let mut out = run_schedule(&case.sched, &locs);
    out.push(9);
    out.extend(final_state(chan));
    wind_down(handles, 0);
    if case.get("probe", 0) == 1 {
        // (kinds without a lock-step model) with everything drained and released, the channel accepts exactly BUFFER_SIZE events again
        let waker = futures::task::noop_waker();
        let mut cx = Context::from_waker(&waker);
        for (_id, stream, _a, _b) in streams.iter() {
            let mut stream = stream.lock().unwrap_or_else(|p| p.into_inner());
            for _ in 0..10_000 { match stream.poll_next_unpin(&mut cx) { Poll::Ready(Some(item)) => drop(item), _ => break } }
        }
        let n = case.get("N", 4);
        let mut accepted = 0;
        for e in 0..n + 1 { if let keen_retry::RetryResult::Ok { .. } = chan.send(900_000 + e as u32) { accepted += 1; } }
        out.extend_from_slice(&[-2, accepted]);
    }
    out
}

macro_rules! dispatch_nm {
    ($f:ident, $case:expr) => {
        match ($case.get("N", 4), $case.get("M", 1)) {
            (2, 1) => $f::<2, 1>($case), (2, 2) => $f::<2, 2>($case),
            (4, 1) => $f::<4, 1>($case), (4, 2) => $f::<4, 2>($case), (4, 4) => $f::<4, 4>($case),
            (8, 1) => $f::<8, 1>($case), (8, 2) => $f::<8, 2>($case), (8, 4) => $f::<8, 4>($case),
            (n, m) => panic!("unsupported N={n} M={m}"),
        }
    };
}

fn move_atomic<const N: usize, const M: usize>(case: &Case) -> Vec<i64> {
    verif::set_sequence_origin(case.get("origin", 0) as u32);
    let chan = ChannelUniMoveAtomic::<u32, N, M>::new("c");
    verif::set_sequence_origin(0);
    let mut locs = LocMap::new();
    {
        let (sm, ring) = chan.verif_parts();
        sm_locs(sm, &mut locs);
        let (addrs, slot_size) = ring.verif_addrs();
        for (i, a) in addrs[..4].iter().enumerate() { locs.cell(*a, i as i64); }
        locs.array(addrs[4], slot_size, N, 100);
        locs.cell(2, 2);
    }
    run_generic(case, chan, locs, None, |c| c.verif_parts().1.verif_counters().iter().map(|v| *v as i64).collect())
}

fn move_full_sync<const N: usize, const M: usize>(case: &Case) -> Vec<i64> {
    verif::set_sequence_origin(case.get("origin", 0) as u32);
    let chan = ChannelUniMoveFullSync::<u32, N, M>::new("c");
    verif::set_sequence_origin(0);
    let mut locs = LocMap::new();
    {
        let (sm, ring) = chan.verif_parts();
        sm_locs(sm, &mut locs);
        let (addrs, slot_size) = ring.verif_addrs();
        locs.cell(addrs[0], 0); locs.cell(addrs[1], 1); locs.cell(addrs[2], 4);
        locs.array(addrs[3], slot_size, N, 100);
    }
    let guard = chan.verif_parts().1.verif_addrs().0[2];
    run_generic(case, chan, locs, Some(guard), |c| c.verif_parts().1.verif_counters().iter().map(|v| *v as i64).collect())
}

/// kinds without a lock-step model (judged by the oracles only): their cells are named where the harness can reach them
fn zc_atomic<const N: usize, const M: usize>(case: &Case) -> Vec<i64> {
    verif::set_sequence_origin(case.get("origin", 0) as u32);
    let chan = ChannelUniZeroCopyAtomic::<u32, N, M>::new("c");
    verif::set_sequence_origin(0);
    let mut locs = LocMap::new();
    {
        let (sm, zc) = chan.verif_parts();
        sm_locs(sm, &mut locs);
        let (alloc, ring) = zc.verif_parts();
        let (a, sz) = ring.verif_addrs();
        for (i, x) in a[..4].iter().enumerate() { locs.cell(*x, i as i64); }
        locs.array(a[4], sz, N, 100);
        let (a, sz) = alloc.verif_free_list().verif_addrs();
        for (i, x) in a[..4].iter().enumerate() { locs.cell(*x, 500 + i as i64); }
        locs.array(a[4], sz, N, 600);
        locs.cell(2, 2);
    }
    run_generic(case, chan, locs, None, |c| { let (alloc, ring) = c.verif_parts().1.verif_parts(); let r = ring.verif_counters(); let f = alloc.verif_free_list().verif_counters();
                                             vec![r[0] as i64, r[1] as i64, r[2] as i64, r[3] as i64, f[0] as i64, f[1] as i64] })
}
fn zc_full_sync<const N: usize, const M: usize>(case: &Case) -> Vec<i64> {
    verif::set_sequence_origin(case.get("origin", 0) as u32);
    let chan = ChannelUniZeroCopyFullSync::<u32, N, M>::new("c");
    verif::set_sequence_origin(0);
    let mut locs = LocMap::new();
    let guard;
    {
        let (sm, zc) = chan.verif_parts();
        sm_locs(sm, &mut locs);
        let (alloc, ring) = zc.verif_parts();
        let (a, sz) = ring.verif_addrs();
        locs.cell(a[0], 0); locs.cell(a[1], 1); locs.cell(a[2], 4); locs.array(a[3], sz, N, 100);
        guard = a[2];
        let (a, sz) = alloc.verif_free_list().verif_addrs();
        locs.cell(a[0], 500); locs.cell(a[1], 501); locs.cell(a[2], 504); locs.array(a[3], sz, N, 600);
        locs.cell(2, 2);
    }
    run_generic(case, chan, locs, Some(guard), |c| { let (alloc, ring) = c.verif_parts().1.verif_parts(); let r = ring.verif_counters(); let f = alloc.verif_free_list().verif_counters();
                                             vec![r[0] as i64, r[1] as i64, f[0] as i64, f[1] as i64] })
}
fn crossbeam<const N: usize, const M: usize>(case: &Case) -> Vec<i64> {
    let chan = ChannelUniMoveCrossbeam::<u32, N, M>::new("c");
    let mut locs = LocMap::new();
    sm_locs(chan.verif_parts(), &mut locs);
    // the channel's yield points (crossbeam's own queue has no hooks: each of its calls is one step, taken at the yield point before it):
    // 401 len() of send / pending_items_count, 402 try_send, 403 is_full() of send_with*, 404 try_recv
    let base = Arc::as_ptr(&chan) as usize;
    for j in 1..=4usize { locs.cell(base + j, 400 + j as i64); }
    locs.cell(2, 2);
    run_generic(case, chan, locs, None, |_c| vec![])
}

pub fn run(case: &Case) -> Vec<i64> {
    match case.gets("chan") {
        "zc_atomic"      => dispatch_nm!(zc_atomic, case),
        "zc_full_sync"   => dispatch_nm!(zc_full_sync, case),
        "crossbeam"      => dispatch_nm!(crossbeam, case),
        "move_atomic"    => dispatch_nm!(move_atomic, case),
        "move_full_sync" => dispatch_nm!(move_full_sync, case),
        other => panic!("uni: unknown channel kind '{other}'"),
    }
}
