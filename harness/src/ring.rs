//! Lock-step runs of the raw lock-free ring `AtomicMove<u32, N>`
use crate::sched::*;
use crate::case::*;
use reactive_mutiny::verif;
use reactive_mutiny::ogre_std::ogre_queues::{
    atomic::atomic_move::AtomicMove,
    full_sync::full_sync_move::FullSyncMove,
    meta_container::MoveContainer, meta_publisher::MovePublisher, meta_subscriber::MoveSubscriber,
};

fn run_n<const N: usize>(case: &Case) -> Vec<i64> {
    verif::set_sequence_origin(case.get("origin", 0) as u32);
    let q: &'static AtomicMove<u32, N> = Box::leak(Box::new(AtomicMove::<u32, N>::new()));
    verif::set_sequence_origin(0);
    let (addrs, slot_size) = q.verif_addrs();
    let mut locs = LocMap::new();
    for (i, a) in addrs[..4].iter().enumerate() { locs.cell(*a, i as i64); }
    locs.array(addrs[4], slot_size, N, 100);
    verif::reset(case.progs.len());
    let mut handles = vec![];
    for (tid, prog) in case.progs.iter().enumerate() {
        let prog = prog.clone();
        handles.push(spawn_worker(tid, move || {
            for op in prog {
                match op.name.as_str() {
                    "pub" => match q.publish_movable(op.arg(0) as u32) {
                        (Some(len), _)    => ret(tid, 1, op.arg(0), len.get() as i64),
                        (None, Some(v))   => ret(tid, 0, v as i64, 0),
                        (None, None)      => ret(tid, 99, 0, 0),
                    },
                    "cons" => match q.consume_movable() {
                        Some(v) => ret(tid, 3, v as i64, 0),
                        None    => ret(tid, 2, 0, 0),
                    },
                    "len" => ret(tid, 4, q.available_elements_count() as i64, 0),
                    other => panic!("ring: unknown op {other}"),
                }
            }
        }));
    }
    let mut out = run_schedule(&case.sched, &locs);
    let c = q.verif_counters();
    out.extend_from_slice(&[9, c[0] as i64, c[1] as i64, c[2] as i64, c[3] as i64]);
    wind_down(handles, 0);
    out
}

pub fn run(case: &Case) -> Vec<i64> {
    match case.get("N", 4) {
        2  => run_n::<2>(case),
        4  => run_n::<4>(case),
        8  => run_n::<8>(case),
        16 => run_n::<16>(case),
        n  => panic!("ring: unsupported N={n}"),
    }
}

fn run_fs_n<const N: usize>(case: &Case) -> Vec<i64> {
    verif::set_sequence_origin(case.get("origin", 0) as u32);
    let q: &'static FullSyncMove<u32, N> = Box::leak(Box::new(FullSyncMove::<u32, N>::new()));
    verif::set_sequence_origin(0);
    let (addrs, slot_size) = q.verif_addrs();
    let mut locs = LocMap::new();
    locs.cell(addrs[0], 0); locs.cell(addrs[1], 1); locs.cell(addrs[2], 4);
    locs.array(addrs[3], slot_size, N, 100);
    let guard = addrs[2];
    verif::reset(case.progs.len());
    let mut handles = vec![];
    for (tid, prog) in case.progs.iter().enumerate() {
        let prog = prog.clone();
        handles.push(spawn_worker(tid, move || {
            for op in prog {
                match op.name.as_str() {
                    "pub" => match q.publish_movable(op.arg(0) as u32) {
                        (Some(len), _)    => ret(tid, 1, op.arg(0), len.get() as i64),
                        (None, Some(v))   => ret(tid, 0, v as i64, 0),
                        (None, None)      => ret(tid, 99, 0, 0),
                    },
                    "cons" => match q.consume_movable() {
                        Some(v) => ret(tid, 3, v as i64, 0),
                        None    => ret(tid, 2, 0, 0),
                    },
                    "len" => { verif::yield_point("yield", guard); ret(tid, 4, q.available_elements_count() as i64, 0) },
                    other => panic!("fsring: unknown op {other}"),
                }
            }
        }));
    }
    let mut out = run_schedule(&case.sched, &locs);
    let c = q.verif_counters();
    out.extend_from_slice(&[9, c[0] as i64, c[1] as i64, c[2] as i64]);
    wind_down(handles, 0);
    out
}

pub fn run_fs(case: &Case) -> Vec<i64> {
    match case.get("N", 4) {
        2  => run_fs_n::<2>(case),
        4  => run_fs_n::<4>(case),
        8  => run_fs_n::<8>(case),
        16 => run_fs_n::<16>(case),
        n  => panic!("fsring: unsupported N={n}"),
    }
}
