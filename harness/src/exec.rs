//! C06 / C11 / C12: a Uni with a real stream executor under tokio's paused (virtual) clock. All events are sent at time 0, each item
//! "takes" its duration (tokio::time::sleep) and then succeeds / fails; close() is called at `tclose` ms with an unbounded timeout.
//! Records (thread 0): [70 ok failed] [71 timed_out err_callbacks] [72 max_in_flight done_when_close_returned]
//!                     [73 finish_time_ms close_answer] [74 close_callbacks processed_total] [75 status_in_callback sched]
use crate::case::*;
use reactive_mutiny::prelude::advanced::*;
use reactive_mutiny::stream_executor::{StreamExecutorStats, ExecutorStatus};
use reactive_mutiny::uni::GenericUni;
use std::sync::atomic::{AtomicI64, Ordering::SeqCst};
use std::sync::{Arc, Mutex};
use std::time::Duration;
use futures::StreamExt;

struct Shared {
    items: Vec<(u64, bool)>,
    in_flight: AtomicI64, max_in_flight: AtomicI64, done: AtomicI64, last_done_ms: AtomicI64,
    err_cb: AtomicI64, err_started: AtomicI64, err_at_close: AtomicI64, err_started_at_close: AtomicI64, close_cb: AtomicI64, status_cb: AtomicI64,
    counters: Mutex<(i64, i64, i64)>,
    t0: tokio::time::Instant,
}
struct Guard(Arc<Shared>, bool);       // .1 = the item failed: it is fully processed only when its (awaited) error callback has finished
impl Guard { fn enter(s: &Arc<Shared>) -> Self { let n = s.in_flight.fetch_add(1, SeqCst) + 1; s.max_in_flight.fetch_max(n, SeqCst); Guard(s.clone(), false) } }
fn processed(s: &Shared) {
    s.in_flight.fetch_sub(1, SeqCst); s.done.fetch_add(1, SeqCst);
    s.last_done_ms.store(s.t0.elapsed().as_millis() as i64, SeqCst);
}
impl Drop for Guard { fn drop(&mut self) { if !self.1 { processed(&self.0); } } }

const METRICS: usize = Instruments::MetricsWithoutLogs.into();
const EXPENSIVE: usize = Instruments::ExpensiveMetricsWithoutLogs.into();
const COUNTERS_ONLY: usize = Instruments::Custom(1).into();
const NONE: usize = Instruments::NoInstruments.into();
type BoxErr = Box<dyn std::error::Error + Send + Sync>;

fn status_code(s: ExecutorStatus) -> i64 { match s { ExecutorStatus::NotStarted => 0, ExecutorStatus::Running => 1, ExecutorStatus::ScheduledToFinish => 2, ExecutorStatus::ProgrammaticallyEnded => 3, ExecutorStatus::StreamEnded => 4 } }

fn on_close(sh: Arc<Shared>) -> impl FnOnce(Arc<dyn StreamExecutorStats + Send + Sync>) -> std::pin::Pin<Box<dyn std::future::Future<Output=()> + Send>> + Send + Sync + 'static {
    move |ex| Box::pin(async move {
        sh.close_cb.fetch_add(1, SeqCst);
        sh.err_at_close.store(sh.err_cb.load(SeqCst), SeqCst); sh.err_started_at_close.store(sh.err_started.load(SeqCst), SeqCst);
        sh.status_cb.store(status_code(ex.executor_status().load(SeqCst)), SeqCst);
        *sh.counters.lock().unwrap() = (ex.ok_events_avg_future_duration().probe().0 as i64, ex.failed_events_avg_future_duration().probe().0 as i64,
                                         ex.timed_out_events_avg_future_duration().probe().0 as i64);
    })
}

macro_rules! drive { ($uni:expr, $sh:expr, $case:expr) => {{
    let uni = $uni; let sh: Arc<Shared> = $sh;
    for i in 0..sh.items.len() { let _ = uni.send(i as u32); }
    tokio::time::sleep(Duration::from_millis($case.get("tclose", 0) as u64)).await;
    // closing again: a bounded close that may time out (`tpre` ms), or a programmatic cancel_all_streams(), precedes the unbounded close
    let tpre = $case.get("tpre", 0) as u64;
    if tpre > 0 { let _ = uni.close(Duration::from_millis(tpre)).await; }
    if $case.get("precancel", 0) == 1 { uni.channel.cancel_all_streams(); }
    let closed = uni.close(Duration::ZERO).await;
    let done_at_close = sh.done.load(SeqCst);
    tokio::time::sleep(Duration::from_millis(1_000_000)).await;
    let c = *sh.counters.lock().unwrap();
    vec![2, 0, 70, c.0, c.1,  2, 0, 71, c.2, sh.err_cb.load(SeqCst),  2, 0, 72, sh.max_in_flight.load(SeqCst), done_at_close,
         2, 0, 73, sh.last_done_ms.load(SeqCst), closed as i64,  2, 0, 74, sh.close_cb.load(SeqCst), sh.done.load(SeqCst),
         2, 0, 75, sh.status_cb.load(SeqCst), 0,  2, 0, 78, sh.err_at_close.load(SeqCst), sh.err_started_at_close.load(SeqCst),  9]
}}; }

macro_rules! kinds { ($unitype:ident, $case:expr, $sh:expr, $instr:expr) => {{
    let sh: Arc<Shared> = $sh;
    let limit = $case.get("L", 1) as u32;
    let tau = Duration::from_millis($case.get("tau", 0) as u64);
    match $case.gets("kind") {
        "ff" => {
            let (s1, s2, s3) = (sh.clone(), sh.clone(), sh.clone());
            let uni = $unitype::<u32, 64, 1, {$instr}>::new("u").spawn_executors(limit, tau,
                move |stream| { let s1 = s1.clone(); stream.map(move |i: u32| { let s = s1.clone(); async move {
                    let mut g = Guard::enter(&s); let (d, f) = s.items[i as usize];
                    if d > 0 { tokio::time::sleep(Duration::from_millis(d)).await; }
                    if f { g.1 = true; Err::<u32, BoxErr>(Box::from("failing as requested")) } else { Ok(i) } } }) },
                move |_err| { let s = s2.clone(); async move { s.err_started.fetch_add(1, SeqCst); tokio::time::sleep(Duration::from_millis(3)).await; s.err_cb.fetch_add(1, SeqCst); processed(&s); } },
                on_close(s3));
            drive!(uni, sh, $case)
        },
        "fn" => {
            let (s1, s3) = (sh.clone(), sh.clone());
            let uni = $unitype::<u32, 64, 1, {$instr}>::new("u").spawn_futures_executors(limit, tau,
                move |stream| { let s1 = s1.clone(); stream.map(move |i: u32| { let s = s1.clone(); async move {
                    let _g = Guard::enter(&s); let (d, _f) = s.items[i as usize];
                    if d > 0 { tokio::time::sleep(Duration::from_millis(d)).await; }
                    i } }) },
                on_close(s3));
            drive!(uni, sh, $case)
        },
        "fb" => {
            // a pipeline that reads AHEAD of the executor: the item futures are driven inside the pipeline by `.buffered(R)` (up to R at a
            // time, whatever the executor's own concurrency limit), the executor only sees their results
            let (s1, s3) = (sh.clone(), sh.clone());
            let r = $case.get("R", 2) as usize;
            let uni = $unitype::<u32, 64, 1, {$instr}>::new("u").spawn_futures_executors(limit, tau,
                move |stream| { let s1 = s1.clone(); stream.map(move |i: u32| { let s = s1.clone(); async move {
                    let _g = Guard::enter(&s); let (d, _f) = s.items[i as usize];
                    if d > 0 { tokio::time::sleep(Duration::from_millis(d)).await; }
                    i } }).buffered(r).map(|v| futures::future::ready(v)) },
                on_close(s3));
            drive!(uni, sh, $case)
        },
        "nf" => {
            let (s1, s2, s3) = (sh.clone(), sh.clone(), sh.clone());
            let uni = $unitype::<u32, 64, 1, {$instr}>::new("u").spawn_fallibles_executors(limit,
                move |stream| { let s1 = s1.clone(); stream.map(move |i: u32| { let _g = Guard::enter(&s1); let (_d, f) = s1.items[i as usize];
                    if f { Err::<u32, BoxErr>(Box::from("failing as requested")) } else { Ok(i) } }) },
                move |_err| { s2.err_started.fetch_add(1, SeqCst); s2.err_cb.fetch_add(1, SeqCst); },
                on_close(s3));
            drive!(uni, sh, $case)
        },
        "nn" => {
            let (s1, s3) = (sh.clone(), sh.clone());
            let uni = $unitype::<u32, 64, 1, {$instr}>::new("u").spawn_non_futures_non_fallibles_executors(limit,
                move |stream| { let s1 = s1.clone(); stream.map(move |i: u32| { let _g = Guard::enter(&s1); i }) },
                on_close(s3));
            drive!(uni, sh, $case)
        },
        other => panic!("exec: unknown executor kind {other}"),
    }
}}; }

// ---- the executor's status cell (C12): a bare StreamExecutor over an iterator stream; `report_scheduled_to_finish()` is called
// before the executor starts ("before"), from inside an item ("during"), from the logger when the executor logs that it ended -
// which happens after register_execution_finish() and before the close callback ("endlog") - or never.
use reactive_mutiny::stream_executor::StreamExecutor;
static HOOK: Mutex<Option<Arc<dyn StreamExecutorStats + Send + Sync>>> = Mutex::new(None);
struct HookLogger;
impl log::Log for HookLogger {
    fn enabled(&self, _: &log::Metadata) -> bool { true }
    fn log(&self, record: &log::Record) {
        if record.args().to_string().contains("ended after running") {
            if let Some(ex) = HOOK.lock().unwrap().take() { ex.report_scheduled_to_finish(); }
        }
    }
    fn flush(&self) {}
}
static LOGGER: HookLogger = HookLogger;
const LOGS: usize = Instruments::LogsWithMetrics.into();

pub fn run_status(case: &Case) -> Vec<i64> {
    reactive_mutiny::verif::deactivate();
    let _ = log::set_logger(&LOGGER).map(|()| log::set_max_level(log::LevelFilter::Trace));
    let n = case.get("n", 3) as u32;
    let sched = case.gets("sched").to_string();
    let rt = tokio::runtime::Builder::new_current_thread().enable_time().start_paused(true).build().unwrap();
    rt.block_on(async {
        let ex = StreamExecutor::<LOGS>::new("status");
        let stats: Arc<dyn StreamExecutorStats + Send + Sync> = ex.clone();
        let status_cb = Arc::new(AtomicI64::new(-1)); let cbs = Arc::new(AtomicI64::new(0)); let processed = Arc::new(AtomicI64::new(0));
        if sched == "before" { stats.report_scheduled_to_finish(); }
        if sched == "endlog" { *HOOK.lock().unwrap() = Some(stats.clone()); }
        let (s1, p1, sc) = (stats.clone(), processed.clone(), sched.clone());
        let stream = futures::stream::iter(0..n).map(move |i| { let (s1, p1, sc) = (s1.clone(), p1.clone(), sc.clone()); async move {
            tokio::time::sleep(Duration::from_millis(10)).await;
            if sc == "during" && i == 0 { s1.report_scheduled_to_finish(); }
            p1.fetch_add(1, SeqCst);
            Ok::<u32, BoxErr>(i) } });
        let (st, cb, pr) = (status_cb.clone(), cbs.clone(), processed.clone());
        ex.spawn_executor(1, |_e| async {}, move |e| async move {
            cb.fetch_add(1, SeqCst); st.store(status_code(e.executor_status().load(SeqCst)) * 100 + pr.load(SeqCst), SeqCst); }, stream);
        tokio::time::sleep(Duration::from_millis(100_000)).await;
        *HOOK.lock().unwrap() = None;
        let v = status_cb.load(SeqCst);
        vec![2, 0, 76, v / 100, 0,  2, 0, 77, cbs.load(SeqCst), v % 100,  9]
    })
}

// ---- the Uni's close callback is latched over its MAX_STREAMS executors (C12) ----
macro_rules! latch_m { ($m:expr, $case:expr) => {{
    let n = $case.get("n", 4);
    let cbs = Arc::new(AtomicI64::new(0)); let processed = Arc::new(AtomicI64::new(0)); let at_cb = Arc::new(AtomicI64::new(-1)); let fin_at_cb = Arc::new(AtomicI64::new(-1));
    let (p1, c1, a1) = (processed.clone(), cbs.clone(), at_cb.clone());
    let uni = UniMoveFullSync::<u32, 64, $m, METRICS>::new("latch").spawn_futures_executors(2, Duration::ZERO,
        move |stream| { let p1 = p1.clone(); stream.map(move |i: u32| { let p1 = p1.clone(); async move {
            tokio::time::sleep(Duration::from_millis(10 + (i as u64 % 3) * 10)).await; p1.fetch_add(1, SeqCst); i } }) },
        move |_ex| { let (c1, a1, p) = (c1.clone(), a1.clone(), processed.clone()); async move { c1.fetch_add(1, SeqCst); a1.store(p.load(SeqCst), SeqCst); } });
    for i in 0..n { let _ = uni.send(i as u32); }
    tokio::time::sleep(Duration::from_millis($case.get("tclose", 0) as u64)).await;
    let _ = uni.close(Duration::ZERO).await;
    tokio::time::sleep(Duration::from_millis(1_000_000)).await;
    fin_at_cb.store(uni.finished_executors_count.load(SeqCst) as i64, SeqCst);
    vec![2, 0, 79, cbs.load(SeqCst), at_cb.load(SeqCst),  2, 0, 80, fin_at_cb.load(SeqCst), $m,  9]
}}; }
pub fn run_latch(case: &Case) -> Vec<i64> {
    reactive_mutiny::verif::deactivate();
    let rt = tokio::runtime::Builder::new_current_thread().enable_time().start_paused(true).build().unwrap();
    rt.block_on(async {
        match case.get("M", 2) { 1 => latch_m!(1, case), 2 => latch_m!(2, case), 4 => latch_m!(4, case), m => panic!("latch: unsupported M={m}") }
    })
}

pub fn run(case: &Case) -> Vec<i64> {
    reactive_mutiny::verif::deactivate();
    let items: Vec<(u64, bool)> = case.progs.get(0).map(|p| p.iter().map(|op| (op.arg(0) as u64, op.arg(1) == 1)).collect()).unwrap_or_default();
    let rt = tokio::runtime::Builder::new_current_thread().enable_time().start_paused(true).build().unwrap();
    rt.block_on(async {
        let sh = Arc::new(Shared { items, in_flight: AtomicI64::new(0), max_in_flight: AtomicI64::new(0), done: AtomicI64::new(0), last_done_ms: AtomicI64::new(0),
                                   err_cb: AtomicI64::new(0), err_started: AtomicI64::new(0), err_at_close: AtomicI64::new(-1), err_started_at_close: AtomicI64::new(-1), close_cb: AtomicI64::new(0), status_cb: AtomicI64::new(-1), counters: Mutex::new((-1, -1, -1)),
                                   t0: tokio::time::Instant::now() });
        macro_rules! chans { ($instr:expr) => { match case.gets("chan") {
            "full_sync" => kinds!(UniMoveFullSync, case, sh, $instr),
            "atomic"    => kinds!(UniMoveAtomic, case, sh, $instr),
            "crossbeam" => kinds!(UniMoveCrossbeam, case, sh, $instr),
            other => panic!("exec: unknown channel kind {other}"),
        } } }
        match case.gets("instr") {
            "" | "metrics" => chans!(METRICS),
            "expensive"    => chans!(EXPENSIVE),
            "counters"     => chans!(COUNTERS_ONLY),
            "none"         => chans!(NONE),
            other => panic!("exec: unknown instrument setting {other}"),
        }
    })
}
