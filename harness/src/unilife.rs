//! C10, "the same create/drop bookkeeping for Uni channels": sequential histories (one thread, no scheduler) of
//! create-stream / drop-stream / send / poll / count on the five Uni channel kinds.
//! Records (thread 0): create -> [2 0 40 id running_count] | [2 0 41 0 running_count] (the creation panicked: ids exhausted);
//! drop:j (the j-th stream created) -> [2 0 42 id running_count] | [2 0 43 j 0] (not alive); send:v -> [2 0 10 v 0] | [2 0 11 v 0];
//! poll:j -> [2 0 12 v id] | [2 0 13 id 0] | [2 0 14 id 0] | [2 0 43 j 0]; count -> [2 0 15 running_count pending_items]
use crate::case::*;
use crate::uni::AsI64;
use reactive_mutiny::prelude::advanced::*;
use std::sync::Arc;
use std::task::{Context, Poll};
use futures::StreamExt;

fn run_generic<C>(case: &Case, chan: Arc<C>) -> Vec<i64>
where C: FullDuplexUniChannel<ItemType = u32> + Send + Sync + 'static,
      C::DerivedItemType: AsI64 + Send {
    let chan: &'static Arc<C> = Box::leak(Box::new(chan));
    let mut out: Vec<i64> = vec![];
    let mut streams: Vec<Option<(MutinyStream<'static, u32, C, C::DerivedItemType>, u32)>> = vec![];
    let waker = futures::task::noop_waker();
    for op in case.progs.get(0).cloned().unwrap_or_default() {
        match op.name.as_str() {
            "create" => {
                let r = std::panic::catch_unwind(std::panic::AssertUnwindSafe(|| chan.create_stream()));
                match r {
                    Ok((s, id)) => { streams.push(Some((s, id))); out.extend_from_slice(&[2, 0, 40, id as i64, chan.running_streams_count() as i64]); },
                    Err(_) => { streams.push(None); out.extend_from_slice(&[2, 0, 41, 0, chan.running_streams_count() as i64]); },
                }
            },
            "drop" => {
                let j = op.arg(0) as usize;
                match streams.get_mut(j).and_then(|s| s.take()) {
                    Some((s, id)) => { drop(s); out.extend_from_slice(&[2, 0, 42, id as i64, chan.running_streams_count() as i64]); },
                    None => out.extend_from_slice(&[2, 0, 43, j as i64, 0]),
                }
            },
            "send" => match chan.send(op.arg(0) as u32) {
                keen_retry::RetryResult::Ok { .. } => out.extend_from_slice(&[2, 0, 10, op.arg(0), 0]),
                _ => out.extend_from_slice(&[2, 0, 11, op.arg(0), 0]),
            },
            "poll" => {
                let j = op.arg(0) as usize;
                match streams.get_mut(j).and_then(|s| s.as_mut()) {
                    Some((s, id)) => {
                        let mut cx = Context::from_waker(&waker);
                        match s.poll_next_unpin(&mut cx) {
                            Poll::Ready(Some(item)) => { let v = item.as_i64(); drop(item); out.extend_from_slice(&[2, 0, 12, v, *id as i64]); },
                            Poll::Pending => out.extend_from_slice(&[2, 0, 13, *id as i64, 0]),
                            Poll::Ready(None) => out.extend_from_slice(&[2, 0, 14, *id as i64, 0]),
                        }
                    },
                    None => out.extend_from_slice(&[2, 0, 43, j as i64, 0]),
                }
            },
            "count" => out.extend_from_slice(&[2, 0, 15, chan.running_streams_count() as i64, chan.pending_items_count() as i64]),
            other => panic!("unilife: unknown op {other}"),
        }
    }
    out.push(9);
    out
}

macro_rules! dispatch_m {
    ($ty:ident, $case:expr) => {
        match $case.get("M", 2) {
            1 => run_generic($case, $ty::<u32, 4, 1>::new("c")), 2 => run_generic($case, $ty::<u32, 4, 2>::new("c")), 4 => run_generic($case, $ty::<u32, 4, 4>::new("c")),
            m => panic!("unilife: unsupported M={m}"),
        }
    };
}

pub fn run(case: &Case) -> Vec<i64> {
    let r = match case.gets("chan") {
        "move_atomic"    => dispatch_m!(ChannelUniMoveAtomic, case),
        "move_full_sync" => dispatch_m!(ChannelUniMoveFullSync, case),
        "crossbeam"      => dispatch_m!(ChannelUniMoveCrossbeam, case),
        "zc_atomic"      => dispatch_m!(ChannelUniZeroCopyAtomic, case),
        "zc_full_sync"   => dispatch_m!(ChannelUniZeroCopyFullSync, case),
        other => panic!("unilife: unknown channel kind '{other}'"),
    };
    r
}
