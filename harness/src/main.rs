//! Correspondence harness: runs cases (read from stdin, one per line) against the implementation in /repo
//! (built with the `verif` feature) and prints, per case, one line with the flattened trace.
mod sched;
mod case;
mod ring;
mod uni;
mod unilife;
mod unistress;
mod pool;
mod stack;
mod zcq;
mod avg;
mod arc;
mod logq;
mod multi;
mod resring;
mod asyncsend;
mod teardown;
mod life;
mod exec;
mod mexec;

use std::io::{BufRead, Write};

static CASE_STARTED_MS: std::sync::atomic::AtomicU64 = std::sync::atomic::AtomicU64::new(0);
static T0: std::sync::OnceLock<std::time::Instant> = std::sync::OnceLock::new();

/// the watchdog's way out: the main thread holds the stdout lock for the whole run, so the marker line is written to fd 1 directly
fn give_up() -> ! {
    use std::os::unix::io::FromRawFd;
    let mut f = unsafe { std::fs::File::from_raw_fd(1) };
    let _ = f.write_all(b"-9999\n");
    let _ = f.flush();
    std::process::exit(77);
}

fn main() {
    let _ = T0.set(std::time::Instant::now());
    std::panic::set_hook(Box::new(|info| {
        let msg = info.to_string();
        if !msg.contains("verif: schedule aborted") && std::env::var("HARNESS_VERBOSE").is_ok() { eprintln!("{msg}"); }
    }));
    // watchdog: a grant of the baton scheduler that does not return for 20 s (never seen on purpose; a rare stall of the driver /
    // worker hand-over was observed once in ~10^4 cases) ends the process; the Python driver re-runs the case in a fresh process
    let case_limit_ms: u64 = std::env::var("HARNESS_CASE_LIMIT_MS").ok().and_then(|v| v.parse().ok()).unwrap_or(90_000);
    std::thread::spawn(move || {
        use std::sync::atomic::Ordering::SeqCst;
        let mut last = (0u64, std::time::Instant::now());
        loop {
            std::thread::sleep(std::time::Duration::from_millis(500));
            let p = sched::PROGRESS.load(SeqCst);
            // a single case that does not come back for 90 s, whatever it is doing (e.g. a send sleeping and retrying for ever on a queue that
            // wrongly calls itself full), ends the process the same way: the driver re-runs it alone and reports it if it stalls again
            let started = CASE_STARTED_MS.load(SeqCst);
            if started != 0 && T0.get().map(|t| t.elapsed().as_millis() as u64).unwrap_or(0) > started + case_limit_ms {
                give_up();
            }
            if p != last.0 || !sched::IN_SCHEDULE.load(SeqCst) { last = (p, std::time::Instant::now()); continue }
            if last.1.elapsed() > std::time::Duration::from_secs(20) {
                give_up();
            }
        }
    });
    let stdin = std::io::stdin();
    let stdout = std::io::stdout();
    let mut out = stdout.lock();
    for line in stdin.lock().lines() {
        let line = line.expect("stdin");
        let line = line.trim();
        if line.is_empty() || line.starts_with('#') { continue }
        let case = case::Case::parse(line);
        CASE_STARTED_MS.store(T0.get().unwrap().elapsed().as_millis() as u64 + 1, std::sync::atomic::Ordering::SeqCst);
        let trace = match case.kind.as_str() {
            "ring" => ring::run(&case),
            "fsring" => ring::run_fs(&case),
            "uni"  => uni::run(&case),
            "unilife" => unilife::run(&case),
            "unistress" => unistress::run(&case),
            "pool" => pool::run(&case),
            "stack" => stack::run(&case),
            "zcq" => zcq::run(&case),
            "avg" => avg::run(&case),
            "arc" => arc::run(&case),
            "log" => logq::run(&case),
            "multi" => multi::run(&case),
            "resring" => resring::run(&case),
            "async" => asyncsend::run(&case),
            "teardown" => teardown::run(&case),
            "life" => life::run(&case),
            "exec" => exec::run(&case),
            "mexec" => mexec::run(&case),
            "status" => exec::run_status(&case),
            "latch" => exec::run_latch(&case),
            "hang" => { std::thread::sleep(std::time::Duration::from_secs(case.get("secs", 600) as u64)); vec![9] },     // (to test the watchdog)
            other  => panic!("unknown case kind '{other}'"),
        };
        let text: Vec<String> = trace.iter().map(|v| v.to_string()).collect();
        CASE_STARTED_MS.store(0, std::sync::atomic::Ordering::SeqCst);
        writeln!(out, "{}", text.join(" ")).unwrap();
        out.flush().unwrap();
        if sched::LEAKED.load(std::sync::atomic::Ordering::SeqCst) { std::process::exit(75); }
    }
}
