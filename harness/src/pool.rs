//! Lock-step runs of the bounded pool allocator `OgreArrayPoolAllocator<u32, FreeList, N>` over both free lists.
use crate::sched::*;
use crate::case::*;
use reactive_mutiny::verif;
use reactive_mutiny::prelude::advanced::{AllocatorAtomicArray, AllocatorFullSyncArray, BoundedOgreAllocator};

macro_rules! pool_runner {
    ($fname:ident, $alloc:ident, $locs:expr, $counters:expr) => {
        fn $fname<const N: usize>(case: &Case) -> Vec<i64> {
            verif::set_sequence_origin(case.get("origin", 0) as u32);
            let a: &'static $alloc<u32, N> = Box::leak(Box::new($alloc::<u32, N>::new()));
            verif::set_sequence_origin(0);
            let mut locs = LocMap::new();
            let fl = a.verif_free_list();
            $locs(fl, &mut locs, N);
            // id <-> reference conversion is a bijection onto the pool (checked on every case, outside the schedule)
            let (pool0, slot_size) = a.verif_pool();
            let mut bij_ok = true;
            for i in 0..N as u32 {
                let r = a.ref_from_id(i) as *const u32 as usize;
                if r != pool0 + slot_size * i as usize || a.id_from_ref(a.ref_from_id(i)) != i { bij_ok = false; }
            }
            verif::reset(case.progs.len());
            let mut handles = vec![];
            for (tid, prog) in case.progs.iter().enumerate() {
                let prog = prog.clone();
                handles.push(spawn_worker(tid, move || {
                    let mut held: Vec<u32> = vec![];
                    for op in prog {
                        match op.name.as_str() {
                            "alloc" => match a.alloc_ref() {
                                Some((r, id)) => { *r = 1000 + id; held.push(id); ret(tid, 3, id as i64, 0) },
                                None          => ret(tid, 2, 0, 0),
                            },
                            "dealloc" | "dealloc_ref" => match held.pop() {
                                Some(id) => {
                                    if op.name == "dealloc" { a.dealloc_id(id) } else { a.dealloc_ref(a.ref_from_id(id)) }
                                    ret(tid, 1, id as i64, 0)
                                },
                                None => { verif::yield_point("yield", 0x10); ret(tid, 5, 0, 0) },
                            },
                            other => panic!("pool: unknown op {other}"),
                        }
                    }
                }));
            }
            let mut out = run_schedule(&case.sched, &locs);
            out.push(9);
            out.extend($counters(fl));
            if !bij_ok { out.push(-777); }
            wind_down(handles, 0);
            out
        }
    };
}

pool_runner!(atomic_n, AllocatorAtomicArray,
    |fl: &reactive_mutiny::ogre_std::ogre_queues::atomic::atomic_move::AtomicMove<u32, N>, locs: &mut LocMap, n: usize| {
        let (addrs, slot_size) = fl.verif_addrs();
        for (i, a) in addrs[..4].iter().enumerate() { locs.cell(*a, i as i64); }
        locs.array(addrs[4], slot_size, n, 100);
        locs.cell(0x10, 0);
    },
    |fl: &reactive_mutiny::ogre_std::ogre_queues::atomic::atomic_move::AtomicMove<u32, N>| fl.verif_counters().iter().map(|v| *v as i64).collect::<Vec<i64>>());
pool_runner!(fullsync_n, AllocatorFullSyncArray,
    |fl: &reactive_mutiny::ogre_std::ogre_queues::full_sync::full_sync_move::FullSyncMove<u32, N>, locs: &mut LocMap, n: usize| {
        let (addrs, slot_size) = fl.verif_addrs();
        locs.cell(addrs[0], 0); locs.cell(addrs[1], 1); locs.cell(addrs[2], 4);
        locs.array(addrs[3], slot_size, n, 100);
        locs.cell(0x10, 0);
    },
    |fl: &reactive_mutiny::ogre_std::ogre_queues::full_sync::full_sync_move::FullSyncMove<u32, N>| fl.verif_counters().iter().map(|v| *v as i64).collect::<Vec<i64>>());

/// a payload whose destructor is a scheduling point (so that the schedule can place other threads' operations inside / around it)
#[derive(Debug, Default)]
pub struct Dropper(pub u32);
impl Drop for Dropper { fn drop(&mut self) { verif::yield_point("drop", self as *const Dropper as usize); } }

macro_rules! pooldrop_runner {
    ($fname:ident, $alloc:ident, $locs:expr, $counters:expr) => {
        fn $fname<const N: usize>(case: &Case) -> Vec<i64> {
            let a: &'static $alloc<Dropper, N> = Box::leak(Box::new($alloc::<Dropper, N>::new()));
            let mut locs = LocMap::new();
            let fl = a.verif_free_list();
            $locs(fl, &mut locs, N);
            let (pool0, slot_size) = a.verif_pool();
            locs.array(pool0, slot_size, N, 400);
            verif::reset(case.progs.len());
            let mut handles = vec![];
            for (tid, prog) in case.progs.iter().enumerate() {
                let prog = prog.clone();
                handles.push(spawn_worker(tid, move || {
                    let mut held: Vec<u32> = vec![];
                    for op in prog {
                        match op.name.as_str() {
                            "alloc" => match a.alloc_ref() {
                                Some((r, id)) => { unsafe { std::ptr::write(r, Dropper(1000 + id)) }; held.push(id); ret(tid, 3, id as i64, 0) },
                                None          => ret(tid, 2, 0, 0),
                            },
                            "dealloc" | "dealloc_ref" => match held.pop() {
                                Some(id) => {
                                    if op.name == "dealloc" { a.dealloc_id(id) } else { a.dealloc_ref(a.ref_from_id(id)) }
                                    ret(tid, 1, id as i64, 0)
                                },
                                None => { verif::yield_point("yield", 0x10); ret(tid, 5, 0, 0) },
                            },
                            other => panic!("pool: unknown op {other}"),
                        }
                    }
                }));
            }
            let mut out = run_schedule(&case.sched, &locs);
            out.push(9);
            out.extend($counters(fl));
            wind_down(handles, 0);
            out
        }
    };
}
pooldrop_runner!(atomic_drop_n, AllocatorAtomicArray,
    |fl: &reactive_mutiny::ogre_std::ogre_queues::atomic::atomic_move::AtomicMove<u32, N>, locs: &mut LocMap, n: usize| {
        let (addrs, slot_size) = fl.verif_addrs();
        for (i, a) in addrs[..4].iter().enumerate() { locs.cell(*a, i as i64); }
        locs.array(addrs[4], slot_size, n, 100);
        locs.cell(0x10, 0);
    },
    |fl: &reactive_mutiny::ogre_std::ogre_queues::atomic::atomic_move::AtomicMove<u32, N>| fl.verif_counters().iter().map(|v| *v as i64).collect::<Vec<i64>>());
pooldrop_runner!(fullsync_drop_n, AllocatorFullSyncArray,
    |fl: &reactive_mutiny::ogre_std::ogre_queues::full_sync::full_sync_move::FullSyncMove<u32, N>, locs: &mut LocMap, n: usize| {
        let (addrs, slot_size) = fl.verif_addrs();
        locs.cell(addrs[0], 0); locs.cell(addrs[1], 1); locs.cell(addrs[2], 4);
        locs.array(addrs[3], slot_size, n, 100);
        locs.cell(0x10, 0);
    },
    |fl: &reactive_mutiny::ogre_std::ogre_queues::full_sync::full_sync_move::FullSyncMove<u32, N>| fl.verif_counters().iter().map(|v| *v as i64).collect::<Vec<i64>>());

pub fn run(case: &Case) -> Vec<i64> {
    if case.get("dropper", 0) == 1 {
        return match (case.gets("fl"), case.get("N", 4)) {
            ("atomic", 2) => atomic_drop_n::<2>(case), ("atomic", 4) => atomic_drop_n::<4>(case),
            ("fullsync", 2) => fullsync_drop_n::<2>(case), ("fullsync", 4) => fullsync_drop_n::<4>(case),
            (fl, n) => panic!("pool: unsupported fl={fl} N={n}"),
        }
    }
    match (case.gets("fl"), case.get("N", 4)) {
        ("atomic", 2) => atomic_n::<2>(case), ("atomic", 4) => atomic_n::<4>(case), ("atomic", 8) => atomic_n::<8>(case),
        ("fullsync", 2) => fullsync_n::<2>(case), ("fullsync", 4) => fullsync_n::<4>(case), ("fullsync", 8) => fullsync_n::<8>(case),
        (fl, n) => panic!("pool: unsupported fl={fl} N={n}"),
    }
}
