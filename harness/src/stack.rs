//! The stand-alone stacks: lock-step runs of the atomic-flag stack; free-running multi-core runs of the parking-lot stack
//! (parking_lot is not instrumented) whose timestamped history goes to the linearizability oracle.
use crate::sched::*;
use crate::case::*;
use reactive_mutiny::verif;
use reactive_mutiny::ogre_std::ogre_stacks::{OgreStack, non_blocking_atomic_stack, non_blocking_parking_lot_stack};
use std::sync::atomic::{AtomicU64, Ordering::SeqCst};

fn atomic_n<const N: usize>(case: &Case) -> Vec<i64> {
    let s: &'static non_blocking_atomic_stack::Stack<u32, N, false, false> = Box::leak(Box::new(non_blocking_atomic_stack::Stack::new("s".to_string())));
    let mut locs = LocMap::new();
    let flag = s.verif_flag_addr();
    locs.cell(flag, 0);
    verif::reset(case.progs.len());
    let mut handles = vec![];
    for (tid, prog) in case.progs.iter().enumerate() {
        let prog = prog.clone();
        handles.push(spawn_worker(tid, move || {
            for op in prog {
                match op.name.as_str() {
                    "push" => if s.push(op.arg(0) as u32) { ret(tid, 20, op.arg(0), 0) } else { ret(tid, 21, op.arg(0), 0) },
                    "pop"  => match s.pop() { Some(v) => ret(tid, 22, v as i64, 0), None => ret(tid, 23, 0, 0) },
                    "len"  => { verif::yield_point("yield", flag); ret(tid, 24, s.len() as i64, 0) },
                    other => panic!("stack: unknown op {other}"),
                }
            }
        }));
    }
    let mut out = run_schedule(&case.sched, &locs);
    let (head, locked) = s.verif_state();
    out.extend_from_slice(&[9, head as i64, locked as i64]);
    wind_down(handles, 0);
    out
}

/// free-running: every thread runs its program at full speed; each operation is logged with invocation / response tickets
/// drawn from one global counter: output = [30, tid, opcode, arg, res_code, res_val, inv_ticket, ret_ticket]*
fn free_run<S: OgreStack<u32> + Sync + 'static>(s: &'static S, case: &Case) -> Vec<i64> {
    static CLOCK: AtomicU64 = AtomicU64::new(0);
    static ROUNDS: AtomicU64 = AtomicU64::new(0);
    CLOCK.store(0, SeqCst);
    ROUNDS.store(case.progs.iter().map(|p| p.len()).max().unwrap_or(0) as u64, SeqCst);
    let start = std::sync::Arc::new(std::sync::Barrier::new(case.progs.len()));
    let mut handles = vec![];
    for (tid, prog) in case.progs.iter().enumerate() {
        let prog = prog.clone(); let start = start.clone();
        handles.push(std::thread::spawn(move || {
            let mut log = vec![];
            let rounds = ROUNDS.load(SeqCst) as usize;
            let mut prog = prog.into_iter();
            for _ in 0..rounds {
                // all threads begin their k-th operation together, so that operations really overlap
                start.wait();
                let op = match prog.next() { Some(op) => op, None => continue };
                let inv = CLOCK.fetch_add(1, SeqCst);
                let (code, val) = match op.name.as_str() {
                    "push" => if s.push(op.arg(0) as u32) { (20, op.arg(0)) } else { (21, op.arg(0)) },
                    "pop"  => match s.pop() { Some(v) => (22, v as i64), None => (23, 0) },
                    other => panic!("stack: unknown op {other}"),
                };
                let ret = CLOCK.fetch_add(1, SeqCst);
                log.extend_from_slice(&[30, tid as i64, if op.name == "push" { 0 } else { 1 }, op.arg(0), code, val, inv as i64, ret as i64]);
            }
            log
        }));
    }
    let mut out = vec![];
    for h in handles { out.extend(h.join().unwrap()); }
    out
}

/// free-running stress: T threads hammer a small stack with bursts of pushes and pops of unique values; afterwards the stack is drained
/// by one thread. Output: [2 0 31 accepted_pushes returned(popped + drained)] [2 0 32 returned_twice never_pushed] (+ [3 tid 2] per panic)
fn stress_run<S: OgreStack<u32> + Sync + 'static>(s: &'static S, case: &Case) -> Vec<i64> {
    let threads = case.get("T", 6) as usize; let ops = case.get("ops", 3000) as usize; let seed = case.get("seed", 1) as u64;
    let start = std::sync::Arc::new(std::sync::Barrier::new(threads));
    let mut handles = vec![];
    for tid in 0..threads {
        let start = start.clone();
        handles.push(std::thread::spawn(move || {
            let mut x = seed.wrapping_mul(0x9E3779B97F4A7C15).wrapping_add(tid as u64 + 1);
            let mut next = move || { x ^= x << 13; x ^= x >> 7; x ^= x << 17; x };
            let (mut pushed, mut popped) = (vec![], vec![]);
            start.wait();
            let r = std::panic::catch_unwind(std::panic::AssertUnwindSafe(|| {
                let mut j = 0u32;
                while (j as usize) < ops {
                    let burst = 1 + next() % 4; let push = next() % 2 == 0;
                    for _ in 0..burst {
                        if push { let v = ((tid as u32) << 20) | j; if s.push(v) { pushed.push(v); } } else if let Some(v) = s.pop() { popped.push(v); }
                        j += 1;
                    }
                }
            }));
            (pushed, popped, r.is_err())
        }));
    }
    let (mut pushed, mut returned, mut out) = (vec![], vec![], vec![]);
    for (tid, h) in handles.into_iter().enumerate() {
        match h.join() { Ok((a, b, p)) => { pushed.extend(a); returned.extend(b); if p { out.extend_from_slice(&[3, tid as i64, 2]); } }, Err(_) => out.extend_from_slice(&[3, tid as i64, 2]) }
    }
    let drained = std::panic::catch_unwind(std::panic::AssertUnwindSafe(|| { let mut d = vec![]; for _ in 0..1000 { match s.pop() { Some(v) => d.push(v), None => break } } d }));
    match drained { Ok(d) => returned.extend(d), Err(_) => out.extend_from_slice(&[3, 99, 2]) }
    pushed.sort(); returned.sort();
    let twice = returned.windows(2).filter(|w| w[0] == w[1]).count();
    let never = returned.iter().filter(|v| pushed.binary_search(v).is_err()).count();
    out.extend_from_slice(&[2, 0, 31, pushed.len() as i64, returned.len() as i64, 2, 0, 32, twice as i64, never as i64, 9]);
    out
}
fn atomic_stress_n<const N: usize>(case: &Case) -> Vec<i64> {
    let s: &'static non_blocking_atomic_stack::Stack<u32, N, false, false> = Box::leak(Box::new(non_blocking_atomic_stack::Stack::new("s".to_string())));
    stress_run(s, case)
}
fn pl_stress_n<const N: usize>(case: &Case) -> Vec<i64> {
    let s: &'static non_blocking_parking_lot_stack::Stack<u32, N, false, false> = Box::leak(Box::new(non_blocking_parking_lot_stack::Stack::new("s".to_string())));
    stress_run(s, case)
}

fn pl_n<const N: usize>(case: &Case) -> Vec<i64> {
    let s: &'static non_blocking_parking_lot_stack::Stack<u32, N, false, false> = Box::leak(Box::new(non_blocking_parking_lot_stack::Stack::new("s".to_string())));
    free_run(s, case)
}
fn atomic_free_n<const N: usize>(case: &Case) -> Vec<i64> {
    let s: &'static non_blocking_atomic_stack::Stack<u32, N, false, false> = Box::leak(Box::new(non_blocking_atomic_stack::Stack::new("s".to_string())));
    free_run(s, case)
}

pub fn run(case: &Case) -> Vec<i64> {
    match (case.gets("impl"), case.get("N", 4)) {
        ("atomic", 2) => atomic_n::<2>(case), ("atomic", 4) => atomic_n::<4>(case), ("atomic", 8) => atomic_n::<8>(case),
        ("parking_lot", 2) => pl_n::<2>(case), ("parking_lot", 4) => pl_n::<4>(case), ("parking_lot", 8) => pl_n::<8>(case),
        ("atomic_stress", 2) => atomic_stress_n::<2>(case), ("atomic_stress", 4) => atomic_stress_n::<4>(case),
        ("parking_lot_stress", 2) => pl_stress_n::<2>(case), ("parking_lot_stress", 4) => pl_stress_n::<4>(case),
        ("atomic_free", 2) => atomic_free_n::<2>(case), ("atomic_free", 4) => atomic_free_n::<4>(case), ("atomic_free", 8) => atomic_free_n::<8>(case),
        (i, n) => panic!("stack: unsupported impl={i} N={n}"),
    }
}
