//! The stand-alone stacks: lock-step runs of the atomic-flag stack; free-running multi-core runs of the parking-lot stack
//! (parking_lot is not instrumented) whose timestamped history goes to the linearizability oracle.
use crate::sched::*;
use crate::case::*;
use reactive_mutiny::verif;
use reactive_mutiny::ogre_std::ogre_stacks::{OgreStack, non_blocking_atomic_stack, non_blocking_parking_lot_stack};
use std::sync::atomic::{AtomicU64, Ordering::SeqCst};

fn atomic_n<const N: usize>(case: &Case) -> Vec<i64> {
    let s: &'static non_blocking_atomic_stack::Stack<u32, N, false, false> = Box::leak(Box::new(non_blocking_atomic_stack::Stack::new("s".to_string())));
    let mut locs = LocMap::new();
    let flag = s.verif_flag_addr();
    locs.cell(flag, 0);
    verif::reset(case.progs.len());
    let mut handles = vec![];
    for (tid, prog) in case.progs.iter().enumerate() {
        let prog = prog.clone();
        handles.push(spawn_worker(tid, move || {
            for op in prog {
                match op.name.as_str() {
                    "push" => if s.push(op.arg(0) as u32) { ret(tid, 20, op.arg(0), 0) } else { ret(tid, 21, op.arg(0), 0) },
                    "pop"  => match s.pop() { Some(v) => ret(tid, 22, v as i64, 0), None => ret(tid, 23, 0, 0) },
                    "len"  => { verif::yield_point("yield", flag); ret(tid, 24, s.len() as i64, 0) },
                    other => panic!("stack: unknown op {other}"),
                }
            }
        }));
    }
    let mut out = run_schedule(&case.sched, &locs);
    let (head, locked) = s.verif_state();
    out.extend_from_slice(&[9, head as i64, locked as i64]);
    wind_down(handles, 0);
    out
}

/// free-running: every thread runs its program at full speed; each operation is logged with invocation / response tickets
/// drawn from one global counter: output = [30, tid, opcode, arg, res_code, res_val, inv_ticket, ret_ticket]*
fn free_run<S: OgreStack<u32> + Sync + 'static>(s: &'static S, case: &Case) -> Vec<i64> {
    static CLOCK: AtomicU64 = AtomicU64::new(0);
    static ROUNDS: AtomicU64 = AtomicU64::new(0);
    CLOCK.store(0, SeqCst);
    ROUNDS.store(case.progs.iter().map(|p| p.len()).max().unwrap_or(0) as u64, SeqCst);
    let start = std::sync::Arc::new(std::sync::Barrier::new(case.progs.len()));
    let mut handles = vec![];
    for (tid, prog) in case.progs.iter().enumerate() {
        let prog = prog.clone(); let start = start.clone();
        handles.push(std::thread::spawn(move || {
            let mut log = vec![];
            let rounds = ROUNDS.load(SeqCst) as usize;
            let mut prog = prog.into_iter();
            for _ in 0..rounds {
                // all threads begin their k-th operation together, so that operations really overlap
                start.wait();
                let op = match prog.next() { Some(op) => op, None => continue };
                let inv = CLOCK.fetch_add(1, SeqCst);
                let (code, val) = match op.name.as_str() {
                    "push" => if s.push(op.arg(0) as u32) { (20, op.arg(0)) } else { (21, op.arg(0)) },
                    "pop"  => match s.pop() { Some(v) => (22, v as i64), None => (23, 0) },
                    other => panic!("stack: unknown op {other}"),
                };
                let ret = CLOCK.fetch_add(1, SeqCst);
                log.extend_from_slice(&[30, tid as i64, if op.name == "push" { 0 } else { 1 }, op.arg(0), code, val, inv as i64, ret as i64]);
            }
            log
        }));
    }
    let mut out = vec![];
    for h in handles { out.extend(h.join().unwrap()); }
    out
}

fn pl_n<const N: usize>(case: &Case) -> Vec<i64> {
    let s: &'static non_blocking_parking_lot_stack::Stack<u32, N, false, false> = Box::leak(Box::new(non_blocking_parking_lot_stack::Stack::new("s".to_string())));
    free_run(s, case)
}
fn atomic_free_n<const N: usize>(case: &Case) -> Vec<i64> {
    let s: &'static non_blocking_atomic_stack::Stack<u32, N, false, false> = Box::leak(Box::new(non_blocking_atomic_stack::Stack::new("s".to_string())));
    free_run(s, case)
}

pub fn run(case: &Case) -> Vec<i64> {
    match (case.gets("impl"), case.get("N", 4)) {
        ("atomic", 2) => atomic_n::<2>(case), ("atomic", 4) => atomic_n::<4>(case), ("atomic", 8) => atomic_n::<8>(case),
        ("parking_lot", 2) => pl_n::<2>(case), ("parking_lot", 4) => pl_n::<4>(case), ("parking_lot", 8) => pl_n::<8>(case),
        ("atomic_free", 2) => atomic_free_n::<2>(case), ("atomic_free", 4) => atomic_free_n::<4>(case), ("atomic_free", 8) => atomic_free_n::<8>(case),
        (i, n) => panic!("stack: unsupported impl={i} N={n}"),
    }
}
