//! Lock-step runs of `OgreArc` handles to one pooled value: clone / drop / count / dereference on several threads.
use crate::sched::*;
use crate::case::*;
use reactive_mutiny::verif;
use reactive_mutiny::prelude::advanced::{AllocatorFullSyncArray, BoundedOgreAllocator, OgreArc, OgreUnique};

type Alloc<const N: usize> = AllocatorFullSyncArray<u32, N>;

fn run_n<const N: usize>(case: &Case) -> Vec<i64> {
    let a: &'static Alloc<N> = Box::leak(Box::new(Alloc::<N>::new()));
    // the value is created as a unique handle, turned into a shared one, and its handles multiplied with the bulk API
    let hs: Vec<usize> = case.gets("hs").split(',').filter(|s| !s.is_empty()).map(|s| s.parse().unwrap()).collect();
    let total: usize = hs.iter().sum();
    // shared=1: the first handle is owned by no thread - every thread may borrow it (`sclone` clones it, `scount` reads the count through
    // it): possibly the sole handle, shared by reference
    let shared_mode = case.get("shared", 0) == 1;
    let extra = if shared_mode { total } else { total - 1 };
    let mut all = vec![];
    // ctor=1: all the handles come from the bulk constructor `new_with_clones::<COUNT>` (one counter pre-loaded with COUNT)
    macro_rules! bulk { ($($k:literal),+) => { match extra + 1 { $($k => OgreArc::<u32, Alloc<N>>::new_with_clones::<$k, _>(|slot: &mut u32| *slot = 4242, a).expect("alloc").into_iter().collect::<Vec<_>>(),)+ k => panic!("arc: ctor=1 with {k} handles") } } }
    let first: OgreArc<u32, Alloc<N>> = if case.get("ctor", 0) == 1 {
        let mut v = bulk!(1, 2, 3, 4, 5, 6, 7, 8, 9, 10, 11, 12);
        let first = v.remove(0); all.extend(v); first
    } else {
        let unique = OgreUnique::new(|slot: &mut u32| *slot = 4242, a).expect("alloc");
        let first: OgreArc<u32, Alloc<N>> = unique.into_ogre_arc();
        if extra > 0 { unsafe { first.increment_references(extra as u32); } }
        for _ in 0..extra { all.push(unsafe { first.raw_copy() }); }
        first
    };
    let mut locs = LocMap::new();
    locs.cell(first.verif_count_addr(), 0);
    locs.cell(0, -1); locs.cell(1, 1);
    let shared: Option<&'static OgreArc<u32, Alloc<N>>> = if shared_mode { Some(Box::leak(Box::new(first))) } else { all.push(first); None };
    let fl = a.verif_free_list();
    let (addrs, slot_size) = fl.verif_addrs();
    locs.cell(addrs[0], 500); locs.cell(addrs[1], 501); locs.cell(addrs[2], 504); locs.array(addrs[3], slot_size, N, 600);
    verif::reset(case.progs.len());
    let mut handles = vec![];
    for (tid, prog) in case.progs.iter().enumerate() {
        let prog = prog.clone();
        let n = hs.get(tid).copied().unwrap_or(0);
        let mut mine: Vec<OgreArc<u32, Alloc<N>>> = all.split_off(all.len() - n);
        handles.push(spawn_worker(tid, move || {
            for op in prog {
                if op.name == "sclone" { if let Some(sh) = shared { let c = sh.clone(); mine.push(c); ret(tid, 50, 0, 0); continue } }
                if op.name == "scount" { if let Some(sh) = shared { ret(tid, 52, sh.references_count() as i64, 0); continue } }
                if mine.is_empty() { verif::yield_point("yield", 1); ret(tid, 54, 0, 0); continue }
                match op.name.as_str() {
                    "clone" => { let c = mine[0].clone(); mine.push(c); ret(tid, 50, 0, 0) },
                    "drop"  => { let h = mine.pop().unwrap(); drop(h); ret(tid, 51, 0, 0) },
                    "count" => ret(tid, 52, mine[0].references_count() as i64, 0),
                    "read"  => { verif::yield_point("yield", 1); ret(tid, 53, *mine[0] as i64, 0) },
                    other => panic!("arc: unknown op {other}"),
                }
            }
            std::mem::forget(mine);      // handles still held at the end are never dropped (the schedule is over)
        }));
    }
    let mut out = run_schedule(&case.sched, &locs);
    let c = fl.verif_counters();
    out.extend_from_slice(&[9, c[1].wrapping_sub(c[0]) as i64]);
    wind_down(handles, 0);
    out
}

pub fn run(case: &Case) -> Vec<i64> {
    match case.get("N", 4) { 2 => run_n::<2>(case), 4 => run_n::<4>(case), 8 => run_n::<8>(case), n => panic!("arc: unsupported N={n}") }
}
