//! Driver side of the baton scheduler: worker threads with programs, schedules, trace collection.
use reactive_mutiny::verif;
use std::sync::{Arc, Mutex};
use std::collections::HashMap;

/// access kinds, as in coq/theories/Base/Util.v
pub fn kind_code(kind: &str) -> i64 {
    match kind {
        "load" => 0, "store" => 1, "faa" => 2, "cas" => 3, "swap" => 4, "fas" => 5,
        "slot_write" => 6, "slot_read" => 7, "fence" => 9,
        "wake" => 10, "parked" => 11, "wakers_read" => 12, "wakers_write" => 13, "keep_read" => 14, "keep_write" => 15,
        "used_read" => 16, "used_write" => 17, "drop" => 18,
        _ => 8,
    }
}

/// maps raw addresses to model location codes
pub struct LocMap { exact: HashMap<usize, i64>, ranges: Vec<(usize, usize, usize, i64)> }
impl LocMap {
    pub fn new() -> Self { Self { exact: HashMap::new(), ranges: vec![] } }
    pub fn cell(&mut self, addr: usize, code: i64) { self.exact.insert(addr, code); }
    /// an array of `count` cells of `size` bytes starting at `base`: cell i gets code `code0 + i`
    pub fn array(&mut self, base: usize, size: usize, count: usize, code0: i64) { self.ranges.push((base, size, count, code0)); }
    pub fn get(&self, addr: usize) -> i64 {
        if let Some(c) = self.exact.get(&addr) { return *c }
        for (base, size, count, code0) in &self.ranges {
            if addr >= *base && addr < base + size * count && (addr - base) % size == 0 { return code0 + ((addr - base) / size) as i64 }
        }
        -(addr as i64 & 0xffff) - 1000     // unknown location: never equals a model code
    }
}

/// guard making sure the scheduler learns that a worker is gone, even when it unwinds
pub struct Finished(pub usize);
impl Drop for Finished { fn drop(&mut self) { verif::finished(self.0); } }

/// spawns worker `tid`; `body` runs the thread's program (it calls `ret` after each operation)
pub fn spawn_worker<F: FnOnce() + Send + 'static>(tid: usize, body: F) -> std::thread::JoinHandle<()> {
    std::thread::Builder::new().stack_size(256 * 1024).spawn(move || {
        verif::register(tid);
        let _guard = Finished(tid);
        let r = std::panic::catch_unwind(std::panic::AssertUnwindSafe(body));
        if let Err(e) = r {
            let msg = e.downcast_ref::<&str>().map(|s| s.to_string()).or_else(|| e.downcast_ref::<String>().cloned()).unwrap_or_default();
            if !msg.contains("verif: schedule aborted") {
                let code = if msg.contains("overflow") { 1 } else { 2 };
                verif::note(tid, "panic", code, 0, None, false);
            }
        }
    }).expect("spawn")
}

/// records the result of an operation (trace line `[2; tid; code; a; b]`)
pub fn ret(tid: usize, code: usize, a: i64, b: i64) {
    verif::note(tid, "ret", code, a as u64, Some(b as u64), true);
}

/// runs the schedule and returns the flattened trace (same encoding as the Coq models)
/// progress of the schedule driver, watched by the watchdog thread of main(): a grant that does not return for 20 s ends the
/// process with exit code 77 after printing the marker line `-9999` for the current case (the driver re-runs that case)
pub static PROGRESS: std::sync::atomic::AtomicU64 = std::sync::atomic::AtomicU64::new(0);
pub static IN_SCHEDULE: std::sync::atomic::AtomicBool = std::sync::atomic::AtomicBool::new(false);

pub fn run_schedule(schedule: &[usize], locs: &LocMap) -> Vec<i64> {
    let mut out: Vec<i64> = Vec::new();
    IN_SCHEDULE.store(true, std::sync::atomic::Ordering::SeqCst);
    let out2 = run_schedule_inner(schedule, locs, &mut out);
    IN_SCHEDULE.store(false, std::sync::atomic::Ordering::SeqCst);
    let _ = out2;
    out
}
fn run_schedule_inner(schedule: &[usize], locs: &LocMap, out: &mut Vec<i64>) {
    for &t in schedule {
        PROGRESS.fetch_add(1, std::sync::atomic::Ordering::SeqCst);
        let stepped = verif::grant(t);
        if !stepped { out.extend_from_slice(&[0, t as i64]); }
        flush_log(out, locs);
    }
}

pub fn flush_log(out: &mut Vec<i64>, locs: &LocMap) {
    for a in verif::take_log() {
        match a.kind {
            "ret" => {
                out.extend_from_slice(&[2, a.tid as i64, a.addr as i64, a.seen as i64, a.wrote.unwrap_or(0) as i64]);
            }
            "panic" => out.extend_from_slice(&[3, a.tid as i64, a.addr as i64]),
            kind => {
                out.extend_from_slice(&[1, a.tid as i64, locs.get(a.addr), kind_code(kind), a.seen as i64,
                                        a.wrote.map(|w| w as i64).unwrap_or(-1), if a.ok { 1 } else { 0 }]);
            }
        }
    }
}

/// lets every worker run to its end; workers that cannot finish within `patience_ms` are aborted (they unwind)
/// set when a worker could not be joined (it spins for good inside the code under test, typically a destructor run while
/// unwinding that waits for an operation another aborted thread left half-done): main() then ends the process after this case
/// with exit code 75 and the driver feeds the remaining cases to a fresh process
pub static LEAKED: std::sync::atomic::AtomicBool = std::sync::atomic::AtomicBool::new(false);

pub fn wind_down(handles: Vec<std::thread::JoinHandle<()>>, patience_ms: u64) -> bool {
    if patience_ms == 0 { verif::abort_all(); } else { verif::deactivate(); }
    let deadline = std::time::Instant::now() + std::time::Duration::from_millis(patience_ms);
    let mut all = true;
    let mut aborted = patience_ms == 0;
    let mut give_up = std::time::Instant::now() + std::time::Duration::from_millis(patience_ms + 1500);
    for h in handles {
        let mut leaked = false;
        while !h.is_finished() {
            if !aborted && std::time::Instant::now() > deadline {
                verif::abort_all(); aborted = true; all = false;
                give_up = std::time::Instant::now() + std::time::Duration::from_millis(1500);
            }
            if aborted && std::time::Instant::now() > give_up { leaked = true; break }
            std::thread::sleep(std::time::Duration::from_micros(200));
        }
        if leaked { LEAKED.store(true, std::sync::atomic::Ordering::SeqCst); all = false; } else { let _ = h.join(); }
    }
    all
}

pub type Shared<T> = Arc<Mutex<T>>;
