//! Free-running stress of the Uni channels (no scheduler, hooks off): the payload accesses (the setter's write into the slot it was lent, the
//! stream's read of the payload) are not scheduling points of the lock-step runs, so this suite lets P producer threads `send_with` a setter
//! that dawdles `delay` microseconds before it writes (every other event: plain `send`), while one consumer thread busy-polls the stream.
//! Case: `unistress chan=<kind> N=<cap> P=<producers> n=<events per producer> delay=<us> ; S`
//! Records: [2 0 35 accepted yielded] [2 0 36 yielded_twice never_sent] [2 0 37 per_producer_order_violations consumer_timed_out] [9]
use crate::case::*;
use crate::uni::AsI64;
use reactive_mutiny::prelude::advanced::*;
use std::sync::{Arc, atomic::{AtomicBool, AtomicUsize, Ordering::SeqCst}};
use std::task::{Context, Poll};
use std::time::{Duration, Instant};
use futures::StreamExt;

fn dawdle(us: u64) { let t = Instant::now(); while t.elapsed() < Duration::from_micros(us) { std::hint::spin_loop(); } }

fn run_generic<C>(case: &Case, chan: Arc<C>) -> Vec<i64>
where C: FullDuplexUniChannel<ItemType = u32> + Send + Sync + 'static,
      C::DerivedItemType: AsI64 + Send {
    let producers = case.get("P", 2) as usize; let n = case.get("n", 200) as usize; let delay = case.get("delay", 20) as u64;
    let (mut stream, _id) = chan.create_stream();
    let done = Arc::new(AtomicBool::new(false)); let accepted_total = Arc::new(AtomicUsize::new(usize::MAX));
    let deadline = Instant::now() + Duration::from_secs(30);
    let (d2, a2) = (done.clone(), accepted_total.clone());
    let consumer = std::thread::spawn(move || {
        let waker = futures::task::noop_waker(); let mut cx = Context::from_waker(&waker);
        let mut got: Vec<u32> = vec![]; let mut timed_out = false;
        loop {
            match stream.poll_next_unpin(&mut cx) {
                Poll::Ready(Some(item)) => { got.push(item.as_i64() as u32); drop(item); },
                Poll::Ready(None) => break,
                Poll::Pending => {
                    if d2.load(SeqCst) && got.len() >= a2.load(SeqCst) { break }
                    if Instant::now() > deadline { timed_out = true; break }
                    std::thread::yield_now();
                },
            }
        }
        (got, timed_out, stream)
    });
    let mut handles = vec![];
    for p in 0..producers {
        let chan = chan.clone();
        handles.push(std::thread::spawn(move || {
            let mut sent = vec![];
            for j in 0..n {
                let v = (((p + 1) as u32) << 20) | j as u32;
                let t0 = Instant::now();
                loop {
                    let ok = if j % 4 == 3 { matches!(chan.send(v), keen_retry::RetryResult::Ok { .. }) }
                             else { matches!(chan.send_with(move |slot: &mut u32| { dawdle(delay); *slot = v; }), keen_retry::RetryResult::Ok { .. }) };
                    if ok { sent.push(v); break }
                    if t0.elapsed() > Duration::from_secs(10) { break }
                    std::thread::yield_now();
                }
            }
            sent
        }));
    }
    let mut sent: Vec<u32> = vec![];
    let mut panics = vec![];
    for (p, h) in handles.into_iter().enumerate() { match h.join() { Ok(s) => sent.extend(s), Err(_) => panics.extend_from_slice(&[3, p as i64, 2]) } }
    accepted_total.store(sent.len(), SeqCst); done.store(true, SeqCst);
    let (got, timed_out) = match consumer.join() { Ok((g, t, s)) => { std::mem::forget(s); (g, t) }, Err(_) => { panics.extend_from_slice(&[3, 99, 2]); (vec![], false) } };
    let mut last = std::collections::HashMap::new(); let mut disorder = 0i64;
    for v in &got { let pr = v >> 20; if let Some(l) = last.insert(pr, *v) { if l >= *v { disorder += 1; } } }
    let mut s = sent.clone(); s.sort(); let mut g = got.clone(); g.sort();
    let twice = g.windows(2).filter(|w| w[0] == w[1]).count();
    let never = g.iter().filter(|v| s.binary_search(v).is_err()).count();
    let mut out = panics;
    out.extend_from_slice(&[2, 0, 35, sent.len() as i64, got.len() as i64, 2, 0, 36, twice as i64, never as i64, 2, 0, 37, disorder, timed_out as i64, 9]);
    out
}

macro_rules! kinds { ($case:expr, $n:literal) => { match $case.gets("chan") {
    "zc_atomic"      => run_generic($case, ChannelUniZeroCopyAtomic::<u32, $n, 1>::new("c")),
    "zc_full_sync"   => run_generic($case, ChannelUniZeroCopyFullSync::<u32, $n, 1>::new("c")),
    "crossbeam"      => run_generic($case, ChannelUniMoveCrossbeam::<u32, $n, 1>::new("c")),
    "move_atomic"    => run_generic($case, ChannelUniMoveAtomic::<u32, $n, 1>::new("c")),
    "move_full_sync" => run_generic($case, ChannelUniMoveFullSync::<u32, $n, 1>::new("c")),
    other => panic!("unistress: unknown channel kind '{other}'"),
} } }

pub fn run(case: &Case) -> Vec<i64> {
    reactive_mutiny::verif::deactivate();
    match case.get("N", 4) { 2 => kinds!(case, 2), 4 => kinds!(case, 4), 8 => kinds!(case, 8), n => panic!("unistress: unsupported N={n}") }
}
