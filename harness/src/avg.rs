//! Lock-step runs of the incremental-average metric `AtomicIncrementalAverage64`
use crate::sched::*;
use crate::case::*;
use reactive_mutiny::verif;
use reactive_mutiny::verif_exports::AtomicIncrementalAverage64;

pub fn run(case: &Case) -> Vec<i64> {
    let a: &'static AtomicIncrementalAverage64 = Box::leak(Box::new(AtomicIncrementalAverage64::new()));
    let mut locs = LocMap::new();
    locs.cell(a as *const AtomicIncrementalAverage64 as usize, 0);
    verif::reset(case.progs.len());
    let mut handles = vec![];
    for (tid, prog) in case.progs.iter().enumerate() {
        let prog = prog.clone();
        handles.push(spawn_worker(tid, move || {
            for op in prog {
                match op.name.as_str() {
                    "inc" => { a.inc(f32::from_bits(op.arg(0) as u32)); ret(tid, 40, op.arg(0), 0) },
                    "probe" => { let (c, avg) = a.probe(); ret(tid, 41, c as i64, avg.to_bits() as i64) },
                    other => panic!("avg: unknown op {other}"),
                }
            }
        }));
    }
    let mut out = run_schedule(&case.sched, &locs);
    wind_down(handles, 0);
    let (c, avg) = a.probe();
    out.extend_from_slice(&[9, c as i64, avg.to_bits() as i64]);
    out
}
