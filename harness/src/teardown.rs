//! C05, teardown: a channel is dropped with events still buffered (run under valgrind by the check: memory touched after it was
//! freed is reported there). Also counts payload destructions.
use crate::case::*;
use reactive_mutiny::prelude::advanced::*;
use std::sync::atomic::{AtomicI64, Ordering::SeqCst};
use std::sync::Arc;

pub static DROPS: AtomicI64 = AtomicI64::new(0);
#[derive(Debug, Default)]
pub struct Counted(pub u32, pub Option<Box<u32>>);          // the Box makes a destruction after free / a double destruction visible to valgrind
impl Drop for Counted { fn drop(&mut self) { DROPS.fetch_add(1, SeqCst); } }

macro_rules! multi { ($t:ident, $case:expr) => {{
    let pending = $case.get("pending", 2);
    let consumed = $case.get("consumed", 0);
    DROPS.store(0, SeqCst);
    {
        let chan: Arc<$t<Counted, 4, 2>> = $t::<Counted, 4, 2>::new("c");
        let (mut stream, _id) = chan.create_stream_for_new_events();
        for j in 0..pending { let _ = chan.send(Counted(j as u32, Some(Box::new(j as u32)))); }
        {
            use futures::StreamExt;
            let waker = futures::task::noop_waker();
            let mut cx = std::task::Context::from_waker(&waker);
            for _ in 0..consumed { if let std::task::Poll::Ready(Some(item)) = stream.poll_next_unpin(&mut cx) { drop(item); } }
        }
        drop(stream);
        drop(chan);
    }
    vec![2, 0, 50, pending, DROPS.load(SeqCst), 9]
}}; }
macro_rules! uni { ($t:ident, $case:expr) => {{
    let pending = $case.get("pending", 2);
    let consumed = $case.get("consumed", 0);
    DROPS.store(0, SeqCst);
    {
        let chan: Arc<$t<Counted, 4, 2>> = $t::<Counted, 4, 2>::new("c");
        let (mut stream, _id) = chan.create_stream();
        for j in 0..pending { let _ = chan.send(Counted(j as u32, Some(Box::new(j as u32)))); }
        {
            use futures::StreamExt;
            let waker = futures::task::noop_waker();
            let mut cx = std::task::Context::from_waker(&waker);
            for _ in 0..consumed { if let std::task::Poll::Ready(Some(item)) = stream.poll_next_unpin(&mut cx) { drop(item); } }
        }
        drop(stream);
        drop(chan);
    }
    vec![2, 0, 50, pending, DROPS.load(SeqCst), 9]
}}; }

pub fn run(case: &Case) -> Vec<i64> {
    reactive_mutiny::verif::deactivate();
    match case.gets("chan") {
        "uni_move_atomic"        => uni!(ChannelUniMoveAtomic, case),
        "uni_move_full_sync"     => uni!(ChannelUniMoveFullSync, case),
        "uni_zero_copy_atomic"   => uni!(ChannelUniZeroCopyAtomic, case),
        "uni_zero_copy_full_sync"=> uni!(ChannelUniZeroCopyFullSync, case),
        "multi_arc_atomic"       => multi!(ChannelMultiArcAtomic, case),
        "multi_arc_full_sync"    => multi!(ChannelMultiArcFullSync, case),
        "multi_arc_crossbeam"    => multi!(ChannelMultiArcCrossbeam, case),
        "multi_ogre_arc_atomic"  => multi!(ChannelMultiOgreArcAtomic, case),
        "multi_ogre_arc_full_sync" => multi!(ChannelMultiOgreArcFullSync, case),
        other => panic!("teardown: unknown channel kind '{other}'"),
    }
}
