//! Lock-step runs of the mmap log topic `MMapMeta<u32>`: publishers, late subscriptions, listeners.
use crate::sched::*;
use crate::case::*;
use reactive_mutiny::verif;
use reactive_mutiny::ogre_std::ogre_queues::{
    log_topics::mmap_meta::{MMapMeta, MMapMetaSubscriber},
    meta_topic::MetaTopic, meta_publisher::MetaPublisher, meta_subscriber::MetaSubscriber,
};
use std::sync::{Arc, Mutex};

const MAX_SUBS: usize = 8;
const SLOTS: u64 = 4096;

pub fn run(case: &Case) -> Vec<i64> {
    static SEQ: std::sync::atomic::AtomicU64 = std::sync::atomic::AtomicU64::new(0);
    let dir = std::env::var("HARNESS_TMP").unwrap_or_else(|_| std::env::temp_dir().to_string_lossy().to_string());
    let path = format!("{}/rm_harness_{}_{}.mmap", dir, std::process::id(), SEQ.fetch_add(1, std::sync::atomic::Ordering::SeqCst));
    let topic: Arc<MMapMeta<'static, u32>> = MMapMeta::<u32>::new(&path, SLOTS).expect("mmap");
    let _ = std::fs::remove_file(&path);       // the mapping stays valid; nothing is left behind
    let mut locs = LocMap::new();
    let (a, sz) = topic.verif_addrs();
    locs.cell(a[0], 0); locs.cell(a[1], 1); locs.array(a[2], sz, SLOTS as usize, 100); locs.cell(2, 2); locs.cell(a[1] + std::mem::size_of::<usize>(), 3);
    let (base, slot_sz) = (a[2], sz);
    let locs = Arc::new(Mutex::new(locs));
    let subs: &'static Vec<Mutex<Option<Arc<MMapMetaSubscriber<'static, u32>>>>> = Box::leak(Box::new((0..MAX_SUBS).map(|_| Mutex::new(None)).collect()));
    let topic: &'static Arc<MMapMeta<'static, u32>> = Box::leak(Box::new(topic));
    verif::reset(case.progs.len());
    let mut handles = vec![];
    for (tid, prog) in case.progs.iter().enumerate() {
        let prog = prog.clone(); let locs = locs.clone();
        handles.push(spawn_worker(tid, move || {
            let install = |i: usize, s: MMapMetaSubscriber<'static, u32>| {
                let addr = match &s { MMapMetaSubscriber::Dynamic(d) => d.verif_head_addr(), MMapMetaSubscriber::Fixed(f) => f.verif_head_addr() };
                // (the subscriber moves into an Arc: take the address after boxing)
                let arc = Arc::new(s);
                let addr2 = match &*arc { MMapMetaSubscriber::Dynamic(d) => d.verif_head_addr(), MMapMetaSubscriber::Fixed(f) => f.verif_head_addr() };
                let _ = addr;
                locs.lock().unwrap().cell(addr2, 50 + i as i64);
                let mut slot = subs[i].lock().unwrap(); if slot.is_none() { *slot = Some(arc); }
            };
            let free = |i: usize| subs[i].lock().unwrap().is_none();
            for op in prog {
                match op.name.as_str() {
                    "pub" => { let v = op.arg(0) as u32; let r = topic.publish(|slot| *slot = v); ret(tid, 60, v as i64, r.0.map(|n| n.get() as i64 - 1).unwrap_or(-1)) },
                    "cons" => {
                        let i = op.arg(0) as usize;
                        let s = subs[i].lock().unwrap().clone();
                        match s {
                            None => { verif::yield_point("yield", 2); ret(tid, 64, 0, 0) },
                            Some(s) => {
                                let got = match &*s {
                                    MMapMetaSubscriber::Dynamic(d) => d.consume(|slot| (*slot, slot as *const u32 as usize), || false, |_| {}),
                                    MMapMetaSubscriber::Fixed(f)   => f.consume(|slot| (*slot, slot as *const u32 as usize), || false, |_| {}),
                                };
                                match got { Some((v, addr)) => ret(tid, 61, v as i64, ((addr - base) / slot_sz) as i64), None => ret(tid, 62, i as i64, 0) }
                            }
                        }
                    },
                    "sub_new" => { let i = op.arg(0) as usize; if !free(i) { verif::yield_point("yield", 2); ret(tid, 64, 0, 0) } else {
                        let d = topic.subscribe_to_new_events_only(); ret(tid, 63, 0, 0); install(i, MMapMetaSubscriber::Dynamic(d)) } },
                    "sub_split" => { let (i, j) = (op.arg(0) as usize, op.arg(1) as usize); if i == j || !free(i) || !free(j) { verif::yield_point("yield", 2); ret(tid, 64, 0, 0) } else {
                        let (f, d) = topic.subscribe_to_separated_old_and_new_events(); ret(tid, 63, 0, 0);
                        install(i, MMapMetaSubscriber::Fixed(f)); install(j, MMapMetaSubscriber::Dynamic(d)) } },
                    "sub_joined" => { let i = op.arg(0) as usize; if !free(i) { verif::yield_point("yield", 2); ret(tid, 64, 0, 0) } else {
                        let d = topic.subscribe_to_joined_old_and_new_events(); ret(tid, 63, 0, 0); install(i, MMapMetaSubscriber::Dynamic(d)) } },
                    other => panic!("log: unknown op {other}"),
                }
            }
        }));
    }
    // the location map grows while subscribers are created: translate the log after every grant
    let mut out: Vec<i64> = Vec::new();
    for &t in &case.sched {
        let stepped = verif::grant(t);
        if !stepped { out.extend_from_slice(&[0, t as i64]); }
        flush_log(&mut out, &locs.lock().unwrap());
    }
    let c = topic.verif_counters();
    out.extend_from_slice(&[9, c[0] as i64, c[1] as i64]);
    wind_down(handles, 0);
    out
}
