//! C06 for Multi: a Multi with k listeners, each with its own futures executor (concurrency limit L), under tokio's paused clock. All
//! events are sent at time 0; listener i takes `dur * (i + 1)` ms per item (listeners consume at different speeds); close() is called at
//! `tclose` ms with an unbounded timeout.
//! `cancel=j tcancel=ms`: listener j is removed individually with flush_and_cancel_executor() at that time (C12).
//! Records (thread 0): [2 0 80 close_answer close_callbacks] [2 0 83 accepted 0] then per listener i [2 0 81 i done_when_close_returned]
//! [2 0 82 i processed_total] [2 0 84 i callbacks_of_i] [2 0 85 i processed_by_i_at_its_callback] [2 0 86 i status_in_callback]
//! [2 0 87 i finish_not_before_start(1/0)] [2 0 88 i accepted_before_its_removal(-1: not removed)], [9]
use crate::case::*;
use reactive_mutiny::prelude::advanced::*;
use reactive_mutiny::stream_executor::StreamExecutorStats;
use std::sync::atomic::{AtomicI64, Ordering::SeqCst};
use std::sync::Arc;
use std::time::Duration;
use futures::StreamExt;

const NONE: usize = Instruments::NoInstruments.into();

struct Shared { items: Vec<u64>, done: Vec<AtomicI64>, close_cb: AtomicI64, cb: Vec<AtomicI64>, done_at_cb: Vec<AtomicI64>, status_cb: Vec<AtomicI64>, times_ok: Vec<AtomicI64> }
fn status_code(s: reactive_mutiny::stream_executor::ExecutorStatus) -> i64 { use reactive_mutiny::stream_executor::ExecutorStatus::*; match s { NotStarted => 0, Running => 1, ScheduledToFinish => 2, ProgrammaticallyEnded => 3, StreamEnded => 4 } }

macro_rules! drive { ($multi:expr, $sh:expr, $case:expr, $derived:ty) => {{
    let multi = $multi; let sh: Arc<Shared> = $sh;
    let k = $case.get("k", 2) as usize; let limit = $case.get("L", 1) as u32;
    for i in 0..k {
        let (s1, s3) = (sh.clone(), sh.clone());
        multi.spawn_futures_executor(limit, Duration::ZERO, format!("listener {i}"),
            move |stream| { let s1 = s1.clone(); stream.map(move |item: $derived| { let s = s1.clone(); async move {
                let j = *item as usize; let d = s.items[j] * (i as u64 + 1);
                if d > 0 { tokio::time::sleep(Duration::from_millis(d)).await; }
                drop(item);
                s.done[i].fetch_add(1, SeqCst);
                j } }) },
            move |ex: Arc<dyn StreamExecutorStats + Send + Sync>| { let s = s3.clone(); async move {
                s.close_cb.fetch_add(1, SeqCst); s.cb[i].fetch_add(1, SeqCst); s.done_at_cb[i].store(s.done[i].load(SeqCst), SeqCst);
                s.status_cb[i].store(status_code(ex.executor_status().load(SeqCst)), SeqCst);
                s.times_ok[i].store((ex.execution_finish_delta_nanos() >= ex.execution_start_delta_nanos()) as i64, SeqCst); } }).await.expect("spawn");
    }
    let mut accepted = 0i64;
    // the second half of the events is sent after the individual removal (if any): the removed listener must not get them, the others must
    let cancel = $case.get("cancel", -1); let tcancel = $case.get("tcancel", 0) as u64; let n = sh.items.len();
    let first = if cancel >= 0 { (n + 1) / 2 } else { n };
    for j in 0..first { if let keen_retry::RetryResult::Ok { .. } = multi.send(j as u32) { accepted += 1; } }
    let mut before_removal = -1i64;
    if cancel >= 0 {
        tokio::time::sleep(Duration::from_millis(tcancel)).await;
        before_removal = accepted;
        let _ = multi.flush_and_cancel_executor(format!("listener {cancel}"), Duration::ZERO).await;
        for j in first..n { if let keen_retry::RetryResult::Ok { .. } = multi.send(j as u32) { accepted += 1; } }
    }
    tokio::time::sleep(Duration::from_millis($case.get("tclose", 0) as u64)).await;
    let closed = multi.close(Duration::ZERO).await;
    let at_close: Vec<i64> = (0..k).map(|i| sh.done[i].load(SeqCst)).collect();
    tokio::time::sleep(Duration::from_millis(1_000_000)).await;
    let mut out = vec![2, 0, 80, closed as i64, sh.close_cb.load(SeqCst), 2, 0, 83, accepted, 0];
    for i in 0..k { out.extend_from_slice(&[2, 0, 81, i as i64, at_close[i], 2, 0, 82, i as i64, sh.done[i].load(SeqCst),
                                            2, 0, 84, i as i64, sh.cb[i].load(SeqCst), 2, 0, 85, i as i64, sh.done_at_cb[i].load(SeqCst),
                                            2, 0, 86, i as i64, sh.status_cb[i].load(SeqCst), 2, 0, 87, i as i64, sh.times_ok[i].load(SeqCst),
                                            2, 0, 88, i as i64, if cancel == i as i64 { before_removal } else { -1 }]); }
    out.push(9);
    out
}}; }

/// the log (mmap) Multi channel with an old / new pair of executors (C12, last clause; C09 at the Multi level): `old=n` events are sent before
/// the pair is spawned with `seq` = sequential_transition, the rest afterwards; every item takes its duration.
/// Records: [2 0 90 close_answer 0] [2 0 91 old_processed new_processed] [2 0 92 last_old_end_ms first_new_start_ms(-1: none)]
/// [2 0 93 old_callbacks new_callbacks] [2 0 94 old_stream_got_exactly_the_old_events(1/0) new_stream_got_exactly_the_new_events(1/0)] [9]
fn run_log(case: &Case) -> Vec<i64> {
    static SEQ: std::sync::atomic::AtomicU64 = std::sync::atomic::AtomicU64::new(0);
    let items: Vec<u64> = case.progs.get(0).map(|p| p.iter().map(|op| op.arg(0) as u64).collect()).unwrap_or_default();
    let n_old = (case.get("old", 0) as usize).min(items.len());
    let rt = tokio::runtime::Builder::new_current_thread().enable_time().start_paused(true).build().unwrap();
    let out = rt.block_on(async {
        let name = format!("rm_harness_mexec_{}_{}", std::process::id(), SEQ.fetch_add(1, SeqCst));
        let multi = Arc::new(MultiMmapLog::<u32, 4, NONE>::new(name.clone()));
        let _ = std::fs::remove_file(format!("/tmp/{}.mmap", name));
        let t0 = tokio::time::Instant::now();
        let log: Arc<std::sync::Mutex<Vec<(bool, usize, i64, i64)>>> = Arc::new(std::sync::Mutex::new(vec![]));   // (new?, event, start ms, end ms)
        let cbs = Arc::new((AtomicI64::new(0), AtomicI64::new(0)));
        for j in 0..n_old { let _ = multi.send(j as u32); }
        let items = Arc::new(items);
        let mk = |is_new: bool| { let (log, items) = (log.clone(), items.clone()); move |stream: MutinyStream<'static, u32, _, &'static u32>| {
            stream.map(move |item: &'static u32| { let (log, items) = (log.clone(), items.clone()); async move {
                let j = *item as usize; let start = t0.elapsed().as_millis() as i64;
                if items[j] > 0 { tokio::time::sleep(Duration::from_millis(items[j])).await; }
                log.lock().unwrap().push((is_new, j, start, t0.elapsed().as_millis() as i64));
                j } }) } };
        let (c1, c2) = (cbs.clone(), cbs.clone());
        multi.spawn_futures_oldies_executor(case.get("L", 1) as u32, case.get("seq", 1) == 1, Duration::ZERO,
            "old", mk(false), move |_ex: Arc<dyn StreamExecutorStats + Send + Sync>| async move { c1.0.fetch_add(1, SeqCst); },
            "new", mk(true),  move |_ex: Arc<dyn StreamExecutorStats + Send + Sync>| async move { c2.1.fetch_add(1, SeqCst); }).await.expect("spawn");
        for j in n_old..items.len() { let _ = multi.send(j as u32); }
        tokio::time::sleep(Duration::from_millis(case.get("tclose", 0) as u64)).await;
        let closed = multi.close(Duration::ZERO).await;
        tokio::time::sleep(Duration::from_millis(1_000_000)).await;
        let log = log.lock().unwrap();
        let mut olds: Vec<usize> = log.iter().filter(|e| !e.0).map(|e| e.1).collect(); let mut news: Vec<usize> = log.iter().filter(|e| e.0).map(|e| e.1).collect();
        olds.sort(); news.sort();
        let last_old_end = log.iter().filter(|e| !e.0).map(|e| e.3).max().unwrap_or(-1);
        let first_new_start = log.iter().filter(|e| e.0).map(|e| e.2).min().unwrap_or(-1);
        vec![2, 0, 90, closed as i64, 0, 2, 0, 91, olds.len() as i64, news.len() as i64, 2, 0, 92, last_old_end, first_new_start,
             2, 0, 93, cbs.0.load(SeqCst), cbs.1.load(SeqCst),
             2, 0, 94, (olds == (0..n_old).collect::<Vec<_>>()) as i64, (news == (n_old..items.len()).collect::<Vec<_>>()) as i64, 9]
    });
    if SEQ.load(SeqCst) % 32 == 0 { crate::sched::LEAKED.store(true, SeqCst); }     // (1 TiB of address space per log channel: see multi.rs)
    out
}

pub fn run(case: &Case) -> Vec<i64> {
    reactive_mutiny::verif::deactivate();
    if case.gets("chan") == "mmap_log" { return run_log(case); }
    let items: Vec<u64> = case.progs.get(0).map(|p| p.iter().map(|op| op.arg(0) as u64).collect()).unwrap_or_default();
    let k = case.get("k", 2) as usize;
    let rt = tokio::runtime::Builder::new_current_thread().enable_time().start_paused(true).build().unwrap();
    rt.block_on(async {
        let v = |x: i64| -> Vec<AtomicI64> { (0..k).map(|_| AtomicI64::new(x)).collect() };
        let sh = Arc::new(Shared { items, done: v(0), close_cb: AtomicI64::new(0), cb: v(0), done_at_cb: v(-1), status_cb: v(-1), times_ok: v(-1) });
        match case.gets("chan") {
            "arc_atomic"         => drive!(MultiAtomicArc::<u32, 64, 4, NONE>::new("m"), sh, case, std::sync::Arc<u32>),
            "arc_full_sync"      => drive!(MultiFullSyncArc::<u32, 64, 4, NONE>::new("m"), sh, case, std::sync::Arc<u32>),
            "arc_crossbeam"      => drive!(MultiCrossbeamArc::<u32, 64, 4, NONE>::new("m"), sh, case, std::sync::Arc<u32>),
            "ogre_arc_atomic"    => drive!(MultiAtomicOgreArc::<u32, 64, 4, NONE>::new("m"), sh, case, OgreArc<u32, AllocatorAtomicArray<u32, 64>>),
            "ogre_arc_full_sync" => drive!(MultiFullSyncOgreArc::<u32, 64, 4, NONE>::new("m"), sh, case, OgreArc<u32, AllocatorFullSyncArray<u32, 64>>),
            other => panic!("mexec: unknown channel kind {other}"),
        }
    })
}
