//! C20, channel level, free-running (no baton scheduler): the real `send_with_async` with a setter that waits for a flag, polled
//! once (so the send is suspended inside the channel), then plain sends, polls and a length query from other threads with a
//! deadline, then (optionally) the suspended send is resumed.
//! Output records (all as results of thread 0): [40 p_done n_ok] [41 len_done len] [43 v 0]* delivered while suspended,
//! [44 resumed 0] (1 = the suspended send completed with Ok, 0 = not resumed, 2 = it did not complete in time, 3 = Transient),
//! [45 v 0]* delivered after the resumption.
use crate::sched::*;
use crate::case::*;
use crate::uni::AsI64;
use reactive_mutiny::prelude::advanced::*;
use std::sync::{Arc, Mutex, atomic::{AtomicBool, AtomicI64, Ordering::SeqCst}};
use std::task::{Context, Poll};
use std::future::Future;
use std::pin::Pin;
use std::fmt::Debug;
use std::time::{Duration, Instant};
use futures::StreamExt;

struct Flag(&'static AtomicBool);
impl Future for Flag {
    type Output = ();
    fn poll(self: Pin<&mut Self>, _cx: &mut Context<'_>) -> Poll<()> { if self.0.load(SeqCst) { Poll::Ready(()) } else { Poll::Pending } }
}

const DEADLINE_MS: u64 = 1500;

fn wait_for(h: &std::thread::JoinHandle<()>, ms: u64) -> bool {
    let end = Instant::now() + Duration::from_millis(ms);
    while !h.is_finished() && Instant::now() < end { std::thread::sleep(Duration::from_micros(300)); }
    h.is_finished()
}

fn run_generic<C, D>(case: &Case, chan: &'static Arc<C>, stream: MutinyStream<'static, u32, C, D>) -> Vec<i64>
where C: ChannelProducer<'static, u32, D> + ChannelCommon<u32, D> + ChannelConsumer<'static, D> + Send + Sync + 'static,
      D: AsI64 + Send + Sync + Debug + 'static {
    let sends = case.get("sends", 2);
    let resume = case.get("resume", 1) == 1;
    let flag: &'static AtomicBool = Box::leak(Box::new(AtomicBool::new(false)));
    let waker = futures::task::noop_waker();
    let mut out = vec![];
    let rec = |out: &mut Vec<i64>, code: i64, a: i64, b: i64| out.extend_from_slice(&[2, 0, code, a, b]);
    // events that are already buffered when the asynchronous send starts (pre=n)
    for j in 0..case.get("pre", 0) { let _ = chan.send(50 + j as u32); }
    // the suspended send
    let fut = chan.send_with_async(move |slot: &'static mut u32| async move { Flag(flag).await; *slot = 7; slot });
    let mut fut: Pin<Box<dyn Future<Output = bool> + Send>> = Box::pin(async move { matches!(fut.await, keen_retry::RetryResult::Ok { .. }) });
    let first = { let mut cx = Context::from_waker(&waker); fut.as_mut().poll(&mut cx) };
    if let Poll::Ready(ok) = first { rec(&mut out, 46, ok as i64, 0); out.push(9); return out }       // did not suspend (channel full?)
    if case.get("same", 0) == 1 { return same_thread(chan, stream, fut, flag, out); }
    // meanwhile: a producer, a consumer, a length query
    let n_ok: &'static AtomicI64 = Box::leak(Box::new(AtomicI64::new(0)));
    let producer = std::thread::spawn(move || {
        for j in 0..sends { if let keen_retry::RetryResult::Ok { .. } = chan.send(100 + j as u32) { n_ok.fetch_add(1, SeqCst); } }
    });
    let len: &'static AtomicI64 = Box::leak(Box::new(AtomicI64::new(-1)));
    let lenq = std::thread::spawn(move || { len.store(chan.pending_items_count() as i64, SeqCst); });
    let got: &'static Mutex<Vec<i64>> = Box::leak(Box::new(Mutex::new(vec![])));
    let stop: &'static AtomicBool = Box::leak(Box::new(AtomicBool::new(false)));
    let stream = Arc::new(Mutex::new(stream));
    // parked=1: the consumer is a real task - it parks when the stream answers Pending and is re-polled only when its waker is invoked
    // (a delivery then needs the channel's wake-up); parked=0: it polls every 200 us whatever happens
    let parked = case.get("parked", 0) == 1;
    let consumer = { let stream = stream.clone(); std::thread::spawn(move || {
        struct Unpark(std::thread::Thread, AtomicBool);
        impl std::task::Wake for Unpark { fn wake(self: Arc<Self>) { self.1.store(true, SeqCst); self.0.unpark(); } }
        let me = Arc::new(Unpark(std::thread::current(), AtomicBool::new(false)));
        let waker = if parked { std::task::Waker::from(me.clone()) } else { futures::task::noop_waker() };
        let mut cx = Context::from_waker(&waker);
        let mut stream = stream.lock().unwrap();
        while !stop.load(SeqCst) {
            match stream.poll_next_unpin(&mut cx) {
                Poll::Ready(Some(item)) => got.lock().unwrap().push(item.as_i64()),
                Poll::Ready(None) => break,
                Poll::Pending if parked => { while !me.1.swap(false, SeqCst) && !stop.load(SeqCst) { std::thread::park_timeout(Duration::from_millis(20)); } },
                Poll::Pending => std::thread::sleep(Duration::from_micros(200)),
            }
        }
    }) };
    let p_done = wait_for(&producer, DEADLINE_MS);
    let l_done = wait_for(&lenq, 200);
    // give the consumer time to take what was accepted
    let end = Instant::now() + Duration::from_millis(if p_done { 400 } else { 50 });
    let pre = case.get("pre", 0);
    while Instant::now() < end && (got.lock().unwrap().len() as i64) < n_ok.load(SeqCst) + pre { std::thread::sleep(Duration::from_micros(300)); }
    rec(&mut out, 40, p_done as i64, n_ok.load(SeqCst));
    rec(&mut out, 41, l_done as i64, len.load(SeqCst));
    let before: Vec<i64> = got.lock().unwrap().clone();
    for v in &before { rec(&mut out, 43, *v, 0); }
    let mut leaked = false;
    if resume {
        flag.store(true, SeqCst);
        let result: &'static AtomicI64 = Box::leak(Box::new(AtomicI64::new(2)));
        let resumer = std::thread::spawn(move || {
            let waker = futures::task::noop_waker();
            let mut cx = Context::from_waker(&waker);
            loop { if let Poll::Ready(ok) = fut.as_mut().poll(&mut cx) { result.store(if ok { 1 } else { 3 }, SeqCst); break } std::thread::sleep(Duration::from_micros(200)); }
        });
        if !wait_for(&resumer, DEADLINE_MS) { leaked = true; }
        // once the suspended send completed, everybody must be able to finish
        let p2 = wait_for(&producer, 500);
        let end = Instant::now() + Duration::from_millis(500);
        let want = pre + n_ok.load(SeqCst) + if result.load(SeqCst) == 1 { 1 } else { 0 };
        while Instant::now() < end && (got.lock().unwrap().len() as i64) < want { std::thread::sleep(Duration::from_micros(300)); }
        rec(&mut out, 44, result.load(SeqCst), p2 as i64);
        rec(&mut out, 47, n_ok.load(SeqCst), 0);
        let after: Vec<i64> = got.lock().unwrap().clone();
        for v in &after[before.len()..] { rec(&mut out, 45, *v, 0); }
    } else { rec(&mut out, 44, 0, 0); rec(&mut out, 47, n_ok.load(SeqCst), 0); leaked = true; std::mem::forget(fut); }
    stop.store(true, SeqCst);
    if !wait_for(&consumer, 300) { leaked = true; }
    if !producer.is_finished() || !lenq.is_finished() { leaked = true; }
    if leaked { LEAKED.store(true, SeqCst); }
    out.push(9);
    out
}

/// same=1: everything happens on ONE thread of control, as on a current-thread runtime - while the send is suspended the buffer is filled
/// up by plain sends, the setter is released, and the suspended send is polled BEFORE anything was consumed: it must give the thread back
/// (answer Pending, or complete) so that the consumer gets to run; then the stream is drained and the send polled until it completes.
/// Records: [48 fill_done n_ok] [49 first_poll_after_release(0 = Pending, 1 = Ready(Ok), 3 = Ready(refused), 2 = did not return) 0]
/// [44 completed 0] [45 v 0]* everything delivered
fn same_thread<C, D>(chan: &'static Arc<C>, stream: MutinyStream<'static, u32, C, D>, fut: Pin<Box<dyn Future<Output = bool> + Send>>, flag: &'static AtomicBool, mut out: Vec<i64>) -> Vec<i64>
where C: ChannelProducer<'static, u32, D> + ChannelCommon<u32, D> + ChannelConsumer<'static, D> + Send + Sync + 'static,
      D: AsI64 + Send + Sync + Debug + 'static {
    let rec = |out: &mut Vec<i64>, code: i64, a: i64, b: i64| out.extend_from_slice(&[2, 0, code, a, b]);
    let n_ok: &'static AtomicI64 = Box::leak(Box::new(AtomicI64::new(0)));
    let filler = std::thread::spawn(move || { for j in 0..64u32 { if let keen_retry::RetryResult::Ok { .. } = chan.send(100 + j) { n_ok.fetch_add(1, SeqCst); } else { break } } });
    let f_done = wait_for(&filler, DEADLINE_MS);
    rec(&mut out, 48, f_done as i64, n_ok.load(SeqCst));
    if !f_done { LEAKED.store(true, SeqCst); std::mem::forget(fut); out.push(9); return out }
    flag.store(true, SeqCst);
    let fut: &'static Mutex<Pin<Box<dyn Future<Output = bool> + Send>>> = Box::leak(Box::new(Mutex::new(fut)));
    let answer: &'static AtomicI64 = Box::leak(Box::new(AtomicI64::new(2)));
    let poll_once = move || { let waker = futures::task::noop_waker(); let mut cx = Context::from_waker(&waker);
                              match fut.lock().unwrap().as_mut().poll(&mut cx) { Poll::Pending => 0, Poll::Ready(true) => 1, Poll::Ready(false) => 3 } };
    let p = std::thread::spawn(move || { answer.store(poll_once(), SeqCst); });
    let back = wait_for(&p, DEADLINE_MS);
    rec(&mut out, 49, if back { answer.load(SeqCst) } else { 2 }, 0);
    if !back { LEAKED.store(true, SeqCst); rec(&mut out, 44, 2, 0); out.push(9); return out }
    // now the consumer runs, then the send again, in turns
    let waker = futures::task::noop_waker(); let mut cx = Context::from_waker(&waker);
    let mut stream = stream; let mut got = vec![]; let mut completed = answer.load(SeqCst);
    for _round in 0..200 {
        while let Poll::Ready(Some(item)) = stream.poll_next_unpin(&mut cx) { got.push(item.as_i64()); }
        if completed == 0 { completed = poll_once(); } else if (got.len() as i64) >= n_ok.load(SeqCst) + (completed == 1) as i64 { break }
    }
    rec(&mut out, 44, if completed == 0 { 2 } else { completed }, 0);
    for v in &got { rec(&mut out, 45, *v, 0); }
    out.push(9);
    out
}

macro_rules! uni { ($t:ident, $case:expr) => {{
    let chan: &'static Arc<$t<u32, 8, 1>> = Box::leak(Box::new($t::<u32, 8, 1>::new("c")));
    let (stream, _id) = chan.create_stream();
    run_generic($case, chan, stream)
}}; }
macro_rules! multi { ($t:ident, $case:expr) => {{
    let chan: &'static Arc<$t<u32, 8, 1>> = Box::leak(Box::new($t::<u32, 8, 1>::new("c")));
    let (stream, _id) = chan.create_stream_for_new_events();
    run_generic($case, chan, stream)
}}; }

pub fn run(case: &Case) -> Vec<i64> {
    reactive_mutiny::verif::deactivate();
    match case.gets("chan") {
        "uni_move_atomic"        => uni!(ChannelUniMoveAtomic, case),
        "uni_move_full_sync"     => uni!(ChannelUniMoveFullSync, case),
        "uni_move_crossbeam"     => uni!(ChannelUniMoveCrossbeam, case),
        "uni_zero_copy_atomic"   => uni!(ChannelUniZeroCopyAtomic, case),
        "uni_zero_copy_full_sync"=> uni!(ChannelUniZeroCopyFullSync, case),
        "multi_arc_atomic"       => multi!(ChannelMultiArcAtomic, case),
        "multi_arc_full_sync"    => multi!(ChannelMultiArcFullSync, case),
        "multi_arc_crossbeam"    => multi!(ChannelMultiArcCrossbeam, case),
        "multi_ogre_arc_atomic"  => multi!(ChannelMultiOgreArcAtomic, case),
        "multi_ogre_arc_full_sync" => multi!(ChannelMultiOgreArcFullSync, case),
        other => panic!("async: unknown channel kind '{other}'"),
    }
}
