//! Lock-step runs of the stand-alone zero-copy `NonBlockingQueue`s (atomic / full-sync).
use crate::sched::*;
use crate::case::*;
use reactive_mutiny::verif;
use reactive_mutiny::ogre_std::ogre_queues::{OgreQueue, atomic, full_sync};

fn atomic_n<const N: usize>(case: &Case) -> Vec<i64> {
    verif::set_sequence_origin(case.get("origin", 0) as u32);
    let q: &'static atomic::NonBlockingQueue<u32, N, 0> = Box::leak(Box::new(atomic::NonBlockingQueue::new("q")));
    verif::set_sequence_origin(0);
    let (alloc, ring) = q.verif_base().verif_parts();
    let fl = alloc.verif_free_list();
    let mut locs = LocMap::new();
    let (a, sz) = ring.verif_addrs();
    for (i, x) in a[..4].iter().enumerate() { locs.cell(*x, i as i64); }
    locs.array(a[4], sz, N, 100);
    let (a, sz) = fl.verif_addrs();
    for (i, x) in a[..4].iter().enumerate() { locs.cell(*x, 500 + i as i64); }
    locs.array(a[4], sz, N, 600);
    run_ops(case, q, locs, None, move || { let c = ring.verif_counters(); let f = fl.verif_counters(); vec![c[0] as i64, c[1] as i64, f[0] as i64, f[1] as i64] })
}

fn fullsync_n<const N: usize>(case: &Case) -> Vec<i64> {
    verif::set_sequence_origin(case.get("origin", 0) as u32);
    let q: &'static full_sync::NonBlockingQueue<u32, N, 0> = Box::leak(Box::new(full_sync::NonBlockingQueue::new("q")));
    verif::set_sequence_origin(0);
    let (alloc, ring) = q.verif_base().verif_parts();
    let fl = alloc.verif_free_list();
    let mut locs = LocMap::new();
    let (a, sz) = ring.verif_addrs();
    locs.cell(a[0], 0); locs.cell(a[1], 1); locs.cell(a[2], 4); locs.array(a[3], sz, N, 100);
    let guard = a[2];
    let (a, sz) = fl.verif_addrs();
    locs.cell(a[0], 500); locs.cell(a[1], 501); locs.cell(a[2], 504); locs.array(a[3], sz, N, 600);
    run_ops(case, q, locs, Some(guard), move || { let c = ring.verif_counters(); let f = fl.verif_counters(); vec![c[0] as i64, c[1] as i64, f[0] as i64, f[1] as i64] })
}

fn run_ops<Q: OgreQueue<u32> + Sync + 'static>(case: &Case, q: &'static Q, locs: LocMap, len_yield: Option<usize>, fin: impl Fn() -> Vec<i64>) -> Vec<i64> {
    verif::reset(case.progs.len());
    let mut handles = vec![];
    for (tid, prog) in case.progs.iter().enumerate() {
        let prog = prog.clone();
        handles.push(spawn_worker(tid, move || {
            for op in prog {
                match op.name.as_str() {
                    "enq" => match q.enqueue(op.arg(0) as u32) { None => ret(tid, 30, op.arg(0), 0), Some(v) => ret(tid, 31, v as i64, 0) },
                    "deq" => match q.dequeue() { Some(v) => ret(tid, 32, v as i64, 0), None => ret(tid, 33, 0, 0) },
                    "len" => { if let Some(a) = len_yield { verif::yield_point("yield", a); } ret(tid, 34, q.len() as i64, 0) },
                    other => panic!("zcq: unknown op {other}"),
                }
            }
        }));
    }
    let mut out = run_schedule(&case.sched, &locs);
    out.push(9); out.extend(fin());
    wind_down(handles, 0);
    out
}

/// free-running stress (no scheduler): T threads hammer a small queue with bursts of enqueues of unique values and dequeues; afterwards the
/// queue is drained by one thread. Output: [2 0 31 accepted_enqueues returned(dequeued + drained)] [2 0 32 returned_twice never_enqueued]
/// [2 0 33 per_producer_order_violations 0] (+ [3 tid 2] per panic)
/// payload of the stress runs: a bare u32, or 1 KiB of words that all carry the value (a payload read while it is being written, or
/// before it was written, shows words that differ or a value nobody enqueued)
pub trait Pay: Send + Sync + std::fmt::Debug + 'static { fn mk(v: u32) -> Self; fn val(&self) -> u32; }
impl Pay for u32 { fn mk(v: u32) -> Self { v } fn val(&self) -> u32 { *self } }
#[derive(Debug, Clone, Copy)] pub struct Big([u64; 128]);
impl Pay for Big {
    fn mk(v: u32) -> Self { Big([v as u64; 128]) }
    fn val(&self) -> u32 { let w = unsafe { std::ptr::read_volatile(&self.0[0]) }; if self.0.iter().all(|x| unsafe { std::ptr::read_volatile(x) } == w) && w < (1 << 31) { w as u32 } else { u32::MAX } }
}
fn stress_run<P: Pay, Q: OgreQueue<P> + Sync + 'static>(q: &'static Q, case: &Case) -> Vec<i64> {
    let threads = case.get("T", 4) as usize; let ops = case.get("ops", 3000) as usize; let seed = case.get("seed", 1) as u64;
    let start = std::sync::Arc::new(std::sync::Barrier::new(threads));
    let mut handles = vec![];
    for tid in 0..threads {
        let start = start.clone();
        handles.push(std::thread::spawn(move || {
            let mut x = seed.wrapping_mul(0x9E3779B97F4A7C15).wrapping_add(tid as u64 + 1);
            let mut next = move || { x ^= x << 13; x ^= x >> 7; x ^= x << 17; x };
            let (mut pushed, mut popped) = (vec![], vec![]);
            start.wait();
            let r = std::panic::catch_unwind(std::panic::AssertUnwindSafe(|| {
                let mut j = 0u32;
                while (j as usize) < ops {
                    let burst = 1 + next() % 4; let push = if tid % 2 == 0 { next() % 4 != 0 } else { next() % 4 == 0 };
                    for _ in 0..burst {
                        if push { let v = ((tid as u32) << 20) | j; if q.enqueue(P::mk(v)).is_none() { pushed.push(v); } } else if let Some(v) = q.dequeue() { popped.push(v.val()); }
                        j += 1;
                    }
                }
            }));
            (pushed, popped, r.is_err())
        }));
    }
    let (mut pushed, mut returned, mut out, mut disorder) = (vec![], vec![], vec![], 0i64);
    for (tid, h) in handles.into_iter().enumerate() {
        match h.join() {
            Ok((a, b, p)) => {
                // FIFO: what one consumer dequeued from one producer comes in that producer's enqueue order
                let mut last = std::collections::HashMap::new();
                for v in &b { let pr = v >> 20; if let Some(l) = last.insert(pr, *v) { if l >= *v { disorder += 1; } } }
                pushed.extend(a); returned.extend(b); if p { out.extend_from_slice(&[3, tid as i64, 2]); }
            },
            Err(_) => out.extend_from_slice(&[3, tid as i64, 2]),
        }
    }
    let drained = std::panic::catch_unwind(std::panic::AssertUnwindSafe(|| { let mut d = vec![]; for _ in 0..1000 { match q.dequeue() { Some(v) => d.push(v.val()), None => break } } d }));
    match drained { Ok(d) => returned.extend(d), Err(_) => out.extend_from_slice(&[3, 99, 2]) }
    pushed.sort(); returned.sort();
    let twice = returned.windows(2).filter(|w| w[0] == w[1]).count();
    let never = returned.iter().filter(|v| pushed.binary_search(v).is_err()).count();
    out.extend_from_slice(&[2, 0, 31, pushed.len() as i64, returned.len() as i64, 2, 0, 32, twice as i64, never as i64, 2, 0, 33, disorder, 0, 9]);
    out
}
fn atomic_stress_n<const N: usize>(case: &Case) -> Vec<i64> {
    let q: &'static atomic::NonBlockingQueue<u32, N, 0> = Box::leak(Box::new(atomic::NonBlockingQueue::new("q")));
    stress_run(q, case)
}
fn fullsync_stress_n<const N: usize>(case: &Case) -> Vec<i64> {
    let q: &'static full_sync::NonBlockingQueue<u32, N, 0> = Box::leak(Box::new(full_sync::NonBlockingQueue::new("q")));
    stress_run(q, case)
}
fn atomic_stress_big_n<const N: usize>(case: &Case) -> Vec<i64> {
    let q: &'static atomic::NonBlockingQueue<Big, N, 0> = Box::leak(Box::new(atomic::NonBlockingQueue::new("q")));
    stress_run(q, case)
}
fn fullsync_stress_big_n<const N: usize>(case: &Case) -> Vec<i64> {
    let q: &'static full_sync::NonBlockingQueue<Big, N, 0> = Box::leak(Box::new(full_sync::NonBlockingQueue::new("q")));
    stress_run(q, case)
}

pub fn run(case: &Case) -> Vec<i64> {
    match (case.gets("impl"), case.get("N", 4)) {
        ("atomic_stress", 2) => atomic_stress_n::<2>(case), ("atomic_stress", 4) => atomic_stress_n::<4>(case),
        ("fullsync_stress", 2) => fullsync_stress_n::<2>(case), ("fullsync_stress", 4) => fullsync_stress_n::<4>(case),
        ("atomic_stress_big", 2) => atomic_stress_big_n::<2>(case), ("atomic_stress_big", 4) => atomic_stress_big_n::<4>(case), ("atomic_stress_big", 8) => atomic_stress_big_n::<8>(case),
        ("fullsync_stress_big", 2) => fullsync_stress_big_n::<2>(case), ("fullsync_stress_big", 4) => fullsync_stress_big_n::<4>(case), ("fullsync_stress_big", 8) => fullsync_stress_big_n::<8>(case),
        ("atomic", 2) => atomic_n::<2>(case), ("atomic", 4) => atomic_n::<4>(case), ("atomic", 8) => atomic_n::<8>(case),
        ("fullsync", 2) => fullsync_n::<2>(case), ("fullsync", 4) => fullsync_n::<4>(case), ("fullsync", 8) => fullsync_n::<8>(case),
        (i, n) => panic!("zcq: unsupported impl={i} N={n}"),
    }
}
