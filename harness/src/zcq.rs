//! Lock-step runs of the stand-alone zero-copy `NonBlockingQueue`s (atomic / full-sync).
use crate::sched::*;
use crate::case::*;
use reactive_mutiny::verif;
use reactive_mutiny::ogre_std::ogre_queues::{OgreQueue, atomic, full_sync};

fn atomic_n<const N: usize>(case: &Case) -> Vec<i64> {
    verif::set_sequence_origin(case.get("origin", 0) as u32);
    let q: &'static atomic::NonBlockingQueue<u32, N, 0> = Box::leak(Box::new(atomic::NonBlockingQueue::new("q")));
    verif::set_sequence_origin(0);
    let (alloc, ring) = q.verif_base().verif_parts();
    let fl = alloc.verif_free_list();
    let mut locs = LocMap::new();
    let (a, sz) = ring.verif_addrs();
    for (i, x) in a[..4].iter().enumerate() { locs.cell(*x, i as i64); }
    locs.array(a[4], sz, N, 100);
    let (a, sz) = fl.verif_addrs();
    for (i, x) in a[..4].iter().enumerate() { locs.cell(*x, 500 + i as i64); }
    locs.array(a[4], sz, N, 600);
    run_ops(case, q, locs, None, move || { let c = ring.verif_counters(); let f = fl.verif_counters(); vec![c[0] as i64, c[1] as i64, f[0] as i64, f[1] as i64] })
}

fn fullsync_n<const N: usize>(case: &Case) -> Vec<i64> {
    verif::set_sequence_origin(case.get("origin", 0) as u32);
    let q: &'static full_sync::NonBlockingQueue<u32, N, 0> = Box::leak(Box::new(full_sync::NonBlockingQueue::new("q")));
    verif::set_sequence_origin(0);
    let (alloc, ring) = q.verif_base().verif_parts();
    let fl = alloc.verif_free_list();
    let mut locs = LocMap::new();
    let (a, sz) = ring.verif_addrs();
    locs.cell(a[0], 0); locs.cell(a[1], 1); locs.cell(a[2], 4); locs.array(a[3], sz, N, 100);
    let guard = a[2];
    let (a, sz) = fl.verif_addrs();
    locs.cell(a[0], 500); locs.cell(a[1], 501); locs.cell(a[2], 504); locs.array(a[3], sz, N, 600);
    run_ops(case, q, locs, Some(guard), move || { let c = ring.verif_counters(); let f = fl.verif_counters(); vec![c[0] as i64, c[1] as i64, f[0] as i64, f[1] as i64] })
}

fn run_ops<Q: OgreQueue<u32> + Sync + 'static>(case: &Case, q: &'static Q, locs: LocMap, len_yield: Option<usize>, fin: impl Fn() -> Vec<i64>) -> Vec<i64> {
    verif::reset(case.progs.len());
    let mut handles = vec![];
    for (tid, prog) in case.progs.iter().enumerate() {
        let prog = prog.clone();
        handles.push(spawn_worker(tid, move || {
            for op in prog {
                match op.name.as_str() {
                    "enq" => match q.enqueue(op.arg(0) as u32) { None => ret(tid, 30, op.arg(0), 0), Some(v) => ret(tid, 31, v as i64, 0) },
                    "deq" => match q.dequeue() { Some(v) => ret(tid, 32, v as i64, 0), None => ret(tid, 33, 0, 0) },
                    "len" => { if let Some(a) = len_yield { verif::yield_point("yield", a); } ret(tid, 34, q.len() as i64, 0) },
                    other => panic!("zcq: unknown op {other}"),
                }
            }
        }));
    }
    let mut out = run_schedule(&case.sched, &locs);
    out.push(9); out.extend(fin());
    wind_down(handles, 0);
    out
}

pub fn run(case: &Case) -> Vec<i64> {
    match (case.gets("impl"), case.get("N", 4)) {
        ("atomic", 2) => atomic_n::<2>(case), ("atomic", 4) => atomic_n::<4>(case), ("atomic", 8) => atomic_n::<8>(case),
        ("fullsync", 2) => fullsync_n::<2>(case), ("fullsync", 4) => fullsync_n::<4>(case), ("fullsync", 8) => fullsync_n::<8>(case),
        (i, n) => panic!("zcq: unsupported impl={i} N={n}"),
    }
}
