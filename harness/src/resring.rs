//! Lock-step runs of the reserve / send-reserved / cancel API of the raw lock-free ring `AtomicMove<u32, N>` (C08)
use crate::sched::*;
use crate::case::*;
use reactive_mutiny::verif;
use reactive_mutiny::ogre_std::ogre_queues::{
    atomic::atomic_move::AtomicMove,
    meta_container::MoveContainer, meta_publisher::MovePublisher, meta_subscriber::MoveSubscriber,
};
use std::sync::Mutex;

struct Reservation { slot: usize, index: u32, value: u32 }

fn run_n<const N: usize>(case: &Case) -> Vec<i64> {
    verif::set_sequence_origin(case.get("origin", 0) as u32);
    let q: &'static AtomicMove<u32, N> = Box::leak(Box::new(AtomicMove::<u32, N>::new()));
    verif::set_sequence_origin(0);
    let (addrs, slot_size) = q.verif_addrs();
    let mut locs = LocMap::new();
    for (i, a) in addrs[..4].iter().enumerate() { locs.cell(*a, i as i64); }
    locs.array(addrs[4], slot_size, N, 100);
    locs.cell(2, 2);
    let table: &'static Mutex<Vec<Option<Reservation>>> = Box::leak(Box::new(Mutex::new((0..64).map(|_| None).collect())));
    verif::reset(case.progs.len());
    let mut handles = vec![];
    for (tid, prog) in case.progs.iter().enumerate() {
        let prog = prog.clone();
        handles.push(spawn_worker(tid, move || {
            for op in prog {
                match op.name.as_str() {
                    "pub" => match q.publish_movable(op.arg(0) as u32) {
                        (Some(len), _)    => ret(tid, 1, op.arg(0), len.get() as i64),
                        (None, Some(v))   => ret(tid, 0, v as i64, 0),
                        (None, None)      => ret(tid, 99, 0, 0),
                    },
                    "cons" => match q.consume_movable() {
                        Some(v) => ret(tid, 3, v as i64, 0),
                        None    => ret(tid, 2, 0, 0),
                    },
                    "len" => ret(tid, 4, q.available_elements_count() as i64, 0),
                    "res" => {
                        let k = op.arg(0) as usize;
                        match q.leak_slot_internal(|| false) {
                            Some((slot, _id, _len)) => {
                                let index = q.slot_index_from_slot_ref(slot);
                                table.lock().unwrap()[k] = Some(Reservation { slot: slot as *mut u32 as usize, index, value: op.arg(1) as u32 });
                                ret(tid, 20, k as i64, index as i64);
                            },
                            None => ret(tid, 21, k as i64, 0),
                        }
                    },
                    "sres" => {
                        let k = op.arg(0) as usize;
                        let r = table.lock().unwrap()[k].as_ref().map(|r| (r.slot, r.index, r.value));
                        match r {
                            Some((slot, index, value)) => {
                                unsafe { std::ptr::write(slot as *mut u32, value) };
                                match q.try_publish_leaked_internal_index(index) {
                                    Some(len) => { table.lock().unwrap()[k] = None; ret(tid, 22, k as i64, len.get() as i64) },
                                    None      => ret(tid, 23, k as i64, 0),
                                }
                            },
                            None => { verif::yield_point("yield", 2); ret(tid, 26, k as i64, 0) },
                        }
                    },
                    "cres" => {
                        let k = op.arg(0) as usize;
                        let r = table.lock().unwrap()[k].as_ref().map(|r| r.index);
                        match r {
                            Some(index) => {
                                if q.try_unleak_slot_index_internal(index) { table.lock().unwrap()[k] = None; ret(tid, 24, k as i64, 0) }
                                else { ret(tid, 25, k as i64, 0) }
                            },
                            None => { verif::yield_point("yield", 2); ret(tid, 26, k as i64, 0) },
                        }
                    },
                    other => panic!("resring: unknown op {other}"),
                }
            }
        }));
    }
    let mut out = run_schedule(&case.sched, &locs);
    let c = q.verif_counters();
    out.extend_from_slice(&[9, c[0] as i64, c[1] as i64, c[2] as i64, c[3] as i64]);
    wind_down(handles, 0);
    out
}

pub fn run(case: &Case) -> Vec<i64> {
    match case.get("N", 4) {
        2  => run_n::<2>(case),
        4  => run_n::<4>(case),
        8  => run_n::<8>(case),
        n  => panic!("resring: unsupported N={n}"),
    }
}
