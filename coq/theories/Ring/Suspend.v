(* A producer suspended between reserving its slot and publishing it (what `send_with_async` does while its setter future
   is pending: leak_slot_internal ... await ... publish_leaked_internal) - the effect on everybody else.
     lock-free ring : the thread is parked at P3 ; full-sync ring : the thread is parked holding the flag (FPU). *)
From RM Require Import RingModel RingInv RingProps FullSync.

Section Suspend.
Variable N : Z.
Hypothesis Npos : 0 < N.
Local Notation step := (stepZ N).
Local Notation exec := (execZ N).

Definition not_step (a : nat) (e : ev) : Prop := e <> Step a.

(* lock-free ring: while a (slot sa, reserved and not yet published) is never resumed, a producer b that reserved a LATER
   slot and reached its publication CAS stays there whatever is scheduled, for ever: tail cannot pass sa *)
Theorem ring_suspended_blocks_later_publishers evs s a b va sa la vb sb lb :
  Inv N s -> thr s a = P3 va sa la -> thr s b = P4 vb sb lb -> sa < sb ->
  Forall (not_step a) evs ->
  let s' := fold_left exec evs s in
  thr s' a = P3 va sa la /\ thr s' b = P4 vb sb lb /\ tail s' <= sa.
Proof.
  intros I Ea Eb Hlt Hev. revert s I Ea Eb. induction Hev as [|e evs He Hr IH]; intros s I Ea Eb; cbn [fold_left].
  - repeat split; auto. assert (Hps : pslot (thr s a) = Some sa) by (rewrite Ea; reflexivity). pose proof (i_prange _ _ I _ _ Hps). lia.
  - assert (Hab : a <> b) by (intros ->; congruence).
    assert (Hps : pslot (thr s a) = Some sa) by (rewrite Ea; reflexivity). pose proof (i_prange _ _ I _ _ Hps) as Hr'.
    apply IH.
    + destruct e; [apply inv_step|apply inv_start]; assumption.
    + destruct e as [u|u o]; cbn; [change (RingModel.step N idz idz s u) with (stepZ N s u)|change (RingModel.start s u o) with (start s u o)].
      * assert (u <> a) by (intros ->; apply He; reflexivity). rewrite step_other_threads_gen by auto. exact Ea.
      * unfold start. destruct (Nat.eq_dec u a) as [->|Hne]; [rewrite Ea; exact Ea|].
        destruct (thr s u); cbn; rewrite ?upd_other by auto; exact Ea.
    + destruct e as [u|u o]; cbn; [change (RingModel.step N idz idz s u) with (stepZ N s u)|change (RingModel.start s u o) with (start s u o)].
      * destruct (Nat.eq_dec u b) as [->|Hne].
        -- unfold stepZ, RingModel.step, idz. rewrite Eb. destruct (Z.eqb_spec (tail s) sb); [lia|exact Eb].
        -- rewrite step_other_threads_gen by auto. exact Eb.
      * unfold start. destruct (Nat.eq_dec u b) as [->|Hne]; [rewrite Eb; exact Eb|].
        destruct (thr s u); cbn; rewrite ?upd_other by auto; exact Eb.
Qed.

(* full-sync ring: while the flag holder a is never resumed, nobody else ever completes anything: every other thread that is
   in an operation stays at its lock acquisition, for ever (consumers included) *)
Local Notation fstep := (fstepZ N).
Local Notation fexec := (fexecZ N).
Definition fnot_step (a : nat) (e : ev) : Prop := e <> Step a.

Definition fwaiting (p : fpc) : bool := match p with FPL _ | FCL => true | _ => false end.

Lemma fs_step_while_held s a v r u :
  FInv N s -> fthr s a = FPU v r -> u <> a ->
  let s' := fstep s u in
  fthr s' a = FPU v r /\ fhead s' = fhead s /\ ftail s' = ftail s /\ fpublished s' = fpublished s /\ fdelivered s' = fdelivered s /\
  (forall w, fwaiting (fthr s w) = true -> fthr s' w = fthr s w).
Proof.
  intros I Ea Hne. assert (Hl : flock s = true) by (apply (f_flag _ _ I a); rewrite Ea; reflexivity).
  cbn zeta. unfold fstepZ, FullSync.fstep. destruct (fthr s u) eqn:Eu; rewrite ?Hl; cbn; rewrite ?upd_other by auto; auto 10.
  - exfalso. apply Hne. apply (f_mutex _ _ I u a); [rewrite Eu|rewrite Ea]; reflexivity.
  - exfalso. apply Hne. apply (f_mutex _ _ I u a); [rewrite Eu|rewrite Ea]; reflexivity.
  - repeat split; auto. intros w Hw. unfold upd. destruct (Nat.eqb_spec w u) as [->|]; [rewrite Eu in Hw; discriminate|reflexivity].
Qed.

Theorem fs_suspended_blocks_everybody evs s a v r :
  FInv N s -> fthr s a = FPU v r ->
  Forall (fnot_step a) evs ->
  let s' := fold_left fexec evs s in
  fthr s' a = FPU v r /\ flock s' = true /\ fhead s' = fhead s /\ ftail s' = ftail s /\ fpublished s' = fpublished s /\ fdelivered s' = fdelivered s /\
  (forall w, fwaiting (fthr s w) = true -> fthr s' w = fthr s w).
Proof.
  intros I Ea Hev. revert s I Ea. induction Hev as [|e evs He Hr IH]; intros s I Ea; cbn [fold_left].
  - repeat split; auto. apply (f_flag _ _ I a). rewrite Ea. reflexivity.
  - destruct e as [u|u o].
    + assert (Hne : u <> a) by (intros ->; apply He; reflexivity).
      destruct (fs_step_while_held s a v r u I Ea Hne) as (A1 & A2 & A3 & A4 & A5 & A6).
      change (fexecZ N s (Step u)) with (fstep s u).
      destruct (IH (fstep s u) (finv_step N Npos s u I) A1) as (B1 & B2 & B3 & B4 & B5 & B6 & B7).
      repeat split; try congruence. intros w Hw. rewrite B7 by (rewrite A6; assumption). now apply A6.
    + change (fexecZ N s (Start u o)) with (fstart s u o).
      assert (Sa : fthr (fstart s u o) a = FPU v r).
      { unfold fstart. destruct (Nat.eq_dec u a) as [->|Hne]; [rewrite Ea; exact Ea|]. destruct (fthr s u); cbn; rewrite ?upd_other by auto; exact Ea. }
      assert (Sw : forall w, fwaiting (fthr s w) = true -> fthr (fstart s u o) w = fthr s w).
      { intros w Hw. unfold fstart. destruct (fthr s u) eqn:Eu; auto. cbn. unfold upd. destruct (Nat.eqb_spec w u) as [->|]; [rewrite Eu in Hw; discriminate|reflexivity]. }
      destruct (IH (fstart s u o) (finv_start N s u o I) Sa) as (B1 & B2 & B3 & B4 & B5 & B6 & B7).
      assert (F : fhead (fstart s u o) = fhead s /\ ftail (fstart s u o) = ftail s /\ fpublished (fstart s u o) = fpublished s /\ fdelivered (fstart s u o) = fdelivered s).
      { unfold fstart. destruct (fthr s u); cbn; auto. }
      destruct F as (F1 & F2 & F3 & F4).
      repeat split; try congruence. intros w Hw. rewrite B7 by (rewrite Sw; assumption). now apply Sw.
Qed.

End Suspend.
