(* Executable model of the reserve / send-reserved / cancel API of the lock-free ring `AtomicMove`
   (/repo/src/ogre_std/ogre_queues/atomic/atomic_move.rs: leak_slot_internal(|| false), slot_index_from_slot_ref,
   try_publish_leaked_internal_index, try_unleak_slot_index_internal), layered on the ring machine of RingModel.v.

   A reservation k lives in the ring machine as a virtual thread `vt k` that stays parked at P3 (slot reserved, not written)
   or P4 (written, waiting for the publication CAS): everything the ring invariant says about slots held by threads then
   covers outstanding reservations too. The real thread t performs the accesses:
     reserve k v   : start (vt k) (OpPub v); steps P0, P1 (P2 when full)    -> slot index, or "no slot"
     send k        : [slot write, silent: it is the caller's own write through the &mut it was given]
                     loop { tail.CAS(g -> g+1) ; ok -> head.load, answer len ; failed with r: r/N > g/N -> g := idx + (r/N)*N ; else "retry later" }
     cancel k      : loop { enqueuer_tail.CAS(g+1 -> g) ; ok -> cancelled ; failed with r: (r-1)/N > g/N -> g := idx + ((r-1)/N)*N ; else "not now" }
   The guess g starts at the slot INDEX; a CAS that succeeds at a guess which is not the reservation's own slot id would
   publish / cancel somebody else's slot: the model performs exactly that and raises `bad` (theorems: unreachable). *)
From RM Require Import RingModel.

Inductive rop := RoReserve (k : nat) (v : Z) | RoSend (k : nat) | RoCancel (k : nat) | RoRing (o : op).
Inductive rres :=
| RrSlot (k : nat) (idx : Z) | RrNoSlot (k : nat) | RrSent (k : nat) (len : Z) | RrNotSent (k : nat)
| RrCancelled (k : nat) | RrNotCancelled (k : nat) | RrNone (k : nat) | RrRing (r : res).
Inductive rpc :=
| RIdle | RRing | RRes (k : nat) | RSendG (k : nat) (g : Z) | RSendH (k : nat) (g : Z) | RCanG (k : nat) (g : Z) | RNop (k : nat).

Record rst := { ring : st; rthr : nat -> rpc; rlog : list (nat * rres); bad : bool }.

Definition vt (k : nat) : nat := (100 + k)%nat.
Definition slot_of (p : pc) : option (Z * Z) := match p with P3 v s _ | P4 v s _ => Some (v, s) | _ => None end.

Section Reserve.
Variable N : Z.
Variables norm sgn : Z -> Z.
Local Notation rstep := (step N norm sgn).

Definition rmk r th l b : rst := {| ring := r; rthr := th; rlog := l; bad := b |}.
Definition last_res (x : st) : res := snd (last (log x) (0%nat, REmpty)).

(* the caller's write into the reserved slot (P3 -> P4), applied when the first send attempt starts *)
Definition written (x : st) (k : nat) : st := match thr x (vt k) with P3 _ _ _ => rstep x (vt k) | _ => x end.

Definition set_ring_thr (x : st) (t : nat) (p : pc) (tl etl : Z) (pub : list Z) (lg : list (nat * res)) : st :=
  {| head := head x; tail := tl; etail := etl; dhead := dhead x; buf := buf x; thr := upd (thr x) t p;
     published := pub; delivered := delivered x; log := lg |}.

Definition restep (s : rst) (t : nat) : rst :=
  match rthr s t with
  | RIdle => s
  | RRing =>
      let x := rstep (ring s) t in
      match thr x t with
      | Idle => rmk x (upd (rthr s) t RIdle) (rlog s ++ [(t, RrRing (last_res x))]) (bad s)
      | _ => rmk x (rthr s) (rlog s) (bad s)
      end
  | RRes k =>
      let x := rstep (ring s) (vt k) in
      match thr x (vt k) with
      | P3 _ slot _ => rmk x (upd (rthr s) t RIdle) (rlog s ++ [(t, RrSlot k (slot mod N))]) (bad s)
      | Idle => rmk x (upd (rthr s) t RIdle) (rlog s ++ [(t, RrNoSlot k)]) (bad s)
      | _ => rmk x (rthr s) (rlog s) (bad s)
      end
  | RSendG k g =>
      let x := ring s in
      match slot_of (thr x (vt k)) with
      | Some (v, slot) =>
          if tail x =? g then
            if g =? slot then rmk (rstep x (vt k)) (upd (rthr s) t (RSendH k g)) (rlog s) (bad s)
            else rmk (set_ring_thr x (vt k) (thr x (vt k)) (norm (g + 1)) (etail x) (published x) (log x)) (upd (rthr s) t (RSendH k g)) (rlog s) true
          else
            let r := tail x in
            if g / N <? r / N then rmk x (upd (rthr s) t (RSendG k (norm (slot mod N + (r / N) * N)))) (rlog s) (bad s)
            else rmk x (upd (rthr s) t RIdle) (rlog s ++ [(t, RrNotSent k)]) (bad s)
      | None => s
      end
  | RSendH k g =>
      let d := norm (g - head (ring s)) in
      rmk (ring s) (upd (rthr s) t RIdle) (rlog s ++ [(t, RrSent k (Z.max 1 d))]) (bad s)
  | RCanG k g =>
      let x := ring s in
      match slot_of (thr x (vt k)) with
      | Some (v, slot) =>
          if etail x =? norm (g + 1) then
            if g =? slot then
              rmk (set_ring_thr x (vt k) Idle (tail x) g (published x) (log x ++ [(vt k, RFull v)])) (upd (rthr s) t RIdle) (rlog s ++ [(t, RrCancelled k)]) (bad s)
            else rmk (set_ring_thr x (vt k) (thr x (vt k)) (tail x) g (published x) (log x)) (upd (rthr s) t RIdle) (rlog s ++ [(t, RrCancelled k)]) true
          else
            let r1 := norm (etail x - 1) in
            if g / N <? r1 / N then rmk x (upd (rthr s) t (RCanG k (norm (slot mod N + (r1 / N) * N)))) (rlog s) (bad s)
            else rmk x (upd (rthr s) t RIdle) (rlog s ++ [(t, RrNotCancelled k)]) (bad s)
      | None => s
      end
  | RNop k => rmk (ring s) (upd (rthr s) t RIdle) (rlog s ++ [(t, RrNone k)]) (bad s)
  end.

Definition restart (s : rst) (t : nat) (o : rop) : rst :=
  match rthr s t with
  | RIdle =>
      match o with
      | RoRing o' => rmk (start (ring s) t o') (upd (rthr s) t RRing) (rlog s) (bad s)
      | RoReserve k v => rmk (start (ring s) (vt k) (OpPub v)) (upd (rthr s) t (RRes k)) (rlog s) (bad s)
      | RoSend k =>
          let x := written (ring s) k in
          match slot_of (thr x (vt k)) with
          | Some (_, slot) => rmk x (upd (rthr s) t (RSendG k (slot mod N))) (rlog s) (bad s)
          | None => rmk (ring s) (upd (rthr s) t (RNop k)) (rlog s) (bad s)
          end
      | RoCancel k =>
          match slot_of (thr (ring s) (vt k)) with
          | Some (_, slot) => rmk (ring s) (upd (rthr s) t (RCanG k (slot mod N))) (rlog s) (bad s)
          | None => rmk (ring s) (upd (rthr s) t (RNop k)) (rlog s) (bad s)
          end
      end
  | _ => s
  end.

Inductive rev := RStep (t : nat) | RStart (t : nat) (o : rop).
Definition reexec (s : rst) (e : rev) : rst := match e with RStep t => restep s t | RStart t o => restart s t o end.

Definition retid (t : nat) (l : list Z) : list Z := match l with a :: _ :: rest => a :: Z.of_nat t :: rest | _ => l end.
Definition reobs (s : rst) (t : nat) : list Z :=
  match rthr s t with
  | RIdle => skip t
  | RRing => obs N norm (ring s) t
  | RRes k => retid t (obs N norm (ring s) (vt k))
  | RSendG k g => if tail (ring s) =? g then acc t L_TAIL K_CAS (tail (ring s)) (norm (g + 1)) true else acc t L_TAIL K_CAS (tail (ring s)) (-1) false
  | RSendH k g => acc t L_HEAD K_LOAD (head (ring s)) (-1) true
  | RCanG k g => if etail (ring s) =? norm (g + 1) then acc t L_ETAIL K_CAS (etail (ring s)) g true else acc t L_ETAIL K_CAS (etail (ring s)) (-1) false
  | RNop k => acc t 2 K_YIELD 0 (-1) true
  end.

Definition rres_code (r : rres) : list Z :=
  match r with
  | RrSlot k i => [20; Z.of_nat k; i] | RrNoSlot k => [21; Z.of_nat k; 0] | RrSent k len => [22; Z.of_nat k; len] | RrNotSent k => [23; Z.of_nat k; 0]
  | RrCancelled k => [24; Z.of_nat k; 0] | RrNotCancelled k => [25; Z.of_nat k; 0] | RrNone k => [26; Z.of_nat k; 0] | RrRing r => res_code r
  end.
Definition reemit (before after : list (nat * rres)) : list (list Z) :=
  map (fun e => 2 :: Z.of_nat (fst e) :: rres_code (snd e)) (skipn (length before) after).
Definition regrant (s : rst) (progs : nat -> list rop) (t : nat) : rst * (nat -> list rop) * list (list Z) :=
  match rthr s t with
  | RIdle => match progs t with
             | [] => (s, progs, [skip t])
             | o :: rest => let s1 := restart s t o in let s2 := restep s1 t in (s2, upd progs t rest, reobs s1 t :: reemit (rlog s) (rlog s2))
             end
  | _ => let s2 := restep s t in (s2, progs, reobs s t :: reemit (rlog s) (rlog s2))
  end.
Fixpoint rerun (s : rst) (progs : nat -> list rop) (sched : list nat) : rst * list (list Z) :=
  match sched with
  | [] => (s, [])
  | t :: rest => let '(s1, p1, lines) := regrant s progs t in let '(s2, more) := rerun s1 p1 rest in (s2, lines ++ more)
  end.
End Reserve.

Definition reinit_at (origin : Z) : rst := {| ring := init_at origin; rthr := fun _ => RIdle; rlog := []; bad := false |}.
Definition run_reserve32 (N origin : Z) (progs : list (list rop)) (sched : list nat) : list Z :=
  let '(s, lines) := rerun N u32 i32 (reinit_at (u32 origin)) (fun t => nth t progs []) sched in
  concat lines ++ [9; head (ring s); tail (ring s); etail (ring s); dhead (ring s)].
