(* Executable model of `FullSyncMove` (/repo/src/ogre_std/ogre_queues/full_sync/full_sync_move.rs): a ring whose
   plain head/tail are guarded by the spin flag `concurrency_guard` (ogre_sync::lock / unlock).

   Granularity = the scheduling points of the hooked code: the flag CAS (one step per attempt; a failed attempt
   leaves everything unchanged) and the flag store(false).  Everything between a successful CAS and the store is
   plain code executed while holding the flag and is part of the CAS step.
     FPL v   about to CAS the flag in leak_slot_internal      (publish_movable / publish)
     FPU r   about to store(false): after the slot write + tail bump, or after seeing the ring full
     FCL     about to CAS the flag in consume_leaking_internal
     FCU r   about to store(false)
     FLN     available_elements_count(): plain reads of tail and head, no flag (the harness adds a yield point) *)
From RM Require Export RingModel.

Inductive fpc := FIdle | FPL (v : Z) | FPU (r : res) | FCL | FCU (r : res) | FLN.

Record fsst := {
  fhead : Z; ftail : Z; flock : bool; fbuf : Z -> Z; fthr : nat -> fpc;
  fpublished : list Z; fdelivered : list Z; flog : list (nat * res)
}.

Section FS.
Variable N : Z.
Variable norm : Z -> Z.

Definition fset (s : fsst) (t : nat) (p : fpc) : fsst :=
  {| fhead := fhead s; ftail := ftail s; flock := flock s; fbuf := fbuf s; fthr := upd (fthr s) t p;
     fpublished := fpublished s; fdelivered := fdelivered s; flog := flog s |}.

Definition fstep (s : fsst) (t : nat) : fsst :=
  match fthr s t with
  | FIdle => s
  | FPL v =>
      if flock s then s else
      let len := norm (ftail s - fhead s) in
      if len <? N then
        {| fhead := fhead s; ftail := norm (ftail s + 1); flock := true; fbuf := updz (fbuf s) (ftail s mod N) v;
           fthr := upd (fthr s) t (FPU (ROk v (len + 1)));
           fpublished := fpublished s ++ [v]; fdelivered := fdelivered s; flog := flog s |}
      else
        {| fhead := fhead s; ftail := ftail s; flock := true; fbuf := fbuf s; fthr := upd (fthr s) t (FPU (RFull v));
           fpublished := fpublished s; fdelivered := fdelivered s; flog := flog s |}
  | FPU r | FCU r =>
      {| fhead := fhead s; ftail := ftail s; flock := false; fbuf := fbuf s; fthr := upd (fthr s) t FIdle;
         fpublished := fpublished s; fdelivered := fdelivered s; flog := flog s ++ [(t, r)] |}
  | FCL =>
      if flock s then s else
      let len := norm (ftail s - fhead s) in
      if 0 <? len then
        let v := fbuf s (fhead s mod N) in
        {| fhead := norm (fhead s + 1); ftail := ftail s; flock := true; fbuf := fbuf s;
           fthr := upd (fthr s) t (FCU (RGot v));
           fpublished := fpublished s; fdelivered := fdelivered s ++ [v]; flog := flog s |}
      else
        {| fhead := fhead s; ftail := ftail s; flock := true; fbuf := fbuf s; fthr := upd (fthr s) t (FCU REmpty);
           fpublished := fpublished s; fdelivered := fdelivered s; flog := flog s |}
  | FLN =>
      {| fhead := fhead s; ftail := ftail s; flock := flock s; fbuf := fbuf s; fthr := upd (fthr s) t FIdle;
         fpublished := fpublished s; fdelivered := fdelivered s;
         flog := flog s ++ [(t, RLen (norm (ftail s - fhead s)))] |}
  end.

Definition fstart (s : fsst) (t : nat) (o : op) : fsst :=
  match fthr s t with
  | FIdle => fset s t (match o with OpPub v => FPL v | OpCons => FCL | OpLen => FLN end)
  | _ => s
  end.

Definition fexec (s : fsst) (e : ev) : fsst :=
  match e with Step t => fstep s t | Start t o => fstart s t o end.

Definition FL_HEAD := 0. Definition FL_TAIL := 1. Definition FL_GUARD := 4.
Definition fobs (s : fsst) (t : nat) : list Z :=
  match fthr s t with
  | FIdle => skip t
  | FPL _ | FCL => if flock s then acc t FL_GUARD K_CAS 1 (-1) false else acc t FL_GUARD K_CAS 0 1 true
  | FPU _ | FCU _ => acc t FL_GUARD K_STORE 0 0 true
  | FLN => acc t FL_GUARD K_YIELD 0 (-1) true
  end.

End FS.

Definition finit_at (origin : Z) : fsst :=
  {| fhead := origin; ftail := origin; flock := false; fbuf := fun _ => 0; fthr := fun _ => FIdle;
     fpublished := []; fdelivered := []; flog := [] |}.
Definition finit := finit_at 0.

Definition fstepZ N := fstep N idz.
Definition fexecZ N := fexec N idz.

(* ------------------------------------------------------------------------------------------------ invariant *)
Section FSInv.
Variable N : Z.
Hypothesis Npos : 0 < N.

Definition holds_lock (p : fpc) : bool := match p with FPU _ | FCU _ => true | _ => false end.

Record FInv (s : fsst) : Prop := {
  f_ord  : 0 <= fhead s <= ftail s /\ ftail s <= fhead s + N;
  f_lenp : Z.of_nat (length (fpublished s)) = ftail s;
  f_lend : Z.of_nat (length (fdelivered s)) = fhead s;
  f_buf  : forall i, fhead s <= i < ftail s -> fbuf s (i mod N) = nthz (fpublished s) i;
  f_del  : fdelivered s = firstn (Z.to_nat (fhead s)) (fpublished s);
  (* mutual exclusion: at most one thread between a successful CAS and its store, and then the flag is set *)
  f_mutex: forall t u, holds_lock (fthr s t) = true -> holds_lock (fthr s u) = true -> t = u;
  f_flag : forall t, holds_lock (fthr s t) = true -> flock s = true;
  f_free : flock s = true -> exists t, holds_lock (fthr s t) = true
}.

Lemma finv_init : FInv finit.
Proof. constructor; cbn; try lia; auto; try discriminate; intros; lia. Qed.

Ltac fs := cbn [fhead ftail flock fbuf fthr fpublished fdelivered flog fset] in *.

Lemma finv_start s t o : FInv s -> FInv (fstart s t o).
Proof.
  intros I. unfold fstart. destruct (fthr s t) eqn:E; auto.
  destruct I. constructor; fs; auto.
  - intros u w. upd_cases t u; upd_cases t w; auto; destruct o; cbn; try discriminate.
  - intros u. upd_cases t u; eauto. destruct o; discriminate.
  - intros Hl. destruct (f_free0 Hl) as [u Hu]. exists u. upd_cases t u; auto. rewrite E in Hu. discriminate.
Qed.

Lemma finv_step s t : FInv s -> FInv (fstepZ N s t).
Proof.
  intros I. unfold fstepZ, fstep, idz. pose proof I as I0. destruct I as [Ho Hlp Hld Hb Hd Hm Hf Hfr].
  destruct (fthr s t) eqn:E; [exact I0| | | | |].
  - (* FPL *)
    destruct (flock s) eqn:El; [exact I0|].
    assert (Hnone : forall u, holds_lock (fthr s u) = false).
    { intros u. destruct (holds_lock (fthr s u)) eqn:Eh; auto. specialize (Hf u Eh). congruence. }
    destruct (Z.ltb_spec (ftail s - fhead s) N) as [Hlt|Hge]; constructor; fs; auto; try lia.
    + rewrite app_length; cbn; lia.
    + intros i Hi. destruct (Z.eq_dec i (ftail s)) as [->|Hn].
      * rewrite updz_same. replace (ftail s) with (Z.of_nat (length (fpublished s))) at 1 by lia. now rewrite nthz_app_r.
      * rewrite nthz_app_l by lia. rewrite updz_other; [apply Hb; lia|].
        intros Em. revert Em. apply mod_neq; lia.
    + rewrite Hd, firstn_app. replace (Z.to_nat (fhead s) - length (fpublished s))%nat with 0%nat by lia.
      cbn. now rewrite app_nil_r.
    + intros u w. upd_cases t u; upd_cases t w; auto; cbn; intros; try congruence;
        match goal with H : holds_lock (fthr s ?x) = true |- _ => rewrite Hnone in H; discriminate end.
    + exists t. now rewrite upd_same.
    + intros u w. upd_cases t u; upd_cases t w; auto; cbn; intros; try congruence;
        match goal with H : holds_lock (fthr s ?x) = true |- _ => rewrite Hnone in H; discriminate end.
    + exists t. now rewrite upd_same.
  - (* FPU *)
    assert (Ht : holds_lock (fthr s t) = true) by (rewrite E; reflexivity).
    constructor; fs; auto.
    + intros u w. upd_cases t u; upd_cases t w; auto; cbn; try discriminate.
    + intros u. upd_cases t u; cbn; [discriminate|]. intros Hu. exfalso. apply n. apply Hm; assumption.
    + discriminate.
  - (* FCL *)
    destruct (flock s) eqn:El; [exact I0|].
    assert (Hnone : forall u, holds_lock (fthr s u) = false).
    { intros u. destruct (holds_lock (fthr s u)) eqn:Eh; auto. specialize (Hf u Eh). congruence. }
    destruct (Z.ltb_spec 0 (ftail s - fhead s)) as [Hlt|Hge]; constructor; fs; auto; try lia.
    + rewrite app_length; cbn; lia.
    + intros i Hi. apply Hb. lia.
    + rewrite Hd. replace (Z.to_nat (fhead s + 1)) with (S (Z.to_nat (fhead s))) by lia.
      rewrite (Hb (fhead s)) by lia. unfold nthz. symmetry. apply firstn_S_nth. lia.
    + intros u w. upd_cases t u; upd_cases t w; auto; cbn; intros; try congruence;
        match goal with H : holds_lock (fthr s ?x) = true |- _ => rewrite Hnone in H; discriminate end.
    + exists t. now rewrite upd_same.
    + intros u w. upd_cases t u; upd_cases t w; auto; cbn; intros; try congruence;
        match goal with H : holds_lock (fthr s ?x) = true |- _ => rewrite Hnone in H; discriminate end.
    + exists t. now rewrite upd_same.
  - (* FCU *)
    assert (Ht : holds_lock (fthr s t) = true) by (rewrite E; reflexivity).
    constructor; fs; auto.
    + intros u w. upd_cases t u; upd_cases t w; auto; cbn; try discriminate.
    + intros u. upd_cases t u; cbn; [discriminate|]. intros Hu. exfalso. apply n. apply Hm; assumption.
    + discriminate.
  - (* FLN *)
    constructor; fs; auto.
    + intros u w. upd_cases t u; upd_cases t w; auto; cbn; try discriminate.
    + intros u. upd_cases t u; cbn; [discriminate|]. apply Hf.
    + intros Hl. destruct (Hfr Hl) as [u Hu]. exists u. upd_cases t u; auto. rewrite E in Hu. discriminate.
Qed.

Theorem finv_reachable evs : FInv (fold_left (fexecZ N) evs finit).
Proof.
  apply fold_inv; [|apply finv_init].
  intros s e I. destruct e; cbn; [apply finv_step|apply finv_start]; assumption.
Qed.

End FSInv.
