(* Executable model of `FullSyncMove` (/repo/src/ogre_std/ogre_queues/full_sync/full_sync_move.rs): a ring whose
   plain head/tail are guarded by the spin flag `concurrency_guard` (ogre_sync::lock / unlock).

   Granularity = the scheduling points of the hooked code: the flag CAS (one step per attempt; a failed attempt
   leaves everything unchanged) and the flag store(false).  Everything between a successful CAS and the store is
   plain code executed while holding the flag and is part of the CAS step.
     FPL v   about to CAS the flag in leak_slot_internal      (publish_movable / publish)
     FPU r   about to store(false): after the slot write + tail bump, or after seeing the ring full
     FCL     about to CAS the flag in consume_leaking_internal
     FCU r   about to store(false)
     FLN     available_elements_count(): plain reads of tail and head, no flag (the harness adds a yield point) *)
From RM Require Export RingModel.

Inductive fpc := FIdle | FPL (v : Z) | FPU (v : Z) (r : option Z) | FCL | FCU (r : option Z) | FLN.
Definition pub_res (v : Z) (r : option Z) : res := match r with Some len => ROk v len | None => RFull v end.
Definition cons_res (r : option Z) : res := match r with Some v => RGot v | None => REmpty end.

Record fsst := {
  fhead : Z; ftail : Z; flock : bool; fbuf : Z -> Z; fthr : nat -> fpc;
  fpublished : list Z; fdelivered : list Z; flog : list (nat * res)
}.

Section FS.
Variable N : Z.
Variable norm : Z -> Z.

Definition fset (s : fsst) (t : nat) (p : fpc) : fsst :=
  {| fhead := fhead s; ftail := ftail s; flock := flock s; fbuf := fbuf s; fthr := upd (fthr s) t p;
     fpublished := fpublished s; fdelivered := fdelivered s; flog := flog s |}.

Definition fstep (s : fsst) (t : nat) : fsst :=
  match fthr s t with
  | FIdle => s
  | FPL v =>
      if flock s then s else
      let len := norm (ftail s - fhead s) in
      if len <? N then
        {| fhead := fhead s; ftail := norm (ftail s + 1); flock := true; fbuf := updz (fbuf s) (ftail s mod N) v;
           fthr := upd (fthr s) t (FPU v (Some (len + 1)));
           fpublished := fpublished s ++ [v]; fdelivered := fdelivered s; flog := flog s |}
      else
        {| fhead := fhead s; ftail := ftail s; flock := true; fbuf := fbuf s; fthr := upd (fthr s) t (FPU v None);
           fpublished := fpublished s; fdelivered := fdelivered s; flog := flog s |}
  | FPU v r =>
      {| fhead := fhead s; ftail := ftail s; flock := false; fbuf := fbuf s; fthr := upd (fthr s) t FIdle;
         fpublished := fpublished s; fdelivered := fdelivered s; flog := flog s ++ [(t, pub_res v r)] |}
  | FCU r =>
      {| fhead := fhead s; ftail := ftail s; flock := false; fbuf := fbuf s; fthr := upd (fthr s) t FIdle;
         fpublished := fpublished s; fdelivered := fdelivered s; flog := flog s ++ [(t, cons_res r)] |}
  | FCL =>
      if flock s then s else
      let len := norm (ftail s - fhead s) in
      if 0 <? len then
        let v := fbuf s (fhead s mod N) in
        {| fhead := norm (fhead s + 1); ftail := ftail s; flock := true; fbuf := fbuf s;
           fthr := upd (fthr s) t (FCU (Some v));
           fpublished := fpublished s; fdelivered := fdelivered s ++ [v]; flog := flog s |}
      else
        {| fhead := fhead s; ftail := ftail s; flock := true; fbuf := fbuf s; fthr := upd (fthr s) t (FCU None);
           fpublished := fpublished s; fdelivered := fdelivered s; flog := flog s |}
  | FLN =>
      {| fhead := fhead s; ftail := ftail s; flock := flock s; fbuf := fbuf s; fthr := upd (fthr s) t FIdle;
         fpublished := fpublished s; fdelivered := fdelivered s;
         flog := flog s ++ [(t, RLen (norm (ftail s - fhead s)))] |}
  end.

Definition fstart (s : fsst) (t : nat) (o : op) : fsst :=
  match fthr s t with
  | FIdle => fset s t (match o with OpPub v => FPL v | OpCons => FCL | OpLen => FLN end)
  | _ => s
  end.

Definition fexec (s : fsst) (e : ev) : fsst :=
  match e with Step t => fstep s t | Start t o => fstart s t o end.

Definition FL_HEAD := 0. Definition FL_TAIL := 1. Definition FL_GUARD := 4.
Definition fobs (s : fsst) (t : nat) : list Z :=
  match fthr s t with
  | FIdle => skip t
  | FPL _ | FCL => if flock s then acc t FL_GUARD K_CAS 1 (-1) false else acc t FL_GUARD K_CAS 0 1 true
  | FPU _ _ | FCU _ => acc t FL_GUARD K_STORE 0 0 true
  | FLN => acc t FL_GUARD K_YIELD 0 (-1) true
  end.

End FS.

Definition finit_at (origin : Z) : fsst :=
  {| fhead := origin; ftail := origin; flock := false; fbuf := fun _ => 0; fthr := fun _ => FIdle;
     fpublished := []; fdelivered := []; flog := [] |}.
Definition finit := finit_at 0.

Definition fstepZ N := fstep N idz.
Definition fexecZ N := fexec N idz.

(* ------------------------------------------------------------------------------------------------ invariant *)
Section FSInv.
Variable N : Z.
Hypothesis Npos : 0 < N.

Definition holds_lock (p : fpc) : bool := match p with FPU _ _ | FCU _ => true | _ => false end.

Record FInv (s : fsst) : Prop := {
  f_ord  : 0 <= fhead s <= ftail s /\ ftail s <= fhead s + N;
  f_lenp : Z.of_nat (length (fpublished s)) = ftail s;
  f_lend : Z.of_nat (length (fdelivered s)) = fhead s;
  f_buf  : forall i, fhead s <= i < ftail s -> fbuf s (i mod N) = nthz (fpublished s) i;
  f_del  : fdelivered s = firstn (Z.to_nat (fhead s)) (fpublished s);
  (* mutual exclusion: at most one thread between a successful CAS and its store, and then the flag is set *)
  f_mutex: forall t u, holds_lock (fthr s t) = true -> holds_lock (fthr s u) = true -> t = u;
  f_flag : forall t, holds_lock (fthr s t) = true -> flock s = true;
  f_free : flock s = true -> exists t, holds_lock (fthr s t) = true;
  (* the response logs lag behind the ghost lists by exactly the effect of the current flag holder *)
  f_sync : flock s = false -> fpublished s = accepted_of (flog s) /\ fdelivered s = yielded_of (flog s);
  f_lag  : forall t, match fthr s t with
                     | FPU v (Some _) => fpublished s = accepted_of (flog s) ++ [v] /\ fdelivered s = yielded_of (flog s)
                     | FCU (Some v) => fpublished s = accepted_of (flog s) /\ fdelivered s = yielded_of (flog s) ++ [v]
                     | FPU _ None | FCU None => fpublished s = accepted_of (flog s) /\ fdelivered s = yielded_of (flog s)
                     | _ => True
                     end
}.

Lemma finv_init : FInv finit.
Proof. constructor; cbn; try lia; auto; try discriminate; intros; try lia; exact I. Qed.

Ltac fs := cbn [fhead ftail flock fbuf fthr fpublished fdelivered flog fset] in *.

Lemma facc_snoc l t r : accepted_of (l ++ [(t, r)]) = accepted_of l ++ match r with ROk v _ => [v] | _ => [] end.
Proof. unfold accepted_of. rewrite flat_map_app. cbn. now rewrite app_nil_r. Qed.
Lemma fyld_snoc l t r : yielded_of (l ++ [(t, r)]) = yielded_of l ++ match r with RGot v => [v] | _ => [] end.
Proof. unfold yielded_of. rewrite flat_map_app. cbn. now rewrite app_nil_r. Qed.

Lemma finv_start s t o : FInv s -> FInv (fstart s t o).
Proof.
  intros I. unfold fstart. destruct (fthr s t) eqn:E; auto.
  destruct I. constructor; fs; auto.
  - intros u w. upd_cases t u; upd_cases t w; auto; destruct o; cbn; try discriminate.
  - intros u. upd_cases t u; eauto. destruct o; discriminate.
  - intros Hl. destruct (f_free0 Hl) as [u Hu]. exists u. upd_cases t u; auto. rewrite E in Hu. discriminate.
  - intros u. upd_cases t u; [destruct o; exact I|apply f_lag0].
Qed.

Lemma finv_step s t : FInv s -> FInv (fstepZ N s t).
Proof.
  intros I. unfold fstepZ, fstep, idz. pose proof I as I0. destruct I as [Ho Hlp Hld Hb Hd Hm Hf Hfr Hs Hg].
  destruct (fthr s t) eqn:E; [exact I0| | | | |].
  - (* FPL *)
    destruct (flock s) eqn:El; [exact I0|].
    assert (Hnone : forall u, holds_lock (fthr s u) = false).
    { intros u. destruct (holds_lock (fthr s u)) eqn:Eh; auto. specialize (Hf u Eh). congruence. }
    destruct (Hs eq_refl) as [Hsa Hsy].
    assert (Hlag : forall x u, u <> t ->
              match fthr s u with
              | FPU v0 (Some _) => x = accepted_of (flog s) ++ [v0] /\ fdelivered s = yielded_of (flog s)
              | FCU (Some v0) => x = accepted_of (flog s) /\ fdelivered s = yielded_of (flog s) ++ [v0]
              | FPU _ None | FCU None => x = accepted_of (flog s) /\ fdelivered s = yielded_of (flog s)
              | _ => True end).
    { intros x u Hn. specialize (Hnone u). destruct (fthr s u); cbn in Hnone; try discriminate; exact I. }
    destruct (Z.ltb_spec (ftail s - fhead s) N) as [Hlt|Hge]; constructor; fs; auto; try lia; try discriminate.
    + rewrite app_length; cbn; lia.
    + intros i Hi. destruct (Z.eq_dec i (ftail s)) as [->|Hn].
      * rewrite updz_same. replace (ftail s) with (Z.of_nat (length (fpublished s))) at 1 by lia. now rewrite nthz_app_r.
      * rewrite nthz_app_l by lia. rewrite updz_other; [apply Hb; lia|].
        intros Em. revert Em. apply mod_neq; lia.
    + rewrite Hd, firstn_app. replace (Z.to_nat (fhead s) - length (fpublished s))%nat with 0%nat by lia.
      cbn. now rewrite app_nil_r.
    + intros u w. upd_cases t u; upd_cases t w; auto; cbn; intros; try congruence;
        match goal with H : holds_lock (fthr s ?x) = true |- _ => rewrite Hnone in H; discriminate end.
    + exists t. now rewrite upd_same.
    + intros u. upd_cases t u; [split; congruence|apply Hlag; assumption].
    + intros u w. upd_cases t u; upd_cases t w; auto; cbn; intros; try congruence;
        match goal with H : holds_lock (fthr s ?x) = true |- _ => rewrite Hnone in H; discriminate end.
    + exists t. now rewrite upd_same.
    + intros u. upd_cases t u; [split; congruence|apply Hlag; assumption].
  - (* FPU *)
    assert (Ht : holds_lock (fthr s t) = true) by (rewrite E; reflexivity).
    pose proof (Hg t) as Hgt. rewrite E in Hgt.
    assert (Hnew : fpublished s = accepted_of (flog s ++ [(t, pub_res v r)]) /\ fdelivered s = yielded_of (flog s ++ [(t, pub_res v r)])).
    { rewrite facc_snoc, fyld_snoc. destruct r; cbn; rewrite ?app_nil_r; exact Hgt. }
    constructor; fs; auto.
    + intros u w. upd_cases t u; upd_cases t w; auto; cbn; try discriminate.
    + intros u. upd_cases t u; cbn; [discriminate|]. intros Hu. exfalso. apply n. apply Hm; assumption.
    + discriminate.
    + intros u. upd_cases t u; [exact I|].
      assert (Hnu : holds_lock (fthr s u) = false).
      { destruct (holds_lock (fthr s u)) eqn:Eh; auto. exfalso. apply n. apply Hm; assumption. }
      destruct (fthr s u); cbn in Hnu; try discriminate; exact I.
  - (* FCL *)
    destruct (flock s) eqn:El; [exact I0|].
    assert (Hnone : forall u, holds_lock (fthr s u) = false).
    { intros u. destruct (holds_lock (fthr s u)) eqn:Eh; auto. specialize (Hf u Eh). congruence. }
    destruct (Hs eq_refl) as [Hsa Hsy].
    assert (Hlag : forall u, u <> t -> forall (P : fpc -> Prop), (forall p, holds_lock p = false -> P p) -> P (fthr s u)).
    { intros u Hn P HP. apply HP. apply Hnone. }
    destruct (Z.ltb_spec 0 (ftail s - fhead s)) as [Hlt|Hge]; constructor; fs; auto; try lia; try discriminate.
    + rewrite app_length; cbn; lia.
    + intros i Hi. apply Hb. lia.
    + rewrite Hd. replace (Z.to_nat (fhead s + 1)) with (S (Z.to_nat (fhead s))) by lia.
      rewrite (Hb (fhead s)) by lia. unfold nthz. symmetry. apply firstn_S_nth. lia.
    + intros u w. upd_cases t u; upd_cases t w; auto; cbn; intros; try congruence;
        match goal with H : holds_lock (fthr s ?x) = true |- _ => rewrite Hnone in H; discriminate end.
    + exists t. now rewrite upd_same.
    + intros u. upd_cases t u; [split; congruence|].
      specialize (Hnone u). destruct (fthr s u); cbn in Hnone; try discriminate; exact I.
    + intros u w. upd_cases t u; upd_cases t w; auto; cbn; intros; try congruence;
        match goal with H : holds_lock (fthr s ?x) = true |- _ => rewrite Hnone in H; discriminate end.
    + exists t. now rewrite upd_same.
    + intros u. upd_cases t u; [split; congruence|].
      specialize (Hnone u). destruct (fthr s u); cbn in Hnone; try discriminate; exact I.
  - (* FCU *)
    assert (Ht : holds_lock (fthr s t) = true) by (rewrite E; reflexivity).
    pose proof (Hg t) as Hgt. rewrite E in Hgt.
    assert (Hnew : fpublished s = accepted_of (flog s ++ [(t, cons_res r)]) /\ fdelivered s = yielded_of (flog s ++ [(t, cons_res r)])).
    { rewrite facc_snoc, fyld_snoc. destruct r; cbn; rewrite ?app_nil_r; exact Hgt. }
    constructor; fs; auto.
    + intros u w. upd_cases t u; upd_cases t w; auto; cbn; try discriminate.
    + intros u. upd_cases t u; cbn; [discriminate|]. intros Hu. exfalso. apply n. apply Hm; assumption.
    + discriminate.
    + intros u. upd_cases t u; [exact I|].
      assert (Hnu : holds_lock (fthr s u) = false).
      { destruct (holds_lock (fthr s u)) eqn:Eh; auto. exfalso. apply n. apply Hm; assumption. }
      destruct (fthr s u); cbn in Hnu; try discriminate; exact I.
  - (* FLN *)
    assert (El : accepted_of (flog s ++ [(t, RLen (ftail s - fhead s))]) = accepted_of (flog s)) by (rewrite facc_snoc; cbn; now rewrite app_nil_r).
    assert (Ey : yielded_of (flog s ++ [(t, RLen (ftail s - fhead s))]) = yielded_of (flog s)) by (rewrite fyld_snoc; cbn; now rewrite app_nil_r).
    constructor; fs; rewrite ?El, ?Ey; auto.
    + intros u w. upd_cases t u; upd_cases t w; auto; cbn; try discriminate.
    + intros u. upd_cases t u; cbn; [discriminate|]. apply Hf.
    + intros Hl. destruct (Hfr Hl) as [u Hu]. exists u. upd_cases t u; auto. rewrite E in Hu. discriminate.
    + intros u. upd_cases t u; [exact I|apply Hg].
Qed.

Theorem finv_reachable evs : FInv (fold_left (fexecZ N) evs finit).
Proof.
  apply fold_inv; [|apply finv_init].
  intros s e I. destruct e; cbn; [apply finv_step|apply finv_start]; assumption.
Qed.

End FSInv.

(* ------------------------------------------------------------------------------------------ consequences *)
Section FSProps.
Variable N : Z.
Hypothesis Npos : 0 < N.
Local Notation run evs := (fold_left (fexecZ N) evs finit).

Lemma prefix_of_prefix {A} (p l y : list A) n : l = firstn n p -> (exists x, l = y ++ x) -> y = firstn (length y) p.
Proof.
  intros Hl [x Hy].
  assert (Hp : y = firstn (length y) l).
  { rewrite Hy, firstn_app, Nat.sub_diag, firstn_all. cbn. now rewrite app_nil_r. }
  assert (Hlen : (length y <= n)%nat).
  { assert (length y <= length l)%nat by (rewrite Hy, app_length; lia).
    assert (length l <= n)%nat by (rewrite Hl; apply firstn_le_length). lia. }
  rewrite Hp at 1. rewrite Hl, firstn_firstn. f_equal. lia.
Qed.

(* what consumers were handed (responses) is a prefix of what was accepted at the linearisation points *)
Theorem fs_yielded_prefix evs :
  let s := run evs in yielded_of (flog s) = firstn (length (yielded_of (flog s))) (fpublished s).
Proof.
  cbn zeta. pose proof (finv_reachable N Npos evs) as I. set (s := run evs) in *.
  apply (prefix_of_prefix _ (fdelivered s) _ (Z.to_nat (fhead s))).
  - apply (f_del _ _ I).
  - destruct (flock s) eqn:El.
    + destruct (f_free _ _ I El) as [t Ht]. pose proof (f_lag _ _ I t) as Hg.
      destruct (fthr s t) as [| |v [len|]| |[v|]|] eqn:E; cbn in Ht; try discriminate.
      * exists []. rewrite app_nil_r. apply Hg.
      * exists []. rewrite app_nil_r. apply Hg.
      * exists [v]. apply Hg.
      * exists []. rewrite app_nil_r. apply Hg.
    + exists []. rewrite app_nil_r. apply (f_sync _ _ I El).
Qed.

(* responses say Ok only for accepted values, in order: the Ok-log is a prefix of the accepted list *)
Theorem fs_accepted_prefix evs :
  let s := run evs in accepted_of (flog s) = firstn (length (accepted_of (flog s))) (fpublished s).
Proof.
  cbn zeta. pose proof (finv_reachable N Npos evs) as I. set (s := run evs) in *.
  apply (prefix_of_prefix _ (fpublished s) _ (length (fpublished s))).
  - now rewrite firstn_all.
  - destruct (flock s) eqn:El.
    + destruct (f_free _ _ I El) as [t Ht]. pose proof (f_lag _ _ I t) as Hg.
      destruct (fthr s t) as [| |v [len|]| |[v|]|] eqn:E; cbn in Ht; try discriminate.
      * exists [v]. apply Hg.
      * exists []. rewrite app_nil_r. apply Hg.
      * exists []. rewrite app_nil_r. apply Hg.
      * exists []. rewrite app_nil_r. apply Hg.
    + exists []. rewrite app_nil_r. apply (f_sync _ _ I El).
Qed.

Theorem fs_capacity evs : let s := run evs in 0 <= ftail s - fhead s <= N.
Proof. cbn zeta. pose proof (f_ord _ _ (finv_reachable N Npos evs)). lia. Qed.

(* full and empty answers are exact: decided and applied in one step, under the flag *)
Theorem fs_full_exact s t v :
  fthr s t = FPL v -> flock s = false ->
  (fthr (fstepZ N s t) t = FPU v None <-> N <= ftail s - fhead s) /\
  (fthr (fstepZ N s t) t = FPU v (Some (ftail s - fhead s + 1)) <-> ftail s - fhead s < N).
Proof.
  intros E El. unfold fstepZ, fstep, idz. rewrite E, El.
  destruct (Z.ltb_spec (ftail s - fhead s) N); cbn [fthr]; rewrite upd_same; split; split; intros H0; try congruence; try lia.
Qed.
Theorem fs_empty_exact s t :
  fthr s t = FCL -> flock s = false ->
  (fthr (fstepZ N s t) t = FCU None <-> ftail s - fhead s <= 0).
Proof.
  intros E El. unfold fstepZ, fstep, idz. rewrite E, El.
  destruct (Z.ltb_spec 0 (ftail s - fhead s)); cbn [fthr]; rewrite upd_same; split; intros H0; try congruence; try lia.
Qed.

Theorem fs_mutual_exclusion evs t u :
  let s := run evs in holds_lock (fthr s t) = true -> holds_lock (fthr s u) = true -> t = u.
Proof. cbn zeta. apply (f_mutex _ _ (finv_reachable N Npos evs)). Qed.

End FSProps.
