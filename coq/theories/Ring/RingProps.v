(* Consequences of the ring invariant used by the property files (C01, C02, C13, C16, C18). *)
From RM Require Import RingModel RingInv.

Section RingProps.
Variable N : Z.
Hypothesis Npos : 0 < N.
Local Notation step := (stepZ N).
Local Notation exec := (execZ N).
Local Notation run evs := (fold_left exec evs init).

(* exactly once, in order, nothing invented: what consumers were handed is a prefix of what producers had accepted *)
Lemma yielded_prefix evs :
  let l := log (run evs) in yielded_of l = firstn (length (yielded_of l)) (accepted_of l).
Proof.
  cbn zeta. pose proof (inv_reachable N Npos evs) as I.
  rewrite (i_yld _ _ I), (i_acc _ _ I). pose proof (i_lend _ _ I) as Hl.
  rewrite (i_deliv _ _ I) at 1. f_equal. lia.
Qed.

Lemma pending_is_accepted_minus_yielded evs :
  let s := run evs in
  tail s - head s = Z.of_nat (length (accepted_of (log s))) - Z.of_nat (length (yielded_of (log s))).
Proof.
  cbn zeta. pose proof (inv_reachable N Npos evs) as I.
  rewrite (i_yld _ _ I), (i_acc _ _ I), (i_lenp _ _ I), (i_lend _ _ I). reflexivity.
Qed.

(* the response of an operation belongs to the call that was made: a rejected publication hands back
   exactly the value it was given; an accepted one accepted exactly that value *)
Definition op_of_pc (p : pc) : option op :=
  match p with
  | Idle => None
  | P0 v | P1 v _ | P2 v _ | P3 v _ _ | P4 v _ _ => Some (OpPub v)
  | C0 | C1 _ | C2 _ | C3 _ | C4 _ _ => Some OpCons
  | L0 | L1 _ => Some OpLen
  end.
Lemma start_sets_call s t o : thr s t = Idle -> op_of_pc (thr (start s t o) t) = Some o.
Proof. intros H. unfold start. rewrite H. cbn. rewrite upd_same. destruct o; reflexivity. Qed.

Lemma response_matches_call s t o :
  op_of_pc (thr s t) = Some o ->
  (op_of_pc (thr (step s t) t) = Some o /\ log (step s t) = log s) \/
  (thr (step s t) t = Idle /\ exists r, log (step s t) = log s ++ [(t, r)] /\ matches o r).
Proof.
  unfold stepZ, RingModel.step, idz. intros H.
  destruct (thr s t) eqn:E; cbn in H; try discriminate; injection H as <-;
  repeat match goal with |- context[if ?b then _ else _] => destruct b end;
  cbn [thr log set_thr]; rewrite ?upd_same;
  try (left; split; [first [reflexivity | rewrite E; reflexivity] | reflexivity]);
  right; (split; [reflexivity|]); eexists; (split; [reflexivity|]); cbn; auto.
Qed.

(* a step of thread t never touches another thread's locals *)
Lemma step_other_threads s t u : u <> t -> thr (step s t) u = thr s u.
Proof.
  intros Hn. unfold stepZ, RingModel.step, idz.
  destruct (thr s t) eqn:E;
  repeat match goal with |- context[if ?b then _ else _] => destruct b end;
  cbn [thr set_thr]; rewrite ?upd_other by assumption; reflexivity.
Qed.

(* slot exclusivity: what makes the plain ptr::write / ptr::read of the code race-free *)
Lemma writers_exclusive evs t u x y :
  let s := run evs in
  pvalid (thr s t) = Some x -> pvalid (thr s u) = Some y -> t <> u -> x mod N <> y mod N.
Proof.
  cbn zeta. intros Ht Hu Hne. pose proof (inv_reachable N Npos evs) as I.
  assert (Hpt : pslot (thr (run evs) t) = Some x) by (destruct (thr (run evs) t); cbn in *; try discriminate; congruence).
  assert (Hpu : pslot (thr (run evs) u) = Some y) by (destruct (thr (run evs) u); cbn in *; try discriminate; congruence).
  pose proof (i_prange _ _ I _ _ Hpt). pose proof (i_prange _ _ I _ _ Hpu).
  pose proof (i_pvalid _ _ I _ _ Ht). pose proof (i_pvalid _ _ I _ _ Hu). pose proof (i_ord _ _ I).
  assert (x <> y) by (intros ->; apply Hne; eapply (i_pdist _ _ I); eassumption).
  destruct (Z.lt_total x y) as [L|[L|L]]; [|lia|].
  - apply mod_neq; lia.
  - intros E. symmetry in E. revert E. apply mod_neq; lia.
Qed.

Lemma writer_reader_exclusive evs t u x y :
  let s := run evs in
  pvalid (thr s t) = Some x -> cvalid (thr s u) = Some y -> x mod N <> y mod N.
Proof.
  cbn zeta. intros Ht Hu. pose proof (inv_reachable N Npos evs) as I.
  assert (Hpt : pslot (thr (run evs) t) = Some x) by (destruct (thr (run evs) t); cbn in *; try discriminate; congruence).
  assert (Hcu : cslot (thr (run evs) u) = Some y) by (destruct (thr (run evs) u); cbn in *; try discriminate; congruence).
  pose proof (i_prange _ _ I _ _ Hpt). pose proof (i_crange _ _ I _ _ Hcu).
  pose proof (i_pvalid _ _ I _ _ Ht). pose proof (i_cvalid _ _ I _ _ Hu). pose proof (i_ord _ _ I).
  intros E. symmetry in E. revert E. apply mod_neq; lia.
Qed.

(* capacity *)
Lemma capacity evs : let s := run evs in 0 <= tail s - head s <= N.
Proof.
  cbn zeta. pose proof (inv_reachable N Npos evs) as I. pose proof (i_ord _ _ I).
  pose proof (i_cap _ _ I). lia.
Qed.

End RingProps.

(* ---------------------------------------------------------------------------------------------------------------
   Counting consequences used by the pool allocator (C13): the ring never duplicates a value *)
Section RingCount.
Variable N : Z.
Hypothesis Npos : 0 < N.
Local Notation run evs := (fold_left (execZ N) evs init).

Lemma count_firstn_le (v : Z) (l : list Z) n : (count_occ Z.eq_dec (firstn n l) v <= count_occ Z.eq_dec l v)%nat.
Proof.
  rewrite <- (firstn_skipn n l) at 2. rewrite count_occ_app. lia.
Qed.

(* every hand-out of a value is matched by a distinct earlier publication of that value *)
Theorem handed_out_le_published evs v :
  let l := log (run evs) in (count_occ Z.eq_dec (yielded_of l) v <= count_occ Z.eq_dec (accepted_of l) v)%nat.
Proof. cbn zeta. rewrite (yielded_prefix N Npos evs). apply count_firstn_le. Qed.

(* if every published copy of v has already been handed out, the next element handed out is not v *)
Theorem next_is_not_exhausted_value evs v :
  let s := run evs in
  head s < tail s ->
  count_occ Z.eq_dec (delivered s) v = count_occ Z.eq_dec (published s) v ->
  nthz (published s) (head s) <> v.
Proof.
  cbn zeta. intros Hlt Hc. pose proof (inv_reachable N Npos evs) as I. set (s := run evs) in *.
  pose proof (i_deliv _ _ I) as Hd. pose proof (i_lenp _ _ I) as Hlp. pose proof (i_ord _ _ I) as Ho.
  rewrite Hd in Hc. rewrite <- (firstn_skipn (Z.to_nat (head s)) (published s)) in Hc at 2.
  rewrite count_occ_app in Hc.
  assert (Hz : count_occ Z.eq_dec (skipn (Z.to_nat (head s)) (published s)) v = 0%nat) by lia.
  intros E. apply (proj2 (count_occ_not_In Z.eq_dec _ v)) in Hz. apply Hz.
  unfold nthz in E. rewrite <- E.
  rewrite <- (firstn_skipn (Z.to_nat (head s)) (published s)) at 1.
  rewrite app_nth2; rewrite firstn_length; [|lia].
  replace (Z.to_nat (head s) - Nat.min (Z.to_nat (head s)) (length (published s)))%nat with 0%nat by lia.
  destruct (skipn (Z.to_nat (head s)) (published s)) eqn:Es.
  - exfalso. assert (length (skipn (Z.to_nat (head s)) (published s)) = 0%nat) by now rewrite Es.
    rewrite skipn_length in H. lia.
  - cbn. now left.
Qed.

End RingCount.

Lemma step_other_threads_gen N s t u : u <> t -> thr (stepZ N s t) u = thr s u.
Proof. apply step_other_threads. Qed.
