(* The reserve / send-reserved / cancel machine (Reserve.v), single producer thread 0 + any number of consumer threads:
   the wrong-guess branches are unreachable (`bad` stays false) and the ring invariants hold in every reachable state -
   so every ring theorem (exactly once, FIFO, what was written is what is delivered, capacity, no leak) covers reservations. *)
From RM Require Import RingModel RingInv RingProps RingCov Reserve ReserveProps.
Require Import ZifyBool.

Section ReserveInv.
Variable N : Z.
Hypothesis Npos : 0 < N.
Local Notation rstepZ := (stepZ N).
Local Notation restepZ := (restep N idz idz).
Local Notation reexecZ := (reexec N idz idz).

Definition parked (p : pc) : bool := match p with Idle | P3 _ _ _ | P4 _ _ _ => true | _ => false end.
Definition is_cons (p : pc) : bool := match op_of_pc p with Some (OpPub _) => false | _ => true end.
Definition real (u : nat) : Prop := (u < 100)%nat.

Lemma is_cons_pslot p : is_cons p = true -> pslot p = None.
Proof. destruct p; cbn; intros H; try discriminate; reflexivity. Qed.
Lemma vt_not_real k : ~ real (vt k).
Proof. unfold real, vt. lia. Qed.
Lemma not_real_vt u : ~ real u -> exists k, u = vt k.
Proof. unfold real, vt. intros H. exists (u - 100)%nat. lia. Qed.
Lemma vt_inj k k' : vt k = vt k' -> k = k'.
Proof. unfold vt. lia. Qed.

(* a consumer-type ring operation stays one *)
Lemma is_cons_step x u : is_cons (thr x u) = true -> is_cons (thr (rstepZ x u) u) = true.
Proof.
  unfold is_cons. destruct (op_of_pc (thr x u)) as [o|] eqn:E.
  - intros H. destruct (response_matches_call N x u o E) as [[-> _]|[-> _]]; [exact H|reflexivity].
  - intros _. assert (Hi : thr x u = Idle) by (destruct (thr x u); cbn in E; try discriminate; reflexivity).
    unfold stepZ, RingModel.step. rewrite Hi, Hi. reflexivity.
Qed.

Record RI (s : rst) : Prop := {
  ri_inv : Inv N (ring s);
  ri_cov : Cov (ring s);
  ri_bad : bad s = false;
  ri_real : forall u, real u -> is_cons (thr (ring s) u) = true;
  ri_rpc : forall u, real u -> u <> 0%nat -> rthr s u = RIdle \/ rthr s u = RRing;
  ri_vt : forall k, parked (thr (ring s) (vt k)) = true \/ rthr s 0%nat = RRes k;
  ri_sg : forall k g, rthr s 0%nat = RSendG k g -> exists v slot len, thr (ring s) (vt k) = P4 v slot len /\ g mod N = slot mod N;
  ri_cg : forall k g, rthr s 0%nat = RCanG k g -> exists v slot, slot_of (thr (ring s) (vt k)) = Some (v, slot) /\ g mod N = slot mod N
}.

Lemma ri_init : RI (reinit_at 0).
Proof.
  constructor; [apply inv_init; exact Npos|apply cov_init|reflexivity|intros; reflexivity|intros; now left|intros; left; reflexivity|discriminate|discriminate].
Qed.

(* the single-producer discipline of the histories the theorem covers *)
Definition prod_op (o : rop) : bool := match o with RoRing (OpPub _) => false | _ => true end.
Definition cons_op (o : rop) : bool := match o with RoRing OpCons | RoRing OpLen => true | _ => false end.
Definition wf_ev (e : rev) : Prop :=
  match e with
  | RStep t => real t
  | RStart t o => real t /\ prod_op o = true /\ (t <> 0%nat -> cons_op o = true)
  end.

(* while the producer is not in the middle of a reservation, no more than N ids are reserved *)
Lemma reserved_le_capacity s : RI s -> (forall k, rthr s 0%nat <> RRes k) -> etail (ring s) <= head (ring s) + N.
Proof.
  intros R Hn. pose proof (ri_inv s R) as I. pose proof (i_ord _ _ I) as Ho. pose proof (i_cap _ _ I) as Hc.
  destruct (Z_le_gt_dec (etail (ring s)) (tail (ring s))) as [Hle|Hgt]; [lia|].
  destruct (ri_cov s R) as [Cp _]. destruct (Cp (etail (ring s) - 1) ltac:(lia)) as [u Hu].
  destruct (Nat.lt_ge_cases u 100) as [Hr|Hr].
  - pose proof (is_cons_pslot _ (ri_real s R u Hr)) as H. congruence.
  - destruct (not_real_vt u ltac:(unfold real; lia)) as [k ->].
    destruct (ri_vt s R k) as [Hp|Hp]; [|exfalso; now apply (Hn k)].
    assert (Hv : pvalid (thr (ring s) (vt k)) = Some (etail (ring s) - 1)).
    { destruct (thr (ring s) (vt k)); cbn in Hp, Hu |- *; try discriminate; exact Hu. }
    pose proof (i_pvalid _ _ I _ _ Hv). lia.
Qed.


Lemma start_other x t u o : u <> t -> thr (start x t o) u = thr x u.
Proof. intros H. unfold start. destruct (thr x t); cbn; rewrite ?upd_other by assumption; reflexivity. Qed.
Lemma start_same_idle x t o : thr x t = Idle -> thr (start x t o) t = match o with OpPub v => P0 v | OpCons => C0 | OpLen => L0 end.
Proof. intros H. unfold start. rewrite H. cbn. now rewrite upd_same. Qed.
Lemma start_same_busy x t o : thr x t <> Idle -> start x t o = x.
Proof. intros H. unfold start. destruct (thr x t); try reflexivity. contradiction. Qed.
Lemma mod_guess slot r : (slot mod N + (r / N) * N) mod N = slot mod N.
Proof. rewrite Z_mod_plus_full. apply Z.mod_mod. lia. Qed.

(* generic re-establishment: the ring changed only in the locals of ring thread w, which is not a real thread's consumer op *)
Lemma ri_build x th l :
  Inv N x -> Cov x ->
  (forall u, real u -> is_cons (thr x u) = true) ->
  (forall u, real u -> u <> 0%nat -> th u = RIdle \/ th u = RRing) ->
  (forall k, parked (thr x (vt k)) = true \/ th 0%nat = RRes k) ->
  (forall k g, th 0%nat = RSendG k g -> exists v slot len, thr x (vt k) = P4 v slot len /\ g mod N = slot mod N) ->
  (forall k g, th 0%nat = RCanG k g -> exists v slot, slot_of (thr x (vt k)) = Some (v, slot) /\ g mod N = slot mod N) ->
  RI (rmk x th l false).
Proof. intros I C H1 H2 H3 H4 H5. constructor; cbn; auto. Qed.


Lemma pc_eq_idle (p : pc) : p = Idle \/ p <> Idle.
Proof. destruct p; [now left|right; discriminate ..]. Qed.
Lemma upd_rthr_other (th : nat -> rpc) t p u : u <> t -> upd th t p u = th u.
Proof. apply upd_other. Qed.

Lemma ri_start s t o : RI s -> real t -> prod_op o = true -> (t <> 0%nat -> cons_op o = true) -> RI (restart N idz idz s t o).
Proof.
  intros R Ht Hp Hc. pose proof R as [I C B Hreal Hrpc Hvt Hsg Hcg].
  unfold restart. destruct (rthr s t) eqn:E; try exact R.
  assert (B' : forall x th l, rmk x th l (bad s) = rmk x th l false) by (intros; now rewrite B).
  assert (T0 : forall k, t = 0%nat -> parked (thr (ring s) (vt k)) = true).
  { intros k ->. destruct (Hvt k) as [H|H]; [exact H|congruence]. }
  assert (Rpc : forall p u, real u -> u <> 0%nat -> upd (rthr s) 0%nat p u = RIdle \/ upd (rthr s) 0%nat p u = RRing).
  { intros p u Hu Hn. rewrite upd_other by assumption. now apply Hrpc. }
  destruct o as [k v|k|k|o'].
  - (* reserve *)
    assert (t = 0%nat) by (destruct (Nat.eq_dec t 0); [assumption|specialize (Hc n); discriminate]). subst t.
    rewrite B'. apply ri_build.
    + now apply inv_start.
    + now apply cov_start.
    + intros u Hu. rewrite start_other; [now apply Hreal|]. intros ->. now apply (vt_not_real k).
    + apply Rpc.
    + intros k'. destruct (Nat.eq_dec k' k) as [->|Hne]; [right; now rewrite upd_same|].
      left. rewrite start_other; [now apply T0|]. intros Hv. apply vt_inj in Hv. contradiction.
    + intros k' g. rewrite upd_same. discriminate.
    + intros k' g. rewrite upd_same. discriminate.
  - (* send-reserved *)
    assert (t = 0%nat) by (destruct (Nat.eq_dec t 0); [assumption|specialize (Hc n); discriminate]). subst t.
    assert (W : let x := written N idz idz (ring s) k in
                Inv N x /\ Cov x /\ (forall u, u <> vt k -> thr x u = thr (ring s) u) /\
                (parked (thr x (vt k)) = true) /\
                (forall v slot, slot_of (thr x (vt k)) = Some (v, slot) -> exists len, thr x (vt k) = P4 v slot len)).
    { unfold written. specialize (T0 k eq_refl). destruct (thr (ring s) (vt k)) eqn:Ek; cbn in T0; try discriminate T0; cbn zeta.
      - split; [exact I|split; [exact C|split; [reflexivity|split; [rewrite Ek; reflexivity|intros v slot H; rewrite Ek in H; discriminate H]]]].
      - assert (Es : thr (stepZ N (ring s) (vt k)) (vt k) = P4 v slot len).
        { unfold stepZ, RingModel.step. rewrite Ek. cbn. now rewrite upd_same. }
        change (step N idz idz (ring s) (vt k)) with (stepZ N (ring s) (vt k)).
        split; [now apply inv_step|]. split; [now apply cov_step|]. split; [intros u Hu; now apply step_other_threads_gen|].
        split; [now rewrite Es|]. intros v0 slot0 H. rewrite Es in H |- *. cbn in H. inversion H; subst. now exists len.
      - split; [exact I|split; [exact C|split; [reflexivity|split; [rewrite Ek; reflexivity|]]]]. intros v0 slot0 H. rewrite Ek in H |- *. cbn in H. inversion H; subst. now exists len. }
    cbn zeta in W. destruct W as (Ix & Cx & Ox & Px & Sx).
    destruct (slot_of (thr (written N idz idz (ring s) k) (vt k))) as [[v slot]|] eqn:Es.
    + rewrite B'. apply ri_build.
      * exact Ix.
      * exact Cx.
      * intros u Hu. rewrite Ox; [now apply Hreal|]. intros ->. now apply (vt_not_real k).
      * apply Rpc.
      * intros k'. left. destruct (Nat.eq_dec k' k) as [->|Hne]; [exact Px|]. rewrite Ox; [now apply T0|]. intros Hv. apply vt_inj in Hv. contradiction.
      * intros k' g. rewrite upd_same. intros H. injection H as Hk Hg. subst k' g. destruct (Sx v slot eq_refl) as [len Hl]. exists v, slot, len. split; [exact Hl|]. apply Z.mod_mod. lia.
      * intros k' g. rewrite upd_same. discriminate.
    + rewrite B'. apply ri_build.
      * exact I.
      * exact C.
      * exact Hreal.
      * apply Rpc.
      * intros k'. left. now apply T0.
      * intros k' g. rewrite upd_same. discriminate.
      * intros k' g. rewrite upd_same. discriminate.
  - (* cancel *)
    assert (t = 0%nat) by (destruct (Nat.eq_dec t 0); [assumption|specialize (Hc n); discriminate]). subst t.
    destruct (slot_of (thr (ring s) (vt k))) as [[v slot]|] eqn:Es; rewrite B'; apply ri_build.
    + exact I.
    + exact C.
    + exact Hreal.
    + apply Rpc.
    + intros k'. left. now apply T0.
    + intros k' g. rewrite upd_same. discriminate.
    + intros k' g. rewrite upd_same. intros H. injection H as Hk Hg. subst k' g. exists v, slot. split; [exact Es|]. apply Z.mod_mod. lia.
    + exact I.
    + exact C.
    + exact Hreal.
    + apply Rpc.
    + intros k'. left. now apply T0.
    + intros k' g. rewrite upd_same. discriminate.
    + intros k' g. rewrite upd_same. discriminate.
  - (* a consumer-type ring operation *)
    assert (Ho : o' = OpCons \/ o' = OpLen) by (destruct o'; cbn in Hp; try discriminate; auto).
    rewrite B'. apply ri_build.
    + now apply inv_start.
    + now apply cov_start.
    + intros u Hu. destruct (Nat.eq_dec u t) as [->|Hne]; [|rewrite start_other by assumption; now apply Hreal].
      destruct (pc_eq_idle (thr (ring s) t)) as [Et|Et].
      * rewrite start_same_idle by assumption. destruct Ho as [->| ->]; reflexivity.
      * rewrite start_same_busy by assumption. now apply Hreal.
    + intros u Hu Hn. destruct (Nat.eq_dec u t) as [->|Hne]; [right; now rewrite upd_same|]. rewrite upd_other by assumption. now apply Hrpc.
    + intros k. destruct (Nat.eq_dec t 0) as [->|Hn0].
      * left. rewrite start_other; [now apply T0|]. intros Hv. apply (vt_not_real k). now rewrite Hv.
      * rewrite upd_other by auto. rewrite start_other; [apply Hvt|]. intros Hv. apply (vt_not_real k). now rewrite Hv.
    + intros k g. destruct (Nat.eq_dec t 0) as [->|Hn0]; [rewrite upd_same; discriminate|]. rewrite upd_other by auto.
      intros H. destruct (Hsg k g H) as (v & slot & len & A & Bq). exists v, slot, len. split; [|exact Bq].
      rewrite start_other; [exact A|]. intros Hv. apply (vt_not_real k). now rewrite Hv.
    + intros k g. destruct (Nat.eq_dec t 0) as [->|Hn0]; [rewrite upd_same; discriminate|]. rewrite upd_other by auto.
      intros H. destruct (Hcg k g H) as (v & slot & A & Bq). exists v, slot. split; [|exact Bq].
      rewrite start_other; [exact A|]. intros Hv. apply (vt_not_real k). now rewrite Hv.
Qed.


Lemma real_ne_vt u k : real u -> u <> vt k.
Proof. intros H ->. now apply (vt_not_real k). Qed.

Lemma ri_step s t : RI s -> real t -> RI (restepZ s t).
Proof.
  intros R Ht. pose proof R as [I C B Hreal Hrpc Hvt Hsg Hcg].
  assert (B' : forall x th l, rmk x th l (bad s) = rmk x th l false) by (intros; now rewrite B).
  assert (T0 : forall k, (forall k', rthr s 0%nat <> RRes k') -> parked (thr (ring s) (vt k)) = true).
  { intros k Hn. destruct (Hvt k) as [H|H]; [exact H|exfalso; now apply (Hn k)]. }
  unfold restep. destruct (rthr s t) eqn:E; try exact R.
  - (* a consumer-type ring operation makes a step *)
    change (step N idz idz (ring s) t) with (rstepZ (ring s) t).
    assert (Ix : Inv N (rstepZ (ring s) t)) by now apply inv_step.
    assert (Cx : Cov (rstepZ (ring s) t)) by now apply cov_step.
    assert (Rx : forall u, real u -> is_cons (thr (rstepZ (ring s) t) u) = true).
    { intros u Hu. destruct (Nat.eq_dec u t) as [->|Hne]; [apply is_cons_step; now apply Hreal|rewrite step_other_threads_gen by assumption; now apply Hreal]. }
    assert (Vx : forall k, thr (rstepZ (ring s) t) (vt k) = thr (ring s) (vt k)).
    { intros k. apply step_other_threads_gen. intros Hv. apply (vt_not_real k). now rewrite Hv. }
    assert (Fin : forall l, RI (rmk (rstepZ (ring s) t) (upd (rthr s) t RIdle) l false)).
    { intros l. apply ri_build; auto.
      - intros u Hu Hn. destruct (Nat.eq_dec u t) as [->|Hne]; [left; now rewrite upd_same|rewrite upd_other by assumption; now apply Hrpc].
      - intros k. rewrite Vx. destruct (Nat.eq_dec t 0) as [->|Hn0]; [left; apply T0; intros k' H; congruence|rewrite upd_other by auto; apply Hvt].
      - intros k g. rewrite Vx. destruct (Nat.eq_dec t 0) as [->|Hn0]; [rewrite upd_same; discriminate|rewrite upd_other by auto; apply Hsg].
      - intros k g. rewrite Vx. destruct (Nat.eq_dec t 0) as [->|Hn0]; [rewrite upd_same; discriminate|rewrite upd_other by auto; apply Hcg]. }
    assert (Cont : RI (rmk (rstepZ (ring s) t) (rthr s) (rlog s) false)).
    { apply ri_build; auto.
      - intros k. rewrite Vx. apply Hvt.
      - intros k g. rewrite Vx. apply Hsg.
      - intros k g. rewrite Vx. apply Hcg. }
    destruct (thr (rstepZ (ring s) t) t); rewrite B'; first [apply Fin|exact Cont].
  - (* reservation in progress: P0 / P1 / P2 of the virtual thread *)
    assert (t = 0%nat). { destruct (Nat.eq_dec t 0); [assumption|]. destruct (Hrpc t Ht n); congruence. } subst t.
    change (step N idz idz (ring s) (vt k)) with (rstepZ (ring s) (vt k)).
    assert (Ix : Inv N (rstepZ (ring s) (vt k))) by now apply inv_step.
    assert (Cx : Cov (rstepZ (ring s) (vt k))) by now apply cov_step.
    assert (Rx : forall u, real u -> is_cons (thr (rstepZ (ring s) (vt k)) u) = true).
    { intros u Hu. rewrite step_other_threads_gen by (now apply real_ne_vt). now apply Hreal. }
    assert (Vx : forall k', k' <> k -> parked (thr (rstepZ (ring s) (vt k)) (vt k')) = true).
    { intros k' Hne. rewrite step_other_threads_gen by (intros Hv; apply vt_inj in Hv; contradiction).
      destruct (Hvt k') as [H|H]; [exact H|]. rewrite E in H. injection H as H. congruence. }
    assert (Rpc : forall p u, real u -> u <> 0%nat -> upd (rthr s) 0%nat p u = RIdle \/ upd (rthr s) 0%nat p u = RRing).
    { intros p u Hu Hn. rewrite upd_other by assumption. now apply Hrpc. }
    destruct (thr (rstepZ (ring s) (vt k)) (vt k)) eqn:Ek; rewrite B'; apply ri_build; auto;
      try (apply Rpc); try (intros k' g; rewrite ?upd_same, ?E; discriminate);
      intros k'; destruct (Nat.eq_dec k' k) as [->|Hne]; try (left; now apply Vx); try (left; rewrite Ek; reflexivity); right; exact E.
  - (* publication CAS of a reserved slot at guess g *)
    assert (t = 0%nat). { destruct (Nat.eq_dec t 0); [assumption|]. destruct (Hrpc t Ht n); congruence. } subst t.
    destruct (Hsg k g E) as (v & slot & len & Ek & Hm). rewrite Ek. cbn [slot_of].
    assert (Rpc : forall p u, real u -> u <> 0%nat -> upd (rthr s) 0%nat p u = RIdle \/ upd (rthr s) 0%nat p u = RRing).
    { intros p u Hu Hn. rewrite upd_other by assumption. now apply Hrpc. }
    assert (NoRes : forall k', rthr s 0%nat <> RRes k') by (intros k' H; congruence).
    destruct (tail (ring s) =? g) eqn:Htl.
    + apply Z.eqb_eq in Htl. assert (Hg : g = slot) by (eapply send_guess_hits_own_slot; eauto).
      replace (g =? slot) with true by (symmetry; now apply Z.eqb_eq). subst slot.
      change (step N idz idz (ring s) (vt k)) with (rstepZ (ring s) (vt k)).
      assert (Es : thr (rstepZ (ring s) (vt k)) (vt k) = Idle).
      { unfold stepZ, RingModel.step, idz. rewrite Ek, Htl, Z.eqb_refl. cbn. now rewrite upd_same. }
      rewrite B'. apply ri_build.
      * now apply inv_step.
      * now apply cov_step.
      * intros u Hu. rewrite step_other_threads_gen by (now apply real_ne_vt). now apply Hreal.
      * apply Rpc.
      * intros k'. left. destruct (Nat.eq_dec k' k) as [->|Hne]; [now rewrite Es|].
        rewrite step_other_threads_gen by (intros Hv; apply vt_inj in Hv; contradiction). now apply T0.
      * intros k' g'. rewrite upd_same. discriminate.
      * intros k' g'. rewrite upd_same. discriminate.
    + destruct (g / N <? tail (ring s) / N); rewrite B'; apply ri_build; auto; try apply Rpc;
        try (intros k' g'; rewrite upd_same; discriminate); try (intros k'; left; now apply T0).
      intros k' g'. rewrite upd_same. intros H. injection H as Hk Hg. subst k' g'. exists v, slot, len. split; [exact Ek|]. unfold idz. apply mod_guess.
  - (* head.load after a successful publication *)
    assert (t = 0%nat). { destruct (Nat.eq_dec t 0); [assumption|]. destruct (Hrpc t Ht n); congruence. } subst t.
    rewrite B'. apply ri_build; auto.
    + intros u Hu Hn. rewrite upd_other by assumption. now apply Hrpc.
    + intros k'. left. apply T0. intros k'' H. congruence.
    + intros k' g'. rewrite upd_same. discriminate.
    + intros k' g'. rewrite upd_same. discriminate.
  - (* cancellation CAS at guess g *)
    assert (t = 0%nat). { destruct (Nat.eq_dec t 0); [assumption|]. destruct (Hrpc t Ht n); congruence. } subst t.
    destruct (Hcg k g E) as (v & slot & Ek & Hm). rewrite Ek.
    assert (Rpc : forall p u, real u -> u <> 0%nat -> upd (rthr s) 0%nat p u = RIdle \/ upd (rthr s) 0%nat p u = RRing).
    { intros p u Hu Hn. rewrite upd_other by assumption. now apply Hrpc. }
    assert (NoRes : forall k', rthr s 0%nat <> RRes k') by (intros k' H; congruence).
    unfold idz. destruct (etail (ring s) =? g + 1) eqn:Het.
    + apply Z.eqb_eq in Het. assert (Hg : g = slot).
      { eapply cancel_guess_hits_own_slot; eauto. now apply reserved_le_capacity. }
      replace (g =? slot) with true by (symmetry; now apply Z.eqb_eq). subst slot. rename g into slot.
      assert (Hps : pslot (thr (ring s) (vt k)) = Some slot) by (destruct (thr (ring s) (vt k)); cbn in Ek |- *; inversion Ek; subst; reflexivity).
      change (set_ring_thr (ring s) (vt k) Idle (tail (ring s)) slot (published (ring s)) (log (ring s) ++ [(vt k, RFull v)])) with (cancel (ring s) (vt k) v slot).
      rewrite B'. apply ri_build.
      * apply inv_cancel; assumption.
      * apply (cov_cancel N); assumption.
      * intros u Hu. unfold cancel. cbn [thr]. rewrite upd_other by (now apply real_ne_vt). now apply Hreal.
      * apply Rpc.
      * intros k'. left. unfold cancel. cbn [thr]. destruct (Nat.eq_dec k' k) as [->|Hne]; [now rewrite upd_same|].
        rewrite upd_other by (intros Hv; apply vt_inj in Hv; contradiction). now apply T0.
      * intros k' g'. rewrite upd_same. discriminate.
      * intros k' g'. rewrite upd_same. discriminate.
    + destruct (g / N <? (etail (ring s) - 1) / N); rewrite B'; apply ri_build; auto; try apply Rpc;
        try (intros k' g'; rewrite upd_same; discriminate); try (intros k'; left; now apply T0).
      intros k' g'. rewrite upd_same. intros H. injection H as Hk Hg. subst k' g'. exists v, slot. split; [exact Ek|]. apply mod_guess.
  - (* no such reservation *)
    assert (t = 0%nat). { destruct (Nat.eq_dec t 0); [assumption|]. destruct (Hrpc t Ht n); congruence. } subst t.
    rewrite B'. apply ri_build; auto.
    + intros u Hu Hn. rewrite upd_other by assumption. now apply Hrpc.
    + intros k'. left. apply T0. intros k'' H. congruence.
    + intros k' g'. rewrite upd_same. discriminate.
    + intros k' g'. rewrite upd_same. discriminate.
Qed.


Theorem ri_reachable evs : Forall wf_ev evs -> RI (fold_left reexecZ evs (reinit_at 0)).
Proof.
  intros H. assert (G : forall s, RI s -> RI (fold_left reexecZ evs s)).
  { induction H as [|e evs He Hr IH]; intros s R; [exact R|]. cbn [fold_left]. apply IH.
    destruct e as [t|t o]; cbn in He |- *; [now apply ri_step|destruct He as (A & B & C); now apply ri_start]. }
  apply G, ri_init.
Qed.

(* the wrong-guess branches of the two index-guessing CAS loops are never taken *)
Theorem reserve_never_bad evs : Forall wf_ev evs -> bad (fold_left reexecZ evs (reinit_at 0)) = false.
Proof. intros H. apply (ri_bad _ (ri_reachable evs H)). Qed.

(* everything handed to consumers is, in order, a prefix of what was accepted (sent reservations and plain sends alike): exactly once,
   FIFO, and the value delivered is the value written into the slot *)
Theorem reserve_exactly_once evs : Forall wf_ev evs ->
  let x := ring (fold_left reexecZ evs (reinit_at 0)) in
  yielded_of (log x) = firstn (length (yielded_of (log x))) (accepted_of (log x)).
Proof.
  intros H x. pose proof (ri_inv _ (ri_reachable evs H)) as I. fold x in I.
  pose proof (i_yld _ _ I) as Hy. pose proof (i_acc _ _ I) as Ha. pose proof (i_deliv _ _ I) as Hd. pose proof (i_lend _ _ I) as Hl.
  rewrite Hy, Ha. rewrite Hd at 1. f_equal. lia.
Qed.

(* none leak: when no reservation is outstanding and nobody is inside a ring operation, nothing is reserved: the ring has its
   whole capacity back *)
Theorem reserve_no_leak evs : Forall wf_ev evs ->
  let s := fold_left reexecZ evs (reinit_at 0) in
  (forall u, thr (ring s) u = Idle) -> etail (ring s) = tail (ring s) /\ dhead (ring s) = head (ring s).
Proof.
  intros H s Hq. pose proof (ri_reachable evs H) as R. fold s in R.
  pose proof (i_ord _ _ (ri_inv s R)) as Ho. destruct (ri_cov s R) as [Cp Cc]. split.
  - destruct (Z.eq_dec (etail (ring s)) (tail (ring s))); [assumption|].
    destruct (Cp (tail (ring s)) ltac:(lia)) as [u Hu]. rewrite Hq in Hu. discriminate.
  - destruct (Z.eq_dec (dhead (ring s)) (head (ring s))); [assumption|].
    destruct (Cc (head (ring s)) ltac:(lia)) as [u Hu]. rewrite Hq in Hu. discriminate.
Qed.

End ReserveInv.
