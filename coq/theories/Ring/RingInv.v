(* The inductive invariant of the ghost (unbounded Z) instance of the ring machine, for every schedule,
   every operation sequence and an unbounded number of threads. *)
From RM Require Import RingModel.

Section RingInv.
Variable N : Z.
Hypothesis Npos : 0 < N.

Local Notation step := (stepZ N).
Local Notation exec := (execZ N).

(* slots held *)
Definition pslot (p : pc) : option Z :=
  match p with P1 _ s | P2 _ s | P3 _ s _ | P4 _ s _ => Some s | _ => None end.
Definition pvalid (p : pc) : option Z :=
  match p with P3 _ s _ | P4 _ s _ => Some s | _ => None end.
Definition pwritten (p : pc) : option (Z * Z) :=
  match p with P4 v s _ => Some (s, v) | _ => None end.
Definition cslot (p : pc) : option Z :=
  match p with C1 s | C2 s | C3 s | C4 s _ => Some s | _ => None end.
Definition cvalid (p : pc) : option Z :=
  match p with C3 s | C4 s _ => Some s | _ => None end.
Definition cread (p : pc) : option (Z * Z) :=
  match p with C4 s v => Some (s, v) | _ => None end.

Record Inv (s : st) : Prop := {
  i_ord   : 0 <= head s <= tail s /\ tail s <= etail s /\ head s <= dhead s;
  i_cap   : tail s <= head s + N;
  i_lenp  : Z.of_nat (length (published s)) = tail s;
  i_lend  : Z.of_nat (length (delivered s)) = head s;
  i_prange: forall t x, pslot (thr s t) = Some x -> tail s <= x < etail s;
  i_pdist : forall t u x, pslot (thr s t) = Some x -> pslot (thr s u) = Some x -> t = u;
  i_pvalid: forall t x, pvalid (thr s t) = Some x -> x < head s + N;
  i_pwr   : forall t x v, pwritten (thr s t) = Some (x, v) -> buf s (x mod N) = v;
  i_crange: forall t x, cslot (thr s t) = Some x -> head s <= x < dhead s;
  i_cdist : forall t u x, cslot (thr s t) = Some x -> cslot (thr s u) = Some x -> t = u;
  i_cvalid: forall t x, cvalid (thr s t) = Some x -> x < tail s;
  i_cread : forall t x v, cread (thr s t) = Some (x, v) -> v = nthz (published s) x;
  i_buf   : forall i, head s <= i < tail s -> buf s (i mod N) = nthz (published s) i;
  i_deliv : delivered s = firstn (Z.to_nat (head s)) (published s);
  i_acc   : accepted_of (log s) = published s;
  i_yld   : yielded_of (log s) = delivered s
}.

Lemma inv_init : Inv init.
Proof.
  constructor; cbn; try discriminate; try lia; auto.
  all: intros; lia.
Qed.

Lemma accepted_app l e : accepted_of (l ++ [e]) = accepted_of l ++ match snd e with ROk v _ => [v] | _ => [] end.
Proof. unfold accepted_of. rewrite flat_map_app. cbn. now rewrite app_nil_r. Qed.
Lemma yielded_app l e : yielded_of (l ++ [e]) = yielded_of l ++ match snd e with RGot v => [v] | _ => [] end.
Proof. unfold yielded_of. rewrite flat_map_app. cbn. now rewrite app_nil_r. Qed.
Lemma rejected_app l e : rejected_of (l ++ [e]) = rejected_of l ++ match snd e with RFull v => [v] | _ => [] end.
Proof. unfold rejected_of. rewrite flat_map_app. cbn. now rewrite app_nil_r. Qed.

Lemma inv_start s t o : Inv s -> Inv (start s t o).
Proof.
  intros I. unfold start. destruct (thr s t) eqn:E; auto.
  destruct I. constructor; cbn [head tail etail dhead buf thr published delivered log set_thr]; auto.
  - intros u x. upd_cases t u; eauto. destruct o; discriminate.
  - intros u w x. upd_cases t u; upd_cases t w; eauto; destruct o; try discriminate.
  - intros u x. upd_cases t u; eauto. destruct o; discriminate.
  - intros u x v. upd_cases t u; eauto. destruct o; discriminate.
  - intros u x. upd_cases t u; eauto. destruct o; discriminate.
  - intros u w x. upd_cases t u; upd_cases t w; eauto; destruct o; try discriminate.
  - intros u x. upd_cases t u; eauto. destruct o; discriminate.
  - intros u x v. upd_cases t u; eauto. destruct o; discriminate.
Qed.

Ltac simp_st := cbn [head tail etail dhead buf thr published delivered log set_thr] in *.

Ltac thread_split t :=
  repeat match goal with
  | |- context[upd _ t _ ?u] => is_var u; upd_cases t u
  | H : context[upd _ t _ ?u] |- _ => is_var u; upd_cases t u
  end.

Ltac old_facts I :=
  repeat match goal with
  | H : pslot (thr ?s ?u) = Some ?x |- _ =>
      lazymatch goal with | _ : tail s <= x < etail s |- _ => fail | _ => pose proof (i_prange _ I u x H) end
  | H : pvalid (thr ?s ?u) = Some ?x |- _ =>
      lazymatch goal with | _ : x < head s + N |- _ => fail | _ => pose proof (i_pvalid _ I u x H) end
  | H : cslot (thr ?s ?u) = Some ?x |- _ =>
      lazymatch goal with | _ : head s <= x < dhead s |- _ => fail | _ => pose proof (i_crange _ I u x H) end
  | H : cvalid (thr ?s ?u) = Some ?x |- _ =>
      lazymatch goal with | _ : x < tail s |- _ => fail | _ => pose proof (i_cvalid _ I u x H) end
  end.

Ltac inj_some := repeat match goal with
  | H : Some _ = Some _ |- _ => injection H; clear H; intros; subst
  | H : (_, _) = (_, _) |- _ => injection H; clear H; intros; subst end.

Ltac clause I t :=
  intros; thread_split t; cbn in *; try discriminate; inj_some; old_facts I;
  try lia;
  try (eapply (i_pdist _ I); eassumption);
  try (eapply (i_cdist _ I); eassumption);
  try (eapply (i_pwr _ I); eassumption);
  try (eapply (i_cread _ I); eassumption);
  try (eapply (i_buf _ I); eassumption);
  try (eapply (i_pdist _ I); [eassumption|congruence]);
  try (symmetry; eapply (i_pdist _ I); [eassumption|congruence]);
  try (eapply (i_cdist _ I); [eassumption|congruence]);
  try (symmetry; eapply (i_cdist _ I); [eassumption|congruence]);
  try match goal with
      | H : pslot (thr ?s ?u) = Some ?x, n : ?u <> t, Hps : pslot (thr ?s t) = Some ?slot |- _ =>
          assert (x <> slot) by (intros ->; apply n; eapply (i_pdist _ I); [eassumption|congruence]); lia
      | H : cslot (thr ?s ?u) = Some ?x, n : ?u <> t, Hcs : cslot (thr ?s t) = Some ?slot |- _ =>
          assert (x <> slot) by (intros ->; apply n; eapply (i_cdist _ I); [eassumption|congruence]); lia
      end.

Ltac logs I := rewrite ?accepted_app, ?yielded_app; cbn [snd]; rewrite ?app_nil_r;
               first [apply (i_acc _ I) | apply (i_yld _ I) | (f_equal; first [apply (i_acc _ I) | apply (i_yld _ I)]) | idtac].

Ltac go I t := constructor; simp_st; auto; try lia; try apply I; try (logs I; fail); clause I t.

Lemma inv_step s t : Inv s -> Inv (step s t).
Proof.
  intros I. unfold stepZ, RingModel.step, idz.
  pose proof (i_ord _ I) as Hord. pose proof (i_cap _ I) as Hcap. pose proof (i_lenp _ I) as Hlp. pose proof (i_lend _ I) as Hld.
  destruct (thr s t) eqn:E; auto.
  - (* P0: fetch_add etail *) go I t.
  - (* P1 *)
    assert (Hps : pslot (thr s t) = Some slot) by (rewrite E; reflexivity).
    assert (Hr := i_prange _ I _ _ Hps).
    destruct (Z.ltb_spec (slot - head s) N) as [Hlt|Hge]; go I t.
  - (* P2: recede CAS *)
    assert (Hps : pslot (thr s t) = Some slot) by (rewrite E; reflexivity).
    assert (Hr := i_prange _ I _ _ Hps).
    destruct (Z.eqb_spec (etail s) (slot + 1)) as [He|Hne]; go I t.
  - (* P3: buffer write *)
    assert (Hps : pslot (thr s t) = Some slot) by (rewrite E; reflexivity).
    assert (Hpv : pvalid (thr s t) = Some slot) by (rewrite E; reflexivity).
    assert (Hr := i_prange _ I _ _ Hps). assert (Hv := i_pvalid _ I _ _ Hpv).
    go I t.
    + unfold updz. now rewrite Z.eqb_refl.
    + match goal with
      | Hw : pwritten (thr s ?u) = Some (?x, ?v0), n : ?u <> t |- _ =>
        unfold updz; destruct (Z.eqb_spec (x mod N) (slot mod N)) as [Em|]; [|eapply (i_pwr _ I); eassumption];
        exfalso;
        assert (Hpx : pslot (thr s u) = Some x) by (destruct (thr s u); cbn in *; try discriminate; congruence);
        assert (Hvx : pvalid (thr s u) = Some x) by (destruct (thr s u); cbn in *; try discriminate; congruence);
        pose proof (i_prange _ I _ _ Hpx); pose proof (i_pvalid _ I _ _ Hvx);
        assert (x <> slot) by (intros ->; apply n; eapply (i_pdist _ I); eassumption);
        destruct (Z.lt_total x slot) as [L|[L|L]]; [|lia|];
        [ apply (mod_neq N x slot); [lia|lia|assumption] | apply (mod_neq N slot x); [lia|lia|congruence] ]
      end.
    + unfold updz. destruct (Z.eqb_spec (i mod N) (slot mod N)) as [Em|]; [|eapply (i_buf _ I); eassumption].
      exfalso. apply (mod_neq N i slot); [lia|lia|assumption].
  - (* P4: publish CAS *)
    assert (Hps : pslot (thr s t) = Some slot) by (rewrite E; reflexivity).
    assert (Hpv : pvalid (thr s t) = Some slot) by (rewrite E; reflexivity).
    assert (Hpw : pwritten (thr s t) = Some (slot, v)) by (rewrite E; reflexivity).
    assert (Hr := i_prange _ I _ _ Hps). assert (Hv := i_pvalid _ I _ _ Hpv).
    assert (Hw := i_pwr _ I _ _ _ Hpw).
    destruct (Z.eqb_spec (tail s) slot) as [He|Hne]; [|assumption].
    go I t.
    + rewrite app_length; cbn; lia.
    + match goal with
      | Hc : cread (thr s ?u) = Some (?x, ?v0) |- _ =>
        assert (Hcx : cslot (thr s u) = Some x) by (destruct (thr s u); cbn in *; try discriminate; congruence);
        assert (Hvx : cvalid (thr s u) = Some x) by (destruct (thr s u); cbn in *; try discriminate; congruence);
        pose proof (i_crange _ I _ _ Hcx); pose proof (i_cvalid _ I _ _ Hvx);
        rewrite nthz_app_l by lia; eapply (i_cread _ I); eassumption
      end.
    + destruct (Z.eq_dec i slot) as [->|].
      * replace slot with (Z.of_nat (length (published s))) at 2 by lia. rewrite nthz_app_r. assumption.
      * rewrite nthz_app_l by lia. apply (i_buf _ I). lia.
    + rewrite (i_deliv _ I). rewrite firstn_app.
      replace (Z.to_nat (head s) - length (published s))%nat with 0%nat by lia.
      cbn. now rewrite app_nil_r.
  - (* C0 *) go I t.
  - (* C1 *)
    assert (Hcs : cslot (thr s t) = Some slot) by (rewrite E; reflexivity).
    assert (Hr := i_crange _ I _ _ Hcs).
    destruct (Z.ltb_spec 0 (tail s - slot)) as [Hlt|Hge]; go I t.
  - (* C2 *)
    assert (Hcs : cslot (thr s t) = Some slot) by (rewrite E; reflexivity).
    assert (Hr := i_crange _ I _ _ Hcs).
    destruct (Z.eqb_spec (dhead s) (slot + 1)) as [He|Hne]; go I t.
  - (* C3: read *)
    assert (Hcs : cslot (thr s t) = Some slot) by (rewrite E; reflexivity).
    assert (Hcv : cvalid (thr s t) = Some slot) by (rewrite E; reflexivity).
    assert (Hr := i_crange _ I _ _ Hcs). assert (Hv := i_cvalid _ I _ _ Hcv).
    go I t.
    apply (i_buf _ I). lia.
  - (* C4: release CAS *)
    assert (Hcs : cslot (thr s t) = Some slot) by (rewrite E; reflexivity).
    assert (Hcv : cvalid (thr s t) = Some slot) by (rewrite E; reflexivity).
    assert (Hcr : cread (thr s t) = Some (slot, v)) by (rewrite E; reflexivity).
    assert (Hr := i_crange _ I _ _ Hcs). assert (Hv := i_cvalid _ I _ _ Hcv).
    assert (Hrd := i_cread _ I _ _ _ Hcr).
    destruct (Z.eqb_spec (head s) slot) as [He|Hne]; [|assumption].
    go I t.
    + rewrite app_length; cbn; lia.
    + apply (i_buf _ I). lia.
    + rewrite (i_deliv _ I). subst slot v.
      replace (Z.to_nat (head s + 1)) with (S (Z.to_nat (head s))) by lia.
      unfold nthz. symmetry. apply firstn_S_nth. lia.
  - (* L0 *) go I t.
  - (* L1 *) go I t.
Qed.

(* cancellation of a reservation (try_unleak_slot_index_internal, C08): the holder of the TOP reserved slot gives it back *)
Definition cancel (s : st) (t : nat) (v slot : Z) : st :=
  {| head := head s; tail := tail s; etail := slot; dhead := dhead s; buf := buf s; thr := upd (thr s) t Idle;
     published := published s; delivered := delivered s; log := log s ++ [(t, RFull v)] |}.

Lemma inv_cancel s t v slot : Inv s -> pslot (thr s t) = Some slot -> etail s = slot + 1 -> Inv (cancel s t v slot).
Proof.
  intros I Hps He. unfold cancel.
  pose proof (i_ord _ I) as Hord. pose proof (i_cap _ I) as Hcap. pose proof (i_lenp _ I) as Hlp. pose proof (i_lend _ I) as Hld.
  assert (Hr := i_prange _ I _ _ Hps).
  go I t.
Qed.

Lemma inv_exec s e : Inv s -> Inv (exec s e).
Proof. intros I. destruct e; cbn; [apply inv_step|apply inv_start]; assumption. Qed.

Theorem inv_reachable evs : Inv (fold_left exec evs init).
Proof. apply fold_inv; [apply inv_exec|apply inv_init]. Qed.

End RingInv.
