(* Program-driven runner of the ring machine: what the correspondence check evaluates.
   A case = one program (list of operations) per thread + a schedule (list of thread ids).
   A grant to a thread that is between operations starts its next operation and performs its first access
   (this is exactly what a grant does in the Rust harness: the thread was parked before that access). *)
From RM Require Import RingModel.

Section Run.
Variable N : Z.
Variables norm sgn : Z -> Z.

Definition emit_rets (t : nat) (before after : list (nat * res)) : list (list Z) :=
  map (fun e => 2 :: Z.of_nat (fst e) :: res_code (snd e)) (skipn (length before) after).

(* one grant: returns the new state, the remaining programs and the trace lines produced *)
Definition grant (s : st) (progs : nat -> list op) (t : nat) : st * (nat -> list op) * list (list Z) :=
  match thr s t with
  | Idle =>
      match progs t with
      | [] => (s, progs, [skip t])
      | o :: rest =>
          let s1 := start s t o in
          let s2 := step N norm sgn s1 t in
          (s2, upd progs t rest, obs N norm s1 t :: emit_rets t (log s1) (log s2))
      end
  | _ =>
      let s2 := step N norm sgn s t in
      (s2, progs, obs N norm s t :: emit_rets t (log s) (log s2))
  end.

Fixpoint run (s : st) (progs : nat -> list op) (sched : list nat) : st * list (list Z) :=
  match sched with
  | [] => (s, [])
  | t :: rest =>
      let '(s1, progs1, lines) := grant s progs t in
      let '(s2, more) := run s1 progs1 rest in
      (s2, lines ++ more)
  end.

End Run.

Definition progs_of (l : list (list op)) : nat -> list op := fun t => nth t l [].

(* the entry point used by generated case files: real u32 arithmetic, arbitrary counter origin *)
Definition run_case32 (N origin : Z) (progs : list (list op)) (sched : list nat) : list Z :=
  let '(s, lines) := run N u32 i32 (init_at (u32 origin)) (progs_of progs) sched in
  concat lines ++ [9; head s; tail s; etail s; dhead s].
Definition run_caseZ (N : Z) (progs : list (list op)) (sched : list nat) : list Z :=
  let '(s, lines) := run N idz idz init (progs_of progs) sched in
  concat lines ++ [9; head s; tail s; etail s; dhead s].

(* ---- the same runner for the full-sync ring *)
From RM Require Import FullSync.
Definition femit (before after : list (nat * res)) : list (list Z) :=
  map (fun e => 2 :: Z.of_nat (fst e) :: res_code (snd e)) (skipn (length before) after).
Definition fgrant (N : Z) (s : fsst) (progs : nat -> list op) (t : nat) : fsst * (nat -> list op) * list (list Z) :=
  match fthr s t with
  | FIdle =>
      match progs t with
      | [] => (s, progs, [skip t])
      | o :: rest =>
          let s1 := fstart s t o in
          let s2 := fstep N u32 s1 t in
          (s2, upd progs t rest, fobs s1 t :: femit (flog s1) (flog s2))
      end
  | _ => let s2 := fstep N u32 s t in (s2, progs, fobs s t :: femit (flog s) (flog s2))
  end.
Fixpoint frun (N : Z) (s : fsst) (progs : nat -> list op) (sched : list nat) : fsst * list (list Z) :=
  match sched with
  | [] => (s, [])
  | t :: rest =>
      let '(s1, progs1, lines) := fgrant N s progs t in
      let '(s2, more) := frun N s1 progs1 rest in
      (s2, lines ++ more)
  end.
Definition run_case_fs32 (N origin : Z) (progs : list (list op)) (sched : list nat) : list Z :=
  let '(s, lines) := frun N (finit_at (u32 origin)) (progs_of progs) sched in
  concat lines ++ [9; fhead s; ftail s; if flock s then 1 else 0].
