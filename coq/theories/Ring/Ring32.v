(* C15: the machine with the code's wrapping u32 counters, started at an arbitrary origin, answers exactly like the ghost
   machine over unbounded integers started at 0 - for every schedule in which at most T threads ever act, N | 2^32 and
   N + T <= 2^31.  (Length queries are answered modulo 2^32 - they already are in the code.) *)
From RM Require Import Util Pigeon RingModel RingInv RingProps RingCov.
From Coq Require Import Znumtheory.

Section Ring32.
Variable N : Z.
Variable T : nat.
Variable O : Z.                               (* the origin: how many events the ring transported before *)
Hypothesis Npos : 0 < N.
Hypothesis Ndiv : (N | W32).
Hypothesis Bound : N + Z.of_nat T <= 2147483648.
Hypothesis Opos : 0 <= O.

Definition sh (x : Z) : Z := u32 (O + x).

Definition map_pc (p : pc) : pc :=
  match p with
  | Idle => Idle | P0 v => P0 v | P1 v s => P1 v (sh s) | P2 v s => P2 v (sh s)
  | P3 v s l => P3 v (sh s) l | P4 v s l => P4 v (sh s) l
  | C0 => C0 | C1 s => C1 (sh s) | C2 s => C2 (sh s) | C3 s => C3 (sh s) | C4 s v => C4 (sh s) v
  | L0 => L0 | L1 tl => L1 (sh tl)
  end.
Definition res32 (r : res) : res := match r with RLen n => RLen (u32 n) | _ => r end.
Definition log32 (l : list (nat * res)) : list (nat * res) := map (fun e => (fst e, res32 (snd e))) l.

Record R (a z : st) : Prop := {
  r_head : head a = sh (head z); r_tail : tail a = sh (tail z); r_etail : etail a = sh (etail z); r_dhead : dhead a = sh (dhead z);
  r_thr : forall t, thr a t = map_pc (thr z t);
  r_buf : forall j, buf a ((O + j) mod N) = buf z (j mod N);
  r_pub : published a = published z; r_del : delivered a = delivered z;
  r_log : log a = log32 (log z)
}.

(* ---- arithmetic ---- *)
Lemma W32_pos : 0 < W32. Proof. reflexivity. Qed.
Lemma u32_idem x : u32 (u32 x) = u32 x. Proof. unfold u32. apply Z.mod_mod. discriminate. Qed.
Lemma u32_add_l a b : u32 (u32 a + b) = u32 (a + b).
Proof. unfold u32. rewrite Zplus_mod_idemp_l. reflexivity. Qed.
Lemma u32_sub a b : u32 (u32 a - u32 b) = u32 (a - b).
Proof. unfold u32. rewrite <- Zminus_mod. reflexivity. Qed.
Lemma sh_succ x : u32 (sh x + 1) = sh (x + 1).
Proof. unfold sh. rewrite u32_add_l. f_equal. lia. Qed.
Lemma sh_sub a b : u32 (sh a - sh b) = u32 (a - b).
Proof. unfold sh. rewrite u32_sub. f_equal. lia. Qed.
Lemma u32_small x : 0 <= x < W32 -> u32 x = x.
Proof. intros H. unfold u32. now apply Z.mod_small. Qed.
Lemma sh_sub_exact a b : 0 <= a - b < W32 -> u32 (sh a - sh b) = a - b.
Proof. intros H. rewrite sh_sub. now apply u32_small. Qed.
Lemma i32_exact a b : - 2147483648 <= a - b < 2147483648 -> i32 (u32 (sh a - sh b)) = a - b.
Proof.
  intros H. rewrite sh_sub. unfold i32, u32, W32 in *.
  destruct (Z.ltb_spec ((a - b) mod 4294967296) 2147483648) as [Hl|Hl].
  - destruct (Z.le_gt_cases 0 (a - b)); [rewrite Z.mod_small in *; lia|].
    exfalso. replace (a - b) with ((a - b + 4294967296) + (-1) * 4294967296) in Hl by lia.
    rewrite Z.mod_add in Hl by discriminate. rewrite Z.mod_small in Hl; lia.
  - destruct (Z.le_gt_cases 0 (a - b)).
    + rewrite Z.mod_small in Hl; lia.
    + replace (a - b) with ((a - b + 4294967296) + (-1) * 4294967296) at 1 by lia.
      rewrite Z.mod_add by discriminate. rewrite Z.mod_small; lia.
Qed.
Lemma sh_eqb a b : - W32 < a - b < W32 -> (sh a =? sh b) = (a =? b).
Proof.
  intros H. destruct (Z.eqb_spec a b) as [->|Hne]; [apply Z.eqb_refl|].
  apply Z.eqb_neq. intros E. unfold sh, u32 in E.
  assert (D : (a - b) mod W32 = 0).
  { replace (a - b) with ((O + a) - (O + b)) by lia. rewrite Zminus_mod, E, Z.sub_diag. reflexivity. }
  apply Z.mod_divide in D; [|discriminate]. destruct D as [k Hk]. unfold W32 in *. nia.
Qed.
Lemma sh_idx x : sh x mod N = (O + x) mod N.
Proof. unfold sh, u32. symmetry. apply Zmod_div_mod; [assumption|apply W32_pos|assumption]. Qed.

(* ---- bounds on outstanding reservations ---- *)
Definition idle_above (z : st) : Prop := forall t, (T <= t)%nat -> thr z t = Idle.
Definition tid_of (e : ev) : nat := match e with Step t => t | Start t _ => t end.

Lemma idle_above_exec z e : idle_above z -> (tid_of e < T)%nat -> idle_above (execZ N z e).
Proof.
  intros H Ht t Hge. destruct e as [u|u o]; cbn in *.
  - unfold execZ, exec. fold (stepZ N z u). rewrite step_other_threads_gen by lia. now apply H.
  - unfold start. destruct (thr z u); try now apply H. cbn. rewrite upd_other by lia. now apply H.
Qed.

Lemma reservations_bounded z : Inv N z -> Cov z -> idle_above z ->
  etail z - tail z <= Z.of_nat T /\ dhead z - head z <= Z.of_nat T.
Proof.
  intros I [Cp Cc] Hi. split.
  - apply (pigeon_interval (fun t => pslot (thr z t))). intros x Hx. destruct (Cp x Hx) as [t Ht]. exists t. split; [|assumption].
    destruct (Nat.lt_ge_cases t T); [assumption|]. rewrite (Hi t) in Ht by assumption. discriminate.
  - apply (pigeon_interval (fun t => cslot (thr z t))). intros x Hx. destruct (Cc x Hx) as [t Ht]. exists t. split; [|assumption].
    destruct (Nat.lt_ge_cases t T); [assumption|]. rewrite (Hi t) in Ht by assumption. discriminate.
Qed.

Lemma shift_eqb j x : ((O + j) mod N =? (O + x) mod N) = (j mod N =? x mod N).
Proof.
  destruct (Z.eqb_spec (j mod N) (x mod N)) as [E|E].
  - apply Z.eqb_eq. rewrite (Zplus_mod O j), (Zplus_mod O x), E. reflexivity.
  - apply Z.eqb_neq. intros E'. apply E.
    assert (D : (j - x) mod N = 0).
    { replace (j - x) with ((O + j) - (O + x)) by lia. rewrite Zminus_mod, E', Z.sub_diag. apply Z.mod_0_l. lia. }
    apply Z.mod_divide in D; [|lia]. destruct D as [q Hq].
    replace j with (x + q * N) by lia. apply Z.mod_add. lia.
Qed.

Lemma log32_snoc l t r : log32 (l ++ [(t, r)]) = log32 l ++ [(t, res32 r)].
Proof. unfold log32. now rewrite map_app. Qed.

Ltac rs := cbn [head tail etail dhead buf thr published delivered log set_thr].

Lemma thr_rel (a z : st) t (pa pz : pc) :
  (forall u, thr a u = map_pc (thr z u)) -> pa = map_pc pz ->
  forall u, upd (thr a) t pa u = map_pc (upd (thr z) t pz u).
Proof. intros H E u. unfold upd. destruct (Nat.eqb u t); [exact E|apply H]. Qed.

Lemma sim_start a z t o : R a z -> R (start a t o) (start z t o).
Proof.
  intros [Rh Rt Re Rd Rth Rb Rp Rdl Rl]. unfold start. rewrite Rth.
  destruct (thr z t); cbn [map_pc]; try (constructor; assumption).
  constructor; rs; auto. apply thr_rel; auto. destruct o; reflexivity.
Qed.

Lemma sim_step a z t : R a z -> Inv N z -> Cov z -> idle_above z -> R (step32 N a t) (stepZ N z t).
Proof.
  intros [Rh Rt Re Rd Rth Rb Rp Rdl Rl] I C Hi.
  destruct (reservations_bounded z I C Hi) as [Bp Bc].
  pose proof (i_ord _ _ I) as Ho. pose proof (i_cap _ _ I) as Hc.
  unfold step32, stepZ, RingModel.step, idz. rewrite Rth.
  destruct (thr z t) eqn:E; cbn [map_pc].
  - constructor; assumption.
  - (* P0 *) constructor; rs; auto.
    + rewrite Re. apply sh_succ.
    + apply thr_rel; auto. cbn. now rewrite Re.
  - (* P1 *)
    assert (Hr : tail z <= slot < etail z) by (apply (i_prange _ _ I t); rewrite E; reflexivity).
    rewrite Rh, sh_sub_exact by (unfold W32; lia).
    destruct (slot - head z <? N); constructor; rs; auto; apply thr_rel; auto.
  - (* P2 *)
    assert (Hr : tail z <= slot < etail z) by (apply (i_prange _ _ I t); rewrite E; reflexivity).
    rewrite Re, sh_succ, sh_eqb by (unfold W32; lia).
    destruct (etail z =? slot + 1); constructor; rs; auto; try (apply thr_rel; auto).
    rewrite Rl. symmetry. apply log32_snoc.
  - (* P3 *)
    constructor; rs; auto; [apply thr_rel; auto|].
    intros j. unfold updz. rewrite sh_idx, shift_eqb. destruct (j mod N =? slot mod N); [reflexivity|apply Rb].
  - (* P4 *)
    assert (Hr : tail z <= slot < etail z) by (apply (i_prange _ _ I t); rewrite E; reflexivity).
    rewrite Rt, sh_eqb by (unfold W32; lia).
    destruct (tail z =? slot); [|constructor; assumption].
    constructor; rs; auto; try (apply thr_rel; auto); try congruence.
    + apply sh_succ.
    + rewrite Rl. symmetry. apply log32_snoc.
  - (* C0 *) constructor; rs; auto.
    + rewrite Rd. apply sh_succ.
    + apply thr_rel; auto. cbn. now rewrite Rd.
  - (* C1 *)
    assert (Hr : head z <= slot < dhead z) by (apply (i_crange _ _ I t); rewrite E; reflexivity).
    rewrite Rt, i32_exact by lia.
    destruct (0 <? tail z - slot); constructor; rs; auto; apply thr_rel; auto.
  - (* C2 *)
    assert (Hr : head z <= slot < dhead z) by (apply (i_crange _ _ I t); rewrite E; reflexivity).
    rewrite Rd, sh_succ, sh_eqb by (unfold W32; lia).
    destruct (dhead z =? slot + 1); constructor; rs; auto; try (apply thr_rel; auto).
    rewrite Rl. symmetry. apply log32_snoc.
  - (* C3 *)
    constructor; rs; auto. apply thr_rel; auto. cbn. f_equal. rewrite sh_idx. apply Rb.
  - (* C4 *)
    assert (Hr : head z <= slot < dhead z) by (apply (i_crange _ _ I t); rewrite E; reflexivity).
    rewrite Rh, sh_eqb by (unfold W32; lia).
    destruct (head z =? slot); [|constructor; assumption].
    constructor; rs; auto; try (apply thr_rel; auto); try congruence.
    + apply sh_succ.
    + rewrite Rl. symmetry. apply log32_snoc.
  - (* L0 *) constructor; rs; auto. apply thr_rel; auto. cbn. now rewrite Rt.
  - (* L1 *) constructor; rs; auto; [apply thr_rel; auto|].
    rewrite Rl, log32_snoc. cbn. rewrite Rh, sh_sub. reflexivity.
Qed.

Lemma R_init : R (init_at (u32 O)) init.
Proof.
  constructor; cbn; auto; unfold sh; rewrite Z.add_0_r; reflexivity.
Qed.

Lemma idle_above_run evs : Forall (fun e => (tid_of e < T)%nat) evs -> idle_above (fold_left (execZ N) evs init).
Proof.
  intros H. assert (G : forall z, idle_above z -> idle_above (fold_left (execZ N) evs z)).
  { induction H as [|e evs He Hr IH]; intros z Hz; [exact Hz|]. cbn [fold_left]. apply IH. now apply idle_above_exec. }
  apply G. intros t _. reflexivity.
Qed.

(* the refinement: same programs, same schedule => related states, in particular the same responses *)
Theorem ring32_refines evs :
  Forall (fun e => (tid_of e < T)%nat) evs ->
  R (fold_left (exec32 N) evs (init_at (u32 O))) (fold_left (execZ N) evs init).
Proof.
  induction evs as [|e evs IH] using rev_ind; intros H; [apply R_init|].
  apply Forall_app in H. destruct H as [H1 H2]. rewrite !fold_left_app. cbn [fold_left].
  specialize (IH H1). destruct (invcov_reachable N Npos evs) as [I C].
  destruct e as [t|t o]; cbn [exec32 execZ exec].
  - apply sim_step; auto. now apply idle_above_run.
  - now apply sim_start.
Qed.

Corollary ring32_same_responses evs :
  Forall (fun e => (tid_of e < T)%nat) evs ->
  log (fold_left (exec32 N) evs (init_at (u32 O))) = log32 (log (fold_left (execZ N) evs init)).
Proof. intros H. apply (r_log _ _ (ring32_refines evs H)). Qed.

End Ring32.
