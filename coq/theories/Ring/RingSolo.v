(* Solo-progress and frame lemmas of the lock-free ring (C16, also used by C05 / C08): what a send that is rejected writes,
   how many of its own steps it takes, and that a retry succeeds as soon as there is room. *)
From RM Require Import RingModel RingInv RingProps RingCov.

Section RingSolo.
Variable N : Z.
Hypothesis Npos : 0 < N.
Local Notation step := (stepZ N).
Local Notation exec := (execZ N).
Local Notation run evs := (fold_left exec evs init).

Definition in_reject_path (p : pc) : Prop := match p with P0 _ | P1 _ _ | P2 _ _ => True | _ => False end.

(* the only cell a send writes before it is validated is the reservation counter: head, tail, the buffer, the consumers'
   counter, what is published and what is delivered stay as they are; and nobody else's locals change *)
Lemma reject_path_frame s t :
  in_reject_path (thr s t) ->
  head (step s t) = head s /\ tail (step s t) = tail s /\ dhead (step s t) = dhead s /\ buf (step s t) = buf s /\
  published (step s t) = published s /\ delivered (step s t) = delivered s /\
  forall u, u <> t -> thr (step s t) u = thr s u.
Proof.
  intros H. unfold stepZ, RingModel.step, idz. destruct (thr s t) eqn:E; cbn in H; try contradiction;
  repeat match goal with |- context[if ?b then _ else _] => destruct b end; cbn;
  repeat split; auto; intros u Hu; now rewrite upd_other.
Qed.

(* a consumer (or a length query) never touches the producers' reservation counter: a rejected send never waits for one *)
Lemma consumer_keeps_etail s t :
  match thr s t with C0 | C1 _ | C2 _ | C3 _ | C4 _ _ | L0 | L1 _ | Idle => True | _ => False end ->
  etail (step s t) = etail s.
Proof.
  intros H. unfold stepZ, RingModel.step, idz. destruct (thr s t) eqn:E; try contradiction;
  repeat match goal with |- context[if ?b then _ else _] => destruct b end; reflexivity.
Qed.

Definition quiescent (s : st) : Prop := forall t, thr s t = Idle.

(* a send on a quiescent ring with room is accepted in exactly 4 of its own steps ... *)
Theorem solo_send_accepted evs t v :
  let s := run evs in
  quiescent s -> tail s - head s < N ->
  let s' := fold_left exec [Start t (OpPub v); Step t; Step t; Step t; Step t] s in
  log s' = log s ++ [(t, ROk v (tail s - head s + 1))] /\ tail s' = tail s + 1 /\ head s' = head s /\ thr s' t = Idle.
Proof.
  cbn zeta. intros Hq Hroom. set (s := run evs) in *.
  destruct (quiescent_no_reservations N Npos evs Hq) as [He Hd]. fold s in He, Hd.
  cbn [fold_left]. unfold execZ, RingModel.exec, start, stepZ, RingModel.step, idz.
  rewrite (Hq t). cbn. rewrite !upd_same. cbn. rewrite He.
  destruct (Z.ltb_spec (tail s - head s) N); [|lia]. cbn. rewrite !upd_same. cbn. rewrite !upd_same. cbn.
  rewrite Z.eqb_refl. cbn. rewrite upd_same. auto.
Qed.

(* ... and on a quiescent full ring it is rejected in exactly 3 of its own steps, handing the payload back and leaving every
   counter, the buffer and the pending count exactly as they were *)
Theorem solo_send_rejected evs t v :
  let s := run evs in
  quiescent s -> N <= tail s - head s ->
  let s' := fold_left exec [Start t (OpPub v); Step t; Step t; Step t] s in
  log s' = log s ++ [(t, RFull v)] /\ head s' = head s /\ tail s' = tail s /\ etail s' = etail s /\ dhead s' = dhead s /\
  buf s' = buf s /\ published s' = published s /\ delivered s' = delivered s /\ thr s' t = Idle.
Proof.
  cbn zeta. intros Hq Hfull. set (s := run evs) in *.
  destruct (quiescent_no_reservations N Npos evs Hq) as [He Hd]. fold s in He, Hd.
  cbn [fold_left]. unfold execZ, RingModel.exec, start, stepZ, RingModel.step, idz.
  rewrite (Hq t). cbn. rewrite !upd_same. cbn. rewrite He.
  destruct (Z.ltb_spec (tail s - head s) N); [lia|]. cbn. rewrite !upd_same. cbn.
  rewrite Z.eqb_refl. cbn. rewrite upd_same. repeat split; auto.
Qed.

(* a consume on a quiescent non-empty ring yields the oldest pending value in exactly 5 of its own steps *)
Theorem solo_consume evs t :
  let s := run evs in
  quiescent s -> head s < tail s ->
  let s' := fold_left exec [Start t OpCons; Step t; Step t; Step t; Step t; Step t] s in
  log s' = log s ++ [(t, RGot (nthz (published s) (head s)))] /\ head s' = head s + 1 /\ tail s' = tail s.
Proof.
  cbn zeta. intros Hq Hne. set (s := run evs) in *.
  pose proof (inv_reachable N Npos evs) as I. fold s in I.
  destruct (quiescent_no_reservations N Npos evs Hq) as [He Hd]. fold s in He, Hd.
  cbn [fold_left]. unfold execZ, RingModel.exec, start, stepZ, RingModel.step, idz.
  rewrite (Hq t). cbn. rewrite !upd_same. cbn. rewrite Hd.
  destruct (Z.ltb_spec 0 (tail s - head s)); [|lia]. cbn. rewrite !upd_same. cbn. rewrite !upd_same. cbn.
  rewrite Z.eqb_refl. cbn. rewrite (i_buf _ _ I (head s)) by lia. auto.
Qed.

End RingSolo.
