(* Solo-progress and frame lemmas of the lock-free ring (C16, also used by C05 / C08): what a send that is rejected writes,
   how many of its own steps it takes, and that a retry succeeds as soon as there is room. *)
From RM Require Import RingModel RingInv RingProps RingCov.

Section RingSolo.
Variable N : Z.
Hypothesis Npos : 0 < N.
Local Notation step := (stepZ N).
Local Notation exec := (execZ N).
Local Notation run evs := (fold_left exec evs init).

Definition in_reject_path (p : pc) : Prop := match p with P0 _ | P1 _ _ | P2 _ _ => True | _ => False end.

(* the only cell a send writes before it is validated is the reservation counter: head, tail, the buffer, the consumers'
   counter, what is published and what is delivered stay as they are; and nobody else's locals change *)
Lemma reject_path_frame s t :
  in_reject_path (thr s t) ->
  head (step s t) = head s /\ tail (step s t) = tail s /\ dhead (step s t) = dhead s /\ buf (step s t) = buf s /\
  published (step s t) = published s /\ delivered (step s t) = delivered s /\
  forall u, u <> t -> thr (step s t) u = thr s u.
Proof.
  intros H. unfold stepZ, RingModel.step, idz. destruct (thr s t) eqn:E; cbn in H; try contradiction;
  repeat match goal with |- context[if ?b then _ else _] => destruct b end; cbn;
  repeat split; auto; intros u Hu; now rewrite upd_other.
Qed.

(* a consumer (or a length query) never touches the producers' reservation counter: a rejected send never waits for one *)
Lemma consumer_keeps_etail s t :
  match thr s t with C0 | C1 _ | C2 _ | C3 _ | C4 _ _ | L0 | L1 _ | Idle => True | _ => False end ->
  etail (step s t) = etail s.
Proof.
  intros H. unfold stepZ, RingModel.step, idz. destruct (thr s t) eqn:E; try contradiction;
  repeat match goal with |- context[if ?b then _ else _] => destruct b end; reflexivity.
Qed.

Definition quiescent (s : st) : Prop := forall t, thr s t = Idle.

(* projections of the individual steps (kept small so that the solo theorems below chain them without unfolding states) *)
Ltac proj := cbn [head tail etail dhead buf thr published delivered log set_thr]; rewrite ?upd_same; repeat split; auto.

Lemma stepP0 s t v : thr s t = P0 v ->
  thr (step s t) t = P1 v (etail s) /\ head (step s t) = head s /\ tail (step s t) = tail s /\ etail (step s t) = etail s + 1 /\
  dhead (step s t) = dhead s /\ buf (step s t) = buf s /\ log (step s t) = log s /\ published (step s t) = published s /\ delivered (step s t) = delivered s.
Proof. intros H. unfold stepZ, RingModel.step, idz. rewrite H. proj. Qed.
Lemma stepP1 s t v slot : thr s t = P1 v slot ->
  thr (step s t) t = (if slot - head s <? N then P3 v slot (slot - head s) else P2 v slot) /\ head (step s t) = head s /\ tail (step s t) = tail s /\
  etail (step s t) = etail s /\ dhead (step s t) = dhead s /\ buf (step s t) = buf s /\ log (step s t) = log s /\ published (step s t) = published s /\ delivered (step s t) = delivered s.
Proof. intros H. unfold stepZ, RingModel.step, idz. rewrite H. destruct (slot - head s <? N); proj. Qed.
Lemma stepP2 s t v slot : thr s t = P2 v slot -> etail s = slot + 1 ->
  thr (step s t) t = Idle /\ head (step s t) = head s /\ tail (step s t) = tail s /\ etail (step s t) = slot /\
  dhead (step s t) = dhead s /\ buf (step s t) = buf s /\ log (step s t) = log s ++ [(t, RFull v)] /\ published (step s t) = published s /\ delivered (step s t) = delivered s.
Proof. intros H He. unfold stepZ, RingModel.step, idz. rewrite H, He, Z.eqb_refl. proj. Qed.
Lemma stepP3 s t v slot len : thr s t = P3 v slot len ->
  thr (step s t) t = P4 v slot len /\ head (step s t) = head s /\ tail (step s t) = tail s /\ etail (step s t) = etail s /\
  dhead (step s t) = dhead s /\ log (step s t) = log s /\ published (step s t) = published s /\ delivered (step s t) = delivered s.
Proof. intros H. unfold stepZ, RingModel.step, idz. rewrite H. proj. Qed.
Lemma stepP4 s t v slot len : thr s t = P4 v slot len -> tail s = slot ->
  thr (step s t) t = Idle /\ head (step s t) = head s /\ tail (step s t) = slot + 1 /\ etail (step s t) = etail s /\
  dhead (step s t) = dhead s /\ log (step s t) = log s ++ [(t, ROk v (len + 1))].
Proof. intros H He. unfold stepZ, RingModel.step, idz. rewrite H, He, Z.eqb_refl. proj. Qed.
Lemma stepC0 s t : thr s t = C0 ->
  thr (step s t) t = C1 (dhead s) /\ head (step s t) = head s /\ tail (step s t) = tail s /\ dhead (step s t) = dhead s + 1 /\
  buf (step s t) = buf s /\ log (step s t) = log s /\ published (step s t) = published s.
Proof. intros H. unfold stepZ, RingModel.step, idz. rewrite H. proj. Qed.
Lemma stepC1 s t slot : thr s t = C1 slot ->
  thr (step s t) t = (if 0 <? tail s - slot then C3 slot else C2 slot) /\ head (step s t) = head s /\ tail (step s t) = tail s /\
  dhead (step s t) = dhead s /\ buf (step s t) = buf s /\ log (step s t) = log s /\ published (step s t) = published s.
Proof. intros H. unfold stepZ, RingModel.step, idz. rewrite H. destruct (0 <? tail s - slot); proj. Qed.
Lemma stepC3 s t slot : thr s t = C3 slot ->
  thr (step s t) t = C4 slot (buf s (slot mod N)) /\ head (step s t) = head s /\ tail (step s t) = tail s /\
  dhead (step s t) = dhead s /\ log (step s t) = log s /\ published (step s t) = published s.
Proof. intros H. unfold stepZ, RingModel.step, idz. rewrite H. proj. Qed.
Lemma stepC4 s t slot v : thr s t = C4 slot v -> head s = slot ->
  head (step s t) = slot + 1 /\ tail (step s t) = tail s /\ log (step s t) = log s ++ [(t, RGot v)].
Proof. intros H He. unfold stepZ, RingModel.step, idz. rewrite H, He, Z.eqb_refl. proj. Qed.
Lemma start_idle s t o : thr s t = Idle ->
  thr (start s t o) t = (match o with OpPub v => P0 v | OpCons => C0 | OpLen => L0 end) /\ head (start s t o) = head s /\ tail (start s t o) = tail s /\
  etail (start s t o) = etail s /\ dhead (start s t o) = dhead s /\ buf (start s t o) = buf s /\ log (start s t o) = log s /\
  published (start s t o) = published s /\ delivered (start s t o) = delivered s.
Proof. intros H. unfold start. rewrite H. proj. Qed.

(* a send on a quiescent ring with room is accepted in exactly 4 of its own steps ... *)
Theorem solo_send_accepted evs t v :
  let s := run evs in
  quiescent s -> tail s - head s < N ->
  let s' := step (step (step (step (start s t (OpPub v)) t) t) t) t in
  log s' = log s ++ [(t, ROk v (tail s - head s + 1))] /\ tail s' = tail s + 1 /\ head s' = head s /\ thr s' t = Idle.
Proof.
  cbn zeta. intros Hq Hroom. set (s := run evs) in *.
  destruct (quiescent_no_reservations N Npos evs Hq) as [He Hd]. fold s in He, Hd.
  destruct (start_idle s t (OpPub v) (Hq t)) as (A0 & A1 & A2 & A3 & A4 & A5 & A6 & A7 & A8).
  set (s0 := start s t (OpPub v)) in *.
  destruct (stepP0 s0 t v A0) as (B0 & B1 & B2 & B3 & B4 & B5 & B6 & B7 & B8).
  set (s1 := step s0 t) in *.
  destruct (stepP1 s1 t v (etail s0) B0) as (C0' & C1' & C2' & C3' & C4' & C5' & C6' & C7' & C8').
  set (s2 := step s1 t) in *.
  assert (Hlt : (etail s0 - head s1 <? N) = true) by (apply Z.ltb_lt; lia).
  rewrite Hlt in C0'.
  destruct (stepP3 s2 t v _ _ C0') as (D0 & D1 & D2 & D3 & D4 & D5 & D6 & D7).
  set (s3 := step s2 t) in *.
  destruct (stepP4 s3 t v _ _ D0) as (E0 & E1 & E2 & E3 & E4 & E5); [lia|].
  repeat split; try lia; auto.
  rewrite E5, D5, C6', B6, A6. replace (etail s0 - head s1 + 1) with (tail s - head s + 1) by lia. reflexivity.
Qed.

(* ... and on a quiescent full ring it is rejected in exactly 3 of its own steps, handing the payload back and leaving every
   counter, the buffer and the pending count exactly as they were *)
Theorem solo_send_rejected evs t v :
  let s := run evs in
  quiescent s -> N <= tail s - head s ->
  let s' := step (step (step (start s t (OpPub v)) t) t) t in
  log s' = log s ++ [(t, RFull v)] /\ head s' = head s /\ tail s' = tail s /\ etail s' = etail s /\ dhead s' = dhead s /\
  buf s' = buf s /\ published s' = published s /\ delivered s' = delivered s /\ thr s' t = Idle.
Proof.
  cbn zeta. intros Hq Hfull. set (s := run evs) in *.
  destruct (quiescent_no_reservations N Npos evs Hq) as [He Hd]. fold s in He, Hd.
  destruct (start_idle s t (OpPub v) (Hq t)) as (A0 & A1 & A2 & A3 & A4 & A5 & A6 & A7 & A8).
  set (s0 := start s t (OpPub v)) in *.
  destruct (stepP0 s0 t v A0) as (B0 & B1 & B2 & B3 & B4 & B5 & B6 & B7 & B8).
  set (s1 := step s0 t) in *.
  destruct (stepP1 s1 t v (etail s0) B0) as (C0' & C1' & C2' & C3' & C4' & C5' & C6' & C7' & C8').
  set (s2 := step s1 t) in *.
  assert (Hge : (etail s0 - head s1 <? N) = false) by (apply Z.ltb_ge; lia).
  rewrite Hge in C0'.
  destruct (stepP2 s2 t v _ C0') as (D0 & D1 & D2 & D3 & D4 & D5 & D6 & D7 & D8); [lia|].
  repeat split; try congruence; try lia.
Qed.

(* a consume on a quiescent non-empty ring yields the oldest pending value in exactly 4 of its own steps *)
Theorem solo_consume evs t :
  let s := run evs in
  quiescent s -> head s < tail s ->
  let s' := step (step (step (step (start s t OpCons) t) t) t) t in
  log s' = log s ++ [(t, RGot (nthz (published s) (head s)))] /\ head s' = head s + 1 /\ tail s' = tail s.
Proof.
  cbn zeta. intros Hq Hne. set (s := run evs) in *.
  pose proof (inv_reachable N Npos evs) as I. fold s in I.
  destruct (quiescent_no_reservations N Npos evs Hq) as [He Hd]. fold s in He, Hd.
  destruct (start_idle s t OpCons (Hq t)) as (A0 & A1 & A2 & A3 & A4 & A5 & A6 & A7 & A8).
  set (s0 := start s t OpCons) in *.
  destruct (stepC0 s0 t A0) as (B0 & B1 & B2 & B3 & B4 & B5 & B6).
  set (s1 := step s0 t) in *.
  destruct (stepC1 s1 t _ B0) as (C0' & C1' & C2' & C3' & C4' & C5' & C6').
  set (s2 := step s1 t) in *.
  assert (Hlt : (0 <? tail s1 - dhead s0) = true) by (apply Z.ltb_lt; lia).
  rewrite Hlt in C0'.
  destruct (stepC3 s2 t _ C0') as (D0 & D1 & D2 & D3 & D4 & D5).
  set (s3 := step s2 t) in *.
  destruct (stepC4 s3 t _ _ D0) as (E0 & E1 & E2); [lia|].
  repeat split; try lia.
  rewrite E2, D4, C5', B5, A6. repeat f_equal.
  rewrite C4', B4, A5, A4, Hd. apply (i_buf _ _ I). lia.
Qed.

End RingSolo.
