(* Facts about the reserve / send-reserved / cancel machine (Reserve.v) over the unbounded-integer instance. *)
From RM Require Import RingModel RingInv RingProps Reserve.
Require Import ZifyBool.
Ltac Zify.zify_post_hook ::= Z.div_mod_to_equations.

Section ReserveProps.
Variable N : Z.
Hypothesis Npos : 0 < N.

(* a publication CAS that succeeds at a guess congruent to the reservation's slot publishes that very slot: between tail and
   tail + N there is one id per index *)
Lemma send_guess_hits_own_slot x t v slot len g :
  Inv N x -> thr x t = P4 v slot len -> tail x = g -> g mod N = slot mod N -> g = slot.
Proof.
  intros I E Ht Hm.
  assert (Hps : pslot (thr x t) = Some slot) by (rewrite E; reflexivity).
  assert (Hpv : pvalid (thr x t) = Some slot) by (rewrite E; reflexivity).
  pose proof (i_prange _ _ I _ _ Hps) as Hr. pose proof (i_pvalid _ _ I _ _ Hpv) as Hv. pose proof (i_ord _ _ I) as Ho.
  assert (Hd : (slot - g) mod N = 0). { rewrite Zminus_mod, Hm, Z.sub_diag. apply Z.mod_0_l. lia. }
  assert (0 <= slot - g < N) by lia. rewrite Z.mod_small in Hd by assumption. lia.
Qed.

(* a cancellation CAS that succeeds at a congruent guess cancels the reservation's own slot provided no more than N ids are
   reserved above the published ones (true whenever nobody else is in the middle of a reservation attempt) *)
Lemma cancel_guess_hits_own_slot x t v slot g :
  Inv N x -> slot_of (thr x t) = Some (v, slot) -> etail x = g + 1 -> g mod N = slot mod N -> etail x <= head x + N -> g = slot.
Proof.
  intros I E He Hm Hcap.
  assert (Hps : pslot (thr x t) = Some slot) by (destruct (thr x t); inversion E; subst; reflexivity).
  pose proof (i_prange _ _ I _ _ Hps) as Hr. pose proof (i_ord _ _ I) as Ho.
  assert (Hd : (g - slot) mod N = 0). { rewrite Zminus_mod, Hm, Z.sub_diag. apply Z.mod_0_l. lia. }
  assert (0 <= g - slot < N) by lia. rewrite Z.mod_small in Hd by assumption. lia.
Qed.

End ReserveProps.
