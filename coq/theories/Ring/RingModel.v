(* Executable model of the lock-free ring `AtomicMove`
   (/repo/src/ogre_std/ogre_queues/atomic/atomic_move.rs) at the granularity of ONE shared access per step.

   The machine is written once, parametrised by the arithmetic used for the sequence counters:
     - `norm := idz, sgn := idz`   gives the ghost machine over unbounded Z (where the invariants are proved);
     - `norm := u32, sgn := i32`   gives the machine with the code's real wrapping u32 arithmetic
                                    (the one the correspondence check runs against the implementation).
   Ring32.v proves that the two produce the same responses under the stated bounds.

   pcs and the code line they stand before:
     P0  enqueuer_tail.fetch_add(1)                       leak_slot_internal
     P1  head.load ; len_before = slot_id - head ; < N ?
     P2  enqueuer_tail.CAS(slot_id+1 -> slot_id)          try_unleak_slot_internal (queue full)
     P3  ptr::write(slot) / setter_fn(slot)               (hook: yield point "slot_write")
     P4  tail.CAS(slot_id -> slot_id+1)                   try_publish_leaked_internal, spun by publish_leaked_internal
     C0  dequeuer_head.fetch_add(1)                       consume_leaking_internal
     C1  tail.load ; len_before = (tail - slot_id) as i32 ; > 0 ?
     C2  dequeuer_head.CAS(slot_id+1 -> slot_id)          (queue empty)
     C3  ptr::read(slot)                                  (hook: yield point "slot_read")
     C4  head.CAS(slot_id -> slot_id+1)                   release_leaked_internal (spins)
     L0  tail.load                                        available_elements_count
     L1  head.load ; answer tail - head                                                            *)
From RM Require Export Util.

Inductive pc :=
| Idle
| P0 (v : Z) | P1 (v slot : Z) | P2 (v slot : Z) | P3 (v slot len : Z) | P4 (v slot len : Z)
| C0 | C1 (slot : Z) | C2 (slot : Z) | C3 (slot : Z) | C4 (slot v : Z)
| L0 | L1 (tl : Z).

Inductive res := RFull (v : Z) | ROk (v len : Z) | REmpty | RGot (v : Z) | RLen (n : Z).
Inductive op := OpPub (v : Z) | OpCons | OpLen.

Record st := {
  head : Z; tail : Z; etail : Z; dhead : Z;
  buf : Z -> Z;                        (* slot index -> value *)
  thr : nat -> pc;
  (* ghost *)
  published : list Z;                  (* values, in tail (publication) order *)
  delivered : list Z;                  (* values, in head (release) order *)
  log : list (nat * res)               (* responses, in return order *)
}.

Definition idz (x : Z) : Z := x.
Definition W32 : Z := 4294967296.
Definition u32 (x : Z) : Z := x mod W32.
Definition i32 (x : Z) : Z := if x <? 2147483648 then x else x - W32.

Definition set_thr (s : st) (t : nat) (p : pc) : st :=
  {| head := head s; tail := tail s; etail := etail s; dhead := dhead s; buf := buf s;
     thr := upd (thr s) t p; published := published s; delivered := delivered s; log := log s |}.

Section Machine.
Variable N : Z.                        (* BUFFER_SIZE *)
Variables norm sgn : Z -> Z.

Definition step (s : st) (t : nat) : st :=
  match thr s t with
  | Idle => s
  | P0 v =>
      {| head := head s; tail := tail s; etail := norm (etail s + 1); dhead := dhead s; buf := buf s;
         thr := upd (thr s) t (P1 v (etail s)); published := published s; delivered := delivered s; log := log s |}
  | P1 v slot =>
      if norm (slot - head s) <? N then set_thr s t (P3 v slot (norm (slot - head s)))
      else set_thr s t (P2 v slot)
  | P2 v slot =>
      if etail s =? norm (slot + 1) then
        {| head := head s; tail := tail s; etail := slot; dhead := dhead s; buf := buf s;
           thr := upd (thr s) t Idle; published := published s; delivered := delivered s;
           log := log s ++ [(t, RFull v)] |}
      else set_thr s t (P1 v slot)
  | P3 v slot len =>
      {| head := head s; tail := tail s; etail := etail s; dhead := dhead s;
         buf := updz (buf s) (slot mod N) v;
         thr := upd (thr s) t (P4 v slot len); published := published s; delivered := delivered s; log := log s |}
  | P4 v slot len =>
      if tail s =? slot then
        {| head := head s; tail := norm (slot + 1); etail := etail s; dhead := dhead s; buf := buf s;
           thr := upd (thr s) t Idle; published := published s ++ [v]; delivered := delivered s;
           log := log s ++ [(t, ROk v (len + 1))] |}
      else s
  | C0 =>
      {| head := head s; tail := tail s; etail := etail s; dhead := norm (dhead s + 1); buf := buf s;
         thr := upd (thr s) t (C1 (dhead s)); published := published s; delivered := delivered s; log := log s |}
  | C1 slot =>
      if 0 <? sgn (norm (tail s - slot)) then set_thr s t (C3 slot) else set_thr s t (C2 slot)
  | C2 slot =>
      if dhead s =? norm (slot + 1) then
        {| head := head s; tail := tail s; etail := etail s; dhead := slot; buf := buf s;
           thr := upd (thr s) t Idle; published := published s; delivered := delivered s;
           log := log s ++ [(t, REmpty)] |}
      else set_thr s t (C1 slot)
  | C3 slot => set_thr s t (C4 slot (buf s (slot mod N)))
  | C4 slot v =>
      if head s =? slot then
        {| head := norm (slot + 1); tail := tail s; etail := etail s; dhead := dhead s; buf := buf s;
           thr := upd (thr s) t Idle; published := published s; delivered := delivered s ++ [v];
           log := log s ++ [(t, RGot v)] |}
      else s
  | L0 => set_thr s t (L1 (tail s))
  | L1 tl =>
      {| head := head s; tail := tail s; etail := etail s; dhead := dhead s; buf := buf s;
         thr := upd (thr s) t Idle; published := published s; delivered := delivered s;
         log := log s ++ [(t, RLen (norm (tl - head s)))] |}
  end.

(* an idle thread begins an operation (no shared access happens here) *)
Definition start (s : st) (t : nat) (o : op) : st :=
  match thr s t with
  | Idle => set_thr s t (match o with OpPub v => P0 v | OpCons => C0 | OpLen => L0 end)
  | _ => s
  end.

Inductive ev := Step (t : nat) | Start (t : nat) (o : op).
Definition exec (s : st) (e : ev) : st :=
  match e with Step t => step s t | Start t o => start s t o end.

(* what the next step of thread t looks like from outside: the access record of the correspondence trace *)
Definition L_HEAD := 0. Definition L_TAIL := 1. Definition L_ETAIL := 2. Definition L_DHEAD := 3.
Definition L_BUF := 100.
Definition obs (s : st) (t : nat) : list Z :=
  match thr s t with
  | Idle => skip t
  | P0 _ => acc t L_ETAIL K_FAA (etail s) (norm (etail s + 1)) true
  | P1 _ _ => acc t L_HEAD K_LOAD (head s) (-1) true
  | P2 _ slot => if etail s =? norm (slot + 1) then acc t L_ETAIL K_CAS (etail s) slot true
                 else acc t L_ETAIL K_CAS (etail s) (-1) false
  | P3 _ slot _ => acc t (L_BUF + slot mod N) K_SLOTW 0 (-1) true
  | P4 _ slot _ => if tail s =? slot then acc t L_TAIL K_CAS (tail s) (norm (slot + 1)) true
                   else acc t L_TAIL K_CAS (tail s) (-1) false
  | C0 => acc t L_DHEAD K_FAA (dhead s) (norm (dhead s + 1)) true
  | C1 _ => acc t L_TAIL K_LOAD (tail s) (-1) true
  | C2 slot => if dhead s =? norm (slot + 1) then acc t L_DHEAD K_CAS (dhead s) slot true
               else acc t L_DHEAD K_CAS (dhead s) (-1) false
  | C3 slot => acc t (L_BUF + slot mod N) K_SLOTR 0 (-1) true
  | C4 slot _ => if head s =? slot then acc t L_HEAD K_CAS (head s) (norm (slot + 1)) true
                 else acc t L_HEAD K_CAS (head s) (-1) false
  | L0 => acc t L_TAIL K_LOAD (tail s) (-1) true
  | L1 _ => acc t L_HEAD K_LOAD (head s) (-1) true
  end.

End Machine.

Definition init_at (origin : Z) : st :=
  {| head := origin; tail := origin; etail := origin; dhead := origin; buf := fun _ => 0; thr := fun _ => Idle;
     published := []; delivered := []; log := [] |}.
Definition init : st := init_at 0.

(* the two instances *)
Definition stepZ (N : Z) := step N idz idz.
Definition execZ (N : Z) := exec N idz idz.
Definition step32 (N : Z) := step N u32 i32.
Definition exec32 (N : Z) := exec N u32 i32.

(* observable summaries of a response log *)
Definition accepted_of (l : list (nat * res)) : list Z :=
  flat_map (fun e => match snd e with ROk v _ => [v] | _ => [] end) l.
Definition yielded_of (l : list (nat * res)) : list Z :=
  flat_map (fun e => match snd e with RGot v => [v] | _ => [] end) l.
Definition rejected_of (l : list (nat * res)) : list Z :=
  flat_map (fun e => match snd e with RFull v => [v] | _ => [] end) l.

Definition res_code (r : res) : list Z :=
  match r with
  | RFull v => [0; v; 0] | ROk v len => [1; v; len] | REmpty => [2; 0; 0] | RGot v => [3; v; 0] | RLen n => [4; n; 0]
  end.

(* a response belongs to a call *)
Definition matches (o : op) (r : res) : Prop :=
  match o, r with
  | OpPub v, RFull v' => v' = v
  | OpPub v, ROk v' _ => v' = v
  | OpCons, REmpty => True
  | OpCons, RGot _ => True
  | OpLen, RLen _ => True
  | _, _ => False
  end.
