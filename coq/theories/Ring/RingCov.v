(* Coverage: every reserved sequence id is held by some thread.  Needed for the "full"/"empty" clauses of C02
   (and C13, C16, C18) and for the bound on outstanding reservations used by the u32 refinement. *)
From RM Require Import RingModel RingInv.

Section RingCov.
Variable N : Z.
Hypothesis Npos : 0 < N.
Local Notation step := (stepZ N).
Local Notation exec := (execZ N).
Local Notation run evs := (fold_left exec evs init).

Definition Cov (s : st) : Prop :=
  (forall x, tail s <= x < etail s -> exists t, pslot (thr s t) = Some x) /\
  (forall x, head s <= x < dhead s -> exists t, cslot (thr s t) = Some x).

Lemma cov_init : Cov init.
Proof. split; cbn; intros; lia. Qed.

Ltac simp_st := cbn [head tail etail dhead buf thr published delivered log set_thr] in *.

Lemma cov_start s t o : Cov s -> Cov (start s t o).
Proof.
  intros [Cp Cc]. unfold start. destruct (thr s t) eqn:E; try (split; assumption).
  split; simp_st; intros x Hx.
  - destruct (Cp x Hx) as [u Hu]. exists u. destruct (Nat.eq_dec u t) as [->|n]; [rewrite E in Hu; discriminate|now rewrite upd_other].
  - destruct (Cc x Hx) as [u Hu]. exists u. destruct (Nat.eq_dec u t) as [->|n]; [rewrite E in Hu; discriminate|now rewrite upd_other].
Qed.

Ltac holder t u Hu E :=
  exists u; destruct (Nat.eq_dec u t) as [->|?];
  [ rewrite E in Hu; cbn in Hu; try discriminate; rewrite upd_same; cbn; congruence
  | rewrite upd_other by assumption; exact Hu].

Lemma cov_step s t : Inv N s -> Cov s -> Cov (step s t).
Proof.
  intros I [Cp Cc]. unfold stepZ, RingModel.step, idz. destruct (thr s t) eqn:E; try (split; assumption).
  - (* P0 *) split; simp_st; intros x Hx.
    + destruct (Z.eq_dec x (etail s)) as [->|Hn]; [exists t; now rewrite upd_same|].
      destruct (Cp x ltac:(lia)) as [u Hu]. holder t u Hu E.
    + destruct (Cc x Hx) as [u Hu]. holder t u Hu E.
  - (* P1 *) destruct (slot - head s <? N); (split; simp_st; intros x Hx;
      [destruct (Cp x Hx) as [u Hu]; holder t u Hu E
      |destruct (Cc x Hx) as [u Hu]; holder t u Hu E]).
  - (* P2 *) destruct (Z.eqb_spec (etail s) (slot + 1)) as [He|Hne].
    + split; simp_st; intros x Hx.
      * destruct (Cp x ltac:(lia)) as [u Hu]. exists u. destruct (Nat.eq_dec u t) as [->|?].
        -- rewrite E in Hu. cbn in Hu. injection Hu as <-. lia.
        -- now rewrite upd_other.
      * destruct (Cc x Hx) as [u Hu]. holder t u Hu E.
    + split; simp_st; intros x Hx;
      [destruct (Cp x Hx) as [u Hu]; holder t u Hu E
      |destruct (Cc x Hx) as [u Hu]; holder t u Hu E].
  - (* P3 *) split; simp_st; intros x Hx;
      [destruct (Cp x Hx) as [u Hu]; holder t u Hu E
      |destruct (Cc x Hx) as [u Hu]; holder t u Hu E].
  - (* P4 *) destruct (Z.eqb_spec (tail s) slot) as [He|Hne]; [|split; assumption].
    split; simp_st; intros x Hx.
    + destruct (Cp x ltac:(lia)) as [u Hu]. exists u. destruct (Nat.eq_dec u t) as [->|?].
      * rewrite E in Hu. cbn in Hu. injection Hu as <-. lia.
      * now rewrite upd_other.
    + destruct (Cc x Hx) as [u Hu]. holder t u Hu E.
  - (* C0 *) split; simp_st; intros x Hx.
    + destruct (Cp x Hx) as [u Hu]. holder t u Hu E.
    + destruct (Z.eq_dec x (dhead s)) as [->|Hn]; [exists t; now rewrite upd_same|].
      destruct (Cc x ltac:(lia)) as [u Hu]. holder t u Hu E.
  - (* C1 *) destruct (0 <? tail s - slot); (split; simp_st; intros x Hx;
      [destruct (Cp x Hx) as [u Hu]; holder t u Hu E
      |destruct (Cc x Hx) as [u Hu]; holder t u Hu E]).
  - (* C2 *) destruct (Z.eqb_spec (dhead s) (slot + 1)) as [He|Hne].
    + split; simp_st; intros x Hx.
      * destruct (Cp x Hx) as [u Hu]. holder t u Hu E.
      * destruct (Cc x ltac:(lia)) as [u Hu]. exists u. destruct (Nat.eq_dec u t) as [->|?].
        -- rewrite E in Hu. cbn in Hu. injection Hu as <-. lia.
        -- now rewrite upd_other.
    + split; simp_st; intros x Hx;
      [destruct (Cp x Hx) as [u Hu]; holder t u Hu E
      |destruct (Cc x Hx) as [u Hu]; holder t u Hu E].
  - (* C3 *) split; simp_st; intros x Hx;
      [destruct (Cp x Hx) as [u Hu]; holder t u Hu E
      |destruct (Cc x Hx) as [u Hu]; holder t u Hu E].
  - (* C4 *) destruct (Z.eqb_spec (head s) slot) as [He|Hne]; [|split; assumption].
    split; simp_st; intros x Hx.
    + destruct (Cp x Hx) as [u Hu]. holder t u Hu E.
    + destruct (Cc x ltac:(lia)) as [u Hu]. exists u. destruct (Nat.eq_dec u t) as [->|?].
      * rewrite E in Hu. cbn in Hu. injection Hu as <-. lia.
      * now rewrite upd_other.
  - (* L0 *) split; simp_st; intros x Hx;
      [destruct (Cp x Hx) as [u Hu]; holder t u Hu E
      |destruct (Cc x Hx) as [u Hu]; holder t u Hu E].
  - (* L1 *) split; simp_st; intros x Hx;
      [destruct (Cp x Hx) as [u Hu]; holder t u Hu E
      |destruct (Cc x Hx) as [u Hu]; holder t u Hu E].
Qed.

Lemma cov_cancel s t v slot : Inv N s -> Cov s -> pslot (thr s t) = Some slot -> etail s = slot + 1 -> Cov (cancel s t v slot).
Proof.
  intros I [Cp Cc] Hps He. unfold cancel. split; simp_st; intros x Hx.
  - destruct (Cp x ltac:(lia)) as [u Hu]. exists u. destruct (Nat.eq_dec u t) as [->|?].
    + rewrite Hps in Hu. injection Hu as <-. lia.
    + now rewrite upd_other.
  - destruct (Cc x Hx) as [u Hu]. exists u. destruct (Nat.eq_dec u t) as [->|?].
    + exfalso. destruct (thr s t); cbn in Hps, Hu; discriminate.
    + now rewrite upd_other.
Qed.

Theorem invcov_reachable evs : Inv N (run evs) /\ Cov (run evs).
Proof.
  assert (G : forall s, Inv N s /\ Cov s -> Inv N (fold_left exec evs s) /\ Cov (fold_left exec evs s)).
  { apply (fold_inv exec (fun s => Inv N s /\ Cov s)).
    intros s e [I C]. split; [apply inv_exec; assumption|].
    destruct e; cbn; [apply cov_step|apply cov_start]; assumption. }
  apply G. split; [apply inv_init; assumption|apply cov_init].
Qed.

(* C02, "full": at the head load that sees the ring full, every one of the >= N sequence ids below the caller's is
   either an accepted-and-unreleased element or held by another send still in progress *)
Theorem full_answer_justified evs t v slot :
  let s := run evs in
  thr s t = P1 v slot -> N <= slot - head s ->
  forall x, head s <= x < slot ->
    x < tail s \/ exists u, u <> t /\ pslot (thr s u) = Some x.
Proof.
  intros s E Hfull x Hx. destruct (invcov_reachable evs) as [I [Cp _]]. fold s in I, Cp.
  destruct (Z.lt_ge_cases x (tail s)) as [|Hge]; [now left|right].
  assert (Hr : tail s <= slot < etail s) by (apply (i_prange _ _ I t); rewrite E; reflexivity).
  destruct (Cp x ltac:(lia)) as [u Hu]. exists u. split; [|exact Hu].
  intros ->. rewrite E in Hu. cbn in Hu. injection Hu as <-. lia.
Qed.

(* C02, "empty": an empty answer is exact unless another consumer holds a lower, not yet receded slot *)
Theorem empty_answer_justified evs t slot :
  let s := run evs in
  thr s t = C1 slot -> tail s - slot <= 0 ->
  (forall u x, u <> t -> cslot (thr s u) = Some x -> slot < x) ->
  head s = tail s.
Proof.
  intros s E Hemp Hsolo. destruct (invcov_reachable evs) as [I [_ Cc]]. fold s in I, Cc.
  assert (Hr : head s <= slot < dhead s) by (apply (i_crange _ _ I t); rewrite E; reflexivity).
  pose proof (i_ord _ _ I) as Hord.
  destruct (Z.eq_dec (head s) slot) as [He|Hne]; [lia|exfalso].
  destruct (Cc (head s) ltac:(lia)) as [u Hu].
  destruct (Nat.eq_dec u t) as [->|Hn].
  - rewrite E in Hu. cbn in Hu. injection Hu as Hu. lia.
  - specialize (Hsolo u (head s) Hn Hu). lia.
Qed.

(* no reservation survives quiescence: nothing leaks (C16) *)
Theorem quiescent_no_reservations evs :
  let s := run evs in
  (forall t, thr s t = Idle) -> etail s = tail s /\ dhead s = head s.
Proof.
  intros s Hq. destruct (invcov_reachable evs) as [I [Cp Cc]]. fold s in I, Cp, Cc.
  pose proof (i_ord _ _ I) as Hord. split.
  - destruct (Z.eq_dec (etail s) (tail s)); [assumption|].
    destruct (Cp (tail s) ltac:(lia)) as [u Hu]. rewrite Hq in Hu. discriminate.
  - destruct (Z.eq_dec (dhead s) (head s)); [assumption|].
    destruct (Cc (head s) ltac:(lia)) as [u Hu]. rewrite Hq in Hu. discriminate.
Qed.

End RingCov.
