(* C15 for the full-sync ring: wrapping u32 head/tail from an arbitrary origin vs. unbounded integers from 0. *)
From RM Require Import Util RingModel FullSync Ring32.
From Coq Require Import Znumtheory.

Section FS32.
Variable N : Z.
Variable O : Z.
Hypothesis Npos : 0 < N.
Hypothesis Ndiv : (N | W32).
Hypothesis Nsmall : N < W32.

Local Notation sh := (sh O).

Record FR (a z : fsst) : Prop := {
  fr_head : fhead a = sh (fhead z); fr_tail : ftail a = sh (ftail z); fr_lock : flock a = flock z;
  fr_thr : forall t, fthr a t = fthr z t;
  fr_buf : forall j, fbuf a ((O + j) mod N) = fbuf z (j mod N);
  fr_pub : fpublished a = fpublished z; fr_del : fdelivered a = fdelivered z;
  fr_log : flog a = log32 (flog z)
}.

Lemma fsim_start a z t o : FR a z -> FR (fstart a t o) (fstart z t o).
Proof.
  intros [Rh Rt Rk Rth Rb Rp Rd Rl]. unfold fstart. rewrite Rth. destruct (fthr z t); try (constructor; assumption).
  constructor; cbn; auto. intros u. unfold upd. destruct (Nat.eqb u t); [reflexivity|apply Rth].
Qed.

Lemma fthr_rel (a z : fsst) t p : (forall u, fthr a u = fthr z u) -> forall u, upd (fthr a) t p u = upd (fthr z) t p u.
Proof. intros H u. unfold upd. destruct (Nat.eqb u t); [reflexivity|apply H]. Qed.

Lemma flog32_snoc l t r : log32 (l ++ [(t, r)]) = log32 l ++ [(t, res32 r)].
Proof. unfold log32. now rewrite map_app. Qed.

Lemma fsim_step a z t : FR a z -> FInv N z -> FR (fstep N u32 a t) (fstepZ N z t).
Proof.
  intros R0 I. pose proof R0 as [Rh Rt Rk Rth Rb Rp Rd Rl]. pose proof (f_ord _ _ I) as Ho.
  unfold fstepZ, fstep, idz. rewrite Rth, Rk.
  assert (Hlen : u32 (ftail a - fhead a) = ftail z - fhead z).
  { rewrite Rt, Rh. apply (sh_sub_exact 0%nat). unfold W32 in *. lia. }
  destruct (fthr z t) eqn:E.
  - exact R0.
  - (* FPL *)
    destruct (flock z); [exact R0|]. rewrite Hlen.
    destruct (ftail z - fhead z <? N); constructor; cbn; auto; try (apply fthr_rel; auto).
    + rewrite Rt. apply (sh_succ 0%nat).
    + intros j. unfold updz. rewrite Rt, (sh_idx N O Npos Ndiv), (shift_eqb N 0%nat O Npos).
      destruct (j mod N =? ftail z mod N); [reflexivity|apply Rb].
    + congruence.
  - (* FPU *) constructor; cbn; auto; [apply fthr_rel; auto|].
    rewrite Rl, flog32_snoc. destruct r; reflexivity.
  - (* FCL *)
    destruct (flock z); [exact R0|]. rewrite Hlen.
    destruct (0 <? ftail z - fhead z); constructor; cbn; auto; try (apply fthr_rel; auto).
    + rewrite Rh. apply (sh_succ 0%nat).
    + intros u. unfold upd. destruct (Nat.eqb u t); [|apply Rth]. f_equal. f_equal.
      rewrite Rh, (sh_idx N O Npos Ndiv). apply Rb.
    + rewrite Rd. f_equal. f_equal. rewrite Rh, (sh_idx N O Npos Ndiv). apply Rb.
  - (* FCU *) constructor; cbn; auto; [apply fthr_rel; auto|].
    rewrite Rl, flog32_snoc. destruct r; reflexivity.
  - (* FLN *) constructor; cbn; auto; [apply fthr_rel; auto|].
    rewrite Rl, flog32_snoc. cbn. rewrite Hlen. rewrite u32_small; [reflexivity|unfold W32 in *; lia].
Qed.

Theorem fs32_refines evs :
  FR (fold_left (fexec N u32) evs (finit_at (u32 O))) (fold_left (fexecZ N) evs finit).
Proof.
  induction evs as [|e evs IH] using rev_ind.
  - constructor; cbn; auto; unfold Ring32.sh; rewrite Z.add_0_r; reflexivity.
  - rewrite !fold_left_app. cbn [fold_left]. pose proof (finv_reachable N Npos evs) as I.
    destruct e as [t|t o]; cbn [fexec fexecZ]; [apply fsim_step|apply fsim_start]; assumption.
Qed.

End FS32.
