(* Executable model of Multi::close() over k listeners, each with its own futures executor (C06 / C12 at the Multi level):
     /repo/src/multi/multi.rs close -> channel.gracefully_end_all_streams -> streams_manager.end_all_streams :
       flush (wait until NO listener's queue holds an event), cancel ALL streams, wait until the running-stream count is zero.
   Every listener is an independent instance of the executor model of Exec.v (all events are sent at time 0; listener i takes
   dur * (i + 1) ms per event, so the listeners drain at different speeds). The cancellation instant is shared:
       cancel = max (close call, last intake of ANY listener)
   every listener's stream is dropped at its own first instant >= cancel with fewer than `limit` items in flight, and close returns
   when the last of them is. *)
From Coq Require Import List Arith ZArith Lia Bool.
Import ListNotations.
From RM Require Import Exec ExecProps.
Open Scope Z_scope.

(* Exec.t_drop with the cancellation instant given from outside *)
Definition t_drop_from (limit : nat) (ds : list done) (tc : Z) : Z :=
  fold_right Z.min (finish_time ds) (filter (fun t => (in_flight_at ds t <? limit)%nat) (candidates ds tc)).

Lemma t_drop_is_from limit ds t_close : t_drop limit ds t_close = t_drop_from limit ds (t_cancel ds t_close).
Proof. reflexivity. Qed.

Definition slow (i : nat) (durs : list Z) : list item := map (fun d => {| dur := d * Z.of_nat (S i); fails := false |}) durs.
Definition mruns (k limit : nat) (durs : list Z) : list (list done) := map (fun i => run limit 0 0 (slow i durs)) (seq 0 k).
Definition m_cancel (dss : list (list done)) (t_close : Z) : Z := fold_right Z.max t_close (map last_start dss).
Definition m_return (limit : nat) (dss : list (list done)) (t_close : Z) : Z :=
  let tc := m_cancel dss t_close in fold_right Z.max tc (map (fun ds => t_drop_from limit ds tc) dss).

(* what the correspondence check compares (records of /verif/harness/src/mexec.rs, no individual removal) *)
Definition mexec_trace (k limit : nat) (durs : list Z) (t_close : Z) : list Z :=
  let dss := mruns k limit durs in
  let t := m_return limit dss t_close in
  let n := Z.of_nat (length durs) in
  [2; 0; 80; 1; Z.of_nat k;  2; 0; 83; n; 0]
  ++ flat_map (fun p : nat * list done => let i := Z.of_nat (fst p) in
                 [2; 0; 81; i; Z.of_nat (done_at (snd p) t);  2; 0; 82; i; Z.of_nat (length (snd p));  2; 0; 84; i; 1;  2; 0; 85; i; Z.of_nat (length (snd p));
                  2; 0; 86; i; status_code (srun [SStart; SFinish]);  2; 0; 87; i; 1;  2; 0; 88; i; -1])
              (combine (seq 0 k) dss)
  ++ [9].

(* ---- theorems ---- *)
Lemma fold_max_ge' x l d : In d l -> d <= fold_right Z.max x l.
Proof. induction l as [|a l IH]; cbn; intros H; [contradiction|]. destruct H as [->|H]; [lia|]. specialize (IH H). lia. Qed.
Lemma fold_max_base x l : x <= fold_right Z.max x l.
Proof. induction l as [|a l IH]; cbn; lia. Qed.

(* a sequential listener whose stream is cancelled at ANY instant not before its last intake has processed everything when it is dropped *)
Lemma sequential_drop_after_everything ds tc d :
  last_start ds <= tc -> In d ds -> iend d <= t_drop_from 1 ds tc.
Proof.
  intros Hls Hd. unfold t_drop_from.
  destruct (fold_min_in (finish_time ds) (filter (fun t => (in_flight_at ds t <? 1)%nat) (candidates ds tc))) as [->|Hin].
  - apply fold_max_ge. now apply in_map.
  - apply filter_In in Hin. destruct Hin as [Hc Hf]. apply Nat.ltb_lt in Hf.
    set (t := fold_right Z.min (finish_time ds) (filter (fun t => (in_flight_at ds t <? 1)%nat) (candidates ds tc))) in *.
    assert (Htc : tc <= t).
    { unfold candidates in Hc. destruct Hc as [<-|Hc]; [lia|]. apply filter_In in Hc. destruct Hc as [_ Hc]. apply Z.leb_le in Hc. exact Hc. }
    assert (Hs : istart d <= t).
    { assert (istart d <= last_start ds) by (apply fold_max_ge; now apply in_map). lia. }
    unfold in_flight_at in Hf.
    destruct (Z_lt_le_dec t (iend d)) as [Hlt|Hge]; [|exact Hge].
    exfalso.
    assert (Hin : In d (filter (fun d0 => (istart d0 <=? t) && (t <? iend d0)) ds)).
    { apply filter_In. split; [exact Hd|]. apply andb_true_iff. split; [apply Z.leb_le; exact Hs|apply Z.ltb_lt; exact Hlt]. }
    destruct (filter (fun d0 => (istart d0 <=? t) && (t <? iend d0)) ds); [contradiction|cbn in Hf; lia].
Qed.

(* C06 for a Multi whose executors are sequential: when close() returns, EVERY listener has fully processed EVERY accepted event -
   for every number of listeners, every workload and every instant at which close is called *)
Theorem multi_close_waits_for_every_listener k durs t_close :
  forall ds, In ds (mruns k 1 durs) -> done_at ds (m_return 1 (mruns k 1 durs) t_close) = length durs.
Proof.
  intros ds Hds. set (dss := mruns k 1 durs) in *.
  assert (Hlen : length ds = length durs).
  { unfold dss, mruns in Hds. apply in_map_iff in Hds. destruct Hds as [i [<- _]]. unfold run. rewrite schedule_length. unfold slow. apply map_length. }
  rewrite <- Hlen. unfold done_at. apply filter_all_length. intros d Hd. apply Z.leb_le.
  unfold m_return. set (tc := m_cancel dss t_close).
  assert (Hls : last_start ds <= tc). { unfold tc, m_cancel. apply fold_max_ge'. now apply in_map. }
  pose proof (sequential_drop_after_everything ds tc d Hls Hd) as H1.
  assert (H2 : t_drop_from 1 ds tc <= fold_right Z.max tc (map (fun ds0 => t_drop_from 1 ds0 tc) dss)).
  { apply fold_max_ge'. apply in_map_iff. exists ds. split; [reflexivity|exact Hds]. }
  lia.
Qed.

(* nothing is discarded by closing, whatever the limit *)
Theorem multi_nothing_discarded k limit durs : forall ds, In ds (mruns k limit durs) -> length ds = length durs.
Proof.
  intros ds Hds. unfold mruns in Hds. apply in_map_iff in Hds. destruct Hds as [i [<- _]]. unfold run. rewrite schedule_length. unfold slow. apply map_length.
Qed.

(* there are exactly k listeners in the model *)
Lemma mruns_length k limit durs : length (mruns k limit durs) = k.
Proof. unfold mruns. rewrite map_length. apply seq_length. Qed.

(* with a concurrency limit above 1 the property is FALSE of the faithful model also for a Multi (finding F7): 2 listeners, limit 4,
   two events of 200 ms, close called at once: close returns at time 0 when no listener has processed anything *)
Theorem multi_close_refuted_with_concurrency :
  let dss := mruns 2 4 [200; 200] in
  m_return 4 dss 0 = 0 /\ map (fun ds => done_at ds (m_return 4 dss 0)) dss = [0%nat; 0%nat].
Proof. vm_compute. auto. Qed.

(* ---- the log channel's old / new pair of executors (multi.rs spawn_futures_oldies_executor): the events sent before the pair was
   created go to the `old` stream - which ends by itself at the split point - the later ones to the `new` stream. With
   sequential_transition the new executor is spawned from the old executor's close callback, i.e. when the last old item future has
   completed; otherwise both start at once. All events are sent at time 0. ---- *)
Definition plain (durs : list Z) : list item := map (fun d => {| dur := d; fails := false |}) durs.
Definition old_run (limit n_old : nat) (durs : list Z) : list done := run limit 0 0 (plain (firstn n_old durs)).
Definition new_origin (sequential : bool) (limit n_old : nat) (durs : list Z) : Z := if sequential then finish_time (old_run limit n_old durs) else 0.
Definition new_run (sequential : bool) (limit n_old : nat) (durs : list Z) : list done :=
  schedule limit 0 0 (new_origin sequential limit n_old durs, []) (plain (skipn n_old durs)).
Definition first_start (ds : list done) : Z := match ds with [] => -1 | d :: r => fold_right Z.min (istart d) (map istart r) end.
Definition mlog_trace (sequential : bool) (limit n_old : nat) (durs : list Z) : list Z :=
  let dso := old_run limit n_old durs in let dsn := new_run sequential limit n_old durs in
  [2; 0; 90; 1; 0;  2; 0; 91; Z.of_nat (length dso); Z.of_nat (length dsn);
   2; 0; 92; (match dso with [] => -1 | _ => finish_time dso end); first_start dsn;  2; 0; 93; 1; 1;  2; 0; 94; 1; 1;  9].

Lemma intake_now limit now fl it : now <= fst (fst (intake limit 0 0 (now, fl) it)) /\ istart (snd (intake limit 0 0 (now, fl) it)) = fst (fst (intake limit 0 0 (now, fl) it)).
Proof.
  unfold intake. destruct (length fl <? limit)%nat.
  - destruct (eff 0 0 it). cbn. split; [lia|reflexivity].
  - destruct (pop_min fl) as [[m r]|]; destruct (eff 0 0 it); cbn; split; try lia; reflexivity.
Qed.

Lemma schedule_starts_after limit its : forall now fl d, In d (schedule limit 0 0 (now, fl) its) -> now <= istart d.
Proof.
  induction its as [|it r IH]; intros now fl d Hd; [contradiction|].
  cbn [schedule] in Hd. pose proof (intake_now limit now fl it) as [H1 H2].
  destruct (intake limit 0 0 (now, fl) it) as [[now' fl'] d0] eqn:E. cbn in H1, H2.
  destruct Hd as [<-|Hd]; [lia|]. specialize (IH now' fl' d Hd). lia.
Qed.

(* C12, last clause, for every workload, split point and concurrency limit: with a sequential transition no new event starts before
   every old event has been fully processed *)
Theorem sequential_transition_orders_old_before_new limit n_old durs :
  forall d_old d_new, In d_old (old_run limit n_old durs) -> In d_new (new_run true limit n_old durs) -> iend d_old <= istart d_new.
Proof.
  intros d_old d_new Ho Hn. unfold new_run in Hn. apply schedule_starts_after in Hn. cbn [new_origin] in Hn.
  assert (iend d_old <= finish_time (old_run limit n_old durs)) by (apply fold_max_ge; now apply in_map). lia.
Qed.

(* no event is lost or duplicated by the split: old and new streams together process exactly the events sent *)
Theorem old_new_split_is_exact sequential limit n_old durs :
  (length (old_run limit n_old durs) + length (new_run sequential limit n_old durs) = length durs)%nat.
Proof.
  unfold old_run, new_run, run, plain. rewrite !schedule_length, !map_length. rewrite <- (firstn_skipn n_old durs) at 3. now rewrite app_length.
Qed.

(* without sequential_transition old and new events do overlap (so the ordering above is owed to the flag, not to the model) *)
Example concurrent_transition_overlaps :
  let durs := [30; 10] in exists d_old d_new, In d_old (old_run 1 1 durs) /\ In d_new (new_run false 1 1 durs) /\ istart d_new < iend d_old.
Proof. eexists; eexists. vm_compute. split; [left; reflexivity|split; [left; reflexivity|reflexivity]]. Qed.

(* ---- how much close() can leave behind (the size of finding F7): when close returns, FEWER THAN `limit` accepted events are still
   unprocessed - for every workload, timeout setting, limit >= 1 and instant of the close call. (limit = 1: nothing is left: C06.) ---- *)
Lemma filter_split_length {A} (f : A -> bool) l : (length (filter f l) + length (filter (fun x => negb (f x)) l) = length l)%nat.
Proof. induction l as [|a l IH]; [reflexivity|]. cbn [filter]. destruct (f a); cbn [negb length]; lia. Qed.

Lemma filter_ext_in' {A} (f g : A -> bool) l : (forall x, In x l -> f x = g x) -> filter f l = filter g l.
Proof.
  induction l as [|a l IH]; intros H; [reflexivity|]. cbn [filter]. rewrite (H a) by now left.
  rewrite IH; [reflexivity|]. intros x Hx. apply H. now right.
Qed.

Theorem close_leaves_fewer_than_limit limit tau errdelay its t_close :
  (1 <= limit)%nat ->
  let ds := run limit tau errdelay its in
  (length its < done_at ds (t_drop limit ds t_close) + limit)%nat.
Proof.
  intros Hl. cbn zeta. set (ds := run limit tau errdelay its).
  assert (Hlen : length ds = length its) by apply schedule_length.
  rewrite <- Hlen. unfold t_drop. set (tc := t_cancel ds t_close).
  destruct (fold_min_in (finish_time ds) (filter (fun t => (in_flight_at ds t <? limit)%nat) (candidates ds tc))) as [E|Hin].
  - (* the stream is dropped when everything has finished *)
    rewrite E. unfold done_at. rewrite (filter_all_length (fun d => iend d <=? finish_time ds) ds).
    + lia.
    + intros d Hd. apply Z.leb_le. apply fold_max_ge. now apply in_map.
  - set (t := fold_right Z.min (finish_time ds) (filter (fun t => (in_flight_at ds t <? limit)%nat) (candidates ds tc))) in *.
    apply filter_In in Hin. destruct Hin as [Hc Hf]. apply Nat.ltb_lt in Hf.
    assert (Htc : tc <= t).
    { unfold candidates in Hc. destruct Hc as [<-|Hc]; [lia|]. apply filter_In in Hc. destruct Hc as [_ Hc]. apply Z.leb_le in Hc. exact Hc. }
    assert (Hs : forall d, In d ds -> istart d <= t).
    { intros d Hd. assert (istart d <= last_start ds) by (apply fold_max_ge; now apply in_map). unfold tc, t_cancel in Htc. lia. }
    unfold done_at. pose proof (filter_split_length (fun d => iend d <=? t) ds) as Hsp.
    assert (Hfl : filter (fun d => negb (iend d <=? t)) ds = filter (fun d => (istart d <=? t) && (t <? iend d)) ds).
    { apply filter_ext_in'. intros d Hd. specialize (Hs d Hd).
      destruct (Z.leb_spec (iend d) t), (Z.leb_spec (istart d) t), (Z.ltb_spec t (iend d)); cbn; try reflexivity; lia. }
    cbv beta in Hsp. rewrite Hfl in Hsp. unfold in_flight_at in Hf. lia.
Qed.

(* the same at the Multi level: every listener is left with fewer than `limit` unprocessed events when Multi::close returns at its OWN
   drop instant; (at the common return instant, which is later, it can only have processed more: done_at is monotone) *)
Lemma done_at_mono ds t t' : t <= t' -> (done_at ds t <= done_at ds t')%nat.
Proof.
  intros H. unfold done_at. induction ds as [|d ds IH]; [cbn; lia|]. cbn [filter].
  destruct (Z.leb_spec (iend d) t), (Z.leb_spec (iend d) t'); cbn [length]; lia.
Qed.

Lemma drop_from_leaves_fewer_than_limit limit ds tc :
  (1 <= limit)%nat -> last_start ds <= tc -> (length ds < done_at ds (t_drop_from limit ds tc) + limit)%nat.
Proof.
  intros Hl Hls. unfold t_drop_from.
  destruct (fold_min_in (finish_time ds) (filter (fun t => (in_flight_at ds t <? limit)%nat) (candidates ds tc))) as [E|Hin].
  - rewrite E. unfold done_at. rewrite (filter_all_length (fun d => iend d <=? finish_time ds) ds).
    + lia.
    + intros d Hd. apply Z.leb_le. apply fold_max_ge. now apply in_map.
  - set (t := fold_right Z.min (finish_time ds) (filter (fun t => (in_flight_at ds t <? limit)%nat) (candidates ds tc))) in *.
    apply filter_In in Hin. destruct Hin as [Hc Hf]. apply Nat.ltb_lt in Hf.
    assert (Htc : tc <= t).
    { unfold candidates in Hc. destruct Hc as [<-|Hc]; [lia|]. apply filter_In in Hc. destruct Hc as [_ Hc]. apply Z.leb_le in Hc. exact Hc. }
    assert (Hs : forall d, In d ds -> istart d <= t).
    { intros d Hd. assert (istart d <= last_start ds) by (apply fold_max_ge; now apply in_map). lia. }
    unfold done_at. pose proof (filter_split_length (fun d => iend d <=? t) ds) as Hsp.
    assert (Hfl : filter (fun d => negb (iend d <=? t)) ds = filter (fun d => (istart d <=? t) && (t <? iend d)) ds).
    { apply filter_ext_in'. intros d Hd. specialize (Hs d Hd).
      destruct (Z.leb_spec (iend d) t), (Z.leb_spec (istart d) t), (Z.ltb_spec t (iend d)); cbn; try reflexivity; lia. }
    cbv beta in Hsp. rewrite Hfl in Hsp. unfold in_flight_at in Hf. lia.
Qed.

(* the size of F7 at the Multi level: when Multi::close returns, every listener is left with fewer than `limit` unprocessed events -
   for every number of listeners, workload, limit >= 1 and instant of the close call *)
Theorem multi_close_leaves_fewer_than_limit k limit durs t_close :
  (1 <= limit)%nat ->
  forall ds, In ds (mruns k limit durs) -> (length durs < done_at ds (m_return limit (mruns k limit durs) t_close) + limit)%nat.
Proof.
  intros Hl ds Hds. set (dss := mruns k limit durs) in *.
  rewrite <- (multi_nothing_discarded k limit durs ds Hds).
  unfold m_return. set (tc := m_cancel dss t_close).
  assert (Hls : last_start ds <= tc). { unfold tc, m_cancel. apply fold_max_ge'. now apply in_map. }
  pose proof (drop_from_leaves_fewer_than_limit limit ds tc Hl Hls) as H1.
  assert (H2 : t_drop_from limit ds tc <= fold_right Z.max tc (map (fun ds0 => t_drop_from limit ds0 tc) dss)).
  { apply fold_max_ge'. apply in_map_iff. exists ds. split; [reflexivity|exact Hds]. }
  pose proof (done_at_mono ds _ _ H2). lia.
Qed.
