(* Theorems about the executor model (Exec.v). *)
From Coq Require Import List Arith ZArith Lia Bool.
Import ListNotations.
From RM Require Import Exec.
Open Scope Z_scope.

Section ExecProps.
Variable limit : nat.
Variable tau : Z.
Variable errdelay : Z.

(* C11: every item gets exactly one outcome *)
Lemma schedule_length st its : length (schedule limit tau errdelay st its) = length its.
Proof.
  revert st. induction its as [|it r IH]; intros st; cbn [schedule]; [reflexivity|].
  destruct (intake limit tau errdelay st it) as [st' d]. cbn. now rewrite IH.
Qed.

Lemma count_partition ds : (count_out OOk ds + count_out OFailed ds + count_out OTimedOut ds = length ds)%nat.
Proof.
  unfold count_out. induction ds as [|d r IH]; [reflexivity|]. cbn [filter length]. destruct (iout d); cbn [length]; lia.
Qed.

Theorem one_outcome_per_item its :
  let ds := run limit tau errdelay its in
  (count_out OOk ds + count_out OFailed ds + count_out OTimedOut ds = length its)%nat.
Proof. cbn zeta. rewrite count_partition. apply schedule_length. Qed.

(* the outcome of item i depends on that item alone: a failure or a timeout of another item changes nothing for it *)
Lemma schedule_outcomes st its : map iout (schedule limit tau errdelay st its) = map (fun it => snd (eff tau errdelay it)) its.
Proof.
  revert st. induction its as [|it r IH]; intros st; cbn [schedule map]; [reflexivity|].
  destruct st as [now fl]. unfold intake.
  destruct (if (length fl <? limit)%nat then (now, fl) else match pop_min fl with Some (m, r0) => (Z.max now m, r0) | None => (now, fl) end) as [now' fl'].
  destruct (eff tau errdelay it) as [d o] eqn:E. cbn [map iout snd]. now rewrite IH.
Qed.

Theorem outcome_is_local its : map iout (run limit tau errdelay its) = map (fun it => snd (eff tau errdelay it)) its.
Proof. apply schedule_outcomes. Qed.

(* a timed-out item is one that takes longer than the configured timeout, and it is cut at the timeout *)
Lemma eff_spec it : eff tau errdelay it = if (0 <? tau) && (tau <? dur it) then (tau, OTimedOut) else if fails it then (dur it + errdelay, OFailed) else (dur it, OOk).
Proof. reflexivity. Qed.

(* C11: never more than `limit` items in flight: the executor's in-flight set never grows beyond the limit *)
Hypothesis Hlimit : (1 <= limit)%nat.
Lemma pop_min_length l m r : pop_min l = Some (m, r) -> length l = S (length r).
Proof.
  revert m r. induction l as [|x l IH]; intros m r H; cbn in H; [discriminate|].
  destruct (pop_min l) as [[m' r']|] eqn:E.
  - destruct (x <=? m'); inversion H; subst; cbn; [reflexivity|]. now rewrite (IH _ _ eq_refl).
  - inversion H; subst. destruct l; [reflexivity|]. cbn in E. destruct (pop_min l) as [[? ?]|]; [destruct (z <=? z0)|]; discriminate.
Qed.

Lemma intake_bound now fl it : (length fl <= limit)%nat -> (length (snd (fst (intake limit tau errdelay (now, fl) it))) <= limit)%nat.
Proof.
  intros H. unfold intake. destruct (Nat.ltb_spec (length fl) limit) as [Hlt|Hge].
  - destruct (eff tau errdelay it). cbn. lia.
  - destruct (pop_min fl) as [[m r]|] eqn:E.
    + destruct (eff tau errdelay it). cbn. apply pop_min_length in E. lia.
    + destruct fl; [cbn in *; lia|]. cbn in E. destruct (pop_min fl) as [[? ?]|]; [destruct (z <=? z0)|]; discriminate.
Qed.

Theorem in_flight_never_exceeds_limit its :
  forall now fl, (length fl <= limit)%nat ->
  Forall (fun k => (k <= limit)%nat)
         ((fix go st its := match its with [] => [] | it :: r => let st' := fst (intake limit tau errdelay st it) in length (snd st') :: go st' r end) (now, fl) its).
Proof.
  induction its as [|it r IH]; intros now fl H; [constructor|].
  constructor.
  - apply intake_bound. exact H.
  - destruct (fst (intake limit tau errdelay (now, fl) it)) as [now' fl'] eqn:E.
    apply IH. pose proof (intake_bound now fl it H) as B. rewrite E in B. exact B.
Qed.

End ExecProps.

(* C06, sequential executors (limit 1, i.e. `for_each`): close() returns only after every accepted event was fully processed -
   for every workload, every timeout setting and every instant at which close is called *)
Lemma fold_min_in x l : fold_right Z.min x l = x \/ In (fold_right Z.min x l) l.
Proof.
  induction l as [|a l IH]; cbn; [now left|]. destruct (Z.min_spec a (fold_right Z.min x l)) as [[_ ->]|[_ ->]]; [right; now left|].
  destruct IH as [->|H]; [now left|right; now right].
Qed.
Lemma fold_max_ge l d : In d l -> d <= fold_right Z.max 0 l.
Proof. induction l as [|a l IH]; cbn; intros H; [contradiction|]. destruct H as [->|H]; [lia|]. specialize (IH H). lia. Qed.

Lemma filter_all_length {A} (f : A -> bool) l : (forall x, In x l -> f x = true) -> length (filter f l) = length l.
Proof. induction l as [|a l IH]; intros H; [reflexivity|]. cbn. rewrite (H a) by now left. cbn. f_equal. apply IH. intros x Hx. apply H. now right. Qed.

Theorem close_waits_for_everything_when_sequential tau errdelay its t_close :
  let ds := run 1 tau errdelay its in
  done_at ds (t_drop 1 ds t_close) = length its.
Proof.
  cbn zeta. set (ds := run 1 tau errdelay its).
  assert (Hlen : length ds = length its) by apply schedule_length.
  rewrite <- Hlen. unfold done_at.
  assert (All : forall d, In d ds -> iend d <= t_drop 1 ds t_close).
  { intros d Hd. unfold t_drop.
    set (tc := t_cancel ds t_close).
    destruct (fold_min_in (finish_time ds) (filter (fun t => (in_flight_at ds t <? 1)%nat) (candidates ds tc))) as [->|Hin].
    - apply fold_max_ge. now apply in_map.
    - apply filter_In in Hin. destruct Hin as [Hc Hf]. apply Nat.ltb_lt in Hf.
      set (t := fold_right Z.min (finish_time ds) (filter (fun t => (in_flight_at ds t <? 1)%nat) (candidates ds tc))) in *.
      assert (Htc : tc <= t).
      { unfold candidates in Hc. destruct Hc as [<-|Hc]; [lia|]. apply filter_In in Hc. destruct Hc as [_ Hc]. apply Z.leb_le in Hc. exact Hc. }
      assert (Hs : istart d <= t).
      { assert (istart d <= last_start ds) by (apply fold_max_ge; now apply in_map). unfold tc, t_cancel in Htc. lia. }
      unfold in_flight_at in Hf.
      destruct (Z_lt_le_dec t (iend d)) as [Hlt|Hge]; [|exact Hge].
      exfalso.
      assert (Hin : In d (filter (fun d0 => (istart d0 <=? t) && (t <? iend d0)) ds)).
      { apply filter_In. split; [exact Hd|]. apply andb_true_iff. split; [apply Z.leb_le; exact Hs|apply Z.ltb_lt; exact Hlt]. }
      destruct (filter (fun d0 => (istart d0 <=? t) && (t <? iend d0)) ds); [contradiction|cbn in Hf; lia]. }
  apply filter_all_length. intros d Hd. apply Z.leb_le. now apply All.
Qed.

(* C12: the status cell. `a`, `b`, `c`: any number of report_scheduled_to_finish() calls before the start, while running, and
   after the stream ended (between register_execution_finish and the close callback) *)
Theorem status_at_callback (a b c : nat) :
  srun (repeat SSched a ++ [SStart] ++ repeat SSched b ++ [SFinish] ++ repeat SSched c) =
  match b with O => StreamEnded | _ => ProgrammaticallyEnded end.
Proof.
  unfold srun. rewrite !fold_left_app.
  assert (R : forall n s, fold_left sstep (repeat SSched n) s = match n, s with S _, Running => ScheduledToFinish | _, _ => s end).
  { induction n as [|n IH]; intros s; [destruct s; reflexivity|]. cbn [repeat fold_left]. rewrite IH. destruct n, s; reflexivity. }
  rewrite (R c), (R b), (R a). destruct a, b, c; reflexivity.
Qed.

(* C12: the latched close callback of a Uni runs exactly once, at the end of the LAST of its M executors *)
Lemma latch_run_quiet e : forall c, (e < c)%nat -> latch_run c e = repeat false e.
Proof.
  induction e as [|e IH]; intros c H; [reflexivity|]. cbn [latch_run repeat]. unfold latch_fires.
  destruct (Nat.eqb_spec c 1); [lia|]. f_equal. apply IH. lia.
Qed.
Lemma latch_run_full c : (0 < c)%nat -> latch_run c c = repeat false (c - 1) ++ [true].
Proof.
  induction c as [|c IH]; intros H; [lia|]. cbn [latch_run]. unfold latch_fires.
  destruct c as [|c'].
  - reflexivity.
  - replace (S (S c') - 1)%nat with (S c') by lia. cbn [Nat.eqb repeat app]. f_equal.
    specialize (IH ltac:(lia)). replace (S c' - 1)%nat with c' in IH by lia. exact IH.
Qed.
Theorem latch_fires_exactly_once_at_the_last M : (0 < M)%nat -> latch_run M M = repeat false (M - 1) ++ [true].
Proof. apply latch_run_full. Qed.
