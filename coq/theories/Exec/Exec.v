(* Executable model of a stream executor driving a Uni's pipeline (C06 / C11 / C12):
     /repo/src/stream_executor.rs  spawn_executor / spawn_futures_executor : `stream.for_each_concurrent(limit, item_processor)`
       (limit 1: `for_each`), each item future under `tokio::time::timeout(futures_timeout)` when a timeout is configured ;
     /repo/src/uni/uni.rs close -> streams_manager.end_all_streams : wait until the channel is empty, cancel the streams, wait until
       the running-stream count is zero.
   Time is virtual (milliseconds, as under tokio's paused clock). All events of a case are sent at time 0, so the executor takes
   them in order as soon as it has a free place: list scheduling with in-order intake.
     start_i = now if fewer than `limit` items are in flight, else the earliest completion among those in flight
     end_i   = start_i + min(dur_i, timeout)                       (an item longer than the timeout is cancelled and counted as timed out)
   `for_each_concurrent` polls its source only while fewer than `limit` items are in flight and drops the source as soon as it ends;
   the streams manager's running count goes to zero when the source stream is dropped. So close() returns at the first instant, at or
   after the cancellation (= max(close call, last intake)), at which fewer than `limit` items are in flight. *)
From Coq Require Import List Arith ZArith Lia Bool.
Import ListNotations.
Open Scope Z_scope.

Record item := { dur : Z; fails : bool }.
Inductive outcome := OOk | OFailed | OTimedOut.
Record done := { istart : Z; iend : Z; iout : outcome }.

Section Exec.
Variable limit : nat.          (* concurrency limit, >= 1 *)
Variable tau : Z.              (* futures timeout, 0 = none *)
Variable errdelay : Z.         (* how long the (awaited) error callback of a failed item takes *)

Definition eff (it : item) : Z * outcome :=
  if (0 <? tau) && (tau <? dur it) then (tau, OTimedOut) else if fails it then (dur it + errdelay, OFailed) else (dur it, OOk).

(* the smallest element of a non-empty list and the rest *)
Fixpoint pop_min (l : list Z) : option (Z * list Z) :=
  match l with
  | [] => None
  | x :: r => match pop_min r with
              | None => Some (x, [])
              | Some (m, r') => if x <=? m then Some (x, r) else Some (m, x :: r')
              end
  end.

(* one intake: (now, ends of the items in flight) -> the item's record *)
Definition intake (st : Z * list Z) (it : item) : (Z * list Z) * done :=
  let '(now, fl) := st in
  let '(now', fl') := if (length fl <? limit)%nat then (now, fl)
                      else match pop_min fl with Some (m, r) => (Z.max now m, r) | None => (now, fl) end in
  let '(d, o) := eff it in
  ((now', (now' + d) :: fl'), {| istart := now'; iend := now' + d; iout := o |}).

Fixpoint schedule (st : Z * list Z) (its : list item) : list done :=
  match its with
  | [] => []
  | it :: r => let '(st', d) := intake st it in d :: schedule st' r
  end.
Definition run (its : list item) : list done := schedule (0, []) its.

Definition count_out (o : outcome) (ds : list done) : nat :=
  length (filter (fun d => match iout d, o with OOk, OOk | OFailed, OFailed | OTimedOut, OTimedOut => true | _, _ => false end) ds).
Definition in_flight_at (ds : list done) (t : Z) : nat := length (filter (fun d => (istart d <=? t) && (t <? iend d)) ds).
Definition max_in_flight (ds : list done) : nat := fold_right Nat.max 0%nat (map (fun d => in_flight_at ds (istart d)) ds).
Definition last_start (ds : list done) : Z := fold_right Z.max 0 (map istart ds).
Definition finish_time (ds : list done) : Z := fold_right Z.max 0 (map iend ds).

(* close() called at t_close: the source stream is dropped - and close returns - at the first completion-or-cancel instant >= cancel
   at which fewer than `limit` items are in flight *)
Definition t_cancel (ds : list done) (t_close : Z) : Z := Z.max t_close (last_start ds).
Definition candidates (ds : list done) (tc : Z) : list Z := tc :: filter (fun e => tc <=? e) (map iend ds).
Definition t_drop (ds : list done) (t_close : Z) : Z :=
  let tc := t_cancel ds t_close in
  let ok := filter (fun t => (in_flight_at ds t <? limit)%nat) (candidates ds tc) in
  fold_right Z.min (finish_time ds) ok.
Definition done_at (ds : list done) (t : Z) : nat := length (filter (fun d => iend d <=? t) ds).

(* what the correspondence check compares *)
Definition report (its : list item) (t_close : Z) : list Z :=
  let ds := run its in
  [Z.of_nat (count_out OOk ds); Z.of_nat (count_out OFailed ds); Z.of_nat (count_out OTimedOut ds);
   Z.of_nat (max_in_flight ds); Z.of_nat (done_at ds (t_drop ds t_close)); finish_time ds].
End Exec.

(* ---- the executor's status cell (C12): /repo/src/stream_executor.rs register_execution_start / report_scheduled_to_finish /
   register_execution_finish ---- *)
Inductive status := NotStarted | Running | ScheduledToFinish | ProgrammaticallyEnded | StreamEnded.
Inductive sop := SStart | SSched | SFinish.
Definition sstep (s : status) (o : sop) : status :=
  match o with
  | SStart => Running                                     (* store *)
  | SSched => match s with Running => ScheduledToFinish | x => x end      (* CAS Running -> ScheduledToFinish (a plain store before the fix: commit in /repo: finding F9) *)
  | SFinish => match s with                               (* CAS Running -> StreamEnded, else CAS ScheduledToFinish -> ProgrammaticallyEnded *)
               | Running => StreamEnded
               | ScheduledToFinish => ProgrammaticallyEnded
               | x => x                                   (* (the code would spin here: unreachable after SStart) *)
               end
  end.
Definition srun (ops : list sop) : status := fold_left sstep ops NotStarted.
Definition status_code (s : status) : Z :=
  match s with NotStarted => 0 | Running => 1 | ScheduledToFinish => 2 | ProgrammaticallyEnded => 3 | StreamEnded => 4 end.
Definition ended (s : status) : bool := match s with ProgrammaticallyEnded | StreamEnded => true | _ => false end.

(* trace of the correspondence check *)
Definition exec_trace (limit : nat) (tau errdelay : Z) (metrics : bool) (its : list item) (t_close : Z) : list Z :=
  let ds := run limit tau errdelay its in
  let c (k : nat) : Z := if metrics then Z.of_nat k else 0 in
  let n := Z.of_nat (length its) in
  [2; 0; 70; c (count_out OOk ds); c (count_out OFailed ds);
   2; 0; 71; c (count_out OTimedOut ds); Z.of_nat (count_out OFailed ds);
   2; 0; 72; Z.of_nat (max_in_flight ds); Z.of_nat (done_at ds (t_drop limit ds t_close));
   2; 0; 73; finish_time ds; 1;
   2; 0; 74; 1; n;
   2; 0; 75; status_code (srun [SStart; SFinish]); 0;
   2; 0; 78; Z.of_nat (count_out OFailed ds); Z.of_nat (count_out OFailed ds); 9].
(* the close callback runs once, after the last of the n items, and reads the status cell *)
Definition status_trace (ops : list sop) (n : Z) : list Z := [2; 0; 76; status_code (srun ops); 0;  2; 0; 77; 1; n;  9].
(* non-future executors: every item is processed synchronously inside the stream's `map` when the executor polls it *)
Definition exec_trace_sync (metrics : bool) (its : list item) : list Z :=
  let n := Z.of_nat (length its) in
  let f := Z.of_nat (length (filter fails its)) in
  let c (k : Z) : Z := if metrics then k else 0 in
  [2; 0; 70; c (n - f); c f;  2; 0; 71; 0; f;  2; 0; 72; Z.min 1 n; n;  2; 0; 73; 0; 1;  2; 0; 74; 1; n;  2; 0; 75; status_code (srun [SStart; SFinish]); 0;  2; 0; 78; f; f; 9].

(* ---- the Uni's close callback is latched over its MAX_STREAMS executors (uni.rs latch_callback_1p): a counter starts at M, every
   executor's end does fetch_sub(1), the one that reads 1 runs the callback ---- *)
Definition latch_fires (seen : nat) : bool := Nat.eqb seen 1.
Fixpoint latch_run (counter : nat) (ends : nat) : list bool :=       (* one entry per executor end: did it run the callback? *)
  match ends with O => [] | S e => latch_fires counter :: latch_run (counter - 1) e end.
Definition latch_trace (M : nat) (n : Z) : list Z :=
  [2; 0; 79; Z.of_nat (length (filter (fun b => b) (latch_run M M))); n;  2; 0; 80; Z.of_nat M; Z.of_nat M;  9].
