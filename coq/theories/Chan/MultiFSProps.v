(* The arc / full-sync Multi channel machine (MultiFS.v): every listener's ring only moves by the full-sync ring machine's own start /
   step, for every interleaving of producers, pollers, listener creations and removals - so the full-sync ring theorems hold per listener. *)
From RM Require Import RingModel FullSync Chan Multi MultiFS.
Import MFS.

Section MultiFSProps.
Variable N : Z.
Variable M : nat.
Local Notation mstepZ := (mstep N idz M).
Local Notation mstartZ := (mstart M).

Inductive mev := MStep (t : nat) | MStart (t : nat) (o : mop).
Definition mexec (s : mst) (e : mev) : mst := match e with MStep t => mstepZ s t | MStart t o => mstartZ s t o end.

Lemma rings_send_next s t v j i : rings (send_next M s t v j) i = rings s i.
Proof. unfold send_next. destruct (M <=? j)%nat; reflexivity. Qed.

(* one channel event = at most two ring events on each listener's ring *)
Lemma ring_mexec s e i : exists evs, rings (mexec s e) i = fold_left (fexecZ N) evs (rings s i).
Proof.
  assert (Hupd : forall (x : fsst) j evs, x = fold_left (fexecZ N) evs (rings s j) ->
            exists evs', upd (rings s) j x i = fold_left (fexecZ N) evs' (rings s i)).
  { intros x j evs Hx. unfold upd. destruct (Nat.eqb_spec i j) as [->|]; [exists evs; exact Hx|exists []; reflexivity]. }
  destruct e as [t|t o]; cbn.
  - unfold mstep. destruct (mthr s t) eqn:E; try (exists []; reflexivity);
      try (match type of E with _ = KC3 => idtac | _ = KC4 _ => idtac | _ = KD1 _ => idtac | _ = KD6 _ => idtac | _ = KSL _ => idtac end;
           solve [repeat match goal with
                         | |- context[if ?b then _ else _] => destruct b
                         | |- context[match ?x with _ => _ end] => destruct x
                         end; exists []; reflexivity]).
    + destruct (used_at s j =? MAXID); [exists []; reflexivity|]. cbn. apply (Hupd _ _ [Start t (OpPub v)]). reflexivity.
    + unfold rstep_i. destruct (ridle _ t).
      * destruct (rres _); try destruct (_ <=? 1); cbn; rewrite ?rings_send_next; cbn; apply (Hupd _ _ [Step t]); reflexivity.
      * cbn. apply (Hupd _ _ [Step t]); reflexivity.
    + destruct (wstep (msm s) w) as [m' [w'|]]; [exists []; reflexivity|].
      destruct full; [cbn; apply (Hupd _ _ [Start t (OpPub v)]); reflexivity|rewrite rings_send_next; exists []; reflexivity].
    + destruct (ridle _ t); [unfold after_mcons; destruct (rres _)|]; cbn; apply (Hupd _ _ [Start t OpCons; Step t]); reflexivity.
    + unfold rstep_i. destruct (ridle _ t); [unfold after_mcons; destruct (rres _)|]; cbn; apply (Hupd _ _ [Step t]); reflexivity.
    + destruct (keep _ _); exists []; reflexivity.
    + destruct r; try (exists []; reflexivity); [destruct (wakers _ _)|destruct (wlock _)]; exists []; reflexivity.
    + destruct (notified _ _); exists []; reflexivity.
    + destruct (vacant s); exists []; reflexivity.
  - unfold mstart. destruct (mthr s t); try (exists []; reflexivity).
    destruct o; try (exists []; reflexivity).
    + rewrite rings_send_next. exists []; reflexivity.
    + destruct (alive s i0); [cbn; apply (Hupd _ _ [Start t OpCons]); reflexivity|exists []; reflexivity].
    + destruct (alive s i0); exists []; reflexivity.
    + destruct (alive s i0); exists []; reflexivity.
    + destruct (existsb _ _); exists []; reflexivity.
    + destruct (alive s i0); exists []; reflexivity.
    + destruct (last_created _ _) as [i0|]; [|exists []; reflexivity].
      destruct (alive s i0); [cbn; apply (Hupd _ _ [Start t OpCons]); reflexivity|exists []; reflexivity].
Qed.

Theorem listener_ring_is_a_ring_run mevs i :
  exists evs, rings (fold_left mexec mevs (minit M)) i = fold_left (fexecZ N) evs finit.
Proof.
  assert (G : forall s, exists evs, rings (fold_left mexec mevs s) i = fold_left (fexecZ N) evs (rings s i)).
  { induction mevs as [|e mevs IH]; intros s; [exists []; reflexivity|]. cbn [fold_left].
    destruct (IH (mexec s e)) as [e2 H2]. destruct (ring_mexec s e i) as [e1 H1]. exists (e1 ++ e2). rewrite fold_left_app, <- H1. exact H2. }
  destruct (G (minit M)) as [evs H]. exists evs. exact H.
Qed.

(* hence, per listener: what its ring handed out is, in order, a prefix of what its ring accepted - each event at most once,
   in acceptance order, nothing invented (C03's per-listener core; Hypothesis: 0 < N) *)
Theorem listener_exactly_once (HN : 0 < N) mevs i :
  let r := rings (fold_left mexec mevs (minit M)) i in
  yielded_of (flog r) = firstn (length (yielded_of (flog r))) (fpublished r).
Proof. cbn zeta. destruct (listener_ring_is_a_ring_run mevs i) as [evs ->]. apply (fs_yielded_prefix N HN). Qed.

(* ... and the full-sync invariant (mutual exclusion on the ring's flag, capacity, buffer = log) holds of every listener's ring *)
Theorem listener_ring_invariant (HN : 0 < N) mevs i : FInv N (rings (fold_left mexec mevs (minit M)) i).
Proof. destruct (listener_ring_is_a_ring_run mevs i) as [evs ->]. apply (finv_reachable N HN). Qed.

End MultiFSProps.
