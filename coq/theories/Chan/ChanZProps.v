(* In every run of the zero-copy Uni channel machine (ChanZ.v) both components of its queue - the free list of the payload pool and
   the ring of slot ids - only ever move by their own start / step events: they are runs of the ring machine (resp. of the full-sync
   ring), so every theorem about those machines (C01 exactly-once / FIFO of the ids, C02 capacity and justified full / empty, C13
   ownership of pool slots, C15 wrap refinement ...) holds of them inside the channel, for every interleaving. *)
From RM Require Import RingModel FullSync Chan ZeroCopy ZcUni ChanZ.
Import ZC.

Section ChanZProps.
Variable Q : Type.
Variable qstep : Q -> nat -> Q.
Variable qstart : Q -> nat -> op -> Q.
Variable qidle : Q -> nat -> bool.
Variable qlog : Q -> list (nat * res).
Variable qobs : Q -> nat -> list Z.
Variable lha : bool.
Variable qlen_now : Q -> Z.
Variable M k : nat.
Variable wake_rule : Z -> option nat.

Local Notation ust := (ust Q).
Local Notation ustep := (ustep Q qstep qstart qidle qlog lha qlen_now).
Local Notation ustart := (ustart Q qstart lha).
Local Notation urelease := (urelease Q qstart).
Local Notation cexec := (cexec ust ustep ustart (uidle Q) (ulog Q) urelease M k wake_rule).

Definition qexec0 (x : Q) (e : ev) : Q := match e with Step t => qstep x t | Start t o => qstart x t o end.
Definition comps (x y : ust) : Prop :=
  (exists evs, ua Q y = fold_left qexec0 evs (ua Q x)) /\ (exists evs, ub Q y = fold_left qexec0 evs (ub Q x)).

Lemma comps_refl x : comps x x.
Proof. split; exists []; reflexivity. Qed.
Lemma comps_trans x y z : comps x y -> comps y z -> comps x z.
Proof.
  intros [[e1 H1] [f1 G1]] [[e2 H2] [f2 G2]]. split; [exists (e1 ++ e2)|exists (f1 ++ f2)]; rewrite fold_left_app; congruence.
Qed.

Ltac same := first [apply comps_refl | (split; exists []; reflexivity)].
Ltac one_a e := split; [exists e; reflexivity|exists []; reflexivity].
Ltac one_b e := split; [exists []; reflexivity|exists e; reflexivity].

Lemma comps_ustep x t : comps x (ustep x t).
Proof.
  unfold ZcUni.ustep. destruct (uthr Q x t) eqn:E.
  - same.
  - destruct (qidle _ t); [destruct (lastres Q qlog _)|]; cbn; try (one_a [Step t]).
    split; [exists [Step t]; reflexivity|exists [Start t (OpPub v0)]; reflexivity].
  - destruct (qidle _ t); [destruct (lastres Q qlog _)|]; cbn; one_b [Step t].
  - destruct (qidle _ t); [destruct (lastres Q qlog _)|]; cbn; one_b [Step t].
  - destruct (qidle _ t); cbn; one_a [Step t].
  - destruct lha; [destruct (qidle _ t); [destruct (lastres Q qlog _)|]|]; cbn; try (one_b [Step t]); same.
Qed.
Lemma comps_ustart x t o : comps x (ustart x t o).
Proof.
  unfold ZcUni.ustart. destruct (uthr Q x t); try same.
  destruct o; [| |destruct lha]; cbn; try same.
  - one_a [Start t OpCons].
  - one_b [Start t OpCons].
  - one_b [Start t OpLen].
Qed.
Lemma comps_urelease x t : comps x (urelease x t).
Proof.
  unfold ZcUni.urelease. destruct (uthr Q x t); try same. destruct (uheld Q x t); [|same].
  cbn. one_a [Start t (OpPub z)].
Qed.

Lemma q_cancel_nextZ (s : cst ust) t j : q ust (cancel_next ust M s t j) = q ust s.
Proof. unfold cancel_next. destruct (M <=? j)%nat; reflexivity. Qed.

Ltac via_step t := first [same | apply comps_ustep | (eapply comps_trans; [apply comps_ustep|apply comps_urelease])
                          | (eapply comps_trans; [apply comps_ustart|apply comps_ustep])
                          | (eapply comps_trans; [eapply comps_trans; [apply comps_ustart|apply comps_ustep]|apply comps_urelease]) ].

Lemma comps_cexec (s : cst ust) e : comps (q ust s) (q ust (cexec s e)).
Proof.
  destruct e as [t|t o]; cbn.
  - unfold cstep. destruct (cthr ust s t) eqn:E.
    + same.
    + destruct (uidle Q _ t); [unfold after_send; destruct (qres _ _ _); try destruct (wake_rule _)|]; cbn [q mk]; via_step t.
    + destruct (wstep (m ust s) w) as [m' [w'|]]; cbn [q mk]; same.
    + destruct (uidle Q _ t); [unfold after_cons; destruct (qres _ _ _)|]; cbn [q mk]; via_step t.
    + destruct (uidle Q _ t); [unfold after_cons; destruct (qres _ _ _)|]; cbn [q mk]; via_step t.
    + destruct (keep _ _); cbn; same.
    + destruct r; cbn; try same; [destruct (wakers _ _)|destruct (wlock _)]; cbn; same.
    + destruct (notified _ _); cbn; same.
    + destruct (j <? k)%nat; cbn; same.
    + cbn. same.
    + destruct (wstep (m ust s) w) as [m' [w'|]]; cbn [q mk]; [same|]. rewrite q_cancel_nextZ. same.
    + destruct (uidle Q _ t); [destruct (qres _ _ _)|]; cbn [q mk]; via_step t.
    + destruct (uidle Q _ t); cbn [q mk]; via_step t.
  - unfold cstart. destruct (cthr ust s t); try same.
    destruct o; cbn [q mk setpc]; try apply comps_ustart; try same. rewrite q_cancel_nextZ. same.
Qed.

Theorem zc_components_reachable q0 cevs :
  comps q0 (q ust (fold_left cexec cevs (cinit ust k q0))).
Proof.
  assert (G : forall s, comps (q ust s) (q ust (fold_left cexec cevs s))).
  { induction cevs as [|e cevs IH]; intros s; [same|]. cbn [fold_left].
    eapply comps_trans; [apply comps_cexec|apply IH]. }
  apply (G (cinit ust k q0)).
Qed.

(* any property of the queue component that its three kinds of moves preserve holds in every channel run *)
Section QInv.
Variable P : ust -> Prop.
Hypothesis Pstep : forall x t, P x -> P (ustep x t).
Hypothesis Pstart : forall x t o, P x -> P (ustart x t o).
Hypothesis Prel : forall x t, P x -> P (urelease x t).

Lemma qinv_cexec (s : cst ust) e : P (q ust s) -> P (q ust (cexec s e)).
Proof.
  intros H. destruct e as [t|t o]; cbn.
  - unfold cstep. destruct (cthr ust s t) eqn:E.
    + exact H.
    + destruct (uidle Q _ t); [unfold after_send; destruct (qres _ _ _); try destruct (wake_rule _)|]; cbn [q mk]; auto.
    + destruct (wstep (m ust s) w) as [m' [w'|]]; cbn [q mk]; exact H.
    + destruct (uidle Q _ t); [unfold after_cons; destruct (qres _ _ _)|]; cbn [q mk]; auto.
    + destruct (uidle Q _ t); [unfold after_cons; destruct (qres _ _ _)|]; cbn [q mk]; auto.
    + destruct (keep _ _); cbn; exact H.
    + destruct r; cbn; try exact H; [destruct (wakers _ _)|destruct (wlock _)]; cbn; exact H.
    + destruct (notified _ _); cbn; exact H.
    + destruct (j <? k)%nat; cbn; exact H.
    + cbn. exact H.
    + destruct (wstep (m ust s) w) as [m' [w'|]]; cbn [q mk]; [exact H|]. rewrite q_cancel_nextZ. exact H.
    + destruct (uidle Q _ t); [destruct (qres _ _ _)|]; cbn [q mk]; auto.
    + destruct (uidle Q _ t); cbn [q mk]; auto.
  - unfold cstart. destruct (cthr ust s t); try exact H.
    destruct o; cbn [q mk setpc]; auto. rewrite q_cancel_nextZ. exact H.
Qed.

Theorem zc_q_invariant q0 cevs : P q0 -> P (q ust (fold_left cexec cevs (cinit ust k q0))).
Proof.
  intros H0. assert (G : forall s, P (q ust s) -> P (q ust (fold_left cexec cevs s))).
  { induction cevs as [|e cevs IH]; intros s Hs; [exact Hs|]. cbn [fold_left]. apply IH. now apply qinv_cexec. }
  apply G. exact H0.
Qed.
End QInv.

End ChanZProps.
