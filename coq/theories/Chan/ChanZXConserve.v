(* SLOT CONSERVATION for the zero-copy atomic Uni channel WITH its reserve API (Chan/ChanZX.v over Chan/ChanZ.v over Alloc/ZcUni.v,
   instance Chan/ChanZXInst.v): in every state of every WELL-FORMED run `zx_run N M k ws wr evs` each of the N slot ids 0..N-1 is in
   exactly one of FIVE places:
     1. the free list A                      positions head A <= i < tail A of `published A`   (ZcConserve.inring)
     2. the id ring B                        likewise
     3. held by a consumer                   `uheld t = Some id`                                (ZcConserve.heldl)
     4. in transit inside a composite operation
          of the base machine                pc `UEnqB v id` (allocated, not yet in B) / `URel id` (dropped, not yet in A)   (ZcConserve.transl)
          of the layer                       pc `ZSRes k id` (publication of a reserved id, not yet in B) /
                                             pc `ZCRes k`    (give-back of the reserved id of k, not yet in A)                (ltransl)
     5. RESERVED                             `zres s k = Some id` and no thread stands at `ZSRes k _` / `ZCRes k`              (at_rest / resl)
   Cut points of the layer (read off ChanZX.zxstep): the table entry of k is WRITTEN in the step that completes the allocation
   (`ZRes k v`, answer RGot id: the same step that takes id out of A), and CLEARED in the step that completes the publication
   (`ZSRes k id`, answer ROk: the same step that appends id to B) resp. the give-back (`ZCRes k`: the step that appends id to A).  Between
   the start of `ZoSendRes k` / `ZoCancelRes k` and that step the entry is still in the table while the id is "in transit": custody (4-layer)
   is therefore "entry of a name some thread is sending / cancelling", custody (5) "entry of a name nobody is sending / cancelling".

   The discipline on reservation NAMES (`zxwf`): a name is reserved only while it is free and idle, and send / cancel of a name are
   issued one at a time per name.  It is a model-validity boundary: the table has ONE entry per name (the harness's key), so a second
   `ZoReserve k` overwrites - and so loses - the id the first one got (Example ex_double_reserve_loses_a_slot), and a send racing a
   cancel of the same name puts the id into BOTH rings (Example ex_send_racing_cancel_duplicates_a_slot).

   Method.  The invariant `PU lt rs x` is ZcConserve's `ZI` on the queue component x with the layer's thread pcs lt and table rs as
   parameters: the phase of a thread that is inside a layer operation is read off its layer pc, and the table entries are one more
   summand of the permutation (internally ALL entries are counted with the table; `split_busy` then moves the entries of the names in
   progress over to the threads that carry them).  The base machine's steps are ZcConserve's (same ring one-step summaries, same
   rewriting lemmas of ZcSoloA, same script); the layer's steps move the rings by the same summaries. *)
From Coq Require Import Permutation.
From RM Require Import RingModel RingInv RingProps RingCov RingSolo FullSync Chan ZeroCopy PoolRun ZcUni ChanZ ChanX ChanZProps ChanZInst
                       ZcSoloA ZcConserve ChanZX ChanZXProps ChanZXInst.
Import ZC.

Ltac perm_count :=
  apply (proj2 (Permutation_count_occ Z.eq_dec _ _)); let z := fresh "z" in intro z;
  repeat match goal with H : Permutation _ _ |- _ => let H' := fresh in pose proof (proj1 (Permutation_count_occ Z.eq_dec _ _) H z) as H'; clear H end;
  rewrite ?count_occ_app in *; cbn [count_occ] in *; repeat destruct (Z.eq_dec _ _); try lia.

(* ------------------------------------------------------------------------------------------------ the layer's bookkeeping *)
(* the table entry of a name, as a list *)
Definition resl (rs : nat -> option Z) (k : nat) : list Z := match rs k with Some id => [id] | None => [] end.
(* the name a layer pc has exclusive use of: it is going to write (ZRes) or clear (ZSRes, ZCRes) its table entry *)
Definition busy_on (p : zxpc) (j : nat) : Prop := match p with ZRes j' _ | ZSRes j' _ | ZCRes j' => j' = j | _ => False end.
(* the name whose entry a layer pc carries towards a ring *)
Definition opname (p : zxpc) : option nat := match p with ZSRes j _ | ZCRes j => Some j | _ => None end.
(* no two threads operate on the same name *)
Definition uniq (lt : nat -> zxpc) : Prop := forall t t' j, busy_on (lt t) j -> busy_on (lt t') j -> t = t'.

Lemma opname_busy p j : opname p = Some j -> busy_on p j.
Proof. destruct p; cbn; congruence. Qed.
Lemma uniq_release lt t p' : uniq lt -> (forall j, busy_on p' j -> busy_on (lt t) j) -> uniq (upd lt t p').
Proof.
  intros U H a b j Ha Hb. destruct (Nat.eq_dec a t) as [->|Na], (Nat.eq_dec b t) as [->|Nb]; auto;
    rewrite ?upd_same, ?upd_other in Ha by assumption; rewrite ?upd_same, ?upd_other in Hb by assumption.
  - apply H in Ha. exact (U _ _ _ Ha Hb).
  - apply H in Hb. exact (U _ _ _ Ha Hb).
  - exact (U _ _ _ Ha Hb).
Qed.
Lemma uniq_acquire lt t p' : uniq lt -> (forall j, busy_on p' j -> forall u, ~ busy_on (lt u) j) -> uniq (upd lt t p').
Proof.
  intros U H a b j Ha Hb. destruct (Nat.eq_dec a t) as [->|Na], (Nat.eq_dec b t) as [->|Nb]; auto;
    rewrite ?upd_same, ?upd_other in Ha by assumption; rewrite ?upd_same, ?upd_other in Hb by assumption.
  - exfalso. exact (H _ Ha _ Hb).
  - exfalso. exact (H _ Hb _ Ha).
  - exact (U _ _ _ Ha Hb).
Qed.

(* the entries of the names in progress belong to the threads that carry them: a finite bijection *)
Lemma split_busy (f : nat -> option nat) (g : nat -> list Z) :
  (forall t t' j, f t = Some j -> f t' = Some j -> t = t') ->
  forall ths ks, NoDup ths -> NoDup ks -> (forall t j, In t ths -> f t = Some j -> In j ks) ->
  exists ks', NoDup ks' /\ (forall k, In k ks' <-> In k ks /\ forall t, In t ths -> f t <> Some k) /\
    Permutation (flat_map g ks) (flat_map (fun t => match f t with Some j => g j | None => [] end) ths ++ flat_map g ks').
Proof.
  intros Hinj ths. induction ths as [|t ths IH]; intros ks Hn Hk Hin.
  - exists ks. split; [exact Hk|]. split; [|reflexivity]. intros k. split; [intros H; split; [exact H|intros t []]|tauto].
  - inversion Hn as [|? ? Ht Hn']; subst.
    destruct (IH ks Hn' Hk (fun u j Hu => Hin u j (or_intror Hu))) as (ks1 & Hk1 & Hm1 & Hp1).
    destruct (f t) as [j|] eqn:Ef.
    + assert (Hj1 : In j ks1).
      { apply Hm1. split; [apply (Hin t j); [now left|exact Ef]|]. intros u Hu E. apply Ht. now rewrite (Hinj t u j Ef E). }
      destruct (in_split _ _ Hj1) as (l1 & l2 & ->).
      exists (l1 ++ l2). split; [exact (NoDup_remove_1 _ _ _ Hk1)|]. split.
      * intros k. pose proof (NoDup_remove_2 _ _ _ Hk1) as Hnj. split.
        -- intros Hkk. assert (Hk' : In k (l1 ++ j :: l2)).
           { apply in_app_or in Hkk. apply in_or_app. destruct Hkk; [now left|right; now right]. }
           apply Hm1 in Hk'. destruct Hk' as [H1 H2]. split; [exact H1|].
           intros u [<-|Hu]; [|now apply H2]. rewrite Ef. intros E. injection E as ->. contradiction.
        -- intros [H1 H2]. assert (Hk' : In k (l1 ++ j :: l2)) by (apply Hm1; split; [exact H1|intros u Hu; apply H2; now right]).
           apply in_app_or in Hk'. apply in_or_app. destruct Hk' as [|[<-|]]; [now left| |now right].
           exfalso. apply (H2 t); [now left|exact Ef].
      * cbn [flat_map]. rewrite Ef, Hp1, !flat_map_app. cbn [flat_map]. perm_count.
    + exists ks1. split; [exact Hk1|]. split.
      * intros k. rewrite Hm1. split; intros [H1 H2]; (split; [exact H1|]).
        -- intros u [<-|Hu]; [rewrite Ef; discriminate|now apply H2].
        -- intros u Hu. apply H2. now right.
      * cbn [flat_map]. rewrite Ef. exact Hp1.
Qed.

(* ------------------------------------------------------------------------------------------------ conservation with the table *)
Section XConserve.
Variable N : Z.
Hypothesis Npos : 0 < N.
Local Notation ust := (ust st).
Local Notation step := (stepZ N).
Local Notation lastres := (lastres st log).
Local Notation astep := (astep N).
Local Notation reach := (reach N).

(* free list ++ id ring ++ custody of the threads ++ table entries is a permutation of 0..N-1
   (ths: a duplicate-free list of threads containing every thread with custody of something or carrying the entry of a name;
    ks: a duplicate-free list of names containing every name with an entry) *)
Definition XCons (lt : nat -> zxpc) (rs : nat -> option Z) (x : ust) : Prop :=
  exists ths ks, NoDup ths /\ NoDup ks /\
    (forall t, ~ In t ths -> owned x t = [] /\ opname (lt t) = None) /\
    (forall k, ~ In k ks -> rs k = None) /\
    Permutation (ids_upto N) (inring (ua _ x) ++ inring (ub _ x) ++ flat_map (owned x) ths ++ flat_map (resl rs) ks).

(* a move that changes the custody of one thread and the entry of one name, and keeps their union with the two rings *)
Lemma xc_move lt rs x lt' rs' x' t j : XCons lt rs x ->
  (forall u, u <> t -> owned x' u = owned x u /\ opname (lt' u) = opname (lt u)) ->
  (forall k, k <> j -> rs' k = rs k) ->
  Permutation (inring (ua _ x) ++ inring (ub _ x) ++ owned x t ++ resl rs j)
              (inring (ua _ x') ++ inring (ub _ x') ++ owned x' t ++ resl rs' j) ->
  XCons lt' rs' x'.
Proof.
  intros (ths0 & ks0 & Hn0 & Hk0 & Ho0 & Hr0 & Hp0) Hou Hrk Hperm.
  assert (G1 : exists ths, NoDup ths /\ In t ths /\ (forall u, ~ In u ths -> owned x u = [] /\ opname (lt u) = None) /\
                 Permutation (ids_upto N) (inring (ua _ x) ++ inring (ub _ x) ++ flat_map (owned x) ths ++ flat_map (resl rs) ks0)).
  { destruct (in_dec Nat.eq_dec t ths0) as [Hin|Hnin]; [exists ths0; auto|].
    exists (t :: ths0). split; [now constructor|]. split; [now left|]. split.
    - intros u Hu. apply Ho0. intros Hin. apply Hu. now right.
    - cbn [flat_map]. rewrite (proj1 (Ho0 t Hnin)). exact Hp0. }
  clear ths0 Hn0 Ho0 Hp0. destruct G1 as (ths & Hn & Hin & Ho & Hp1).
  assert (G2 : exists ks, NoDup ks /\ In j ks /\ (forall k, ~ In k ks -> rs k = None) /\
                 Permutation (ids_upto N) (inring (ua _ x) ++ inring (ub _ x) ++ flat_map (owned x) ths ++ flat_map (resl rs) ks)).
  { destruct (in_dec Nat.eq_dec j ks0) as [Hjn|Hnin]; [exists ks0; auto|].
    exists (j :: ks0). split; [now constructor|]. split; [now left|]. split.
    - intros k Hk. apply Hr0. intros Hi. apply Hk. now right.
    - cbn [flat_map]. unfold resl at 1. rewrite (Hr0 j Hnin). exact Hp1. }
  clear ks0 Hk0 Hr0 Hp1. destruct G2 as (ks & Hk & Hjn & Hr & Hp).
  exists ths, ks. split; [exact Hn|]. split; [exact Hk|]. split; [|split].
  - intros u Hu. assert (Hne : u <> t) by (intros ->; contradiction). destruct (Hou u Hne) as [-> ->]. now apply Ho.
  - intros k Hkn. assert (Hne : k <> j) by (intros ->; contradiction). rewrite (Hrk k Hne). now apply Hr.
  - destruct (flat_map_change (owned x) (owned x') ths t Hn Hin (fun u Hu => proj1 (Hou u Hu))) as (R1 & A1 & A2).
    assert (Hrl : forall k, k <> j -> resl rs' k = resl rs k) by (intros k Hne; unfold resl; now rewrite (Hrk k Hne)).
    destruct (flat_map_change (resl rs) (resl rs') ks j Hk Hjn Hrl) as (R2 & B1 & B2).
    rewrite A2, B2. rewrite A1, B1 in Hp. perm_count.
Qed.

(* reservations + contents of a ring never exceed the capacity (ZcConserve.res_bound, for any custody function and frame) *)
Lemma gen_bound (own : nat -> list Z) (R : list Z) (a b x : st) ths :
  NoDup ths -> (forall t, ~ In t ths -> own t = []) ->
  Permutation (ids_upto N) (inring a ++ inring b ++ flat_map own ths ++ R) ->
  Inv N x -> Cov x -> x = a \/ x = b ->
  (forall u i, pslot (thr x u) = Some i -> (1 <= length (own u))%nat) -> etail x - head x <= N.
Proof.
  intros Hn Hout Hp I Cv Hx Hown. pose proof (i_ord _ _ I) as Hord.
  destruct (cov_holders x Cv (Z.to_nat (etail x - tail x)) ltac:(lia)) as (us & Hl & Hd & Hu).
  assert (Hincl : incl us ths).
  { intros u Hin. destruct (in_dec Nat.eq_dec u ths) as [|Hnin]; [assumption|exfalso].
    destruct (Hu u Hin) as (i & _ & Hp'). specialize (Hown u i Hp'). rewrite (Hout u Hnin) in Hown. cbn in Hown. lia. }
  assert (Hge : (length us <= length (flat_map own ths))%nat).
  { apply flat_map_length_ge; [exact Hd|exact Hincl|]. intros u Hin. destruct (Hu u Hin) as (i & _ & Hp'). exact (Hown u i Hp'). }
  apply Permutation_length in Hp. rewrite !app_length in Hp. unfold ids_upto in Hp. rewrite map_length, seq_length in Hp.
  pose proof (inring_length N x I) as Hlen. destruct Hx; subst x; lia.
Qed.

End XConserve.

(* ------------------------------------------------------------------------------------------------ the invariant of the queue component *)
Section PUInv.
Variable N : Z.
Hypothesis Npos : 0 < N.
Local Notation ust := (ust st).
Local Notation step := (stepZ N).
Local Notation lastres := (lastres st log).
Local Notation astep := (astep N).
Local Notation reach := (reach N).

(* which component a thread is inside, and doing what: for a thread outside the layer ZcConserve's phase of its composite pc; inside a
   layer operation the composite pc is idle and the ring operation is the layer's; what the table says about the name it operates on *)
Definition lphase_of (p : zxpc) (rs : nat -> option Z) (c : upc) (pa pb : pc) : Prop :=
  match p with
  | ZN => phase_of c pa pb
  | ZRes j _ => c = UIdle /\ is_cons pa = true /\ pb = Idle /\ rs j = None
  | ZSRes j id => c = UIdle /\ pa = Idle /\ pval pb = Some id /\ rs j = Some id
  | ZCRes j => c = UIdle /\ (exists id, pval pa = Some id /\ rs j = Some id) /\ pb = Idle
  | ZSResW _ _ | ZNop _ => c = UIdle /\ pa = Idle /\ pb = Idle
  end.

Lemma lphase_rs p rs rs' c pa pb : (forall k, busy_on p k -> rs' k = rs k) -> lphase_of p rs c pa pb -> lphase_of p rs' c pa pb.
Proof.
  intros H. destruct p; cbn [lphase_of busy_on] in *; auto.
  - rewrite (H k eq_refl). auto.
  - rewrite (H k eq_refl). auto.
  - rewrite (H k eq_refl). auto.
Qed.
Lemma lphase_idle p rs c pa pb : p <> ZN -> lphase_of p rs c pa pb -> c = UIdle.
Proof. destruct p; cbn; try tauto; congruence. Qed.

Record PU (lt : nat -> zxpc) (rs : nat -> option Z) (x : ust) : Prop := {
  p_ra  : reach (ua _ x);
  p_rb  : reach (ub _ x);
  p_ph  : forall t, lphase_of (lt t) rs (uthr _ x t) (thr (ua _ x) t) (thr (ub _ x) t);
  p_2a  : noP2 (ua _ x);
  p_2b  : noP2 (ub _ x);
  p_now : forall t, uthr _ x t = UDeqB -> uheld _ x t = None;
  p_cons : XCons N lt rs x
}.

(* the entry a thread of the layer carries towards a ring *)
Definition ltrl (lt : nat -> zxpc) (rs : nat -> option Z) (t : nat) : list Z :=
  match opname (lt t) with Some j => resl rs j | None => [] end.
Definition has_entry (rs : nat -> option Z) (k : nat) : bool := match rs k with Some _ => true | None => false end.
Definition at_rest (lt : nat -> zxpc) (k : nat) : Prop := forall t, opname (lt t) <> Some k.

Lemma flat_map_resl_filter rs ks : flat_map (resl rs) (filter (has_entry rs) ks) = flat_map (resl rs) ks.
Proof.
  induction ks as [|k ks IH]; [reflexivity|]. cbn [filter flat_map]. unfold has_entry at 1, resl at 2.
  destruct (rs k) eqn:E; cbn [flat_map]; rewrite IH; [unfold resl at 1; now rewrite E|reflexivity].
Qed.

(* the FIVE-place form: the entries of the names in progress are in transit with the threads that carry them *)
Lemma pu_five lt rs x : PU lt rs x -> uniq lt ->
  exists ths ks, NoDup ths /\ NoDup ks /\
    (forall t, ~ In t ths -> owned x t = [] /\ opname (lt t) = None) /\
    (forall k, In k ks <-> (exists id, rs k = Some id) /\ at_rest lt k) /\
    Permutation (ids_upto N) (inring (ua _ x) ++ inring (ub _ x) ++ flat_map (owned x) ths ++ flat_map (ltrl lt rs) ths ++ flat_map (resl rs) ks).
Proof.
  intros Z U. destruct (p_cons _ _ _ Z) as (ths & ks & Hn & Hk & Ho & Hr & Hp).
  assert (Hinj : forall t t' j, opname (lt t) = Some j -> opname (lt t') = Some j -> t = t').
  { intros t t' j H1 H2. exact (U t t' j (opname_busy _ _ H1) (opname_busy _ _ H2)). }
  assert (Hent : forall t j, opname (lt t) = Some j -> exists id, rs j = Some id).
  { intros t j H. pose proof (p_ph _ _ _ Z t) as P. destruct (lt t); cbn in H; try discriminate; injection H as ->; cbn [lphase_of] in P.
    - exists id. tauto.
    - destruct P as (_ & (id & _ & E) & _). eauto. }
  assert (Hin : forall t j, In t ths -> opname (lt t) = Some j -> In j ks).
  { intros t j _ H. destruct (in_dec Nat.eq_dec j ks) as [|Hnin]; [assumption|]. destruct (Hent t j H) as [id E]. rewrite (Hr j Hnin) in E. discriminate. }
  destruct (split_busy (fun t => opname (lt t)) (resl rs) Hinj ths ks Hn Hk Hin) as (ks' & Hk' & Hm & Hs).
  exists ths, (filter (has_entry rs) ks'). split; [exact Hn|]. split; [now apply NoDup_filter|]. split; [exact Ho|]. split.
  - intros k. rewrite filter_In, Hm. unfold has_entry, at_rest. split.
    + intros [[H1 H2] H3]. split; [destruct (rs k); [eauto|discriminate]|].
      intros t. destruct (in_dec Nat.eq_dec t ths) as [Hi|Hni]; [now apply H2|]. rewrite (proj2 (Ho t Hni)). discriminate.
    + intros [[id E] H2]. split; [split|]; [|intros t _; apply H2|now rewrite E].
      destruct (in_dec Nat.eq_dec k ks) as [|Hnin]; [assumption|]. rewrite (Hr k Hnin) in E. discriminate.
  - rewrite flat_map_resl_filter. rewrite Hp. do 3 apply Permutation_app_head. exact Hs.
Qed.

Lemma pu_bounds lt rs x : PU lt rs x -> uniq lt -> etail (ua _ x) - head (ua _ x) <= N /\ etail (ub _ x) - head (ub _ x) <= N.
Proof.
  intros Z U. destruct (pu_five lt rs x Z U) as (ths & ks & Hn & Hk & Ho & _ & Hp).
  destruct (reach_invcov N Npos _ (p_ra _ _ _ Z)) as [Ia Ca]. destruct (reach_invcov N Npos _ (p_rb _ _ _ Z)) as [Ib Cb].
  assert (Hp' : Permutation (ids_upto N) (inring (ua _ x) ++ inring (ub _ x) ++ flat_map (fun t => owned x t ++ ltrl lt rs t) ths ++ flat_map (resl rs) ks)).
  { rewrite Hp. do 2 apply Permutation_app_head. rewrite app_assoc. apply Permutation_app_tail. symmetry. apply flat_map_app_perm. }
  assert (Hout : forall t, ~ In t ths -> owned x t ++ ltrl lt rs t = []).
  { intros t Ht. destruct (Ho t Ht) as [E1 E2]. unfold ltrl. now rewrite E1, E2. }
  split.
  - apply (gen_bound N Npos _ _ _ _ (ua _ x) ths Hn Hout Hp' Ia Ca (or_introl eq_refl)). intros u i Hs.
    pose proof (p_ph _ _ _ Z u) as P. rewrite app_length. unfold owned, transl, ltrl. rewrite app_length.
    destruct (lt u); cbn [lphase_of opname] in *.
    + unfold phase_of in P. destruct (uthr _ x u); destruct P as [P1 P2]; try (rewrite P1 in Hs; discriminate); try (cbn; lia).
      destruct (thr (ua _ x) u); cbn in *; discriminate.
    + destruct P as (_ & P1 & _). destruct (thr (ua _ x) u); cbn in *; discriminate.
    + destruct P as (_ & P1 & _). rewrite P1 in Hs. discriminate.
    + destruct P as (_ & P1 & _). rewrite P1 in Hs. discriminate.
    + destruct P as (_ & (id & _ & E) & _). unfold resl. rewrite E. cbn. lia.
    + destruct P as (_ & P1 & _). rewrite P1 in Hs. discriminate.
  - apply (gen_bound N Npos _ _ _ _ (ub _ x) ths Hn Hout Hp' Ib Cb (or_intror eq_refl)). intros u i Hs.
    pose proof (p_ph _ _ _ Z u) as P. rewrite app_length. unfold owned, transl, ltrl. rewrite app_length.
    destruct (lt u); cbn [lphase_of opname] in *.
    + unfold phase_of in P. destruct (uthr _ x u); destruct P as [P1 P2]; try (rewrite P2 in Hs; discriminate); try (cbn; lia);
        destruct (thr (ub _ x) u); cbn in *; discriminate.
    + destruct P as (_ & _ & P1 & _). rewrite P1 in Hs. discriminate.
    + destruct P as (_ & _ & _ & E). unfold resl. rewrite E. cbn. lia.
    + destruct P as (_ & _ & P1). rewrite P1 in Hs. discriminate.
    + destruct P as (_ & _ & P1). rewrite P1 in Hs. discriminate.
    + destruct P as (_ & _ & P1). rewrite P1 in Hs. discriminate.
Qed.

(* re-establishing the invariant after a move of thread t that may also change its layer pc and the entry of name j *)
Lemma pu_update lt rs x lt' rs' a' b' p' th' l' h' t j : PU lt rs x ->
  reach a' -> reach b' -> noP2 a' -> noP2 b' ->
  (forall u, u <> t -> thr a' u = thr (ua _ x) u /\ thr b' u = thr (ub _ x) u /\ th' u = uthr _ x u /\ h' u = uheld _ x u /\ lt' u = lt u) ->
  (forall k, k <> j -> rs' k = rs k) ->
  ((forall u, u <> t -> ~ busy_on (lt u) j) \/ rs' j = rs j) ->
  lphase_of (lt' t) rs' (th' t) (thr a' t) (thr b' t) ->
  (th' t = UDeqB -> h' t = None) ->
  Permutation (inring (ua _ x) ++ inring (ub _ x) ++ owned x t ++ resl rs j)
              (inring a' ++ inring b' ++ owned (umk st a' b' p' th' l' h') t ++ resl rs' j) ->
  PU lt' rs' (umk st a' b' p' th' l' h').
Proof.
  intros Z Ra Rb H2a H2b Ho Hrk Hj Hph Hnow Hperm. constructor; cbn [ua ub uthr uheld umk]; auto.
  - intros u. destruct (Nat.eq_dec u t) as [->|Hn]; [exact Hph|].
    destruct (Ho u Hn) as (-> & -> & -> & _ & ->). apply (lphase_rs _ rs); [|apply (p_ph _ _ _ Z u)].
    intros k Hb. destruct (Nat.eq_dec k j) as [->|Hk]; [|now apply Hrk]. destruct Hj as [Hj|Hj]; [|exact Hj]. exfalso. exact (Hj u Hn Hb).
  - intros u. destruct (Nat.eq_dec u t) as [->|Hn]; [exact Hnow|].
    destruct (Ho u Hn) as (_ & _ & -> & -> & _). apply (p_now _ _ _ Z u).
  - apply (xc_move N lt rs x lt' rs' _ t j (p_cons _ _ _ Z)); [|exact Hrk|exact Hperm].
    intros u Hn. unfold owned, heldl, transl. cbn [ua ub uthr uheld umk]. destruct (Ho u Hn) as (_ & _ & -> & -> & ->). auto.
Qed.

Lemma perm_tail3 (a b c a' b' c' r : list Z) : Permutation (a ++ b ++ c) (a' ++ b' ++ c') -> Permutation (a ++ b ++ c ++ r) (a' ++ b' ++ c' ++ r).
Proof. intros H. perm_count. Qed.

(* ... of a thread outside the layer, the layer's data untouched *)
Lemma pu_update0 lt rs x a' b' p' th' l' h' t : PU lt rs x -> lt t = ZN ->
  reach a' -> reach b' -> noP2 a' -> noP2 b' ->
  (forall u, u <> t -> thr a' u = thr (ua _ x) u /\ thr b' u = thr (ub _ x) u /\ th' u = uthr _ x u /\ h' u = uheld _ x u) ->
  phase_of (th' t) (thr a' t) (thr b' t) ->
  (th' t = UDeqB -> h' t = None) ->
  Permutation (inring (ua _ x) ++ inring (ub _ x) ++ owned x t) (inring a' ++ inring b' ++ owned (umk st a' b' p' th' l' h') t) ->
  PU lt rs (umk st a' b' p' th' l' h').
Proof.
  intros Z Lt Ra Rb H2a H2b Ho Hph Hnow Hperm.
  apply (pu_update lt rs x lt rs a' b' p' th' l' h' t 0%nat Z); auto.
  - intros u Hu. destruct (Ho u Hu) as (? & ? & ? & ?). auto.
  - rewrite Lt. exact Hph.
  - now apply perm_tail3.
Qed.

Ltac others := intros u Hu; cbn [ua ub upool uthr ulog uheld umk];
  rewrite ?step_other_threads_gen, ?start_other, ?upd_other by assumption; auto.
Ltac own := unfold owned, heldl, transl; cbn [ua ub upool uthr ulog uheld umk]; rewrite ?upd_same.

(* ---- the three moves of the base machine, by a thread that is not inside a layer operation (ZcConserve.zi_step / zi_start / zi_release) ---- *)
Theorem pu_step lt rs x t : PU lt rs x -> uniq lt -> lt t = ZN -> PU lt rs (astep x t).
Proof.
  intros Z U Lt. destruct (pu_bounds lt rs x Z U) as [Ba Bb]. rename x into s.
  destruct (reach_invcov N Npos _ (p_ra _ _ _ Z)) as [Ia _]. destruct (reach_invcov N Npos _ (p_rb _ _ _ Z)) as [Ib _].
  pose proof (p_ph _ _ _ Z t) as P. rewrite Lt in P. cbn [lphase_of] in P. pose proof (p_ra _ _ _ Z) as Ra. pose proof (p_rb _ _ _ Z) as Rb.
  pose proof (p_2a _ _ _ Z) as H2a. pose proof (p_2b _ _ _ Z) as H2b. pose proof (p_now _ _ _ Z t) as Hnow.
  destruct s as [a b p th l h]. cbn [ua ub upool uthr ulog uheld] in *. fold (umk st a b p th l h) in *.
  destruct (th t) eqn:E; cbn [phase_of] in P; destruct P as [P1 P2].
  - (* UIdle *) rewrite (a_idle N _ _ _ _ _ _ _ E). exact Z.
  - (* UEnqA v *)
    destruct (ring_cons_step N a t Ia P1) as [(Hi & Hl & Hp & Hh & Hlt)|[(Hi & Hl & Hp & Hh)|(Hc & Hp & Hh)]].
    + rewrite (a_enqA_got N a b p th l h t v _ E Hi (lastres_snoc _ _ _ _ Hl)).
      destruct (start_idle b t (OpPub (nthz (published a) (head a))) P2) as (S0 & _).
      destruct (start_frame b t (OpPub (nthz (published a) (head a)))) as [Sp Sh].
      apply (pu_update0 lt rs _ _ _ _ _ _ _ t Z Lt); cbn [ua ub upool uthr ulog uheld umk];
        [now apply reach_step|now apply reach_start|now apply noP2_step|now apply noP2_start|others| | |].
      * rewrite upd_same, Hi, S0. cbn. auto.
      * rewrite upd_same. discriminate.
      * rewrite (inring_cons N a _ Ia Hp Hh Hlt), (inring_same _ _ Sp Sh). own. rewrite E. perm_count.
    + rewrite (a_enqA_none N a b p th l h t v E Hi (lastres_snoc _ _ _ _ Hl)).
      apply (pu_update0 lt rs _ _ _ _ _ _ _ t Z Lt); cbn [ua ub upool uthr ulog uheld umk];
        [now apply reach_step|assumption|now apply noP2_step|assumption|others| | |].
      * rewrite upd_same, Hi, P2. cbn. auto.
      * rewrite upd_same. discriminate.
      * rewrite (inring_same _ _ Hp Hh). own. rewrite E. reflexivity.
    + rewrite (a_enqA_busy N a b p th l h t v E (cons_busy _ Hc)).
      apply (pu_update0 lt rs _ _ _ _ _ _ _ t Z Lt); cbn [ua ub upool uthr ulog uheld umk];
        [now apply reach_step|assumption|now apply noP2_step|assumption|others| | |].
      * rewrite E. cbn. auto.
      * rewrite E. discriminate.
      * rewrite (inring_same _ _ Hp Hh). reflexivity.
  - (* UEnqB v id *)
    destruct (ring_pub_step N b t id H2b P2) as [(Hi & (len & Hl) & Hp & Hh)|(Hc & Hp & Hh)].
    + rewrite (a_enqB_ok N a b p th l h t v id _ _ E Hi (lastres_snoc _ _ _ _ Hl)).
      apply (pu_update0 lt rs _ _ _ _ _ _ _ t Z Lt); cbn [ua ub upool uthr ulog uheld umk];
        [assumption|now apply reach_step|assumption|now apply noP2_step|others| | |].
      * rewrite upd_same, Hi, P1. cbn. auto.
      * rewrite upd_same. discriminate.
      * rewrite (inring_pub N b _ id Ib Hp Hh). own. rewrite E. perm_count.
    + rewrite (a_enqB_busy N a b p th l h t v id E (pval_busy _ _ Hc)).
      apply (pu_update0 lt rs _ _ _ _ _ _ _ t Z Lt); cbn [ua ub upool uthr ulog uheld umk];
        [assumption|now apply reach_step|assumption|now apply noP2_step|others| | |].
      * rewrite E. cbn. auto.
      * rewrite E. discriminate.
      * rewrite (inring_same _ _ Hp Hh). reflexivity.
  - (* UDeqB *)
    destruct (ring_cons_step N b t Ib P2) as [(Hi & Hl & Hp & Hh & Hlt)|[(Hi & Hl & Hp & Hh)|(Hc & Hp & Hh)]].
    + rewrite (a_deqB_got N a b p th l h t _ E Hi (lastres_snoc _ _ _ _ Hl)).
      apply (pu_update0 lt rs _ _ _ _ _ _ _ t Z Lt); cbn [ua ub upool uthr ulog uheld umk];
        [assumption|now apply reach_step|assumption|now apply noP2_step|others| | |].
      * rewrite upd_same, Hi, P1. cbn. auto.
      * rewrite upd_same. discriminate.
      * rewrite (inring_cons N b _ Ib Hp Hh Hlt). own. rewrite E, (Hnow eq_refl). perm_count.
    + rewrite (a_deqB_empty N a b p th l h t E Hi (lastres_snoc _ _ _ _ Hl)).
      apply (pu_update0 lt rs _ _ _ _ _ _ _ t Z Lt); cbn [ua ub upool uthr ulog uheld umk];
        [assumption|now apply reach_step|assumption|now apply noP2_step|others| | |].
      * rewrite upd_same, Hi, P1. cbn. auto.
      * rewrite upd_same. discriminate.
      * rewrite (inring_same _ _ Hp Hh). own. rewrite E. reflexivity.
    + rewrite (a_deqB_busy N a b p th l h t E (cons_busy _ Hc)).
      apply (pu_update0 lt rs _ _ _ _ _ _ _ t Z Lt); cbn [ua ub upool uthr ulog uheld umk];
        [assumption|now apply reach_step|assumption|now apply noP2_step|others| | |].
      * rewrite E. cbn. auto.
      * intros _. now apply Hnow.
      * rewrite (inring_same _ _ Hp Hh). reflexivity.
  - (* URel id *)
    destruct (ring_pub_step N a t id H2a P1) as [(Hi & (len & Hl) & Hp & Hh)|(Hc & Hp & Hh)].
    + rewrite (a_rel_done N a b p th l h t id E Hi).
      apply (pu_update0 lt rs _ _ _ _ _ _ _ t Z Lt); cbn [ua ub upool uthr ulog uheld umk];
        [now apply reach_step|assumption|now apply noP2_step|assumption|others| | |].
      * rewrite upd_same, Hi, P2. cbn. auto.
      * rewrite upd_same. discriminate.
      * rewrite (inring_pub N a _ id Ia Hp Hh). own. rewrite E. perm_count.
    + rewrite (a_rel_busy N a b p th l h t id E (pval_busy _ _ Hc)).
      apply (pu_update0 lt rs _ _ _ _ _ _ _ t Z Lt); cbn [ua ub upool uthr ulog uheld umk];
        [now apply reach_step|assumption|now apply noP2_step|assumption|others| | |].
      * rewrite E. cbn. auto.
      * rewrite E. discriminate.
      * rewrite (inring_same _ _ Hp Hh). reflexivity.
  - (* ULenB *)
    destruct (ring_len_step N b t P2) as ([Hi|Hc] & Hp & Hh).
    + destruct (a_len_done N a b p th l h t E Hi) as [l' ->].
      apply (pu_update0 lt rs _ _ _ _ _ _ _ t Z Lt); cbn [ua ub upool uthr ulog uheld umk];
        [assumption|now apply reach_step|assumption|now apply noP2_step|others| | |].
      * rewrite upd_same, Hi, P1. cbn. auto.
      * rewrite upd_same. discriminate.
      * rewrite (inring_same _ _ Hp Hh). own. rewrite E. reflexivity.
    + rewrite (a_len_busy N a b p th l h t E (len_busy _ Hc)).
      apply (pu_update0 lt rs _ _ _ _ _ _ _ t Z Lt); cbn [ua ub upool uthr ulog uheld umk];
        [assumption|now apply reach_step|assumption|now apply noP2_step|others| | |].
      * rewrite E. cbn. auto.
      * rewrite E. discriminate.
      * rewrite (inring_same _ _ Hp Hh). reflexivity.
Qed.

Theorem pu_start lt rs x t o : PU lt rs x -> lt t = ZN -> uheld _ x t = None -> PU lt rs (astart x t o).
Proof.
  intros Z Lt Hnone. rename x into s. pose proof (p_ph _ _ _ Z t) as P. rewrite Lt in P. cbn [lphase_of] in P.
  pose proof (p_ra _ _ _ Z) as Ra. pose proof (p_rb _ _ _ Z) as Rb. pose proof (p_2a _ _ _ Z) as H2a. pose proof (p_2b _ _ _ Z) as H2b.
  unfold astart, ustart. destruct s as [a b p th l h]. cbn [ua ub upool uthr ulog uheld] in *. fold (umk st a b p th l h) in *.
  destruct (th t) eqn:E; try exact Z. cbn [phase_of] in P. destruct P as [P1 P2]. destruct o.
  - destruct (start_idle a t OpCons P1) as (S0 & _). destruct (start_frame a t OpCons) as [Sp Sh].
    apply (pu_update0 lt rs _ _ _ _ _ _ _ t Z Lt); cbn [ua ub upool uthr ulog uheld umk];
      [now apply reach_start|assumption|now apply noP2_start|assumption|others| | |].
    + rewrite upd_same, S0, P2. cbn. auto.
    + rewrite upd_same. discriminate.
    + rewrite (inring_same _ _ Sp Sh). own. rewrite E. reflexivity.
  - destruct (start_idle b t OpCons P2) as (S0 & _). destruct (start_frame b t OpCons) as [Sp Sh].
    apply (pu_update0 lt rs _ _ _ _ _ _ _ t Z Lt); cbn [ua ub upool uthr ulog uheld umk];
      [assumption|now apply reach_start|assumption|now apply noP2_start|others| | |].
    + rewrite upd_same, S0, P1. cbn. auto.
    + intros _. exact Hnone.
    + rewrite (inring_same _ _ Sp Sh). own. rewrite E. reflexivity.
  - destruct (start_idle b t OpLen P2) as (S0 & _). destruct (start_frame b t OpLen) as [Sp Sh].
    apply (pu_update0 lt rs _ _ _ _ _ _ _ t Z Lt); cbn [ua ub upool uthr ulog uheld umk];
      [assumption|now apply reach_start|assumption|now apply noP2_start|others| | |].
    + rewrite upd_same, S0, P1. cbn. auto.
    + rewrite upd_same. discriminate.
    + rewrite (inring_same _ _ Sp Sh). own. rewrite E. reflexivity.
Qed.

Theorem pu_release lt rs x t : PU lt rs x -> lt t = ZN -> PU lt rs (arelease x t).
Proof.
  intros Z Lt. rename x into s. pose proof (p_ph _ _ _ Z t) as P. rewrite Lt in P. cbn [lphase_of] in P.
  pose proof (p_ra _ _ _ Z) as Ra. pose proof (p_rb _ _ _ Z) as Rb. pose proof (p_2a _ _ _ Z) as H2a. pose proof (p_2b _ _ _ Z) as H2b.
  unfold arelease, urelease. destruct s as [a b p th l h]. cbn [ua ub upool uthr ulog uheld] in *. fold (umk st a b p th l h) in *.
  destruct (th t) eqn:E; try exact Z. destruct (h t) as [id|] eqn:Eh; [|exact Z]. cbn [phase_of] in P. destruct P as [P1 P2].
  destruct (start_idle a t (OpPub id) P1) as (S0 & _). destruct (start_frame a t (OpPub id)) as [Sp Sh].
  apply (pu_update0 lt rs _ _ _ _ _ _ _ t Z Lt); cbn [ua ub upool uthr ulog uheld umk];
    [now apply reach_start|assumption|now apply noP2_start|assumption|others| | |].
  - rewrite upd_same, S0, P2. cbn. auto.
  - rewrite upd_same. discriminate.
  - rewrite (inring_same _ _ Sp Sh). own. rewrite E, Eh. reflexivity.
Qed.

End PUInv.

(* ------------------------------------------------------------------------------------------------ the base channel machine
   One event of thread t of the channel machine of ChanZ.v moves the queue component by moves of THAT thread only (its step, its start
   while it holds no handle, the drop of its handle), keeps "nobody holds a handle between two events" and "only a polling thread is
   inside a consume" (ZcConserve.g_cexec), and keeps the coupling we need to begin a layer operation: a thread whose channel pc is
   not inside a queue operation is idle in the queue component. *)
Section BaseMoves.
Variable N : Z.
Variable M k : nat.
Variable ws : Z -> option nat.
Local Notation ust := (ust st).
Local Notation austep := (ustep st (stepZ N) start ring_idle0 log true (fun _ => 0)).
Local Notation austart := (ustart st start true).
Local Notation aurel := (urelease st start).
Local Notation acexec := (cexec ust austep austart (uidle st) (ulog st) aurel M k ws).

Definition ev_thread (e : cev) : nat := match e with CStep t | CStart t _ => t end.

Inductive tmv (t : nat) (x : ust) : ust -> Prop :=
| tm_refl : tmv t x x
| tm_step y : tmv t x y -> tmv t x (astep N y t)
| tm_start y o : tmv t x y -> uheld _ y t = None -> tmv t x (astart y t o)
| tm_rel y : tmv t x y -> tmv t x (arelease y t).

Ltac tm As := repeat first [ apply tm_refl | apply tm_rel | apply tm_step | (apply tm_start; [|apply As]) ].

Lemma tmv_cexec (b : cst ust) e : allnone st (q _ b) -> tmv (ev_thread e) (q _ b) (q _ (acexec b e)).
Proof.
  intros As. destruct e as [t|t o]; cbn [ev_thread cexec].
  - unfold cstep. destruct (cthr ust b t) eqn:E.
    + tm As.
    + destruct (uidle st _ t); [unfold after_send; destruct (qres _ _ _); try destruct (ws _)|]; cbn [q mk]; tm As.
    + destruct (wstep (m ust b) w) as [m' [w'|]]; cbn [q mk]; tm As.
    + destruct (uidle st _ t); [unfold after_cons; destruct (qres _ _ _)|]; cbn [q mk]; tm As.
    + destruct (uidle st _ t); [unfold after_cons; destruct (qres _ _ _)|]; cbn [q mk]; tm As.
    + destruct (keep _ _); cbn; tm As.
    + destruct r; cbn; try (tm As); [destruct (wakers _ _)|destruct (wlock _)]; cbn; tm As.
    + destruct (notified _ _); cbn; tm As.
    + destruct (j <? k)%nat; cbn; tm As.
    + cbn. tm As.
    + destruct (wstep (m ust b) w) as [m' [w'|]]; cbn [q mk]; [tm As|]. rewrite q_cancel_nextZ. tm As.
    + destruct (uidle st _ t); [destruct (qres _ _ _)|]; cbn [q mk]; tm As.
    + destruct (uidle st _ t); cbn [q mk]; tm As.
  - unfold cstart. destruct (cthr ust b t); try (tm As).
    destruct o; cbn [q mk setpc]; try (tm As). rewrite q_cancel_nextZ. tm As.
Qed.

Lemma ustep_uthr_other (x : ust) t u : u <> t -> uthr _ (austep x t) u = uthr _ x u.
Proof.
  intros Hn. unfold ustep. destruct (uthr _ x t); try reflexivity;
  repeat match goal with
         | |- context[if ?b then _ else _] => destruct b
         | |- context[match lastres ?A ?B ?C with _ => _ end] => destruct (lastres A B C)
         end; cbn [uthr umk]; rewrite ?upd_other by assumption; reflexivity.
Qed.
Lemma ustart_uthr_other (x : ust) t o u : u <> t -> uthr _ (austart x t o) u = uthr _ x u.
Proof.
  intros Hn. unfold ustart. destruct (uthr _ x t); try reflexivity. destruct o; cbn [uthr umk]; now rewrite upd_other.
Qed.
Lemma urel_uthr_other (x : ust) t u : u <> t -> uthr _ (aurel x t) u = uthr _ x u.
Proof.
  intros Hn. unfold urelease. destruct (uthr _ x t); try reflexivity. destruct (uheld _ x t); try reflexivity. cbn [uthr umk]. now rewrite upd_other.
Qed.
Lemma tmv_uthr_other t x y u : tmv t x y -> u <> t -> uthr _ y u = uthr _ x u.
Proof.
  intros H Hn. induction H as [|y H IH|y o H IH _|y H IH]; [reflexivity| | |]; rewrite <- IH.
  - now apply ustep_uthr_other.
  - now apply ustart_uthr_other.
  - now apply urel_uthr_other.
Qed.

Lemma cthr_cancel_next_other (s : cst ust) t j u : u <> t -> cthr _ (cancel_next ust M s t j) u = cthr _ s u.
Proof. intros Hn. unfold cancel_next, finish, setpc. destruct (M <=? j)%nat; cbn [cthr mk]; now rewrite upd_other. Qed.
Lemma cthr_cexec_other (b : cst ust) e u : u <> ev_thread e -> cthr _ (acexec b e) u = cthr _ b u.
Proof.
  intros Hn. destruct e as [t|t o]; cbn [ev_thread cexec] in *.
  - unfold cstep. destruct (cthr ust b t) eqn:E; try reflexivity.
    + destruct (uidle st _ t); [unfold after_send; destruct (qres _ _ _); try destruct (ws _)|]; cbn [cthr mk]; rewrite ?upd_other by assumption; reflexivity.
    + destruct (wstep (m ust b) w) as [m' [w'|]]; cbn [cthr mk]; now rewrite upd_other.
    + destruct (uidle st _ t); [unfold after_cons; destruct (qres _ _ _)|]; cbn [cthr mk]; rewrite ?upd_other by assumption; reflexivity.
    + destruct (uidle st _ t); [unfold after_cons; destruct (qres _ _ _)|]; cbn [cthr mk]; rewrite ?upd_other by assumption; reflexivity.
    + destruct (keep _ _); unfold setpc, finish; cbn [cthr mk]; now rewrite upd_other.
    + destruct r; [destruct (wakers _ _)|destruct (wlock _)| | |]; unfold setpc, finish; cbn [cthr mk]; rewrite ?upd_other by assumption; reflexivity.
    + destruct (notified _ _); cbn [cthr mk]; rewrite ?upd_other by assumption; reflexivity.
    + destruct (j <? k)%nat; unfold setpc, finish; cbn [cthr mk]; now rewrite upd_other.
    + cbn [cthr mk]. now rewrite upd_other.
    + destruct (wstep (m ust b) w) as [m' [w'|]]; [cbn [cthr mk]; now rewrite upd_other|]. now rewrite cthr_cancel_next_other.
    + destruct (uidle st _ t); [destruct (qres _ _ _)|]; cbn [cthr mk]; rewrite ?upd_other by assumption; reflexivity.
    + destruct (uidle st _ t); cbn [cthr mk]; rewrite ?upd_other by assumption; reflexivity.
  - unfold cstart. destruct (cthr ust b t); try reflexivity.
    destruct o; unfold setpc; cbn [cthr mk]; rewrite ?upd_other by assumption; try reflexivity. now rewrite cthr_cancel_next_other.
Qed.

(* channel pcs outside a queue operation *)
Definition cquiet (c : cpc) : Prop := match c with XSendQ _ | XPollQ _ _ | XLenQ | XRel _ _ => False | _ => True end.
Definition Kc (x : ust) (cth : nat -> cpc) : Prop :=
  allnone st x /\ (forall t, uthr _ x t = UDeqB -> is_poll (cth t)) /\ (forall t, cquiet (cth t) -> uthr _ x t = UIdle).
Definition K (b : cst ust) : Prop := Kc (q _ b) (cthr _ b).

Lemma Kc_ext x x' cth : uthr _ x' = uthr _ x -> uheld _ x' = uheld _ x -> Kc x cth -> Kc x' cth.
Proof. unfold Kc, allnone. intros -> ->. auto. Qed.

Lemma quiet_cexec_t (b : cst ust) e : (forall u, cquiet (cthr _ b u) -> uthr _ (q _ b) u = UIdle) ->
  let t := ev_thread e in cquiet (cthr _ (acexec b e) t) -> uthr _ (q _ (acexec b e)) t = UIdle.
Proof.
  intros Kq. destruct e as [t|t o]; cbn [ev_thread cexec]; cbn zeta.
  - unfold cstep. destruct (cthr ust b t) eqn:E; try (rewrite E; intros _; apply Kq; rewrite E; exact I).
    + destruct (uidle st _ t) eqn:Hi; [unfold after_send; destruct (qres _ _ _); try destruct (ws _)|]; cbn [q cthr mk];
        rewrite ?upd_same, ?E; intros Hq; try contradiction; apply (uidle_true_inv _ _ _ Hi).
    + destruct (wstep (m ust b) w) as [m' [w'|]]; cbn [q cthr mk]; intros _; apply Kq; rewrite E; exact I.
    + destruct (uidle st _ t) eqn:Hi; [unfold after_cons; destruct (qres _ _ _)|]; cbn [q cthr mk];
        rewrite ?upd_same, ?E; intros Hq; try contradiction; apply (uidle_true_inv _ _ _ Hi).
    + destruct (uidle st _ t) eqn:Hi; [unfold after_cons; destruct (qres _ _ _)|]; cbn [q cthr mk];
        rewrite ?upd_same, ?E; intros Hq; try contradiction; apply (uidle_true_inv _ _ _ Hi).
    + destruct (keep _ _); unfold setpc, finish; cbn [q cthr mk]; intros _; apply Kq; rewrite E; exact I.
    + destruct r; [destruct (wakers _ _)|destruct (wlock _)| | |]; unfold setpc, finish; cbn [q cthr mk]; intros _; apply Kq; rewrite E; exact I.
    + destruct (notified _ _); cbn [q cthr mk]; intros _; apply Kq; rewrite E; exact I.
    + destruct (j <? k)%nat; unfold setpc, finish; cbn [q cthr mk]; intros _; apply Kq; rewrite E; exact I.
    + cbn [q cthr mk]. intros _; apply Kq; rewrite E; exact I.
    + destruct (wstep (m ust b) w) as [m' [w'|]]; [cbn [q cthr mk]; intros _; apply Kq; rewrite E; exact I|].
      rewrite q_cancel_nextZ. cbn [q mk]. intros _; apply Kq; rewrite E; exact I.
    + destruct (uidle st _ t) eqn:Hi; [destruct (qres _ _ _)|]; cbn [q cthr mk];
        rewrite ?upd_same, ?E; intros Hq; try contradiction; apply (uidle_true_inv _ _ _ Hi).
    + destruct (uidle st _ t) eqn:Hi; cbn [q cthr mk]; rewrite ?upd_same, ?E; intros Hq; try contradiction; apply (uidle_true_inv _ _ _ Hi).
  - unfold cstart. destruct (cthr ust b t) eqn:E; try (rewrite E; intros Hq; first [contradiction | apply Kq; rewrite E; exact I]).
    destruct o; unfold setpc; cbn [q cthr mk]; rewrite ?upd_same; intros Hq; try contradiction.
    + apply Kq. rewrite E. exact I.
    + rewrite q_cancel_nextZ. apply Kq. rewrite E. exact I.
Qed.

Theorem k_cexec (b : cst ust) e : K b ->
  K (acexec b e) /\ tmv (ev_thread e) (q _ b) (q _ (acexec b e)) /\ (forall u, u <> ev_thread e -> cthr _ (acexec b e) u = cthr _ b u).
Proof.
  intros (As & Hp & Kq).
  pose proof (tmv_cexec b e As) as T. pose proof (cthr_cexec_other b e) as Co.
  assert (Gb : G st (fun _ => True) b) by (split; [exact I|]; split; assumption).
  pose proof (g_cexec st (stepZ N) start ring_idle0 log true (fun _ => 0) M k ws (fun _ => True)
                (fun _ _ _ => I) (fun _ _ _ _ _ => I) (fun _ _ _ => I) b e Gb) as (_ & As' & Hp').
  split; [|split; assumption]. split; [exact As'|]. split; [exact Hp'|].
  intros u Hq. destruct (Nat.eq_dec u (ev_thread e)) as [->|Hn]; [now apply quiet_cexec_t|].
  rewrite (tmv_uthr_other _ _ _ u T Hn). apply Kq. now rewrite <- (Co u Hn).
Qed.

End BaseMoves.

(* the id a thread of the layer carries towards a ring (custody 4, layer part) *)
Definition ltransl (s : zxst st) (t : nat) : list Z :=
  match zthr _ s t with ZSRes _ id => [id] | ZCRes j => resl (zres _ s) j | _ => [] end.
Lemma length_entries rs ks : (forall k, In k ks -> exists id : Z, rs k = Some id) -> length (flat_map (resl rs) ks) = length ks.
Proof.
  induction ks as [|k ks IH]; intros H; [reflexivity|]. cbn [flat_map]. rewrite app_length, IH by (intros i Hi; apply H; now right).
  destruct (H k (or_introl eq_refl)) as [id E]. unfold resl. now rewrite E.
Qed.

(* ------------------------------------------------------------------------------------------------ the layered machine *)
Section ZXConserve.
Variable N : Z.
Hypothesis Npos : 0 < N.
Variable M k : nat.
Variables ws wr : Z -> option nat.
Local Notation ust := (ust st).
Local Notation zxst := (zxst st).
Local Notation step := (stepZ N).
Local Notation lastres := (lastres st log).
Local Notation reach := (reach N).
Local Notation zstep := (zxstep st (stepZ N) start ring_idle0 log true (fun _ => 0) M k ws wr).
Local Notation zstart := (zxstart st start true M).
Local Notation zexec := (zxexec st (stepZ N) start ring_idle0 log true (fun _ => 0) M k ws wr).
Local Notation acexec := (cexec ust (ustep st (stepZ N) start ring_idle0 log true (fun _ => 0)) (ustart st start true) (uidle st) (ulog st)
                                (urelease st start) M k ws).

(* THE DISCIPLINE on reservation names, a guard on the event about to be executed in state s:
     reserve k   only while k has no entry and nobody is reserving / sending / cancelling k;
     send / cancel k   only while nobody is sending / cancelling k   (one at a time per name). *)
Definition zxwf (s : zxst) (e : zxev) : Prop :=
  match e with
  | ZStart _ (ZoReserve j _) => zres _ s j = None /\ forall u, ~ busy_on (zthr _ s u) j
  | ZStart _ (ZoSendRes j) | ZStart _ (ZoCancelRes j) => at_rest (zthr _ s) j
  | _ => True
  end.
(* ... as a predicate on event lists, checked along the run *)
Fixpoint zxwf_run (s : zxst) (evs : list zxev) : Prop :=
  match evs with [] => True | e :: rest => zxwf s e /\ zxwf_run (zexec s e) rest end.
Definition zx_wf (evs : list zxev) : Prop := zxwf_run (zxinit st k (zc_q0 N)) evs.

(* the states of well-formed runs *)
Inductive zxreach : zxst -> Prop :=
| zxr_init : zxreach (zxinit st k (zc_q0 N))
| zxr_exec s e : zxreach s -> zxwf s e -> zxreach (zexec s e).

Lemma zxwf_run_reach evs : forall s, zxreach s -> zxwf_run s evs -> zxreach (fold_left zexec evs s).
Proof. induction evs as [|e evs IH]; intros s R W; [exact R|]. destruct W as [W1 W2]. cbn [fold_left]. apply IH; [now apply zxr_exec|exact W2]. Qed.
Lemma zx_wf_reach evs : zx_wf evs -> zxreach (zx_run N M k ws wr evs).
Proof. intros W. unfold zx_run. apply zxwf_run_reach; [apply zxr_init|exact W]. Qed.

Definition zmk a b p th l h mm cth cl lt rs lg : zxst :=
  {| zb := mk ust (umk st a b p th l h) mm cth cl; zthr := lt; zres := rs; zlog := lg |}.

(* the invariant of the layered machine *)
Record XI (s : zxst) : Prop := {
  xi_pu : PU N (zthr _ s) (zres _ s) (zq _ s);
  xi_k : K (zb _ s);
  xi_lx : forall t, zthr _ s t <> ZN -> cthr _ (zb _ s) t = XIdle;      (* a thread inside a layer operation is idle in the base machine *)
  xi_uniq : uniq (zthr _ s);
  xi_log : forall t j, ~ In (t, XNotSent j) (zlog _ s)
}.

Ltac zsimp := cbn [zb zthr zres zlog zmk zq q m cthr clog mk ua ub upool uthr ulog uheld umk] in *.

Lemma log_snoc (lg : list (nat * xres)) t r : (forall u j, ~ In (u, XNotSent j) lg) -> (forall j, r <> XNotSent j) ->
  forall u j, ~ In (u, XNotSent j) (lg ++ [(t, r)]).
Proof. intros H Hr u j Hin. apply in_app_or in Hin. destruct Hin as [Hin|[E|[]]]; [exact (H u j Hin)|]. injection E as _ E. exact (Hr j E). Qed.

(* a move of thread t inside the layer: the base machine's pcs, the composite pcs and the handles stay as they are *)
Lemma xi_layer a b p th l h mm cth cl lt rs lg a' b' p' mm' lt' rs' lg' t j :
  XI (zmk a b p th l h mm cth cl lt rs lg) ->
  reach a' -> reach b' -> noP2 a' -> noP2 b' ->
  (forall u, u <> t -> thr a' u = thr a u /\ thr b' u = thr b u) ->
  (forall u, u <> t -> lt' u = lt u) ->
  (forall i, i <> j -> rs' i = rs i) ->
  ((forall u, u <> t -> ~ busy_on (lt u) j) \/ rs' j = rs j) ->
  lphase_of (lt' t) rs' (th t) (thr a' t) (thr b' t) ->
  Permutation (inring a ++ inring b ++ resl rs j) (inring a' ++ inring b' ++ resl rs' j) ->
  cth t = XIdle -> uniq lt' -> (forall u i, ~ In (u, XNotSent i) lg') ->
  XI (zmk a' b' p' th l h mm' cth cl lt' rs' lg').
Proof.
  intros [Zp Zk Zl Zu Zg] Ra Rb H2a H2b Hthr Hlt Hrk Hj Hph Hperm Hc Hu Hlog. unfold zq in *. zsimp.
  constructor; unfold zq; zsimp; auto.
  - apply (pu_update N lt rs (umk st a b p th l h) lt' rs' a' b' p' th l h t j Zp); zsimp; auto.
    + intros u Hn. destruct (Hthr u Hn). repeat split; auto.
    + intros E. exact (p_now _ _ _ _ Zp t E).
    + unfold owned, heldl, transl. zsimp. perm_count.
  - intros u Hne. destruct (Nat.eq_dec u t) as [->|Hn]; [exact Hc|]. apply Zl. now rewrite <- (Hlt u Hn).
Qed.

(* an event of the base machine by a thread that is not inside a layer operation *)
Lemma xi_base s e : XI s -> zthr _ s (ev_thread e) = ZN ->
  XI {| zb := acexec (zb _ s) e; zthr := zthr _ s; zres := zres _ s; zlog := zlog _ s |}.
Proof.
  intros [Zp Zk Zl Zu Zg] Lt. destruct (k_cexec N M k ws (zb _ s) e Zk) as (Zk' & T & Co).
  constructor; unfold zq in *; cbn [zb zthr zres zlog]; auto.
  - clear Zk' Co. induction T as [|y T IH|y o T IH Hn|y T IH]; [exact Zp| | |].
    + now apply (pu_step N Npos).
    + now apply pu_start.
    + now apply pu_release.
  - intros u Hne. rewrite Co; [now apply Zl|]. intros ->. contradiction.
Qed.

(* ---- the steps of the layer, as rewriting lemmas ---- *)
Ltac zopen E := unfold zxstep, zmk; cbn [zb zthr zres zlog q m cthr clog mk ua ub upool uthr ulog uheld umk]; rewrite E;
  cbn [zb zthr zres zlog q m cthr clog mk ua ub upool uthr ulog uheld umk].
Lemma z_res_busy a b p th l h mm cth cl lt rs lg t j v : lt t = ZRes j v -> thr (step a t) t <> Idle ->
  zstep (zmk a b p th l h mm cth cl lt rs lg) t = zmk (step a t) b p th l h mm cth cl (upd lt t (ZRes j v)) rs lg.
Proof. intros E Hb. zopen E. rewrite (ridle_false _ _ Hb). reflexivity. Qed.
Lemma z_res_got a b p th l h mm cth cl lt rs lg t j v id : lt t = ZRes j v -> thr (step a t) t = Idle -> lastres (step a t) = RGot id ->
  zstep (zmk a b p th l h mm cth cl lt rs lg) t
  = zmk (step a t) b (updz p id v) th l h mm cth cl (upd lt t ZN) (upd rs j (Some id)) (lg ++ [(t, XSlot j)]).
Proof. intros E Hb Hl. zopen E. rewrite (ridle_true _ _ Hb), Hl. reflexivity. Qed.
Lemma z_res_none a b p th l h mm cth cl lt rs lg t j v : lt t = ZRes j v -> thr (step a t) t = Idle -> lastres (step a t) = REmpty ->
  zstep (zmk a b p th l h mm cth cl lt rs lg) t = zmk (step a t) b p th l h mm cth cl (upd lt t ZN) rs (lg ++ [(t, XNoSlot j)]).
Proof. intros E Hb Hl. zopen E. rewrite (ridle_true _ _ Hb), Hl. reflexivity. Qed.
Lemma z_sres_busy a b p th l h mm cth cl lt rs lg t j id : lt t = ZSRes j id -> thr (step b t) t <> Idle ->
  zstep (zmk a b p th l h mm cth cl lt rs lg) t = zmk a (step b t) p th l h mm cth cl (upd lt t (ZSRes j id)) rs lg.
Proof. intros E Hb. zopen E. rewrite (ridle_false _ _ Hb). reflexivity. Qed.
Lemma z_sres_ok a b p th l h mm cth cl lt rs lg t j id w len : lt t = ZSRes j id -> thr (step b t) t = Idle -> lastres (step b t) = ROk w len ->
  zstep (zmk a b p th l h mm cth cl lt rs lg) t
  = match wr len with
    | Some i => zmk a (step b t) p th l h mm cth cl (upd lt t (ZSResW j (W0 i))) (upd rs j None) lg
    | None => zmk a (step b t) p th l h mm cth cl (upd lt t ZN) (upd rs j None) (lg ++ [(t, XSent j)])
    end.
Proof. intros E Hb Hl. zopen E. rewrite (ridle_true _ _ Hb), Hl. destruct (wr len); reflexivity. Qed.
Lemma z_cres_busy a b p th l h mm cth cl lt rs lg t j : lt t = ZCRes j -> thr (step a t) t <> Idle ->
  zstep (zmk a b p th l h mm cth cl lt rs lg) t = zmk (step a t) b p th l h mm cth cl (upd lt t (ZCRes j)) rs lg.
Proof. intros E Hb. zopen E. rewrite (ridle_false _ _ Hb). reflexivity. Qed.
Lemma z_cres_done a b p th l h mm cth cl lt rs lg t j : lt t = ZCRes j -> thr (step a t) t = Idle ->
  zstep (zmk a b p th l h mm cth cl lt rs lg) t
  = zmk (step a t) b p th l h mm cth cl (upd lt t ZN) (upd rs j None) (lg ++ [(t, XCancelled j)]).
Proof. intros E Hb. zopen E. rewrite (ridle_true _ _ Hb). reflexivity. Qed.
Lemma z_wake a b p th l h mm cth cl lt rs lg t j w : lt t = ZSResW j w ->
  zstep (zmk a b p th l h mm cth cl lt rs lg) t
  = match wstep mm w with
    | (m', Some w') => zmk a b p th l h m' cth cl (upd lt t (ZSResW j w')) rs lg
    | (m', None) => zmk a b p th l h m' cth cl (upd lt t ZN) rs (lg ++ [(t, XSent j)])
    end.
Proof. intros E. zopen E. destruct (wstep mm w) as [m' [w'|]]; reflexivity. Qed.
Lemma z_nop a b p th l h mm cth cl lt rs lg t j : lt t = ZNop j ->
  zstep (zmk a b p th l h mm cth cl lt rs lg) t = zmk a b p th l h mm cth cl (upd lt t ZN) rs (lg ++ [(t, XNone j)]).
Proof. intros E. zopen E. reflexivity. Qed.

Ltac others2 := intros u Hu; rewrite ?step_other_threads_gen, ?start_other, ?upd_other by assumption; auto.
Ltac keepbusy Lt := apply uniq_release; [assumption|intros j' Hj'; rewrite Lt; exact Hj'].
Ltac dropbusy := apply uniq_release; [assumption|intros j' Hj'; destruct Hj'].
Ltac logt Zg := first [exact Zg | apply log_snoc; [exact Zg|discriminate]].

Theorem xi_step s t : XI s -> XI (zstep s t).
Proof.
  intros X. destruct (zthr _ s t) as [|j v|j id|j w|j|j] eqn:Lt.
  - (* outside the layer: a step of the base machine *)
    unfold zxstep. rewrite Lt. exact (xi_base s (CStep t) X Lt).
  - (* ZRes j v: inside the allocation *)
    destruct s as [[[a b p th l h] mm cth cl] lt rs lg]. change (XI (zmk a b p th l h mm cth cl lt rs lg)) in X.
    change (XI (zstep (zmk a b p th l h mm cth cl lt rs lg) t)). pose proof X as [Zp Zk Zl Zu Zg]. unfold zq in *. zsimp.
    destruct (pu_bounds N Npos _ _ _ Zp Zu) as [Ba Bb]. zsimp.
    destruct (reach_invcov N Npos _ (p_ra _ _ _ _ Zp)) as [Ia _]. destruct (reach_invcov N Npos _ (p_rb _ _ _ _ Zp)) as [Ib _].
    pose proof (p_ph _ _ _ _ Zp t) as P. pose proof (p_ra _ _ _ _ Zp) as Ra. pose proof (p_rb _ _ _ _ Zp) as Rb.
    pose proof (p_2a _ _ _ _ Zp) as H2a. pose proof (p_2b _ _ _ _ Zp) as H2b. zsimp. rewrite Lt in P. cbn [lphase_of] in P.
    assert (Hc : cth t = XIdle) by (apply Zl; rewrite Lt; discriminate).
    destruct P as (Pc & P1 & P2 & P3).
    destruct (ring_cons_step N a t Ia P1) as [(Hi & Hl & Hp & Hh & Hlt)|[(Hi & Hl & Hp & Hh)|(Hcc & Hp & Hh)]].
    + rewrite (z_res_got _ _ _ _ _ _ _ _ _ _ _ _ _ _ _ _ Lt Hi (lastres_snoc _ _ _ _ Hl)).
      apply (xi_layer _ _ _ _ _ _ _ _ _ _ _ _ _ _ _ _ _ _ _ t j X);
        [now apply reach_step|assumption|now apply noP2_step|assumption|others2|others2|others2| | | |assumption|dropbusy|logt Zg].
      * left. intros u Hn Hb. apply Hn. apply (Zu u t j Hb). rewrite Lt. reflexivity.
      * rewrite upd_same. cbn [lphase_of]. rewrite Pc. cbn. auto.
      * rewrite (inring_cons N a _ Ia Hp Hh Hlt). unfold resl. rewrite upd_same, P3. perm_count.
    + rewrite (z_res_none _ _ _ _ _ _ _ _ _ _ _ _ _ _ _ Lt Hi (lastres_snoc _ _ _ _ Hl)).
      apply (xi_layer _ _ _ _ _ _ _ _ _ _ _ _ _ _ _ _ _ _ _ t j X);
        [now apply reach_step|assumption|now apply noP2_step|assumption|others2|others2|auto|now right| | |assumption|dropbusy|logt Zg].
      * rewrite upd_same. cbn [lphase_of]. rewrite Pc. cbn. auto.
      * rewrite (inring_same _ _ Hp Hh). reflexivity.
    + rewrite (z_res_busy _ _ _ _ _ _ _ _ _ _ _ _ _ _ _ Lt (cons_busy _ Hcc)).
      apply (xi_layer _ _ _ _ _ _ _ _ _ _ _ _ _ _ _ _ _ _ _ t j X);
        [now apply reach_step|assumption|now apply noP2_step|assumption|others2|others2|auto|now right| | |assumption|keepbusy Lt|logt Zg].
      * rewrite upd_same. cbn [lphase_of]. auto.
      * rewrite (inring_same _ _ Hp Hh). reflexivity.
  - (* ZSRes j id: inside the publication of the reserved id *)
    destruct s as [[[a b p th l h] mm cth cl] lt rs lg]. change (XI (zmk a b p th l h mm cth cl lt rs lg)) in X.
    change (XI (zstep (zmk a b p th l h mm cth cl lt rs lg) t)). pose proof X as [Zp Zk Zl Zu Zg]. unfold zq in *. zsimp.
    destruct (pu_bounds N Npos _ _ _ Zp Zu) as [Ba Bb]. zsimp.
    destruct (reach_invcov N Npos _ (p_ra _ _ _ _ Zp)) as [Ia _]. destruct (reach_invcov N Npos _ (p_rb _ _ _ _ Zp)) as [Ib _].
    pose proof (p_ph _ _ _ _ Zp t) as P. pose proof (p_ra _ _ _ _ Zp) as Ra. pose proof (p_rb _ _ _ _ Zp) as Rb.
    pose proof (p_2a _ _ _ _ Zp) as H2a. pose proof (p_2b _ _ _ _ Zp) as H2b. zsimp. rewrite Lt in P. cbn [lphase_of] in P.
    assert (Hc : cth t = XIdle) by (apply Zl; rewrite Lt; discriminate).
    destruct P as (Pc & P1 & P2 & P3).
    destruct (ring_pub_step N b t id H2b P2) as [(Hi & (len & Hl) & Hp & Hh)|(Hcc & Hp & Hh)].
    + rewrite (z_sres_ok _ _ _ _ _ _ _ _ _ _ _ _ _ _ _ _ _ Lt Hi (lastres_snoc _ _ _ _ Hl)).
      destruct (wr len) as [i|].
      * apply (xi_layer _ _ _ _ _ _ _ _ _ _ _ _ _ _ _ _ _ _ _ t j X);
          [assumption|now apply reach_step|assumption|now apply noP2_step|others2|others2|others2| | | |assumption|dropbusy|logt Zg].
        -- left. intros u Hn Hb. apply Hn. apply (Zu u t j Hb). rewrite Lt. reflexivity.
        -- rewrite upd_same. cbn [lphase_of]. auto.
        -- rewrite (inring_pub N b _ id Ib Hp Hh). unfold resl. rewrite upd_same, P3. perm_count.
      * apply (xi_layer _ _ _ _ _ _ _ _ _ _ _ _ _ _ _ _ _ _ _ t j X);
          [assumption|now apply reach_step|assumption|now apply noP2_step|others2|others2|others2| | | |assumption|dropbusy|logt Zg].
        -- left. intros u Hn Hb. apply Hn. apply (Zu u t j Hb). rewrite Lt. reflexivity.
        -- rewrite upd_same. cbn [lphase_of]. rewrite Pc. cbn. auto.
        -- rewrite (inring_pub N b _ id Ib Hp Hh). unfold resl. rewrite upd_same, P3. perm_count.
    + rewrite (z_sres_busy _ _ _ _ _ _ _ _ _ _ _ _ _ _ _ Lt (pval_busy _ _ Hcc)).
      apply (xi_layer _ _ _ _ _ _ _ _ _ _ _ _ _ _ _ _ _ _ _ t j X);
        [assumption|now apply reach_step|assumption|now apply noP2_step|others2|others2|auto|now right| | |assumption|keepbusy Lt|logt Zg].
      * rewrite upd_same. cbn [lphase_of]. auto.
      * rewrite (inring_same _ _ Hp Hh). reflexivity.
  - (* ZSResW j w: inside wake_stream *)
    destruct s as [[[a b p th l h] mm cth cl] lt rs lg]. change (XI (zmk a b p th l h mm cth cl lt rs lg)) in X.
    change (XI (zstep (zmk a b p th l h mm cth cl lt rs lg) t)). pose proof X as [Zp Zk Zl Zu Zg]. unfold zq in *. zsimp.
    pose proof (p_ph _ _ _ _ Zp t) as P. pose proof (p_ra _ _ _ _ Zp) as Ra. pose proof (p_rb _ _ _ _ Zp) as Rb.
    pose proof (p_2a _ _ _ _ Zp) as H2a. pose proof (p_2b _ _ _ _ Zp) as H2b. zsimp. rewrite Lt in P. cbn [lphase_of] in P.
    assert (Hc : cth t = XIdle) by (apply Zl; rewrite Lt; discriminate).
    destruct P as (Pc & P1 & P2).
    rewrite (z_wake _ _ _ _ _ _ _ _ _ _ _ _ _ _ _ Lt). destruct (wstep mm w) as [m' [w'|]].
    + apply (xi_layer _ _ _ _ _ _ _ _ _ _ _ _ _ _ _ _ _ _ _ t j X);
        [assumption|assumption|assumption|assumption|auto|others2|auto|now right| |reflexivity|assumption|dropbusy|logt Zg].
      rewrite upd_same. cbn [lphase_of]. auto.
    + apply (xi_layer _ _ _ _ _ _ _ _ _ _ _ _ _ _ _ _ _ _ _ t j X);
        [assumption|assumption|assumption|assumption|auto|others2|auto|now right| |reflexivity|assumption|dropbusy|logt Zg].
      rewrite upd_same. cbn [lphase_of]. rewrite Pc. cbn. auto.
  - (* ZCRes j: inside the give-back of the reserved id *)
    destruct s as [[[a b p th l h] mm cth cl] lt rs lg]. change (XI (zmk a b p th l h mm cth cl lt rs lg)) in X.
    change (XI (zstep (zmk a b p th l h mm cth cl lt rs lg) t)). pose proof X as [Zp Zk Zl Zu Zg]. unfold zq in *. zsimp.
    destruct (pu_bounds N Npos _ _ _ Zp Zu) as [Ba Bb]. zsimp.
    destruct (reach_invcov N Npos _ (p_ra _ _ _ _ Zp)) as [Ia _]. destruct (reach_invcov N Npos _ (p_rb _ _ _ _ Zp)) as [Ib _].
    pose proof (p_ph _ _ _ _ Zp t) as P. pose proof (p_ra _ _ _ _ Zp) as Ra. pose proof (p_rb _ _ _ _ Zp) as Rb.
    pose proof (p_2a _ _ _ _ Zp) as H2a. pose proof (p_2b _ _ _ _ Zp) as H2b. zsimp. rewrite Lt in P. cbn [lphase_of] in P.
    assert (Hc : cth t = XIdle) by (apply Zl; rewrite Lt; discriminate).
    destruct P as (Pc & (id & P1 & P3) & P2).
    destruct (ring_pub_step N a t id H2a P1) as [(Hi & (len & Hl) & Hp & Hh)|(Hcc & Hp & Hh)].
    + rewrite (z_cres_done _ _ _ _ _ _ _ _ _ _ _ _ _ _ Lt Hi).
      apply (xi_layer _ _ _ _ _ _ _ _ _ _ _ _ _ _ _ _ _ _ _ t j X);
        [now apply reach_step|assumption|now apply noP2_step|assumption|others2|others2|others2| | | |assumption|dropbusy|logt Zg].
      * left. intros u Hn Hb. apply Hn. apply (Zu u t j Hb). rewrite Lt. reflexivity.
      * rewrite upd_same. cbn [lphase_of]. rewrite Pc. cbn. auto.
      * rewrite (inring_pub N a _ id Ia Hp Hh). unfold resl. rewrite upd_same, P3. perm_count.
    + rewrite (z_cres_busy _ _ _ _ _ _ _ _ _ _ _ _ _ _ Lt (pval_busy _ _ Hcc)).
      apply (xi_layer _ _ _ _ _ _ _ _ _ _ _ _ _ _ _ _ _ _ _ t j X);
        [now apply reach_step|assumption|now apply noP2_step|assumption|others2|others2|auto|now right| | |assumption|keepbusy Lt|logt Zg].
      * rewrite upd_same. cbn [lphase_of]. eauto 6.
      * rewrite (inring_same _ _ Hp Hh). reflexivity.
  - (* ZNop j *)
    destruct s as [[[a b p th l h] mm cth cl] lt rs lg]. change (XI (zmk a b p th l h mm cth cl lt rs lg)) in X.
    change (XI (zstep (zmk a b p th l h mm cth cl lt rs lg) t)). pose proof X as [Zp Zk Zl Zu Zg]. unfold zq in *. zsimp.
    pose proof (p_ph _ _ _ _ Zp t) as P. pose proof (p_ra _ _ _ _ Zp) as Ra. pose proof (p_rb _ _ _ _ Zp) as Rb.
    pose proof (p_2a _ _ _ _ Zp) as H2a. pose proof (p_2b _ _ _ _ Zp) as H2b. zsimp. rewrite Lt in P. cbn [lphase_of] in P.
    assert (Hc : cth t = XIdle) by (apply Zl; rewrite Lt; discriminate).
    destruct P as (Pc & P1 & P2).
    rewrite (z_nop _ _ _ _ _ _ _ _ _ _ _ _ _ _ Lt).
    apply (xi_layer _ _ _ _ _ _ _ _ _ _ _ _ _ _ _ _ _ _ _ t j X);
      [assumption|assumption|assumption|assumption|auto|others2|auto|now right| |reflexivity|assumption|dropbusy|logt Zg].
    rewrite upd_same. cbn [lphase_of]. rewrite Pc. cbn. auto.
Qed.

(* a name at rest with an entry: nobody is operating on it at all *)
Lemma rest_free lt rs x j id : PU N lt rs x -> at_rest lt j -> rs j = Some id -> forall u, ~ busy_on (lt u) j.
Proof.
  intros Zp Hr E u Hb. pose proof (p_ph _ _ _ _ Zp u) as P. specialize (Hr u).
  destruct (lt u); cbn [busy_on opname lphase_of] in *; try contradiction; subst.
  - destruct P as (_ & _ & _ & P). congruence.
  - now apply Hr.
  - now apply Hr.
Qed.

(* ---- the beginning of an operation, under the discipline ---- *)
Theorem xi_start s t o : XI s -> zxwf s (ZStart t o) -> XI (zstart s t o).
Proof.
  intros X W. unfold zxstart. destruct (zthr _ s t) eqn:Lt; try exact X. destruct (cthr _ (zb _ s) t) eqn:Ec; try exact X.
  destruct o as [o'|j v|j|j]; [exact (xi_base s (CStart t o') X Lt)| | |].
  all: destruct s as [[[a b p th l h] mm cth cl] lt rs lg]; change (XI (zmk a b p th l h mm cth cl lt rs lg)) in X;
    pose proof X as [Zp Zk Zl Zu Zg]; unfold zq, zxwf in *; zsimp;
    pose proof (p_ph _ _ _ _ Zp t) as P; pose proof (p_ra _ _ _ _ Zp) as Ra; pose proof (p_rb _ _ _ _ Zp) as Rb;
    pose proof (p_2a _ _ _ _ Zp) as H2a; pose proof (p_2b _ _ _ _ Zp) as H2b; zsimp; rewrite Lt in P; cbn [lphase_of] in P;
    assert (Pc : th t = UIdle) by (destruct Zk as (_ & _ & Kq); apply Kq; cbn [cthr mk]; rewrite Ec; exact I);
    rewrite Pc in P; cbn [phase_of] in P; destruct P as [P1 P2].
  - (* reserve j v: the allocation begins *)
    destruct W as [Wn Wf].
    change (XI (zmk (start a t OpCons) b p th l h mm cth cl (upd lt t (ZRes j v)) rs lg)).
    destruct (start_idle a t OpCons P1) as (S0 & _). destruct (start_frame a t OpCons) as [Sp Sh].
    apply (xi_layer _ _ _ _ _ _ _ _ _ _ _ _ _ _ _ _ _ _ _ t j X);
      [now apply reach_start|assumption|now apply noP2_start|assumption|others2|others2|auto|now right| | |assumption| |exact Zg].
    + rewrite upd_same. cbn [lphase_of]. rewrite S0. auto.
    + rewrite (inring_same _ _ Sp Sh). reflexivity.
    + apply uniq_acquire; [assumption|]. intros j' Hb. cbn in Hb. subst j'. exact Wf.
  - (* send j *)
    cbn [zgoto zsetq with_b zb zthr zres zlog q m cthr clog mk ua ub upool uthr ulog uheld umk].
    destruct (rs j) as [id|] eqn:Er.
    + change (XI (zmk a (start b t (OpPub id)) p th l h mm cth cl (upd lt t (ZSRes j id)) rs lg)).
      destruct (start_idle b t (OpPub id) P2) as (S0 & _). destruct (start_frame b t (OpPub id)) as [Sp Sh].
      apply (xi_layer _ _ _ _ _ _ _ _ _ _ _ _ _ _ _ _ _ _ _ t j X);
        [assumption|now apply reach_start|assumption|now apply noP2_start|others2|others2|auto|now right| | |assumption| |exact Zg].
      * rewrite upd_same. cbn [lphase_of]. rewrite S0. auto.
      * rewrite (inring_same _ _ Sp Sh). reflexivity.
      * apply uniq_acquire; [assumption|]. intros j' Hb. cbn in Hb. subst j'. exact (rest_free _ _ _ _ _ Zp W Er).
    + change (XI (zmk a b p th l h mm cth cl (upd lt t (ZNop j)) rs lg)).
      apply (xi_layer _ _ _ _ _ _ _ _ _ _ _ _ _ _ _ _ _ _ _ t j X);
        [assumption|assumption|assumption|assumption|auto|others2|auto|now right| |reflexivity|assumption|dropbusy|exact Zg].
      rewrite upd_same. cbn [lphase_of]. auto.
  - (* cancel j *)
    cbn [zgoto zsetq with_a zb zthr zres zlog q m cthr clog mk ua ub upool uthr ulog uheld umk].
    destruct (rs j) as [id|] eqn:Er.
    + change (XI (zmk (start a t (OpPub id)) b p th l h mm cth cl (upd lt t (ZCRes j)) rs lg)).
      destruct (start_idle a t (OpPub id) P1) as (S0 & _). destruct (start_frame a t (OpPub id)) as [Sp Sh].
      apply (xi_layer _ _ _ _ _ _ _ _ _ _ _ _ _ _ _ _ _ _ _ t j X);
        [now apply reach_start|assumption|now apply noP2_start|assumption|others2|others2|auto|now right| | |assumption| |exact Zg].
      * rewrite upd_same. cbn [lphase_of]. rewrite S0. split; [assumption|]. split; [exists id; auto|assumption].
      * rewrite (inring_same _ _ Sp Sh). reflexivity.
      * apply uniq_acquire; [assumption|]. intros j' Hb. cbn in Hb. subst j'. exact (rest_free _ _ _ _ _ Zp W Er).
    + change (XI (zmk a b p th l h mm cth cl (upd lt t (ZNop j)) rs lg)).
      apply (xi_layer _ _ _ _ _ _ _ _ _ _ _ _ _ _ _ _ _ _ _ t j X);
        [assumption|assumption|assumption|assumption|auto|others2|auto|now right| |reflexivity|assumption|dropbusy|exact Zg].
      rewrite upd_same. cbn [lphase_of]. auto.
Qed.

(* ---- the initial state ---- *)
Lemma pu_of_zi x : ZI N x -> PU N (fun _ => ZN) (fun _ => None) x.
Proof.
  intros Z. constructor; [apply Z|apply Z|intros t; exact (z_ph _ _ Z t)|apply Z|apply Z|apply Z|].
  destruct (proj1 (conserve_owned N x) (z_cons _ _ Z)) as (ths & Hn & Ho & Hp).
  exists ths, []. split; [exact Hn|]. split; [constructor|]. split; [intros t Ht; split; [now apply Ho|reflexivity]|]. split; [reflexivity|].
  cbn [flat_map]. rewrite app_nil_r. exact Hp.
Qed.

Theorem xi_init : XI (zxinit st k (zc_q0 N)).
Proof.
  constructor; unfold zxinit, zq; cbn [zb zthr zres zlog cinit q cthr].
  - apply pu_of_zi. apply (zi_init N Npos).
  - split; [intros t; reflexivity|]. split; [intros t E; discriminate|intros t _; reflexivity].
  - intros t H. contradiction.
  - intros t t' j H. destruct H.
  - intros t j [].
Qed.

Theorem zxreach_XI s : zxreach s -> XI s.
Proof. induction 1 as [|s e R IH W]; [exact xi_init|]. destruct e as [t|t o]; cbn [zxexec]; [now apply xi_step|now apply xi_start]. Qed.

(* ------------------------------------------------------------------------------------------------ results, for the states of well-formed runs *)
Local Notation A s := (ua st (zq st s)).
Local Notation B s := (ub st (zq st s)).

Lemma ltrl_ltransl s t : PU N (zthr _ s) (zres _ s) (zq _ s) -> ltrl (zthr _ s) (zres _ s) t = ltransl s t.
Proof.
  intros Zp. pose proof (p_ph _ _ _ _ Zp t) as P. unfold ltrl, ltransl. destruct (zthr _ s t); cbn [opname lphase_of] in *; try reflexivity.
  destruct P as (_ & _ & _ & E). unfold resl. now rewrite E.
Qed.

(* MAIN: the five places *)
Theorem xi_five s : XI s ->
  exists ths ks, NoDup ths /\ NoDup ks /\
    (forall t, ~ In t ths -> heldl (zq _ s) t = [] /\ transl (zq _ s) t = [] /\ ltransl s t = []) /\
    (forall j, In j ks <-> (exists id, zres _ s j = Some id) /\ at_rest (zthr _ s) j) /\
    Permutation (ids_upto N)
      (inring (A s) ++ inring (B s) ++ flat_map (heldl (zq _ s)) ths ++ flat_map (transl (zq _ s)) ths
       ++ flat_map (ltransl s) ths ++ flat_map (resl (zres _ s)) ks).
Proof.
  intros [Zp Zk Zl Zu Zg]. destruct (pu_five N _ _ _ Zp Zu) as (ths & ks & Hn & Hk & Ho & Hm & Hp).
  exists ths, ks. split; [exact Hn|]. split; [exact Hk|]. split; [|split; [exact Hm|]].
  - intros t Ht. destruct (Ho t Ht) as [E1 E2]. apply app_eq_nil in E1. destruct E1 as [E1 E1'].
    split; [exact E1|]. split; [exact E1'|]. rewrite <- (ltrl_ltransl s t Zp). unfold ltrl. now rewrite E2.
  - rewrite Hp. do 2 apply Permutation_app_head.
    rewrite (flat_map_ext _ _ (fun t => ltrl_ltransl s t Zp)).
    change (flat_map (owned (zq st s)) ths) with (flat_map (fun t => heldl (zq st s) t ++ transl (zq st s) t) ths).
    rewrite flat_map_app_perm, <- !app_assoc. reflexivity.
Qed.

(* an id in the table: in range, in neither ring, not in the custody of any thread of the base machine, not in the table twice;
   and the two rings together hold fewer than N ids *)
Lemma entry_exclusive s j id : XI s -> zres _ s j = Some id ->
  0 <= id < N /\ (tail (A s) - head (A s)) + (tail (B s) - head (B s)) < N /\
  ~ In id (inring (A s)) /\ ~ In id (inring (B s)) /\ (forall t, ~ In id (owned (zq _ s) t)) /\ (forall j', zres _ s j' = Some id -> j' = j).
Proof.
  intros [Zp Zk Zl Zu Zg] E. destruct (p_cons _ _ _ _ Zp) as (ths & ks & Hn & Hk & Ho & Hr & Hp).
  destruct (reach_invcov N Npos _ (p_ra _ _ _ _ Zp)) as [Ia _]. destruct (reach_invcov N Npos _ (p_rb _ _ _ _ Zp)) as [Ib _].
  assert (Hks : forall i v, zres _ s i = Some v -> In i ks).
  { intros i v Ei. destruct (in_dec Nat.eq_dec i ks) as [|Hnin]; [assumption|]. rewrite (Hr i Hnin) in Ei. discriminate. }
  assert (HR : forall i v, zres _ s i = Some v -> In v (flat_map (resl (zres _ s)) ks)).
  { intros i v Ei. apply in_flat_map. exists i. split; [exact (Hks i v Ei)|]. unfold resl. rewrite Ei. now left. }
  pose proof (Permutation_NoDup Hp (ids_upto_nodup N)) as Hd.
  set (R := flat_map (resl (zres _ s)) ks) in *. set (O := flat_map (owned (zq _ s)) ths) in *.
  assert (Hin : In id R) by exact (HR j id E).
  split; [|split; [|split; [|split; [|split]]]].
  - apply ids_upto_in. apply (Permutation_in _ (Permutation_sym Hp)). apply in_or_app; right. apply in_or_app; right. apply in_or_app; now right.
  - assert (H1 : (1 <= length R)%nat) by (destruct R; [destruct Hin|cbn; lia]).
    apply Permutation_length in Hp. rewrite !app_length in Hp. unfold ids_upto in Hp. rewrite map_length, seq_length in Hp.
    pose proof (inring_length N _ Ia). pose proof (inring_length N _ Ib). lia.
  - intros Ha. apply (nodup_app_disj _ _ id Hd Ha). apply in_or_app; right. apply in_or_app; now right.
  - intros Hb. apply nodup_app_r in Hd. apply (nodup_app_disj _ _ id Hd Hb). apply in_or_app; now right.
  - intros t Ht. apply nodup_app_r, nodup_app_r in Hd. apply (nodup_app_disj _ _ id Hd); [|exact Hin].
    apply in_flat_map. exists t. split; [|exact Ht].
    destruct (in_dec Nat.eq_dec t ths) as [|Hnin]; [assumption|]. rewrite (proj1 (Ho t Hnin)) in Ht. destruct Ht.
  - intros j' E'. apply nodup_app_r, nodup_app_r, nodup_app_r in Hd.
    apply (nodup_flat_map_owner (resl (zres _ s)) ks j' j id Hd (Hks _ _ E') (Hks _ _ E)); unfold resl; [rewrite E'|rewrite E]; now left.
Qed.

Lemma xi_allnone s : XI s -> forall t, uheld _ (zq _ s) t = None.
Proof. intros X. exact (proj1 (xi_k _ X)). Qed.

(* COROLLARY 1: no leak.  Nothing in progress: the two rings hold all the ids but the reserved ones *)
Theorem xi_no_leak s : XI s -> (forall t, cthr _ (zb _ s) t = XIdle) -> (forall t, zthr _ s t = ZN) ->
  exists ks, NoDup ks /\ (forall j, In j ks <-> exists id, zres _ s j = Some id) /\
    (tail (A s) - head (A s)) + (tail (B s) - head (B s)) = N - Z.of_nat (length ks) /\
    Permutation (ids_upto N) (inring (A s) ++ inring (B s) ++ flat_map (resl (zres _ s)) ks).
Proof.
  intros X Hc Hl. destruct (xi_five s X) as (ths & ks & Hn & Hk & Ho & Hm & Hp). pose proof X as [Zp Zk _ _ _].
  destruct (reach_invcov N Npos _ (p_ra _ _ _ _ Zp)) as [Ia _]. destruct (reach_invcov N Npos _ (p_rb _ _ _ _ Zp)) as [Ib _].
  assert (Hm' : forall j, In j ks <-> exists id, zres _ s j = Some id).
  { intros j. rewrite Hm. split; [intros [H _]; exact H|]. intros H. split; [exact H|]. intros t. rewrite Hl. discriminate. }
  assert (Hp' : Permutation (ids_upto N) (inring (A s) ++ inring (B s) ++ flat_map (resl (zres _ s)) ks)).
  { rewrite (flat_map_nil (heldl (zq _ s)) ths), (flat_map_nil (transl (zq _ s)) ths), (flat_map_nil (ltransl s) ths) in Hp; [exact Hp| | |].
    - intros t. unfold ltransl. now rewrite Hl.
    - intros t. unfold transl. destruct Zk as (_ & _ & Kq). unfold zq. rewrite (Kq t); [reflexivity|]. rewrite Hc. exact I.
    - intros t. unfold heldl. now rewrite (xi_allnone s X t). }
  exists ks. split; [exact Hk|]. split; [exact Hm'|]. split; [|exact Hp'].
  pose proof (length_entries (zres _ s) ks (fun j Hj => proj1 (Hm' j) Hj)) as Hlen.
  apply Permutation_length in Hp'. rewrite !app_length, Hlen in Hp'. unfold ids_upto in Hp'. rewrite map_length, seq_length in Hp'.
  pose proof (inring_length N _ Ia). pose proof (inring_length N _ Ib). lia.
Qed.

(* COROLLARY 2: a reservation is exclusive *)
Theorem xi_reserved_exclusive s : XI s ->
  (forall j j' id, zres _ s j = Some id -> zres _ s j' = Some id -> j = j') /\
  (forall j id, zres _ s j = Some id ->
     0 <= id < N /\ ~ In id (inring (A s)) /\ ~ In id (inring (B s)) /\
     (forall t, uheld _ (zq _ s) t <> Some id) /\ (forall t, ~ In id (transl (zq _ s) t)) /\
     (* ... and while nobody is sending / cancelling j it is not the id any layer operation carries either *)
     (at_rest (zthr _ s) j -> forall t, ~ In id (ltransl s t))).
Proof.
  intros X. split.
  - intros j j' id E E'. destruct (entry_exclusive s j' id X E') as (_ & _ & _ & _ & _ & H). exact (H j E).
  - intros j id E. destruct (entry_exclusive s j id X E) as (Hr & _ & Ha & Hb & Ho & Hu).
    split; [exact Hr|]. split; [exact Ha|]. split; [exact Hb|]. split; [|split].
    + intros t. rewrite (xi_allnone s X t). discriminate.
    + intros t Ht. apply (Ho t). unfold owned. apply in_or_app. now right.
    + intros Hrest t Ht. pose proof (xi_pu _ X) as Zp. pose proof (p_ph _ _ _ _ Zp t) as P. unfold ltransl in Ht.
      destruct (zthr _ s t) as [|i v|i id'|i w|i|i] eqn:Lt; cbn [lphase_of] in P; try (destruct Ht; fail).
      * destruct Ht as [->|[]]. destruct P as (_ & _ & _ & E'). rewrite (Hu i E') in Lt. apply (Hrest t). now rewrite Lt.
      * unfold resl in Ht. destruct (zres _ s i) as [id'|] eqn:E'; [|destruct Ht]. destruct Ht as [->|[]].
        rewrite (Hu i E') in Lt. apply (Hrest t). now rewrite Lt.
Qed.

(* COROLLARY 3: the publication of a reserved id never finds the id ring full *)
Theorem xi_sendres_never_full s t j id : XI s -> zthr _ s t = ZSRes j id ->
  zres _ s j = Some id /\ tail (B s) - head (B s) < N /\ ~ In id (inring (B s)) /\
  let s' := zstep s t in
  (   (zthr _ s' t = ZSRes j id /\ zres _ s' j = Some id /\ zlog _ s' = zlog _ s /\ inring (B s') = inring (B s))
   \/ (inring (B s') = inring (B s) ++ [id] /\ zres _ s' j = None /\ (exists len, lastres (B s') = ROk id len) /\
       (   (zthr _ s' t = ZN /\ zlog _ s' = zlog _ s ++ [(t, XSent j)])
        \/ (exists i, zthr _ s' t = ZSResW j (W0 i) /\ zlog _ s' = zlog _ s)))).
Proof.
  intros X Lt. pose proof X as [Zp Zk Zl Zu Zg].
  pose proof (p_ph _ _ _ _ Zp t) as P. rewrite Lt in P. cbn [lphase_of] in P. destruct P as (Pc & P1 & P2 & P3).
  destruct (entry_exclusive s j id X P3) as (_ & Hroom & _ & Hb & _ & _).
  destruct (reach_invcov N Npos _ (p_ra _ _ _ _ Zp)) as [Ia _]. destruct (reach_invcov N Npos _ (p_rb _ _ _ _ Zp)) as [Ib _].
  pose proof (i_ord _ _ Ia) as Oa. split; [exact P3|]. split; [lia|]. split; [exact Hb|]. cbn zeta.
  pose proof (p_2b _ _ _ _ Zp) as H2b.
  remember (zstep s t) as s' eqn:Es'. destruct s as [[[a b p th l h] mm cth cl] lt rs lg]. unfold zq in *. zsimp.
  change (s' = zstep (zmk a b p th l h mm cth cl lt rs lg) t) in Es'.
  destruct (ring_pub_step N b t id H2b P2) as [(Hi & (len & Hl) & Hp & Hh)|(Hcc & Hp & Hh)].
  - right. subst s'.
    rewrite (z_sres_ok _ _ _ _ _ _ _ _ _ _ _ _ _ _ _ _ _ Lt Hi (lastres_snoc _ _ _ _ Hl)).
    destruct (wr len) as [i|]; zsimp; rewrite !upd_same; (split; [exact (inring_pub N b _ id Ib Hp Hh)|]); (split; [reflexivity|]);
      (split; [exists len; exact (lastres_snoc _ _ _ _ Hl)|]); [right; eauto|left; auto].
  - left. subst s'.
    rewrite (z_sres_busy _ _ _ _ _ _ _ _ _ _ _ _ _ _ _ Lt (pval_busy _ _ Hcc)). zsimp. rewrite upd_same.
    split; [reflexivity|]. split; [exact P3|]. split; [reflexivity|exact (inring_same _ _ Hp Hh)].
Qed.

(* COROLLARY 4: the give-back of a reserved id never finds the free list full *)
Theorem xi_cancel_never_full s t j : XI s -> zthr _ s t = ZCRes j ->
  exists id, zres _ s j = Some id /\ pval (thr (A s) t) = Some id /\ tail (A s) - head (A s) < N /\ ~ In id (inring (A s)) /\
  let s' := zstep s t in
  (   (zthr _ s' t = ZCRes j /\ zres _ s' j = Some id /\ zlog _ s' = zlog _ s /\ inring (A s') = inring (A s))
   \/ (inring (A s') = inring (A s) ++ [id] /\ zres _ s' j = None /\ (exists len, lastres (A s') = ROk id len) /\
       zthr _ s' t = ZN /\ zlog _ s' = zlog _ s ++ [(t, XCancelled j)])).
Proof.
  intros X Lt. pose proof X as [Zp Zk Zl Zu Zg].
  pose proof (p_ph _ _ _ _ Zp t) as P. rewrite Lt in P. cbn [lphase_of] in P. destruct P as (Pc & (id & P1 & P3) & P2).
  destruct (entry_exclusive s j id X P3) as (_ & Hroom & Ha & _ & _ & _).
  destruct (reach_invcov N Npos _ (p_ra _ _ _ _ Zp)) as [Ia _]. destruct (reach_invcov N Npos _ (p_rb _ _ _ _ Zp)) as [Ib _].
  pose proof (i_ord _ _ Ib) as Ob. exists id. split; [exact P3|]. split; [exact P1|]. split; [lia|]. split; [exact Ha|]. cbn zeta.
  pose proof (p_2a _ _ _ _ Zp) as H2a.
  remember (zstep s t) as s' eqn:Es'. destruct s as [[[a b p th l h] mm cth cl] lt rs lg]. unfold zq in *. zsimp.
  change (s' = zstep (zmk a b p th l h mm cth cl lt rs lg) t) in Es'.
  destruct (ring_pub_step N a t id H2a P1) as [(Hi & (len & Hl) & Hp & Hh)|(Hcc & Hp & Hh)].
  - right. subst s'.
    rewrite (z_cres_done _ _ _ _ _ _ _ _ _ _ _ _ _ _ Lt Hi). zsimp. rewrite !upd_same.
    split; [exact (inring_pub N a _ id Ia Hp Hh)|]. split; [reflexivity|]. split; [exists len; exact (lastres_snoc _ _ _ _ Hl)|]. auto.
  - left. subst s'.
    rewrite (z_cres_busy _ _ _ _ _ _ _ _ _ _ _ _ _ _ Lt (pval_busy _ _ Hcc)). zsimp. rewrite upd_same.
    split; [reflexivity|]. split; [exact P3|]. split; [reflexivity|exact (inring_same _ _ Hp Hh)].
Qed.

End ZXConserve.

(* ------------------------------------------------------------------------------------------------ the discipline is checkable along a run
   (ths: the threads the run uses; every other thread is outside the layer) *)
Section Checker.
Variable N : Z.
Variable M k : nat.
Variables ws wr : Z -> option nat.
Local Notation zxst := (zxst st).
Local Notation zexec := (zxexec st (stepZ N) start ring_idle0 log true (fun _ => 0) M k ws wr).

Definition busy_onb (p : zxpc) (j : nat) : bool := match p with ZRes j' _ | ZSRes j' _ | ZCRes j' => Nat.eqb j' j | _ => false end.
Definition opnameb (p : zxpc) (j : nat) : bool := match p with ZSRes j' _ | ZCRes j' => Nat.eqb j' j | _ => false end.
Definition zxwf_b (ths : list nat) (s : zxst) (e : zxev) : bool :=
  match e with
  | ZStart _ (ZoReserve j _) => match zres _ s j with None => forallb (fun u => negb (busy_onb (zthr _ s u) j)) ths | Some _ => false end
  | ZStart _ (ZoSendRes j) | ZStart _ (ZoCancelRes j) => forallb (fun u => negb (opnameb (zthr _ s u) j)) ths
  | _ => true
  end.
Definition ev_thr (e : zxev) : nat := match e with ZStep t | ZStart t _ => t end.
Fixpoint zxwf_run_b (ths : list nat) (s : zxst) (evs : list zxev) : bool :=
  match evs with
  | [] => true
  | e :: rest => existsb (Nat.eqb (ev_thr e)) ths && zxwf_b ths s e && zxwf_run_b ths (zexec s e) rest
  end.

Lemma busy_onb_spec p j : busy_on p j -> busy_onb p j = true.
Proof. destruct p; cbn; try contradiction; intros ->; apply Nat.eqb_refl. Qed.
Lemma opnameb_spec p j : opname p = Some j -> opnameb p j = true.
Proof. destruct p; cbn; try discriminate; intros E; injection E as ->; apply Nat.eqb_refl. Qed.

Lemma zthr_exec_other s e u : u <> ev_thr e -> zthr _ (zexec s e) u = zthr _ s u.
Proof.
  intros Hn. destruct e as [t|t o]; cbn [ev_thr zxexec] in *.
  - unfold zxstep. destruct (zthr _ s t) eqn:E; cbn [zb]; try reflexivity;
    repeat match goal with
           | |- context[if ?b then _ else _] => destruct b
           | |- context[match lastres ?A ?B ?C with _ => _ end] => destruct (lastres A B C)
           | |- context[match wr ?l with _ => _ end] => destruct (wr l)
           | |- context[wstep ?a ?b] => destruct (wstep a b) as [? [?|]]
           end; unfold zfinish, zgoto; cbn [zthr]; rewrite ?upd_other by assumption; reflexivity.
  - unfold zxstart. destruct (zthr _ s t); try reflexivity. destruct (cthr _ (zb _ s) t); try reflexivity.
    destruct o as [o'|j v|j|j]; [reflexivity| |destruct (zres _ s j)|destruct (zres _ s j)]; unfold zgoto; cbn [zthr]; now rewrite upd_other.
Qed.

Lemma zxwf_b_sound ths s e : (forall u, ~ In u ths -> zthr _ s u = ZN) -> zxwf_b ths s e = true -> zxwf s e.
Proof.
  intros Ho. destruct e as [t|t [o|j v|j|j]]; cbn [zxwf_b zxwf]; auto.
  - destruct (zres _ s j); [discriminate|]. intros H. split; [reflexivity|]. intros u Hb.
    destruct (in_dec Nat.eq_dec u ths) as [Hi|Hni]; [|rewrite (Ho u Hni) in Hb; exact Hb].
    rewrite forallb_forall in H. specialize (H u Hi). rewrite (busy_onb_spec _ _ Hb) in H. discriminate.
  - intros H u E. destruct (in_dec Nat.eq_dec u ths) as [Hi|Hni]; [|rewrite (Ho u Hni) in E; discriminate].
    rewrite forallb_forall in H. specialize (H u Hi). rewrite (opnameb_spec _ _ E) in H. discriminate.
  - intros H u E. destruct (in_dec Nat.eq_dec u ths) as [Hi|Hni]; [|rewrite (Ho u Hni) in E; discriminate].
    rewrite forallb_forall in H. specialize (H u Hi). rewrite (opnameb_spec _ _ E) in H. discriminate.
Qed.

Lemma zxwf_run_b_sound ths evs : forall s, (forall u, ~ In u ths -> zthr _ s u = ZN) -> zxwf_run_b ths s evs = true -> zxwf_run N M k ws wr s evs.
Proof.
  induction evs as [|e evs IH]; intros s Ho H; [exact I|]. cbn [zxwf_run_b zxwf_run] in *.
  apply andb_true_iff in H. destruct H as [H H3]. apply andb_true_iff in H. destruct H as [H1 H2].
  split; [now apply (zxwf_b_sound ths)|]. apply IH; [|exact H3].
  intros u Hu. rewrite zthr_exec_other; [now apply Ho|]. intros ->. apply Hu.
  apply existsb_exists in H1. destruct H1 as (w & Hw & Ew). apply Nat.eqb_eq in Ew. now rewrite Ew.
Qed.

Theorem zx_wf_check ths evs : zxwf_run_b ths (zxinit st k (zc_q0 N)) evs = true -> zx_wf N M k ws wr evs.
Proof. intros H. apply (zxwf_run_b_sound ths); [intros u _; reflexivity|exact H]. Qed.
End Checker.

(* ================================================================================================ MAIN THEOREMS
   for every state of every well-formed run of the zero-copy atomic Uni channel with its reserve API *)
Theorem zx_slots_conserved : forall N, 0 < N -> forall M k ws wr evs, zx_wf N M k ws wr evs ->
  let s := zx_run N M k ws wr evs in let x := zq st s in
  exists ths ks, NoDup ths /\ NoDup ks /\
    (forall t, ~ In t ths -> heldl x t = [] /\ transl x t = [] /\ ltransl s t = []) /\      (* ths: every thread with custody of an id *)
    (forall j, In j ks <-> (exists id, zres _ s j = Some id) /\ at_rest (zthr _ s) j) /\       (* ks: exactly the names RESERVED and at rest *)
    Permutation (ids_upto N)
      (inring (ua _ x) ++                      (* 1. the free list *)
       inring (ub _ x) ++                      (* 2. the id ring *)
       flat_map (heldl x) ths ++               (* 3. held by a consumer *)
       flat_map (transl x) ths ++              (* 4. in transit in the base machine: UEnqB v id / URel id *)
       flat_map (ltransl s) ths ++             (* 4. in transit in the layer: ZSRes k id / ZCRes k *)
       flat_map (resl (zres _ s)) ks).         (* 5. reserved *)
Proof.
  intros N Npos M k ws wr evs W s x. apply (xi_five N). apply (zxreach_XI N Npos M k ws wr). now apply zx_wf_reach.
Qed.

Theorem zx_no_leak : forall N, 0 < N -> forall M k ws wr evs, zx_wf N M k ws wr evs ->
  let s := zx_run N M k ws wr evs in let x := zq st s in
  (forall t, cthr _ (zb _ s) t = XIdle) -> (forall t, zthr _ s t = ZN) ->        (* nothing in progress ... *)
  (forall t, uheld _ x t = None) /\                                              (* ... (nobody holds a handle then: in fact never between two events) *)
  (exists ks, NoDup ks /\ (forall j, In j ks <-> exists id, zres _ s j = Some id) /\           (* ks: the outstanding reservations *)
     (tail (ua _ x) - head (ua _ x)) + (tail (ub _ x) - head (ub _ x)) = N - Z.of_nat (length ks) /\
     Permutation (ids_upto N) (inring (ua _ x) ++ inring (ub _ x) ++ flat_map (resl (zres _ s)) ks)) /\
  ((forall j, zres _ s j = None) ->                                              (* no reservation outstanding: all N slots are in the rings *)
     (tail (ua _ x) - head (ua _ x)) + (tail (ub _ x) - head (ub _ x)) = N /\
     Permutation (ids_upto N) (inring (ua _ x) ++ inring (ub _ x))).
Proof.
  intros N Npos M k ws wr evs W s x Hc Hl. subst x.
  assert (X : XI N s) by (apply (zxreach_XI N Npos M k ws wr); now apply zx_wf_reach).
  split; [exact (xi_allnone N s X)|]. destruct (xi_no_leak N Npos s X Hc Hl) as (ks & Hk & Hm & Hs & Hp).
  split; [exists ks; auto|]. intros Hnone.
  assert (E : ks = []). { destruct ks as [|j ks]; [reflexivity|]. destruct (proj1 (Hm j) (or_introl eq_refl)) as [id E]. rewrite Hnone in E. discriminate. }
  subst ks. cbn [length flat_map] in *. rewrite app_nil_r in Hp. split; [lia|exact Hp].
Qed.

Theorem zx_reserved_exclusive : forall N, 0 < N -> forall M k ws wr evs, zx_wf N M k ws wr evs ->
  let s := zx_run N M k ws wr evs in let x := zq st s in
  (forall j j' id, zres _ s j = Some id -> zres _ s j' = Some id -> j = j') /\                 (* two names never hold the same id *)
  (forall j id, zres _ s j = Some id ->
     0 <= id < N /\ ~ In id (inring (ua _ x)) /\ ~ In id (inring (ub _ x)) /\                  (* a reserved id is in neither ring, *)
     (forall t, uheld _ x t <> Some id) /\ (forall t, ~ In id (transl x t)) /\                 (* not held, not in transit in the base machine, *)
     (at_rest (zthr _ s) j -> forall t, ~ In id (ltransl s t))).                               (* and (name at rest) not in transit in the layer *)
Proof.
  intros N Npos M k ws wr evs W s x. apply (xi_reserved_exclusive N Npos). apply (zxreach_XI N Npos M k ws wr). now apply zx_wf_reach.
Qed.

Theorem zx_sendres_never_full : forall N, 0 < N -> forall M k ws wr evs, zx_wf N M k ws wr evs ->
  let s := zx_run N M k ws wr evs in
  (* the answer "not sent" is never given ... *)
  (forall t j, ~ In (t, XNotSent j) (zlog _ s)) /\
  (* ... because a thread inside the publication of a reserved id finds room in the id ring: its next step continues the publication or
     completes it ACCEPTED (the id is appended to the ring, the table entry cleared in that same step) *)
  (forall t j id, zthr _ s t = ZSRes j id ->
     zres _ s j = Some id /\ tail (ub _ (zq _ s)) - head (ub _ (zq _ s)) < N /\ ~ In id (inring (ub _ (zq _ s))) /\
     let s' := zxstep st (stepZ N) start ring_idle0 log true (fun _ => 0) M k ws wr s t in
     (   (zthr _ s' t = ZSRes j id /\ zres _ s' j = Some id /\ zlog _ s' = zlog _ s /\ inring (ub _ (zq _ s')) = inring (ub _ (zq _ s)))
      \/ (inring (ub _ (zq _ s')) = inring (ub _ (zq _ s)) ++ [id] /\ zres _ s' j = None /\
          (exists len, lastres st log (ub _ (zq _ s')) = ROk id len) /\
          (   (zthr _ s' t = ZN /\ zlog _ s' = zlog _ s ++ [(t, XSent j)])
           \/ (exists i, zthr _ s' t = ZSResW j (W0 i) /\ zlog _ s' = zlog _ s))))).
Proof.
  intros N Npos M k ws wr evs W s.
  assert (X : XI N s) by (apply (zxreach_XI N Npos M k ws wr); now apply zx_wf_reach).
  split; [exact (xi_log _ _ X)|]. intros t j id Lt. exact (xi_sendres_never_full N Npos M k ws wr s t j id X Lt).
Qed.

Theorem zx_cancel_never_full : forall N, 0 < N -> forall M k ws wr evs, zx_wf N M k ws wr evs ->
  let s := zx_run N M k ws wr evs in
  forall t j, zthr _ s t = ZCRes j ->
    exists id, zres _ s j = Some id /\ pval (thr (ua _ (zq _ s)) t) = Some id /\
      tail (ua _ (zq _ s)) - head (ua _ (zq _ s)) < N /\ ~ In id (inring (ua _ (zq _ s))) /\
      let s' := zxstep st (stepZ N) start ring_idle0 log true (fun _ => 0) M k ws wr s t in
      (   (zthr _ s' t = ZCRes j /\ zres _ s' j = Some id /\ zlog _ s' = zlog _ s /\ inring (ua _ (zq _ s')) = inring (ua _ (zq _ s)))
       \/ (inring (ua _ (zq _ s')) = inring (ua _ (zq _ s)) ++ [id] /\ zres _ s' j = None /\
           (exists len, lastres st log (ua _ (zq _ s')) = ROk id len) /\             (* the free list ACCEPTED the id: "cancelled" is justified *)
           zthr _ s' t = ZN /\ zlog _ s' = zlog _ s ++ [(t, XCancelled j)])).
Proof.
  intros N Npos M k ws wr evs W s t j Lt.
  assert (X : XI N s) by (apply (zxreach_XI N Npos M k ws wr); now apply zx_wf_reach).
  exact (xi_cancel_never_full N Npos M k ws wr s t j X Lt).
Qed.

(* ------------------------------------------------------------------------------------------------ non-vacuity
   N = 4, MAX_STREAMS = 2, one stream.  Thread 1 reserves names 0 and 1 (slots 0 and 1, payloads 70 and 80), thread 3 name 2 (slot 2, 90).
   Snapshot 1: thread 1 has begun to cancel name 0, thread 2 to send name 1 (one step each).
   Snapshot 2: both completed (with the wake-up of stream 0); thread 4 polled stream 0 and was handed slot 1 (payload 80): it is dropping
   the handle (the channel machine starts the drop in the step that yields: between two events nobody "holds", the id is in transit). *)
Definition zsteps (t n : nat) : list zxev := repeat (ZStep t) n.
Definition ex_evs1 : list zxev :=
  [ZStart 1 (ZoReserve 0 70)] ++ zsteps 1 4 ++ [ZStart 1 (ZoReserve 1 80)] ++ zsteps 1 4 ++ [ZStart 3 (ZoReserve 2 90)] ++ zsteps 3 4
  ++ [ZStart 1 (ZoCancelRes 0); ZStep 1; ZStart 2 (ZoSendRes 1); ZStep 2].
Definition ex_evs2 : list zxev := ex_evs1 ++ zsteps 1 3 ++ zsteps 2 8 ++ [ZStart 4 (ZoBase (CoPoll 0))] ++ zsteps 4 4.
Definition ex_run := zx_run 4 2 1 (wake_rule_atomic 2) (wake_res_code 2).

Example ex_wf1 : zx_wf 4 2 1 (wake_rule_atomic 2) (wake_res_code 2) ex_evs1.
Proof. apply (zx_wf_check 4 2 1 _ _ [1; 2; 3; 4]%nat). vm_compute. reflexivity. Qed.
Example ex_wf2 : zx_wf 4 2 1 (wake_rule_atomic 2) (wake_res_code 2) ex_evs2.
Proof. apply (zx_wf_check 4 2 1 _ _ [1; 2; 3; 4]%nat). vm_compute. reflexivity. Qed.

Example ex_snapshot1 : let s := ex_run ex_evs1 in let x := zq st s in
  inring (ua _ x) = [3] /\ inring (ub _ x) = [] /\                                            (* free list; id ring *)
  zthr _ s 1%nat = ZCRes 0 /\ ltransl s 1%nat = [0] /\                                        (* slot 0: being given back by thread 1 *)
  zthr _ s 2%nat = ZSRes 1 1 /\ ltransl s 2%nat = [1] /\                                      (* slot 1: being published by thread 2 *)
  map (zres _ s) [0; 1; 2; 3]%nat = [Some 0; Some 1; Some 2; None] /\                          (* the table: names 0, 1 in progress, *)
  flat_map (resl (zres _ s)) [2%nat] = [2] /\                                                 (* slot 2: RESERVED (name 2, at rest) *)
  map (upool _ x) [0; 1; 2] = [70; 80; 90].
Proof. vm_compute. repeat split; reflexivity. Qed.

Example ex_snapshot2 : let s := ex_run ex_evs2 in let x := zq st s in
  inring (ua _ x) = [3; 0] /\ inring (ub _ x) = [] /\                                         (* slot 0 is back in the free list *)
  map (zthr _ s) [1; 2; 3; 4]%nat = [ZN; ZN; ZN; ZN] /\
  map (zres _ s) [0; 1; 2; 3]%nat = [None; None; Some 2; None] /\                              (* slot 2 still reserved *)
  zlog _ s = [(1, XSlot 0); (1, XSlot 1); (3, XSlot 2); (1, XCancelled 0); (2, XSent 1)]%nat /\
  cthr _ (zb _ s) 4%nat = XRel 0 false /\ uthr _ x 4%nat = URel 1 /\ transl x 4%nat = [1] /\  (* slot 1: the consumer's, on its way back *)
  clog _ (zb _ s) = [(4%nat, CYield 0 80)].                                                   (* ... it was handed the payload 80 *)
Proof. vm_compute. repeat split; reflexivity. Qed.

(* the theorem, instantiated: the witnesses are ths = the threads 1..4 and ks = [2] *)
Example ex_conserved2 : let s := ex_run ex_evs2 in let x := zq st s in
  Permutation (ids_upto 4)
    (inring (ua _ x) ++ inring (ub _ x) ++ flat_map (heldl x) [1; 2; 3; 4]%nat ++ flat_map (transl x) [1; 2; 3; 4]%nat
     ++ flat_map (ltransl s) [1; 2; 3; 4]%nat ++ flat_map (resl (zres _ s)) [2%nat]).
Proof.
  vm_compute.                                      (* Permutation [0; 1; 2; 3] [3; 0; 1; 2] *)
  apply (proj2 (Permutation_count_occ Z.eq_dec _ _)); intro z; cbn [count_occ]; repeat destruct (Z.eq_dec _ _); lia.
Qed.
Example ex_conserved1 : let s := ex_run ex_evs1 in let x := zq st s in
  Permutation (ids_upto 4)
    (inring (ua _ x) ++ inring (ub _ x) ++ flat_map (heldl x) [1; 2; 3; 4]%nat ++ flat_map (transl x) [1; 2; 3; 4]%nat
     ++ flat_map (ltransl s) [1; 2; 3; 4]%nat ++ flat_map (resl (zres _ s)) [2%nat]).
Proof.
  vm_compute.                                      (* Permutation [0; 1; 2; 3] [3; 0; 1; 2] *)
  apply (proj2 (Permutation_count_occ Z.eq_dec _ _)); intro z; cbn [count_occ]; repeat destruct (Z.eq_dec _ _); lia.
Qed.

(* ------------------------------------------------------------------------------------------------ why the discipline (model-validity boundary)
   The table has one entry per name.  (a) Thread 1 reserves name 0 twice: the second allocation overwrites the entry, slot 0 is then in
   none of the five places (everything idle, one reservation outstanding, and only 2 = N - 2 ids in the rings). *)
Definition ex_evs_double : list zxev := [ZStart 1 (ZoReserve 0 70)] ++ zsteps 1 4 ++ [ZStart 1 (ZoReserve 0 71)] ++ zsteps 1 4.
Example ex_double_reserve_loses_a_slot : let s := ex_run ex_evs_double in let x := zq st s in
  inring (ua _ x) = [2; 3] /\ inring (ub _ x) = [] /\ map (zres _ s) [0; 1; 2]%nat = [Some 1; None; None] /\
  map (zthr _ s) [0; 1; 2]%nat = [ZN; ZN; ZN] /\ map (cthr _ (zb _ s)) [0; 1; 2]%nat = [XIdle; XIdle; XIdle] /\
  map (uthr _ x) [0; 1; 2]%nat = [UIdle; UIdle; UIdle] /\
  (tail (ua _ x) - head (ua _ x)) + (tail (ub _ x) - head (ub _ x)) = 2.
Proof. vm_compute. repeat split; reflexivity. Qed.
Example ex_double_reserve_not_wf : ~ zx_wf 4 2 1 (wake_rule_atomic 2) (wake_res_code 2) ex_evs_double.
Proof. intros W. unfold zx_wf, ex_evs_double in W. cbn [app zsteps repeat zxwf_run] in W. destruct W as (_ & _ & _ & _ & _ & (W & _) & _). vm_compute in W. discriminate. Qed.
(* (b) Thread 2 cancels name 0 while thread 1 is sending it: slot 0 ends up in BOTH rings. *)
Definition ex_evs_race : list zxev :=
  [ZStart 1 (ZoReserve 0 70)] ++ zsteps 1 4 ++ [ZStart 1 (ZoSendRes 0); ZStart 2 (ZoCancelRes 0)] ++ zsteps 1 12 ++ zsteps 2 4.
Example ex_send_racing_cancel_duplicates_a_slot : let s := ex_run ex_evs_race in let x := zq st s in
  inring (ua _ x) = [1; 2; 3; 0] /\ inring (ub _ x) = [0] /\ map (zthr _ s) [0; 1; 2]%nat = [ZN; ZN; ZN] /\
  zlog _ s = [(1, XSlot 0); (1, XSent 0); (2, XCancelled 0)]%nat.
Proof. vm_compute. repeat split; reflexivity. Qed.
Example ex_race_not_wf : ~ zx_wf 4 2 1 (wake_rule_atomic 2) (wake_res_code 2) ex_evs_race.
Proof.
  intros W. unfold zx_wf, ex_evs_race in W. cbn [app zsteps repeat zxwf_run] in W. destruct W as (_ & _ & _ & _ & _ & _ & W & _).
  apply (W 1%nat). vm_compute. reflexivity.
Qed.

Print Assumptions zx_slots_conserved.
Print Assumptions zx_no_leak.
Print Assumptions zx_reserved_exclusive.
Print Assumptions zx_sendres_never_full.
Print Assumptions zx_cancel_never_full.
Print Assumptions zx_wf_check.
Print Assumptions ex_wf2.
Print Assumptions ex_conserved2.
Print Assumptions ex_double_reserve_not_wf.
Print Assumptions ex_race_not_wf.
