(* Glue for the extended Uni channel machine (ChanX.v): what the channel's STREAMS yielded (CYield answers in the channel log)
   is exactly what the lock-free ring inside handed out (RGot responses in the ring's own log), in the same order - for every
   interleaving of every operation (plain sends, send_with_async, reservations by any number of threads, polls, drives, ...)
   by real threads (ids < 100: the ids from 100 on are the virtual ring threads `vt k` that stand for reservations).
   With ChanXProps.chan_reserve_exactly_once: what the streams yielded is, in order, a prefix of what the ring accepted. *)
From RM Require Import RingModel RingInv RingProps Reserve ReserveProps ReserveInv Chan ChanProps ChanX ChanXProps.

(* a ring pc that is not inside a consume *)
Definition noc (p : pc) : Prop := op_of_pc p <> Some OpCons.
(* no virtual ring thread is inside a consume *)
Definition virt (x : st) : Prop := forall u, ~ real u -> noc (thr x u).

Lemma ring_results_snoc l t r :
  ring_results (l ++ [(t, r)]) = ring_results l ++ match r with RrRing r' => [(t, r')] | _ => [] end.
Proof. unfold ring_results. rewrite flat_map_snoc. cbn. destruct r; reflexivity. Qed.

Lemma log_start x t o : log (start x t o) = log x.
Proof. unfold start. destruct (thr x t); reflexivity. Qed.

Section ChanXGlue.
Variable N : Z.
Variable M k : nat.
Variables wake_send wake_res wake_async : Z -> option nat.

Local Notation xexecZ := (xexec N idz idz M k wake_send wake_res wake_async).
Local Notation xstepZ := (xstep N idz idz M k wake_send wake_res wake_async).
Local Notation xstartZ := (xstart N idz idz M).
Local Notation restepZ := (restep N idz idz).
Local Notation restartZ := (restart N idz idz).
Local Notation rstepZ := (stepZ N).
Local Notation bstep := (cstep rst (restep N idz idz) (qstartR N idz idz) rs_idle qlogR M k wake_send).
Local Notation bstart := (cstart rst (qstartR N idz idz) M).

(* ------------------------------------------------------------------------------------------------ ring level *)
Lemma step_idle x u : thr x u = Idle -> rstepZ x u = x.
Proof. intros H. unfold stepZ, RingModel.step. now rewrite H. Qed.

Lemma op_none_idle p : op_of_pc p = None -> p = Idle.
Proof. destruct p; cbn; intros H; try discriminate; reflexivity. Qed.

(* a step of a ring thread that is not inside a consume hands nothing out, and the thread stays outside consumes *)
Lemma step_noc x u : noc (thr x u) -> noc (thr (rstepZ x u) u) /\ yielded_of (log (rstepZ x u)) = yielded_of (log x).
Proof.
  unfold noc. intros H. destruct (op_of_pc (thr x u)) as [o|] eqn:E.
  - destruct (response_matches_call N x u o E) as [[H1 H2]|[H1 [r [H2 H3]]]].
    + rewrite H1, H2. split; [exact H|reflexivity].
    + rewrite H1, H2, yielded_snoc. split; [discriminate|].
      destruct o; destruct r; cbn in H3; try contradiction; try (now rewrite app_nil_r); exfalso; now apply H.
  - apply op_none_idle in E. rewrite (step_idle _ _ E). split; [rewrite E; discriminate|reflexivity].
Qed.

Lemma virt_step x u : virt x -> ~ real u ->
  virt (rstepZ x u) /\ yielded_of (log (rstepZ x u)) = yielded_of (log x) /\ (forall w, real w -> thr (rstepZ x u) w = thr x w).
Proof.
  intros V Hu. destruct (step_noc x u (V u Hu)) as [A B]. split; [|split; [exact B|]].
  - intros w Hw. destruct (Nat.eq_dec w u) as [->|Hn]; [exact A|]. rewrite step_other_threads_gen by assumption. now apply V.
  - intros w Hw. apply step_other_threads_gen. intros ->. contradiction.
Qed.

Lemma virt_start x u v : virt x -> ~ real u ->
  virt (start x u (OpPub v)) /\ (forall w, real w -> thr (start x u (OpPub v)) w = thr x w).
Proof.
  intros V Hu. split.
  - intros w Hw. destruct (Nat.eq_dec w u) as [->|Hn]; [|rewrite start_other by assumption; now apply V].
    destruct (pc_eq_idle (thr x u)) as [E|E]; [rewrite start_same_idle by assumption; discriminate|rewrite start_same_busy by assumption; now apply V].
  - intros w Hw. apply start_other. intros ->. contradiction.
Qed.

(* virtual thread u changes its pc to one that is not inside a consume *)
Lemma virt_set_ring x u p tl etl pub lg : virt x -> noc p -> virt (set_ring_thr x u p tl etl pub lg).
Proof.
  intros V Hp w Hw. cbn. destruct (Nat.eq_dec w u) as [->|Hn]; [rewrite upd_same; exact Hp|rewrite upd_other by assumption; now apply V].
Qed.

(* ------------------------------------------------------------------------------------------ reserve machine level *)
(* a move of the reserve machine that hands nothing out and leaves the real ring threads alone *)
Definition quiet (x x' : rst) : Prop :=
  (forall u, real u -> thr (ring x') u = thr (ring x) u) /\ virt (ring x') /\
  yielded_of (ring_results (rlog x')) = yielded_of (ring_results (rlog x)) /\
  yielded_of (log (ring x')) = yielded_of (log (ring x)).

Lemma quiet_refl x : virt (ring x) -> quiet x x.
Proof. intros V. repeat split; auto. Qed.

Lemma quiet_rmk x r' th' l' b' :
  (forall u, real u -> thr r' u = thr (ring x) u) -> virt r' ->
  yielded_of (ring_results l') = yielded_of (ring_results (rlog x)) ->
  yielded_of (log r') = yielded_of (log (ring x)) -> quiet x (rmk r' th' l' b').
Proof. intros. repeat split; auto. Qed.

Lemma yrr_snoc_quiet l t r : (forall r', r <> RrRing r') ->
  yielded_of (ring_results (l ++ [(t, r)])) = yielded_of (ring_results l).
Proof. intros H. rewrite ring_results_snoc. destruct r; try (now rewrite app_nil_r). exfalso. now apply (H r). Qed.

Lemma slot_of_noc p v slot : slot_of p = Some (v, slot) -> noc p.
Proof. destruct p; cbn; intros H; try discriminate; unfold noc; cbn; discriminate. Qed.

Ltac oth := intros; cbn; rewrite ?upd_other by assumption; reflexivity.

(* every step of a thread that is not inside a plain ring operation is quiet *)
Lemma restep_quiet x t : virt (ring x) -> rthr x t <> RRing ->
  quiet x (restepZ x t) /\ (forall u, u <> t -> rthr (restepZ x t) u = rthr x u) /\ rthr (restepZ x t) t <> RRing.
Proof.
  intros V Hn. unfold restep. destruct (rthr x t) eqn:E.
  - split; [now apply quiet_refl|]. split; [reflexivity|now rewrite E].
  - contradiction.
  - (* reservation in progress *)
    destruct (virt_step (ring x) (vt k0) V (vt_not_real k0)) as (V' & Y & R).
    change (step N idz idz (ring x) (vt k0)) with (rstepZ (ring x) (vt k0)).
    destruct (thr (rstepZ (ring x) (vt k0)) (vt k0));
      (split; [apply quiet_rmk; auto; try (apply yrr_snoc_quiet; discriminate)|]);
      (split; [oth|cbn; rewrite ?upd_same, ?E; discriminate]).
  - (* publication CAS of a reserved slot *)
    destruct (slot_of (thr (ring x) (vt k0))) as [[v slot]|] eqn:Es.
    + destruct (tail (ring x) =? g).
      * destruct (g =? slot).
        -- destruct (virt_step (ring x) (vt k0) V (vt_not_real k0)) as (V' & Y & R).
           change (step N idz idz (ring x) (vt k0)) with (rstepZ (ring x) (vt k0)).
           split; [apply quiet_rmk; auto|]. split; [oth|cbn; rewrite upd_same; discriminate].
        -- split; [apply quiet_rmk; auto|].
           ++ intros u Hu. cbn. apply upd_other. now apply real_ne_vt.
           ++ apply virt_set_ring; [exact V|now apply V, vt_not_real].
           ++ split; [oth|cbn; rewrite upd_same; discriminate].
      * destruct (g / N <? tail (ring x) / N).
        -- split; [apply quiet_rmk; auto|]. split; [oth|cbn; rewrite upd_same; discriminate].
        -- split; [apply quiet_rmk; auto; apply yrr_snoc_quiet; discriminate|]. split; [oth|cbn; rewrite upd_same; discriminate].
    + split; [now apply quiet_refl|]. split; [reflexivity|now rewrite E].
  - (* head.load after the publication *)
    split; [apply quiet_rmk; auto; apply yrr_snoc_quiet; discriminate|]. split; [oth|cbn; rewrite upd_same; discriminate].
  - (* cancellation CAS *)
    destruct (slot_of (thr (ring x) (vt k0))) as [[v slot]|] eqn:Es.
    + destruct (etail (ring x) =? idz (g + 1)).
      * destruct (g =? slot).
        -- split; [apply quiet_rmk; auto; try (apply yrr_snoc_quiet; discriminate)|].
           ++ intros u Hu. cbn. apply upd_other. now apply real_ne_vt.
           ++ apply virt_set_ring; [exact V|discriminate].
           ++ cbn [log set_ring_thr]. rewrite yielded_snoc. now rewrite app_nil_r.
           ++ split; [oth|cbn; rewrite upd_same; discriminate].
        -- split; [apply quiet_rmk; auto; try (apply yrr_snoc_quiet; discriminate)|].
           ++ intros u Hu. cbn. apply upd_other. now apply real_ne_vt.
           ++ apply virt_set_ring; [exact V|now apply V, vt_not_real].
           ++ split; [oth|cbn; rewrite upd_same; discriminate].
      * destruct (g / N <? idz (etail (ring x) - 1) / N).
        -- split; [apply quiet_rmk; auto|]. split; [oth|cbn; rewrite upd_same; discriminate].
        -- split; [apply quiet_rmk; auto; apply yrr_snoc_quiet; discriminate|]. split; [oth|cbn; rewrite upd_same; discriminate].
    + split; [now apply quiet_refl|]. split; [reflexivity|now rewrite E].
  - (* no such reservation *)
    split; [apply quiet_rmk; auto; apply yrr_snoc_quiet; discriminate|]. split; [oth|cbn; rewrite upd_same; discriminate].
Qed.

Lemma written_quiet x j : virt x ->
  virt (written N idz idz x j) /\ yielded_of (log (written N idz idz x j)) = yielded_of (log x) /\
  (forall w, real w -> thr (written N idz idz x j) w = thr x w).
Proof.
  intros V. unfold written. destruct (thr x (vt j)); try (split; [exact V|split; reflexivity]).
  change (step N idz idz x (vt j)) with (rstepZ x (vt j)). apply virt_step; [exact V|apply vt_not_real].
Qed.

(* the start of a reservation / send-reserved / cancel is quiet *)
Lemma restart_quiet x t o : virt (ring x) -> rthr x t = RIdle -> (forall o', o <> RoRing o') ->
  quiet x (restartZ x t o) /\ (forall u, u <> t -> rthr (restartZ x t o) u = rthr x u) /\ rthr (restartZ x t o) t <> RRing.
Proof.
  intros V E Ho. unfold restart. rewrite E. destruct o as [j v|j|j|o'].
  - destruct (virt_start (ring x) (vt j) v V (vt_not_real j)) as [V' R].
    split; [apply quiet_rmk; auto; now rewrite log_start|]. split; [oth|cbn; rewrite upd_same; discriminate].
  - destruct (written_quiet (ring x) j V) as (V' & Y & R).
    destruct (slot_of (thr (written N idz idz (ring x) j) (vt j))) as [[v slot]|].
    + split; [apply quiet_rmk; auto|]. split; [oth|cbn; rewrite upd_same; discriminate].
    + split; [apply quiet_rmk; auto|]. split; [oth|cbn; rewrite upd_same; discriminate].
  - destruct (slot_of (thr (ring x) (vt j))) as [[v slot]|];
      (split; [apply quiet_rmk; auto|]); (split; [oth|cbn; rewrite upd_same; discriminate]).
  - exfalso. now apply (Ho o').
Qed.

(* a thread inside a plain ring operation o: its step either stays inside, or completes with a response r that matches o -
   the ring logs (t, r) and the reserve machine logs the same response as RrRing r *)
Definition others_same (x x' : rst) (t : nat) : Prop :=
  (forall u, u <> t -> thr (ring x') u = thr (ring x) u) /\ (forall u, u <> t -> rthr x' u = rthr x u).
Definition ring_busy (x x' : rst) (t : nat) (o : op) : Prop :=
  rthr x' t = RRing /\ op_of_pc (thr (ring x') t) = Some o /\ rlog x' = rlog x /\ log (ring x') = log (ring x).
Definition ring_done (x x' : rst) (t : nat) (o : op) (r : res) : Prop :=
  rthr x' t = RIdle /\ thr (ring x') t = Idle /\ matches o r /\
  rlog x' = rlog x ++ [(t, RrRing r)] /\ log (ring x') = log (ring x) ++ [(t, r)].

Lemma restep_ring x t o : rthr x t = RRing -> op_of_pc (thr (ring x) t) = Some o ->
  others_same x (restepZ x t) t /\ (ring_busy x (restepZ x t) t o \/ exists r, ring_done x (restepZ x t) t o r).
Proof.
  intros E Ho. unfold restep. rewrite E. change (step N idz idz (ring x) t) with (rstepZ (ring x) t).
  destruct (response_matches_call N (ring x) t o Ho) as [[H1 H2]|[H1 [r [H2 H3]]]].
  - assert (Hni : thr (rstepZ (ring x) t) t <> Idle) by (intros H; rewrite H in H1; discriminate).
    assert (Hs : match thr (rstepZ (ring x) t) t with
                 | Idle => rmk (rstepZ (ring x) t) (upd (rthr x) t RIdle) (rlog x ++ [(t, RrRing (last_res (rstepZ (ring x) t)))]) (bad x)
                 | _ => rmk (rstepZ (ring x) t) (rthr x) (rlog x) (bad x) end = rmk (rstepZ (ring x) t) (rthr x) (rlog x) (bad x)).
    { destruct (thr (rstepZ (ring x) t) t); try reflexivity. contradiction. }
    rewrite Hs. split.
    + split; cbn; intros u Hu; [now apply step_other_threads_gen|reflexivity].
    + left. repeat split; cbn; auto.
  - rewrite H1. split.
    + split; cbn; intros u Hu; [now apply step_other_threads_gen|now apply upd_other].
    + right. exists r. repeat split; cbn; auto; [apply upd_same|].
      unfold last_res. now rewrite H2, last_last.
Qed.

Lemma restart_ring x t o : rthr x t = RIdle -> thr (ring x) t = Idle ->
  others_same x (restartZ x t (RoRing o)) t /\ ring_busy x (restartZ x t (RoRing o)) t o.
Proof.
  intros E Ei. unfold restart. rewrite E. split.
  - split; cbn; intros u Hu; [now apply start_other|now apply upd_other].
  - repeat split; cbn; [apply upd_same|now apply start_sets_call|apply log_start].
Qed.

(* --------------------------------------------------------------------------------------------- the invariant *)
(* the plain ring operation a thread is inside, from its two channel-level pcs (base machine / reserve-API layer) *)
Definition ringop1 (p : cpc) (xp : xpc) : option op :=
  match xp with XN => expects p | XAsyQ v => Some (OpPub v) | _ => None end.

(* the layer pcs inside one of the reserve machine's own operations *)
Definition inq (xp : xpc) : bool := match xp with XRes _ | XSRes _ | XCRes _ => true | _ => false end.

Record XIc (x : rst) (cth : nat -> cpc) (cl : list (nat * cres)) (xth : nat -> xpc) : Prop := {
  i_virt : virt (ring x);
  i_op   : forall t, real t -> op_of_pc (thr (ring x) t) = ringop1 (cth t) (xth t);
  i_ring : forall t, rthr x t = RRing <-> ringop1 (cth t) (xth t) <> None;
  i_idle : forall t, inq (xth t) = false -> ringop1 (cth t) (xth t) = None -> rthr x t = RIdle;
  i_lay  : forall t, xth t <> XN -> cth t = XIdle;
  i_y1   : cyields cl = yielded_of (ring_results (rlog x));
  i_y2   : yielded_of (ring_results (rlog x)) = yielded_of (log (ring x))
}.
Definition XI (s : xst) : Prop := XIc (q rst (xb s)) (cthr rst (xb s)) (clog rst (xb s)) (xthr s).

(* the general update lemma: real thread t moves *)
Lemma xi_upd x cth cl xth t x' cth' cl' xth' dy :
  XIc x cth cl xth -> real t ->
  (forall u, u <> t -> cth' u = cth u) -> (forall u, u <> t -> xth' u = xth u) ->
  (forall u, real u -> u <> t -> thr (ring x') u = thr (ring x) u) ->
  virt (ring x') ->
  (forall u, u <> t -> rthr x' u = rthr x u) ->
  op_of_pc (thr (ring x') t) = ringop1 (cth' t) (xth' t) ->
  (rthr x' t = RRing <-> ringop1 (cth' t) (xth' t) <> None) ->
  (inq (xth' t) = false -> ringop1 (cth' t) (xth' t) = None -> rthr x' t = RIdle) ->
  (xth' t <> XN -> cth' t = XIdle) ->
  cyields cl' = cyields cl ++ dy ->
  yielded_of (ring_results (rlog x')) = yielded_of (ring_results (rlog x)) ++ dy ->
  yielded_of (log (ring x')) = yielded_of (log (ring x)) ++ dy ->
  XIc x' cth' cl' xth'.
Proof.
  intros [Gv Go Gr Gi Gl G1 G2] Ht Hc Hx Hth Hv Hrt Hop Hrr Hid Hla Hcl Hrl Hlg. constructor.
  - exact Hv.
  - intros u Hu. destruct (Nat.eq_dec u t) as [->|Hn]; [exact Hop|]. rewrite Hth, Hc, Hx by assumption. now apply Go.
  - intros u. destruct (Nat.eq_dec u t) as [->|Hn]; [exact Hrr|]. rewrite Hrt, Hc, Hx by assumption. apply Gr.
  - intros u. destruct (Nat.eq_dec u t) as [->|Hn]; [exact Hid|]. rewrite Hrt, Hc, Hx by assumption. apply Gi.
  - intros u. destruct (Nat.eq_dec u t) as [->|Hn]; [exact Hla|]. rewrite Hc, Hx by assumption. apply Gl.
  - now rewrite Hcl, Hrl, G1.
  - now rewrite Hrl, Hlg, G2.
Qed.

(* thread t, outside plain ring operations before and after, makes a quiet move *)
Lemma xi_quiet x cth cl xth t x' cth' cl' xth' :
  XIc x cth cl xth -> real t ->
  (forall u, u <> t -> cth' u = cth u) -> (forall u, u <> t -> xth' u = xth u) ->
  quiet x x' -> (forall u, u <> t -> rthr x' u = rthr x u) -> rthr x' t <> RRing ->
  ringop1 (cth t) (xth t) = None -> ringop1 (cth' t) (xth' t) = None ->
  (inq (xth' t) = false -> ringop1 (cth' t) (xth' t) = None -> rthr x' t = RIdle) ->
  (xth' t <> XN -> cth' t = XIdle) ->
  cyields cl' = cyields cl ->
  XIc x' cth' cl' xth'.
Proof.
  intros G Ht Hc Hx (Q1 & Q2 & Q3 & Q4) Hrt Hnr Hb Ha Hid Hla Hcl.
  apply (xi_upd x cth cl xth t x' cth' cl' xth' []); auto; rewrite ?app_nil_r; auto.
  - rewrite Q1 by assumption. rewrite (i_op _ _ _ _ G t Ht). congruence.
  - rewrite Ha. split; [intros H; contradiction|intros H; now contradiction H].
Qed.

(* thread t is (still) inside the plain ring operation o after its move *)
Lemma xi_ring_busy x cth cl xth t x' cth' xth' o :
  XIc x cth cl xth -> real t ->
  (forall u, u <> t -> cth' u = cth u) -> (forall u, u <> t -> xth' u = xth u) ->
  others_same x x' t -> ring_busy x x' t o ->
  ringop1 (cth' t) (xth' t) = Some o -> (xth' t <> XN -> cth' t = XIdle) ->
  XIc x' cth' cl xth'.
Proof.
  intros G Ht Hc Hx [O1 O2] (B1 & B2 & B3 & B4) Ho Hla.
  apply (xi_upd x cth cl xth t x' cth' cl xth' []); auto; rewrite ?app_nil_r, ?B3, ?B4; auto.
  - intros u Hu. destruct (Nat.eq_dec u t) as [->|Hn]; [contradiction|]. rewrite O1 by assumption. now apply (i_virt _ _ _ _ G).
  - now rewrite B2, Ho.
  - rewrite Ho. split; [discriminate|intros _; exact B1].
  - intros Hxn He. exfalso. congruence.
Qed.

(* the plain ring operation of thread t completes with response r *)
Lemma xi_ring_done x cth cl xth t x' cth' cl' xth' o r :
  XIc x cth cl xth -> real t ->
  (forall u, u <> t -> cth' u = cth u) -> (forall u, u <> t -> xth' u = xth u) ->
  others_same x x' t -> ring_done x x' t o r ->
  ringop1 (cth' t) (xth' t) = None -> (xth' t <> XN -> cth' t = XIdle) ->
  cyields cl' = cyields cl ++ match r with RGot v => [v] | _ => [] end ->
  XIc x' cth' cl' xth'.
Proof.
  intros G Ht Hc Hx [O1 O2] (D1 & D2 & D3 & D4 & D5) Ho Hla Hcl.
  apply (xi_upd x cth cl xth t x' cth' cl' xth' (match r with RGot v => [v] | _ => [] end)); auto.
  - intros u Hu. destruct (Nat.eq_dec u t) as [->|Hn]; [contradiction|]. rewrite O1 by assumption. now apply (i_virt _ _ _ _ G).
  - now rewrite D2, Ho.
  - rewrite Ho, D1. split; [discriminate|intros H; now contradiction H].
  - rewrite D4, ring_results_snoc. apply yielded_snoc.
  - rewrite D5. apply yielded_snoc.
Qed.

Lemma others_trans x y z t : others_same x y t -> others_same y z t -> others_same x z t.
Proof. intros [A1 A2] [B1 B2]. split; intros u Hu; [rewrite B1, A1|rewrite B2, A2]; auto. Qed.
Lemma busy_after x y z t o o' : ring_busy x y t o' -> ring_busy y z t o -> ring_busy x z t o.
Proof. intros (A1 & A2 & A3 & A4) (B1 & B2 & B3 & B4). repeat split; auto; congruence. Qed.
Lemma done_after x y z t o o' r : ring_busy x y t o' -> ring_done y z t o r -> ring_done x z t o r.
Proof. intros (A1 & A2 & A3 & A4) (B1 & B2 & B3 & B4 & B5). repeat split; auto; congruence. Qed.

Lemma qres_done (x x' : rst) t r : rlog x' = rlog x ++ [(t, RrRing r)] -> qres rst qlogR x' = r.
Proof. intros H. unfold qres, qlogR. now rewrite H, ring_results_snoc, last_last. Qed.

Ltac xs := cbn [xb xthr xlog xmk xfinish xgoto setq setm q m cthr clog mk setpc finish] in *.
Ltac rop Ex := unfold ringop1; rewrite ?upd_same, ?Ex; cbn; rewrite ?Ex; try reflexivity.
Ltac rop2 Ex Ec := unfold ringop1; rewrite ?upd_same, ?Ex, ?Ec; cbn; rewrite ?Ex, ?Ec; try reflexivity.
Ltac cyl := rewrite ?cyields_snoc; cbn; rewrite ?app_nil_r; reflexivity.

Ltac rbusy G Ht Os Bz Ex Ec lay :=
  eapply xi_ring_busy; [exact G|exact Ht|oth|oth|exact Os|exact Bz|now rop2 Ex Ec|lay].
Ltac rdone G Ht Os Dn Ex Ec lay :=
  eapply xi_ring_done; [exact G|exact Ht|oth|oth|exact Os|exact Dn|now rop2 Ex Ec|lay|cyl].
Ltac layN := let H := fresh in intros H; contradiction.

(* ------------------------------------------------------------------------------- steps of the base machine *)
Lemma xi_base_local (b : cst rst) xth t p cl' :
  XIc (q rst b) (cthr rst b) (clog rst b) xth -> real t -> xth t = XN ->
  expects (cthr rst b t) = None -> expects p = None -> cyields cl' = cyields (clog rst b) ->
  XIc (q rst b) (upd (cthr rst b) t p) cl' xth.
Proof.
  intros G Ht Ex He Hp Hcl.
  apply (xi_quiet _ _ _ _ t _ _ _ _ G Ht); auto; try oth.
  - apply quiet_refl, (i_virt _ _ _ _ G).
  - intros H. apply (i_ring _ _ _ _ G t) in H. apply H. now rop Ex.
  - now rop Ex.
  - now rop Ex.
  - intros _ _. apply (i_idle _ _ _ _ G t); [now rewrite Ex|now rop Ex].
  - intros H. contradiction.
Qed.

Lemma xi_cancel_next (b : cst rst) xth t j :
  XIc (q rst b) (cthr rst b) (clog rst b) xth -> real t -> xth t = XN -> expects (cthr rst b t) = None ->
  XIc (q rst (cancel_next rst M b t j)) (cthr rst (cancel_next rst M b t j)) (clog rst (cancel_next rst M b t j)) xth.
Proof.
  intros G Ht Ex He. unfold cancel_next. destruct (M <=? j)%nat; xs; apply xi_base_local; auto; cyl.
Qed.

Lemma xi_bstep (b : cst rst) xth t : real t -> xth t = XN ->
  XIc (q rst b) (cthr rst b) (clog rst b) xth ->
  XIc (q rst (bstep b t)) (cthr rst (bstep b t)) (clog rst (bstep b t)) xth.
Proof.
  intros Ht Ex G. unfold cstep.
  assert (Hloc : forall p cl', expects (cthr rst b t) = None -> expects p = None -> cyields cl' = cyields (clog rst b) ->
                 XIc (q rst b) (upd (cthr rst b) t p) cl' xth) by (intros; now apply xi_base_local).
  assert (Hring : forall o, expects (cthr rst b t) = Some o ->
                  rthr (q rst b) t = RRing /\ op_of_pc (thr (ring (q rst b)) t) = Some o).
  { intros o Ho. assert (Hr : ringop1 (cthr rst b t) (xth t) = Some o) by (unfold ringop1; now rewrite Ex).
    split; [apply (i_ring _ _ _ _ G t); rewrite Hr; discriminate|rewrite (i_op _ _ _ _ G t Ht); exact Hr]. }
  destruct (cthr rst b t) eqn:Ec.
  - exact G.
  - (* XSendQ *)
    destruct (Hring _ eq_refl) as [Hr Hop].
    destruct (restep_ring _ t _ Hr Hop) as [Os [Bz|[r Dn]]].
    + replace (rs_idle _ t) with false by (unfold rs_idle; destruct Bz as [-> _]; reflexivity). xs.
      rbusy G Ht Os Bz Ex Ec layN.
    + pose proof Dn as (D1 & D2 & D3 & D4 & D5).
      replace (rs_idle _ t) with true by (unfold rs_idle; now rewrite D1).
      unfold after_send. rewrite (qres_done _ _ t r D4).
      destruct r; cbn in D3; try contradiction.
      * xs. rdone G Ht Os Dn Ex Ec layN.
      * destruct (wake_send len); xs;
          rdone G Ht Os Dn Ex Ec layN.
  - (* XSendW *)
    destruct (wstep (m rst b) w) as [m' [w'|]]; xs; apply Hloc; auto; cyl.
  - (* XDrive: start of a consume and its first step *)
    assert (Hi : rthr (q rst b) t = RIdle) by (apply (i_idle _ _ _ _ G t); [now rewrite Ex|now rop2 Ex Ec]).
    assert (Hid : thr (ring (q rst b)) t = Idle).
    { apply op_none_idle. rewrite (i_op _ _ _ _ G t Ht). now rop2 Ex Ec. }
    unfold qstartR. destruct (restart_ring _ t OpCons Hi Hid) as [Os1 Bz1].
    pose proof Bz1 as (S1 & S2 & S3 & S4).
    destruct (restep_ring _ t _ S1 S2) as [Os2 [Bz2|[r Dn2]]].
    + pose proof (others_trans _ _ _ _ Os1 Os2) as Os. pose proof (busy_after _ _ _ _ _ _ Bz1 Bz2) as Bz.
      replace (rs_idle _ t) with false by (unfold rs_idle; destruct Bz as [-> _]; reflexivity). xs.
      rbusy G Ht Os Bz Ex Ec layN.
    + pose proof (others_trans _ _ _ _ Os1 Os2) as Os. pose proof (done_after _ _ _ _ _ _ _ Bz1 Dn2) as Dn.
      pose proof Dn as (D1 & D2 & D3 & D4 & D5).
      replace (rs_idle _ t) with true by (unfold rs_idle; now rewrite D1).
      unfold after_cons. rewrite (qres_done _ _ t r D4).
      destruct r; cbn in D3; try contradiction; xs; rdone G Ht Os Dn Ex Ec layN.
  - (* XPollQ *)
    destruct (Hring _ eq_refl) as [Hr Hop].
    destruct (restep_ring _ t _ Hr Hop) as [Os [Bz|[r Dn]]].
    + replace (rs_idle _ t) with false by (unfold rs_idle; destruct Bz as [-> _]; reflexivity). xs.
      rbusy G Ht Os Bz Ex Ec layN.
    + pose proof Dn as (D1 & D2 & D3 & D4 & D5).
      replace (rs_idle _ t) with true by (unfold rs_idle; now rewrite D1).
      unfold after_cons. rewrite (qres_done _ _ t r D4).
      destruct r; cbn in D3; try contradiction; xs; destruct drv; rdone G Ht Os Dn Ex Ec layN.
  - (* XPollK *)
    destruct (keep (m rst b) i); xs; apply Hloc; auto; cyl.
  - (* XReg *)
    destruct r; [destruct (wakers (m rst b) i)|destruct (wlock (m rst b))|..]; xs; try exact G;
      apply Hloc; auto; try cyl; destruct drv; reflexivity.
  - (* XParked *)
    destruct (notified (m rst b) i); [|exact G]. xs. apply Hloc; auto.
  - (* XCancelU *)
    destruct (j <? k)%nat; xs; apply Hloc; auto; cyl.
  - (* XCancelK *)
    xs. apply Hloc; auto.
  - (* XCancelW *)
    destruct (wstep (m rst b) w) as [m' [w'|]]; [xs; apply Hloc; auto|].
    apply (xi_cancel_next (mk rst (q rst b) m' (cthr rst b) (clog rst b)) xth t (S j)); xs; auto. now rewrite Ec.
  - (* XLenQ *)
    destruct (Hring _ eq_refl) as [Hr Hop].
    destruct (restep_ring _ t _ Hr Hop) as [Os [Bz|[r Dn]]].
    + replace (rs_idle _ t) with false by (unfold rs_idle; destruct Bz as [-> _]; reflexivity). xs.
      rbusy G Ht Os Bz Ex Ec layN.
    + pose proof Dn as (D1 & D2 & D3 & D4 & D5).
      replace (rs_idle _ t) with true by (unfold rs_idle; now rewrite D1).
      rewrite (qres_done _ _ t r D4).
      destruct r; cbn in D3; try contradiction; xs; rdone G Ht Os Dn Ex Ec layN.
Qed.

Lemma xi_bstart (b : cst rst) xth t o : real t -> xth t = XN ->
  XIc (q rst b) (cthr rst b) (clog rst b) xth ->
  XIc (q rst (bstart b t o)) (cthr rst (bstart b t o)) (clog rst (bstart b t o)) xth.
Proof.
  intros Ht Ex G. unfold cstart. destruct (cthr rst b t) eqn:Ec; try exact G.
  assert (Hi : rthr (q rst b) t = RIdle) by (apply (i_idle _ _ _ _ G t); [now rewrite Ex|now rop2 Ex Ec]).
  assert (Hid : thr (ring (q rst b)) t = Idle).
  { apply op_none_idle. rewrite (i_op _ _ _ _ G t Ht). now rop2 Ex Ec. }
  assert (Hq : forall o', others_same (q rst b) (qstartR N idz idz (q rst b) t o') t /\
                          ring_busy (q rst b) (qstartR N idz idz (q rst b) t o') t o')
    by (intros o'; now apply restart_ring).
  destruct o.
  - destruct (Hq (OpPub v)) as [Os Bz]. xs. rbusy G Ht Os Bz Ex Ec layN.
  - destruct (Hq OpCons) as [Os Bz]. xs. rbusy G Ht Os Bz Ex Ec layN.
  - xs. apply xi_base_local; auto. now rewrite Ec.
  - apply xi_cancel_next; auto. now rewrite Ec.
  - destruct (Hq OpLen) as [Os Bz]. xs. rbusy G Ht Os Bz Ex Ec layN.
Qed.

(* ------------------------------------------------------------------------- steps of the reserve-API layer *)
Lemma async_ring x t o : rthr x t = RRing -> op_of_pc (thr (ring x) t) = Some o ->
  others_same x (async_step N idz idz x t) t /\
  (ring_busy x (async_step N idz idz x t) t o \/ exists r, ring_done x (async_step N idz idz x t) t o r).
Proof.
  intros E Ho. unfold async_step. destruct (restep_ring x t o E Ho) as [Os [Bz|[r Dn]]].
  - pose proof Bz as (B1 & B2 & B3 & B4).
    pose proof (restep_ring _ t o B1 B2) as [Os2 R2].
    destruct (thr (ring (restepZ x t)) t); try (split; [exact Os|now left]).
    destruct R2 as [Bz2|[r Dn2]].
    + split; [eapply others_trans; eassumption|left; eapply busy_after; eassumption].
    + split; [eapply others_trans; eassumption|right; exists r; eapply done_after; eassumption].
  - pose proof Dn as (D1 & D2 & _). rewrite D2. split; [exact Os|right; now exists r].
Qed.

Ltac lq G Ht Qt Ro Rn Hb Ex Hc idl :=
  eapply xi_quiet; [exact G|exact Ht|oth|oth|exact Qt|exact Ro|exact Rn|exact Hb|now rop2 Ex Hc|idl|intros _; exact Hc|reflexivity].
Ltac idl_no := rewrite upd_same; discriminate.

Lemma rs_idle_true x t : rs_idle x t = true -> rthr x t = RIdle.
Proof. unfold rs_idle. destruct (rthr x t); try discriminate; reflexivity. Qed.

Lemma xi_step s t : real t -> XI s -> XI (xstepZ s t).
Proof.
  intros Ht G. unfold XI in *. unfold xstep.
  destruct (xthr s t) eqn:Ex.
  - (* the base machine *) xs. now apply xi_bstep.
  - (* XRes *)
    assert (Hc : cthr rst (xb s) t = XIdle) by (apply (i_lay _ _ _ _ G t); rewrite Ex; discriminate).
    assert (Hb : ringop1 (cthr rst (xb s) t) (xthr s t) = None) by (now rewrite Ex).
    assert (Hnr : rthr (q rst (xb s)) t <> RRing) by (intros H; apply (i_ring _ _ _ _ G t) in H; now apply H).
    destruct (restep_quiet _ t (i_virt _ _ _ _ G) Hnr) as (Qt & Ro & Rn).
    destruct (rs_idle _ t) eqn:Ei.
    + apply rs_idle_true in Ei. destruct (rs_last _); xs; lq G Ht Qt Ro Rn Hb Ex Hc ltac:(intros _ _; exact Ei).
    + xs. lq G Ht Qt Ro Rn Hb Ex Hc idl_no.
  - (* XSRes *)
    assert (Hc : cthr rst (xb s) t = XIdle) by (apply (i_lay _ _ _ _ G t); rewrite Ex; discriminate).
    assert (Hb : ringop1 (cthr rst (xb s) t) (xthr s t) = None) by (now rewrite Ex).
    assert (Hnr : rthr (q rst (xb s)) t <> RRing) by (intros H; apply (i_ring _ _ _ _ G t) in H; now apply H).
    destruct (restep_quiet _ t (i_virt _ _ _ _ G) Hnr) as (Qt & Ro & Rn).
    destruct (rs_idle _ t) eqn:Ei.
    + apply rs_idle_true in Ei. destruct (rs_last _); try destruct (wake_res len); xs;
        lq G Ht Qt Ro Rn Hb Ex Hc ltac:(intros _ _; exact Ei).
    + xs. lq G Ht Qt Ro Rn Hb Ex Hc idl_no.
  - (* XSResW *)
    assert (Hc : cthr rst (xb s) t = XIdle) by (apply (i_lay _ _ _ _ G t); rewrite Ex; discriminate).
    assert (Hb : ringop1 (cthr rst (xb s) t) (xthr s t) = None) by (now rewrite Ex).
    assert (Hnr : rthr (q rst (xb s)) t <> RRing) by (intros H; apply (i_ring _ _ _ _ G t) in H; now apply H).
    assert (Hi : rthr (q rst (xb s)) t = RIdle) by (apply (i_idle _ _ _ _ G t); [now rewrite Ex|exact Hb]).
    pose proof (quiet_refl _ (i_virt _ _ _ _ G)) as Qt.
    assert (Ro : forall u, u <> t -> rthr (q rst (xb s)) u = rthr (q rst (xb s)) u) by reflexivity.
    destruct (wstep (m rst (xb s)) w) as [m' [w'|]]; xs; lq G Ht Qt Ro Hnr Hb Ex Hc ltac:(intros _ _; exact Hi).
  - (* XCRes *)
    assert (Hc : cthr rst (xb s) t = XIdle) by (apply (i_lay _ _ _ _ G t); rewrite Ex; discriminate).
    assert (Hb : ringop1 (cthr rst (xb s) t) (xthr s t) = None) by (now rewrite Ex).
    assert (Hnr : rthr (q rst (xb s)) t <> RRing) by (intros H; apply (i_ring _ _ _ _ G t) in H; now apply H).
    destruct (restep_quiet _ t (i_virt _ _ _ _ G) Hnr) as (Qt & Ro & Rn).
    destruct (rs_idle _ t) eqn:Ei.
    + apply rs_idle_true in Ei. destruct (rs_last _); xs; lq G Ht Qt Ro Rn Hb Ex Hc ltac:(intros _ _; exact Ei).
    + xs. lq G Ht Qt Ro Rn Hb Ex Hc idl_no.
  - (* XAsyQ: send_with_async inside the ring's publish *)
    assert (Hc : cthr rst (xb s) t = XIdle) by (apply (i_lay _ _ _ _ G t); rewrite Ex; discriminate).
    assert (Ho : ringop1 (cthr rst (xb s) t) (xthr s t) = Some (OpPub v)) by (now rewrite Ex).
    assert (Hr : rthr (q rst (xb s)) t = RRing) by (apply (i_ring _ _ _ _ G t); rewrite Ho; discriminate).
    assert (Hop : op_of_pc (thr (ring (q rst (xb s))) t) = Some (OpPub v)) by (now rewrite (i_op _ _ _ _ G t Ht)).
    assert (layC : forall xp : xpc, xp <> XN -> cthr rst (xb s) t = XIdle) by (intros; exact Hc).
    destruct (async_ring _ t _ Hr Hop) as [Os [Bz|[r Dn]]].
    + replace (rs_idle _ t) with false by (unfold rs_idle; destruct Bz as [-> _]; reflexivity). xs.
      rbusy G Ht Os Bz Ex Hc ltac:(apply layC).
    + pose proof Dn as (D1 & D2 & D3 & D4 & D5).
      replace (rs_idle _ t) with true by (unfold rs_idle; now rewrite D1).
      assert (El : rs_last (async_step N idz idz (q rst (xb s)) t) = RrRing r) by (unfold rs_last; now rewrite D4, last_last).
      rewrite El. destruct r; cbn in D3; try contradiction; try destruct (wake_async len); xs;
        rdone G Ht Os Dn Ex Hc ltac:(apply layC).
  - (* XAsyW *)
    assert (Hc : cthr rst (xb s) t = XIdle) by (apply (i_lay _ _ _ _ G t); rewrite Ex; discriminate).
    assert (Hb : ringop1 (cthr rst (xb s) t) (xthr s t) = None) by (now rewrite Ex).
    assert (Hnr : rthr (q rst (xb s)) t <> RRing) by (intros H; apply (i_ring _ _ _ _ G t) in H; now apply H).
    assert (Hi : rthr (q rst (xb s)) t = RIdle) by (apply (i_idle _ _ _ _ G t); [now rewrite Ex|exact Hb]).
    pose proof (quiet_refl _ (i_virt _ _ _ _ G)) as Qt.
    assert (Ro : forall u, u <> t -> rthr (q rst (xb s)) u = rthr (q rst (xb s)) u) by reflexivity.
    destruct (wstep (m rst (xb s)) w) as [m' [w'|]]; xs; lq G Ht Qt Ro Hnr Hb Ex Hc ltac:(intros _ _; exact Hi).
Qed.

Lemma xi_start s t o : real t -> XI s -> XI (xstartZ s t o).
Proof.
  intros Ht G. unfold XI in *. unfold xstart.
  destruct (xthr s t) eqn:Ex; try exact G.
  destruct (cthr rst (xb s) t) eqn:Ec; try exact G.
  assert (Hb : ringop1 (cthr rst (xb s) t) (xthr s t) = None) by (now rewrite Ex, Ec).
  assert (Hi : rthr (q rst (xb s)) t = RIdle) by (apply (i_idle _ _ _ _ G t); [now rewrite Ex|exact Hb]).
  assert (Hid : thr (ring (q rst (xb s))) t = Idle) by (apply op_none_idle; now rewrite (i_op _ _ _ _ G t Ht)).
  destruct o as [o'|j v|j|j|v].
  - xs. apply xi_bstart; assumption.
  - destruct (restart_quiet _ t (RoReserve j v) (i_virt _ _ _ _ G) Hi ltac:(discriminate)) as (Qt & Ro & Rn).
    xs. lq G Ht Qt Ro Rn Hb Ex Ec idl_no.
  - destruct (restart_quiet _ t (RoSend j) (i_virt _ _ _ _ G) Hi ltac:(discriminate)) as (Qt & Ro & Rn).
    xs. lq G Ht Qt Ro Rn Hb Ex Ec idl_no.
  - destruct (restart_quiet _ t (RoCancel j) (i_virt _ _ _ _ G) Hi ltac:(discriminate)) as (Qt & Ro & Rn).
    xs. lq G Ht Qt Ro Rn Hb Ex Ec idl_no.
  - destruct (restart_ring _ t (OpPub v) Hi Hid) as [Os Bz].
    xs. rbusy G Ht Os Bz Ex Ec ltac:(intros _; exact Ec).
Qed.

Lemma xi_init origin : XI (xinit k (reinit_at origin)).
Proof.
  constructor; cbn.
  - intros u _. unfold noc. cbn. discriminate.
  - reflexivity.
  - intros t. split; [discriminate|intros H; now contradiction H].
  - reflexivity.
  - intros t H. now contradiction H.
  - reflexivity.
  - reflexivity.
Qed.

(* the histories covered: every thread that acts is a real one *)
Definition xreal_ev (e : xev) : Prop := match e with XStep t => real t | XStart t _ => real t end.

Lemma xwf_real e : xwf_ev e -> xreal_ev e.
Proof. destruct e; cbn; tauto. Qed.

Theorem xi_reachable origin xevs : Forall xreal_ev xevs -> XI (fold_left xexecZ xevs (xinit k (reinit_at origin))).
Proof.
  intros H. assert (G : forall s, XI s -> XI (fold_left xexecZ xevs s)).
  { induction H as [|e xevs He Hr IH]; intros s I; [exact I|]. cbn [fold_left]. apply IH.
    destruct e as [t|t o]; cbn in He |- *; [now apply xi_step|now apply xi_start]. }
  apply G, xi_init.
Qed.

(* (a) what the streams yielded is what the reserve machine answered to plain consumes (the responses the base machine reads) *)
Theorem xg_yields_qlog xevs : Forall xreal_ev xevs ->
  let s := fold_left xexecZ xevs (xinit k (reinit_at 0)) in
  cyields (clog _ (xb s)) = yielded_of (qlogR (qx s)).
Proof. intros H. cbn zeta. exact (i_y1 _ _ _ _ (xi_reachable 0 xevs H)). Qed.

(* (b) ... and those are exactly the values the ring handed out: reservations, sends-reserved, cancels never consume *)
Theorem xg_qlog_ring xevs : Forall xreal_ev xevs ->
  let s := fold_left xexecZ xevs (xinit k (reinit_at 0)) in
  yielded_of (qlogR (qx s)) = yielded_of (log (ring (qx s))).
Proof. intros H. cbn zeta. exact (i_y2 _ _ _ _ (xi_reachable 0 xevs H)). Qed.

(* the glue: every value the ring handed out was yielded by a stream and vice versa, in the same order *)
Theorem xg_yields xevs : Forall xreal_ev xevs ->
  let s := fold_left xexecZ xevs (xinit k (reinit_at 0)) in
  cyields (clog _ (xb s)) = yielded_of (log (ring (qx s))).
Proof. intros H. cbn zeta. rewrite (xg_yields_qlog xevs H). exact (xg_qlog_ring xevs H). Qed.

Corollary xg_yields_wf xevs : Forall xwf_ev xevs ->
  let s := fold_left xexecZ xevs (xinit k (reinit_at 0)) in
  cyields (clog _ (xb s)) = yielded_of (log (ring (qx s))).
Proof. intros H. apply xg_yields. eapply Forall_impl; [|exact H]. exact xwf_real. Qed.

(* what the STREAMS yielded is, in order, a prefix of what the ring accepted: reserved-and-sent events exactly once with the
   written content, cancelled ones never *)
Corollary chan_reserve_streams_exactly_once xevs : 0 < N -> Forall xwf_ev xevs ->
  let s := fold_left xexecZ xevs (xinit k (reinit_at 0)) in
  cyields (clog _ (xb s)) = firstn (length (cyields (clog _ (xb s)))) (accepted_of (log (ring (qx s)))).
Proof.
  intros Npos H. cbn zeta. rewrite (xg_yields_wf xevs H).
  exact (chan_reserve_exactly_once N Npos M k wake_send wake_res wake_async xevs H).
Qed.

End ChanXGlue.

(* ------------------------------------------------------------------------------------------------ non-vacuity *)
(* the events the runner `xrun` performs for a program / schedule pair *)
Section Hist.
Variable N : Z.
Variable M k : nat.
Variables ws wr wa : Z -> option nat.

Fixpoint xhist (s : xst) (progs : nat -> list xop) (sched : list nat) : list xev :=
  match sched with
  | [] => []
  | t :: rest =>
      let '(s1, progs1, _) := xgrant N idz idz M k ws wr wa s progs t in
      (if xbusy s t then [XStep t]
       else match progs t with
            | [] => []
            | o :: _ => XStart t o :: (if xbusy (xstart N idz idz M s t o) t then [XStep t] else [])
            end) ++ xhist s1 progs1 rest
  end.

Lemma xhist_run sched : forall s progs,
  fst (xrun N idz idz M k ws wr wa s progs sched) = fold_left (xexec N idz idz M k ws wr wa) (xhist s progs sched) s.
Proof.
  induction sched as [|t rest IH]; intros s progs; [reflexivity|].
  cbn [xrun xhist]. destruct (xgrant N idz idz M k ws wr wa s progs t) as [[s1 p1] l] eqn:Eg.
  specialize (IH s1 p1). destruct (xrun N idz idz M k ws wr wa s1 p1 rest) as [s2 more]. cbn [fst] in *.
  rewrite fold_left_app, IH. f_equal.
  unfold xgrant in Eg. destruct (xbusy s t).
  - injection Eg as <- _ _. reflexivity.
  - destruct (progs t) as [|o po]; [injection Eg as <- _ _; reflexivity|].
    destruct (xbusy (xstart N idz idz M s t o) t); injection Eg as <- _ _; reflexivity.
Qed.
End Hist.

Definition xop_okb (t : nat) (o : xop) : bool :=
  match o with
  | XoBase (CoSend _) | XoSendAsync _ => false
  | XoBase _ => true
  | XoReserve _ _ | XoSendRes _ | XoCancelRes _ => Nat.eqb t 0
  end.
Definition xwf_evb (e : xev) : bool :=
  match e with XStep t => Nat.ltb t 100 | XStart t o => Nat.ltb t 100 && xop_okb t o end.
Lemma xwf_evb_ok l : forallb xwf_evb l = true -> Forall xwf_ev l.
Proof.
  intros H. apply Forall_forall. intros e He. rewrite forallb_forall in H. specialize (H e He).
  destruct e as [t|t o]; cbn in H |- *; unfold real.
  - now apply Nat.ltb_lt.
  - apply andb_prop in H. destruct H as [H1 H2]. split; [now apply Nat.ltb_lt|].
    destruct o as [[]| | | |]; cbn in H2 |- *; try discriminate; auto; now apply Nat.eqb_eq.
Qed.

(* the history of props/C08.v's C08_channel_nonvacuous: the stream parks, thread 0 reserves 3, cancels the last, sends the first two;
   the stream is woken: it yields exactly [100; 101], which is exactly what the ring handed out and a prefix of what it accepted *)
Example xg_nonvacuous :
  let progs := [[XoReserve 0 100; XoReserve 1 101; XoReserve 2 102; XoCancelRes 2; XoSendRes 0; XoSendRes 1]; [XoBase (CoDrive 0)]] in
  let sched := repeat 1%nat 14 ++ repeat 0%nat 40 ++ repeat 1%nat 40 in
  let xevs := xhist 4 1 1 (wake_rule_atomic 1) (wake_res_code 1) (wake_async_code 1) (xinit 1 (reinit_at 0)) (xprogs_of progs) sched in
  let s := fold_left (xexec 4 idz idz 1 1 (wake_rule_atomic 1) (wake_res_code 1) (wake_async_code 1)) xevs (xinit 1 (reinit_at 0)) in
  Forall xwf_ev xevs /\
  s = fst (xrun 4 idz idz 1 1 (wake_rule_atomic 1) (wake_res_code 1) (wake_async_code 1) (xinit 1 (reinit_at 0)) (xprogs_of progs) sched) /\
  (cyields (clog _ (xb s)), yielded_of (log (ring (qx s))), accepted_of (log (ring (qx s))), rejected_of (log (ring (qx s))), map snd (xlog s)) =
  ([100; 101], [100; 101], [100; 101], [102], [XSlot 0; XSlot 1; XSlot 2; XCancelled 2; XSent 0; XSent 1]).
Proof.
  cbn zeta. split; [apply xwf_evb_ok; vm_compute; reflexivity|]. split; [symmetry; apply xhist_run|]. vm_compute. reflexivity.
Qed.

(* xg_yields needs its hypothesis: the thread ids from 100 on are the virtual ring threads of the reservations. If "thread 100" polls
   while thread 0 is inside reserve_slot 0 (virtual ring thread vt 0 = 100), thread 0's reservation steps drive thread 100's consume:
   the ring hands out 7 (RGot 7 in its log) but no stream ever yields it - thread 100's poll then reads the response of somebody
   else's operation (here a length query) and answers Pending. *)
Example xg_yields_needs_real_threads :
  let xevs := [XStart 1 (XoBase (CoSend 7))] ++ repeat (XStep 1) 8 ++ [XStart 100 (XoBase (CoPoll 0)); XStart 0 (XoReserve 0 5)]
              ++ repeat (XStep 0) 4 ++ [XStart 1 (XoBase CoLen); XStep 1; XStep 1] ++ repeat (XStep 100) 8 in
  let s := fold_left (xexec 4 idz idz 1 1 (wake_rule_atomic 1) (wake_res_code 1) (wake_async_code 1)) xevs (xinit 1 (reinit_at 0)) in
  (cyields (clog _ (xb s)), yielded_of (log (ring (qx s))), map snd (clog _ (xb s)), map snd (xlog s)) =
  ([], [7], [CSendOk 7; CLen 0; CPending 0], [XNoSlot 0]).
Proof. vm_compute. reflexivity. Qed.

(* ---- the acceptance side (XSent answers versus accepted values), as far as it goes here: the statement
   "#XSent answers + #threads inside XSResW = length (accepted_of (ring log))" is FALSE under xwf_ev, for two reasons:
   (1) between the successful tail CAS (ROk enters the ring log, reserve pc RSendH) and the head.load that completes
       try_send_reserved the thread is still at channel pc XSRes: that window has to be counted as in flight too; *)
Example xsent_count_window :
  let xevs := [XStart 0 (XoReserve 0 100); XStep 0; XStep 0; XStart 0 (XoSendRes 0); XStep 0] in
  let s := fold_left (xexec 4 idz idz 1 1 (wake_rule_atomic 1) (wake_res_code 1) (wake_async_code 1)) xevs (xinit 1 (reinit_at 0)) in
  forallb xwf_evb xevs = true /\
  (map snd (xlog s), xthr s 0%nat, rthr (qx s) 0%nat, accepted_of (log (ring (qx s)))) = ([XSlot 0], XSRes 0, RSendH 0 0, [100]).
Proof. vm_compute. split; reflexivity. Qed.
(* (2) xwf_ev does not forbid re-using a reservation key that is still outstanding: `reserve 1` while reservation 1 is parked at its
       publication CAS (an earlier try_send_reserved answered "not now") drives THAT publication: the ring accepts 101 and the
       channel answers XNoSlot 1 - in the final, quiescent state one XSent answer stands against two accepted values. (The ring-level
       theorems are unaffected: 101 is accepted once and will be delivered once.) A correct count needs the history-dependent
       discipline "reserve k only while key k is free" on top of xwf_ev; not proved here. *)
Example xsent_count_key_reuse :
  let xevs := [XStart 0 (XoReserve 0 100); XStep 0; XStep 0; XStart 0 (XoReserve 1 101); XStep 0; XStep 0;
               XStart 0 (XoSendRes 1); XStep 0; XStep 0; XStep 0; XStart 0 (XoSendRes 0)] ++ repeat (XStep 0) 8
              ++ [XStart 0 (XoReserve 1 999)] ++ repeat (XStep 0) 3 in
  let s := fold_left (xexec 4 idz idz 1 1 (wake_rule_atomic 1) (wake_res_code 1) (wake_async_code 1)) xevs (xinit 1 (reinit_at 0)) in
  forallb xwf_evb xevs = true /\
  (map snd (xlog s), xthr s 0%nat, rthr (qx s) 0%nat, accepted_of (log (ring (qx s))), bad (qx s)) =
  ([XSlot 0; XSlot 1; XNotSent 1; XSent 0; XNoSlot 1], XN, RIdle, [100; 101], false).
Proof. vm_compute. split; reflexivity. Qed.

Print Assumptions xg_yields.
Print Assumptions chan_reserve_streams_exactly_once.
