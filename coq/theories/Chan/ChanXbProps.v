(* C01 / C02 on the crossbeam Uni channel machine (ChanXb.v): whatever the interleaving of producers (send / send_with), pollers, drivers,
   length queries and cancellations, what the streams were handed is, in order, a prefix of what the channel accepted (each event at most
   once, in acceptance order, nothing invented), what is still queued is exactly the rest, and the queue never holds more than N events.
   (crossbeam's own queue is taken to be an atomic FIFO: this is a theorem about the CHANNEL's use of it.) *)
From RM Require Import RingModel FullSync Chan ChanProps ChanXb.

Section ChanXbProps.
Variable N : Z.
Hypothesis Npos : 0 < N.
Variable M k : nat.

Local Notation bxexec := (bxexec N M k).
Local Notation qexecX := (qexec xq (xq_step N) xq_start).

Definition QI (x : xq) : Prop :=
  yielded_of (qlog x) ++ qitems x = accepted_of (qlog x) /\ Z.of_nat (length (qitems x)) <= N.

Lemma yielded_snoc' l t r : yielded_of (l ++ [(t, r)]) = yielded_of l ++ match r with RGot v => [v] | _ => [] end.
Proof. unfold yielded_of. rewrite flat_map_app. cbn. now rewrite app_nil_r. Qed.
Lemma accepted_snoc' l t r : accepted_of (l ++ [(t, r)]) = accepted_of l ++ match r with ROk v _ => [v] | _ => [] end.
Proof. unfold accepted_of. rewrite flat_map_app. cbn. now rewrite app_nil_r. Qed.

Lemma qi_step x t : QI x -> QI (xq_step N x t).
Proof.
  intros [H1 H2]. unfold xq_step. destruct (qthr x t); [split; assumption| | |].
  - destruct (Z.ltb_spec (Z.of_nat (length (qitems x))) N); split; cbn [qitems qlog]; rewrite ?yielded_snoc', ?accepted_snoc', ?app_nil_r; auto.
    + rewrite app_assoc, H1. reflexivity.
    + rewrite app_length. cbn. lia.
  - destruct (qitems x) as [|v r] eqn:E.
    + split; cbn [qitems qlog]; rewrite ?yielded_snoc', ?accepted_snoc', ?app_nil_r in *; auto.
    + split; cbn [qitems qlog]; rewrite ?yielded_snoc', ?accepted_snoc', ?app_nil_r.
      * rewrite <- app_assoc. exact H1.
      * cbn [length] in H2. lia.
  - split; cbn [qitems qlog]; rewrite ?yielded_snoc', ?accepted_snoc', ?app_nil_r; auto.
Qed.
Lemma qi_start x t o : QI x -> QI (xq_start x t o).
Proof. intros H. unfold xq_start. destruct (qthr x t); exact H. Qed.
Lemma qi_execs evs x : QI x -> QI (fold_left qexecX evs x).
Proof.
  revert x. induction evs as [|e evs IH]; intros x H; [exact H|]. cbn [fold_left]. apply IH.
  destruct e; cbn; [now apply qi_step|now apply qi_start].
Qed.

Definition bq (s : bxst) : xq := q xq (bb s).

Lemma qi_sent s b t v ok r : QI (q xq b) -> QI (bq (sent s b t v ok r)).
Proof. intros H. unfold sent, bq. destruct ok; [exact H|destruct r; exact H]. Qed.

Lemma qi_bxexec s e : QI (bq s) -> QI (bq (bxexec s e)).
Proof.
  intros H. destruct e as [t|t o]; cbn.
  - unfold bxstep. destruct (bthr s t) eqn:E.
    + unfold bq. cbn [bb].
      destruct (q_cexec xq (xq_step N) xq_start xq_idle qlog M k (fun _ => None) (bb s) (CStep t)) as [evs Hq]. cbn in Hq. rewrite Hq. now apply qi_execs.
    + destruct (N <=? _); exact H.
    + exact H.
    + destruct H as [H1 H2].
      assert (H' : QI (if Z.of_nat (length (qitems (bq s))) <? N
                       then {| qitems := qitems (bq s) ++ [v]; qthr := qthr (bq s); qlog := qlog (bq s) ++ [(t, ROk v (Z.of_nat (length (qitems (bq s))) + 1))] |}
                       else {| qitems := qitems (bq s); qthr := qthr (bq s); qlog := qlog (bq s) ++ [(t, RFull v)] |})).
      { destruct (Z.ltb_spec (Z.of_nat (length (qitems (bq s)))) N); split; cbn [qitems qlog]; rewrite ?yielded_snoc', ?accepted_snoc', ?app_nil_r; auto.
        - rewrite app_assoc, H1. reflexivity.
        - rewrite app_length. cbn. lia. }
      fold (bq s). destruct (l <=? 2); [exact H'|]. apply qi_sent. exact H'.
    + destruct (wstep _ w) as [m' [w'|]]; [exact H|]. apply qi_sent. exact H.
  - unfold bxstart. destruct (bthr s t); try exact H. destruct (cthr xq (bb s) t) eqn:Ec; try exact H.
    destruct o as [o'|v|v]; try exact H.
    unfold bq. cbn [bb].
    destruct (q_cexec xq (xq_step N) xq_start xq_idle qlog M k (fun _ => None) (bb s) (CStart t o')) as [evs Hq]. cbn in Hq. rewrite Hq. now apply qi_execs.
Qed.

Theorem xb_queue_invariant evs : QI (bq (fold_left bxexec evs (bxinit k))).
Proof.
  assert (G : forall s, QI (bq s) -> QI (bq (fold_left bxexec evs s))).
  { induction evs as [|e evs IH]; intros s H; [exact H|]. cbn [fold_left]. apply IH. now apply qi_bxexec. }
  apply G. split; [reflexivity|cbn; lia].
Qed.

(* exactly once, in order, nothing invented: what was handed out is a prefix of what was accepted *)
Theorem xb_exactly_once_in_order evs :
  let l := qlog (bq (fold_left bxexec evs (bxinit k))) in yielded_of l = firstn (length (yielded_of l)) (accepted_of l).
Proof.
  cbn zeta. destruct (xb_queue_invariant evs) as [H _]. rewrite <- H, firstn_app, Nat.sub_diag, firstn_all. cbn. now rewrite app_nil_r.
Qed.

End ChanXbProps.
