(* Executable model of the mmap log topic `MMapMeta` (/repo/src/ogre_std/ogre_queues/log_topics/mmap_meta.rs):
   an ever-growing array of slots, `publisher_tail` (reservation), `consumer_tail` (visibility), subscribers with their own
   `head`: dynamic ones follow `consumer_tail`, fixed ones stop at a frozen tail.
     publish v     : P0 publisher_tail.fetch_add(1) -> pos ; P1 write slot[pos] ; P2 consumer_tail.CAS(pos -> pos+1) (spins)
     consume (dyn) : C0 head.fetch_add(1) -> h ; C1 consumer_tail.load ; h >= tail ? C2 head.CAS(h+1 -> h) (spins), None
                                                                                   : C3 read slot[h]
     consume (fix) : C0 head.fetch_add(1) -> h ; h >= fixed_tail ? C2 ... None : C3 read slot[h]
     subscribe new / split : ONE load of consumer_tail = k ; joined : head 0 (no shared access)                         *)
From RM Require Import Util.

Inductive skind := SNone | SDyn | SFix.
Record sub := { sk : skind; shd : Z; sfx : Z; sfrom : Z }.     (* sfrom: ghost, the first position this subscriber is entitled to *)

Inductive lop := LPub (v : Z) | LCons (i : nat) | LSubNew (i : nat) | LSubSplit (i j : nat) | LSubJoined (i : nat).
Inductive lres := LPubbed (v pos : Z) | LGot (i : nat) (pos v : Z) | LNone (i : nat) | LSubbed (k : Z) | LNoSub.
Inductive lpc := LIdle | LP0 (v : Z) | LP1 (v pos : Z) | LP2 (v pos : Z)
               | LC0 (i : nat) | LC1 (i : nat) (h : Z) | LC2 (i : nat) (h : Z) | LC3 (i : nat) (h : Z)
               | LSN (i : nat) | LSN2 (i : nat) (k : Z) | LSS (i j : nat) | LSS2 (i j : nat) (k : Z) | LSS3 (i j : nat) (k : Z) | LSJ (i : nat) | LNo.

Record lst := { ptail : Z; ctail : Z; slots : Z -> Z; subs : nat -> sub; lthr : nat -> lpc; llog : list (nat * lres);
                logv : list Z   (* ghost: the values in visibility (consumer_tail) order *) }.

Definition nosub : sub := {| sk := SNone; shd := 0; sfx := 0; sfrom := 0 |}.
Definition lmk p c sl sb th l lv : lst := {| ptail := p; ctail := c; slots := sl; subs := sb; lthr := th; llog := l; logv := lv |}.
Definition set_head (b : sub) (h : Z) : sub := {| sk := sk b; shd := h; sfx := sfx b; sfrom := sfrom b |}.

Definition lstep (s : lst) (t : nat) : lst :=
  match lthr s t with
  | LIdle => s
  | LP0 v => lmk (ptail s + 1) (ctail s) (slots s) (subs s) (upd (lthr s) t (LP1 v (ptail s))) (llog s) (logv s)
  | LP1 v pos => lmk (ptail s) (ctail s) (updz (slots s) pos v) (subs s) (upd (lthr s) t (LP2 v pos)) (llog s) (logv s)
  | LP2 v pos =>
      if ctail s =? pos then lmk (ptail s) (pos + 1) (slots s) (subs s) (upd (lthr s) t LIdle) (llog s ++ [(t, LPubbed v pos)]) (logv s ++ [v])
      else s
  | LC0 i =>
      let b := subs s i in let h := shd b in
      let next := match sk b with SFix => if sfx b <=? h then LC2 i h else LC3 i h | _ => LC1 i h end in
      lmk (ptail s) (ctail s) (slots s) (upd (subs s) i (set_head b (h + 1))) (upd (lthr s) t next) (llog s) (logv s)
  | LC1 i h => lmk (ptail s) (ctail s) (slots s) (subs s) (upd (lthr s) t (if ctail s <=? h then LC2 i h else LC3 i h)) (llog s) (logv s)
  | LC2 i h =>
      let b := subs s i in
      if shd b =? h + 1 then lmk (ptail s) (ctail s) (slots s) (upd (subs s) i (set_head b h)) (upd (lthr s) t LIdle) (llog s ++ [(t, LNone i)]) (logv s)
      else s
  | LC3 i h => lmk (ptail s) (ctail s) (slots s) (subs s) (upd (lthr s) t LIdle) (llog s ++ [(t, LGot i h (slots s h))]) (logv s)
  (* subscribing: ONE load of consumer_tail (= k), then one load of the (constant) slice length per subscriber object built *)
  | LSN i => lmk (ptail s) (ctail s) (slots s) (subs s) (upd (lthr s) t (LSN2 i (ctail s))) (llog s) (logv s)
  | LSN2 i k => lmk (ptail s) (ctail s) (slots s)
                    (match sk (subs s i) with SNone => upd (subs s) i {| sk := SDyn; shd := k; sfx := 0; sfrom := k |} | _ => subs s end)
                    (upd (lthr s) t LIdle) (llog s ++ [(t, LSubbed k)]) (logv s)
  | LSS i j => lmk (ptail s) (ctail s) (slots s) (subs s) (upd (lthr s) t (LSS2 i j (ctail s))) (llog s) (logv s)
  | LSS2 i j k => lmk (ptail s) (ctail s) (slots s) (subs s) (upd (lthr s) t (LSS3 i j k)) (llog s) (logv s)
  | LSS3 i j k => lmk (ptail s) (ctail s) (slots s)
                      (match sk (subs s i), sk (subs s j) with
                       | SNone, SNone => upd (upd (subs s) i {| sk := SFix; shd := 0; sfx := k; sfrom := 0 |}) j {| sk := SDyn; shd := k; sfx := 0; sfrom := k |}
                       | _, _ => subs s end)
                      (upd (lthr s) t LIdle) (llog s ++ [(t, LSubbed k)]) (logv s)
  | LSJ i => lmk (ptail s) (ctail s) (slots s)
                 (match sk (subs s i) with SNone => upd (subs s) i {| sk := SDyn; shd := 0; sfx := 0; sfrom := 0 |} | _ => subs s end)
                 (upd (lthr s) t LIdle) (llog s ++ [(t, LSubbed 0)]) (logv s)
  | LNo => lmk (ptail s) (ctail s) (slots s) (subs s) (upd (lthr s) t LIdle) (llog s ++ [(t, LNoSub)]) (logv s)
  end.

Definition lstart (s : lst) (t : nat) (o : lop) : lst :=
  match lthr s t with
  | LIdle =>
      let p := match o with
               | LPub v => LP0 v
               | LCons i => match sk (subs s i) with SNone => LNo | _ => LC0 i end
               (* a subscriber slot is used once: subscribing on an index in use is refused *)
               | LSubNew i => match sk (subs s i) with SNone => LSN i | _ => LNo end
               | LSubSplit i j => match sk (subs s i), sk (subs s j) with SNone, SNone => if Nat.eqb i j then LNo else LSS i j | _, _ => LNo end
               | LSubJoined i => match sk (subs s i) with SNone => LSJ i | _ => LNo end
               end in
      lmk (ptail s) (ctail s) (slots s) (subs s) (upd (lthr s) t p) (llog s) (logv s)
  | _ => s
  end.

Inductive lev := LStep (t : nat) | LStart (t : nat) (o : lop).
Definition lexec (s : lst) (e : lev) : lst := match e with LStep t => lstep s t | LStart t o => lstart s t o end.
Definition linit : lst := lmk 0 0 (fun _ => 0) (fun _ => nosub) (fun _ => LIdle) [] [].

(* location codes: 0 publisher_tail, 1 consumer_tail, 100+p slot p, 50+i head of subscriber i *)
Definition lobs (s : lst) (t : nat) : list Z :=
  match lthr s t with
  | LIdle => skip t
  | LP0 _ => acc t 0 K_FAA (ptail s) (ptail s + 1) true
  | LP1 _ pos => acc t (100 + pos) K_SLOTW 0 (-1) true
  | LP2 _ pos => if ctail s =? pos then acc t 1 K_CAS (ctail s) (pos + 1) true else acc t 1 K_CAS (ctail s) (-1) false
  | LC0 i => acc t (50 + Z.of_nat i) K_FAA (shd (subs s i)) (shd (subs s i) + 1) true
  | LC1 _ _ | LSN _ | LSS _ _ => acc t 1 K_LOAD (ctail s) (-1) true
  | LSN2 _ _ | LSS2 _ _ _ | LSS3 _ _ _ | LSJ _ => acc t 3 K_LOAD 4096 (-1) true
  | LC2 i h => if shd (subs s i) =? h + 1 then acc t (50 + Z.of_nat i) K_CAS (shd (subs s i)) h true
               else acc t (50 + Z.of_nat i) K_CAS (shd (subs s i)) (-1) false
  | LC3 _ h => acc t (100 + h) K_SLOTR 0 (-1) true
  | LNo => acc t 2 K_YIELD 0 (-1) true
  end.

(* ------------------------------------------------------------------------------------------------ invariant *)
Definition pheld (p : lpc) : option Z := match p with LP1 _ pos | LP2 _ pos => Some pos | _ => None end.
Definition pwrote (p : lpc) : option (Z * Z) := match p with LP2 v pos => Some (pos, v) | _ => None end.

Definition kread (p : lpc) : option Z := match p with LSN2 _ k | LSS2 _ _ k | LSS3 _ _ k => Some k | _ => None end.
Definition consuming (p : lpc) : option (nat * Z) := match p with LC1 i h | LC2 i h | LC3 i h => Some (i, h) | _ => None end.

Record LInv (s : lst) : Prop := {
  l_ord  : 0 <= ctail s <= ptail s;
  l_len  : Z.of_nat (length (logv s)) = ctail s;
  l_vis  : forall p, 0 <= p < ctail s -> slots s p = nthz (logv s) p;          (* visible slots hold the log, for good *)
  l_held : forall t p, pheld (lthr s t) = Some p -> ctail s <= p < ptail s;
  l_dist : forall t u p, pheld (lthr s t) = Some p -> pheld (lthr s u) = Some p -> t = u;
  l_wr   : forall t p v, pwrote (lthr s t) = Some (p, v) -> slots s p = v;
  l_k    : forall t k, kread (lthr s t) = Some k -> 0 <= k <= ctail s;
  l_sub  : forall i, 0 <= sfrom (subs s i) <= shd (subs s i) /\ sfrom (subs s i) <= ctail s /\ sfx (subs s i) <= ctail s;
  l_cons : forall t i h, consuming (lthr s t) = Some (i, h) -> sfrom (subs s i) <= h /\ sk (subs s i) <> SNone;
  l_c0   : forall t i, lthr s t = LC0 i -> sk (subs s i) <> SNone;
  l_c1   : forall t i h, lthr s t = LC1 i h -> sk (subs s i) <> SFix;
  (* a reader about to read a slot reads a visible one, inside its subscription *)
  l_read : forall t i h, lthr s t = LC3 i h -> 0 <= h < ctail s /\ (sk (subs s i) = SFix -> h < sfx (subs s i));
  (* responses: every value handed to a listener is the log value of its position, inside the listener's entitlement *)
  l_got  : forall t i p v, In (t, LGot i p v) (llog s) ->
             0 <= p < ctail s /\ v = nthz (logv s) p /\ sfrom (subs s i) <= p /\ (sk (subs s i) = SFix -> p < sfx (subs s i)) /\ sk (subs s i) <> SNone
}.

Lemma linv_init : LInv linit.
Proof. constructor; cbn; try lia; try discriminate; auto; try (intros; lia); try (intros; discriminate); try (intros ? ? ? ? []). Qed.

Ltac ls := cbn [ptail ctail slots subs lthr llog logv lmk set_head sk shd sfx sfrom] in *.

Lemma in_snoc_inv {A} (l : list A) x y : In y (l ++ [x]) -> In y l \/ y = x.
Proof. intros H. apply in_app_or in H. destruct H as [H|[H|[]]]; auto. Qed.

Lemma nthz_snoc_keep l v p : 0 <= p < Z.of_nat (length l) -> nthz (l ++ [v]) p = nthz l p.
Proof. apply nthz_app_l. Qed.

(* subscriber-table updates that keep kind / entitlement of every installed subscriber *)
Definition stable_subs (a b : nat -> sub) : Prop :=
  forall j, sk (a j) <> SNone -> sk (b j) = sk (a j) /\ sfrom (b j) = sfrom (a j) /\ sfx (b j) = sfx (a j).

Ltac pcs E := first [discriminate | (rewrite E; discriminate) | idtac].

Lemma linv_start s t o : LInv s -> LInv (lstart s t o).
Proof.
  intros I. unfold lstart. destruct (lthr s t) eqn:E; auto. destruct I as [Ho Hlen Hv Hh Hd Hw Hk Hs Hc Hc0 Hc1 Hr Hg].
  set (p := match o with LPub v => LP0 v | LCons i => match sk (subs s i) with SNone => LNo | _ => LC0 i end
            | LSubNew i => match sk (subs s i) with SNone => LSN i | _ => LNo end
            | LSubSplit i j => match sk (subs s i), sk (subs s j) with SNone, SNone => if Nat.eqb i j then LNo else LSS i j | _, _ => LNo end
            | LSubJoined i => match sk (subs s i) with SNone => LSJ i | _ => LNo end end).
  assert (Hcls : (exists v, p = LP0 v) \/ (exists i, p = LC0 i /\ sk (subs s i) <> SNone) \/ p = LNo \/ (exists i, p = LSN i) \/ (exists i j, p = LSS i j) \/ (exists i, p = LSJ i)).
  { subst p. destruct o as [v|i|i|i j|i].
    - left. eauto.
    - destruct (sk (subs s i)) eqn:Ek; [right; right; left; reflexivity| |]; right; left; exists i; (split; [reflexivity|congruence]).
    - destruct (sk (subs s i)); [right; right; right; left; eauto| |]; right; right; left; reflexivity.
    - destruct (sk (subs s i)), (sk (subs s j)); try (right; right; left; reflexivity).
      destruct (Nat.eqb i j); [right; right; left; reflexivity|right; right; right; right; left; eauto].
    - destruct (sk (subs s i)); [right; right; right; right; right; eauto| |]; right; right; left; reflexivity. }
  clearbody p.
  assert (Hp1 : pheld p = None) by (destruct Hcls as [[? ->]|[[? [-> _]]|[->|[[? ->]|[[? [? ->]]|[? ->]]]]]]; reflexivity).
  assert (Hp2 : pwrote p = None) by (destruct Hcls as [[? ->]|[[? [-> _]]|[->|[[? ->]|[[? [? ->]]|[? ->]]]]]]; reflexivity).
  assert (Hp3 : kread p = None) by (destruct Hcls as [[? ->]|[[? [-> _]]|[->|[[? ->]|[[? [? ->]]|[? ->]]]]]]; reflexivity).
  assert (Hp4 : consuming p = None) by (destruct Hcls as [[? ->]|[[? [-> _]]|[->|[[? ->]|[[? [? ->]]|[? ->]]]]]]; reflexivity).
  constructor; ls; auto.
  - intros u q. upd_cases t u; [rewrite Hp1; discriminate|apply (Hh u)].
  - intros u w q. upd_cases t u; [rewrite Hp1; discriminate|]. upd_cases t w; [rewrite Hp1; discriminate|apply Hd].
  - intros u q v. upd_cases t u; [rewrite Hp2; discriminate|apply (Hw u)].
  - intros u k. upd_cases t u; [rewrite Hp3; discriminate|apply (Hk u)].
  - intros u i h. upd_cases t u; [rewrite Hp4; discriminate|apply (Hc u)].
  - intros u i. upd_cases t u; [|apply (Hc0 u)]. intros ->. destruct Hcls as [[? H]|[[i' [H Hn]]|[H|[[? H]|[[? [? H]]|[? H]]]]]]; try discriminate. injection H as <-. exact Hn.
  - intros u i h. upd_cases t u; [|apply (Hc1 u)]. intros ->. destruct Hcls as [[? H]|[[? [H _]]|[H|[[? H]|[[? [? H]]|[? H]]]]]]; discriminate.
  - intros u i h. upd_cases t u; [|apply (Hr u)]. intros ->. destruct Hcls as [[? H]|[[? [H _]]|[H|[[? H]|[[? [? H]]|[? H]]]]]]; discriminate.
Qed.

(* a step that changes only thread t's pc (to a pc that holds nothing) and appends responses that are not LGot *)
Lemma linv_quiet s t p l' :
  LInv s -> pheld p = None -> pwrote p = None -> kread p = None -> consuming p = None -> (forall i, p <> LC0 i) ->
  (forall u i q v, In (u, LGot i q v) l' -> In (u, LGot i q v) (llog s)) ->
  LInv (lmk (ptail s) (ctail s) (slots s) (subs s) (upd (lthr s) t p) l' (logv s)).
Proof.
  intros [Ho Hlen Hv Hh Hd Hw Hk Hs Hc Hc0 Hc1 Hr Hg] H1 H2 H3 H4 H5 Hl.
  constructor; ls; auto.
  - intros u q. upd_cases t u; [rewrite H1; discriminate|apply (Hh u)].
  - intros u w q. upd_cases t u; [rewrite H1; discriminate|]. upd_cases t w; [rewrite H1; discriminate|apply Hd].
  - intros u q v. upd_cases t u; [rewrite H2; discriminate|apply (Hw u)].
  - intros u k. upd_cases t u; [rewrite H3; discriminate|apply (Hk u)].
  - intros u i h. upd_cases t u; [rewrite H4; discriminate|apply (Hc u)].
  - intros u i. upd_cases t u; [intros E; exfalso; eapply H5; eauto|apply (Hc0 u)].
  - intros u i h. upd_cases t u; [intros ->; discriminate|apply (Hc1 u)].
  - intros u i h. upd_cases t u; [intros ->; discriminate|apply (Hr u)].
  - intros u i q v Hin. apply (Hg u). eapply Hl; eauto.
Qed.

Lemma linv_step s t : LInv s -> LInv (lstep s t).
Proof.
  intros I. pose proof I as I0. destruct I as [Ho Hlen Hv Hh Hd Hw Hk Hs Hc Hc0 Hc1 Hr Hg]. unfold lstep.
  destruct (lthr s t) eqn:E; try exact I0.
  - (* LP0 *)
    constructor; ls; auto; try lia.
    + intros u q. upd_cases t u; [cbn; intros H; injection H as <-; lia|]. intros H. specialize (Hh u q H). lia.
    + intros u w q. upd_cases t u; upd_cases t w; auto; cbn; intros H1 H2.
      * injection H1 as <-. specialize (Hh w _ H2). lia.
      * injection H2 as <-. specialize (Hh u _ H1). lia.
      * eapply Hd; eauto.
    + intros u q x. upd_cases t u; [discriminate|apply (Hw u)].
    + intros u k. upd_cases t u; [discriminate|apply (Hk u)].
    + intros u i h. upd_cases t u; [discriminate|apply (Hc u)].
    + intros u i. upd_cases t u; [discriminate|apply (Hc0 u)].
    + intros u i h. upd_cases t u; [discriminate|apply (Hc1 u)].
    + intros u i h. upd_cases t u; [discriminate|apply (Hr u)].
  - (* LP1: the slot write lands on a position nobody else holds and that is not visible yet *)
    assert (Hp : ctail s <= pos < ptail s) by (apply (Hh t); rewrite E; reflexivity).
    constructor; ls; auto.
    + intros p Hpv. rewrite updz_other by lia. now apply Hv.
    + intros u q. upd_cases t u; [cbn; intros H; injection H as <-; lia|apply (Hh u)].
    + intros u w q. upd_cases t u; upd_cases t w; auto; cbn; intros H1 H2.
      * injection H1 as <-. apply (Hd t w pos); [rewrite E; reflexivity|assumption].
      * injection H2 as <-. apply (Hd u t pos); [assumption|rewrite E; reflexivity].
      * eapply Hd; eauto.
    + intros u q x. upd_cases t u; [cbn; intros H; injection H as <- <-; apply updz_same|].
      intros H. rewrite updz_other; [now apply (Hw u)|].
      intros ->. apply n. apply (Hd u t pos); [destruct (lthr s u); cbn in *; try discriminate; congruence|rewrite E; reflexivity].
    + intros u k. upd_cases t u; [discriminate|apply (Hk u)].
    + intros u i h. upd_cases t u; [discriminate|apply (Hc u)].
    + intros u i. upd_cases t u; [discriminate|apply (Hc0 u)].
    + intros u i h. upd_cases t u; [discriminate|apply (Hc1 u)].
    + intros u i h. upd_cases t u; [discriminate|apply (Hr u)].
  - (* LP2: the visibility CAS *)
    assert (Hp : ctail s <= pos < ptail s) by (apply (Hh t); rewrite E; reflexivity).
    assert (Hsl : slots s pos = v) by (apply (Hw t); rewrite E; reflexivity).
    destruct (Z.eqb_spec (ctail s) pos) as [Ec|Ec]; [|exact I0]. subst pos.
    constructor; ls; auto; try lia.
    + rewrite app_length. cbn. lia.
    + intros p Hpv. destruct (Z.eq_dec p (ctail s)) as [->|Hn].
      * rewrite <- Hlen at 2. rewrite nthz_app_r. exact Hsl.
      * rewrite nthz_app_l by lia. apply Hv. lia.
    + intros u q. upd_cases t u; [discriminate|]. intros H. specialize (Hh u q H).
      assert (q <> ctail s) by (intros ->; apply n; apply (Hd u t (ctail s)); [assumption|rewrite E; reflexivity]). lia.
    + intros u w q. upd_cases t u; [discriminate|]. upd_cases t w; [discriminate|apply Hd].
    + intros u q x. upd_cases t u; [discriminate|apply (Hw u)].
    + intros u k. upd_cases t u; [discriminate|]. intros H. specialize (Hk u k H). lia.
    + intros i. specialize (Hs i). lia.
    + intros u i h. upd_cases t u; [discriminate|apply (Hc u)].
    + intros u i. upd_cases t u; [discriminate|apply (Hc0 u)].
    + intros u i h. upd_cases t u; [discriminate|apply (Hc1 u)].
    + intros u i h. upd_cases t u; [discriminate|]. intros H. destruct (Hr u i h H) as [H1 H2]. split; [lia|exact H2].
    + intros u i p x Hin. apply in_snoc_inv in Hin. destruct Hin as [Hin|Hin]; [|discriminate].
      destruct (Hg u i p x Hin) as (H1 & H2 & H3). split; [lia|]. split; [|exact H3]. rewrite nthz_app_l by lia. exact H2.
  - (* LC0: reserve a position of subscriber i *)
    assert (Hk0 : sk (subs s i) <> SNone) by (apply (Hc0 t); exact E).
    pose proof (Hs i) as Hsi.
    set (sb' := upd (subs s) i (set_head (subs s i) (shd (subs s i) + 1))).
    assert (Hsame : forall j, sfrom (sb' j) = sfrom (subs s j) /\ sk (sb' j) = sk (subs s j) /\ sfx (sb' j) = sfx (subs s j)).
    { intros j. subst sb'. upd_cases i j; cbn; auto. }
    assert (Hnext : forall nx, nx = match sk (subs s i) with SFix => if sfx (subs s i) <=? shd (subs s i) then LC2 i (shd (subs s i)) else LC3 i (shd (subs s i)) | _ => LC1 i (shd (subs s i)) end ->
              pheld nx = None /\ pwrote nx = None /\ kread nx = None /\ consuming nx = Some (i, shd (subs s i)) /\ (forall j, nx <> LC0 j)).
    { intros nx ->. destruct (sk (subs s i)); try destruct (_ <=? _); repeat split; try reflexivity; discriminate. }
    destruct (Hnext _ eq_refl) as (N1 & N2 & N3 & N4 & N5).
    constructor; ls; auto.
    + intros u q. upd_cases t u; [rewrite N1; discriminate|apply (Hh u)].
    + intros u w q. upd_cases t u; [rewrite N1; discriminate|]. upd_cases t w; [rewrite N1; discriminate|apply Hd].
    + intros u q x. upd_cases t u; [rewrite N2; discriminate|apply (Hw u)].
    + intros u k. upd_cases t u; [rewrite N3; discriminate|apply (Hk u)].
    + intros j. destruct (Hsame j) as (E1 & E2 & E3). fold sb'. rewrite E1, E3. subst sb'. upd_cases i j; [cbn; lia|apply Hs].
    + intros u j h. fold sb'. destruct (Hsame j) as (-> & -> & _). upd_cases t u; [|apply (Hc u)].
      rewrite N4. intros H. injection H as <- <-. split; [lia|assumption].
    + intros u j. fold sb'. destruct (Hsame j) as (_ & -> & _). upd_cases t u; [intros H; exfalso; eapply N5; eauto|apply (Hc0 u)].
    + intros u j h. fold sb'. destruct (Hsame j) as (_ & -> & _). upd_cases t u; [|apply (Hc1 u)].
      destruct (sk (subs s i)) eqn:Ek; try destruct (_ <=? _); intros Hx; try discriminate; injection Hx as <- <-; congruence.
    + intros u j h. fold sb'. destruct (Hsame j) as (_ & -> & ->). upd_cases t u; [|apply (Hr u)].
      destruct (sk (subs s i)) eqn:Ek; [congruence|discriminate|].
      destruct (Z.leb_spec (sfx (subs s i)) (shd (subs s i))) as [Hle|Hlt]; [discriminate|]. intros Hx. injection Hx as <- <-. rewrite Ek. split; [lia|auto].
    + intros u j p x Hin. fold sb'. destruct (Hsame j) as (-> & -> & ->). now apply (Hg u).
  - (* LC1 *)
    destruct (Hc t i h) as [Hf Hk0]; [rewrite E; reflexivity|].
    assert (Hnf : sk (subs s i) <> SFix) by (apply (Hc1 t i h); exact E).
    constructor; ls; auto.
    + intros u q. upd_cases t u; [destruct (_ <=? _); discriminate|apply (Hh u)].
    + intros u w q. upd_cases t u; [destruct (_ <=? _); discriminate|]. upd_cases t w; [destruct (_ <=? _); discriminate|apply Hd].
    + intros u q x. upd_cases t u; [destruct (_ <=? _); discriminate|apply (Hw u)].
    + intros u k. upd_cases t u; [destruct (_ <=? _); discriminate|apply (Hk u)].
    + intros u j g. upd_cases t u; [|apply (Hc u)]. destruct (_ <=? _); cbn; intros H; injection H as <- <-; auto.
    + intros u j. upd_cases t u; [destruct (_ <=? _); discriminate|apply (Hc0 u)].
    + intros u j g. upd_cases t u; [destruct (_ <=? _); discriminate|apply (Hc1 u)].
    + intros u j g. upd_cases t u; [|apply (Hr u)]. destruct (Z.leb_spec (ctail s) h) as [Hle|Hlt]; [discriminate|]. intros Hx. injection Hx as <- <-.
      pose proof (Hs i) as Hsi. split; [lia|]. intros Hfix. congruence.
  - (* LC2: recede *)
    destruct (Hc t i h) as [Hf Hk0]; [rewrite E; reflexivity|].
    destruct (Z.eqb_spec (shd (subs s i)) (h + 1)) as [Eh|Eh]; [|exact I0].
    set (sb' := upd (subs s) i (set_head (subs s i) h)).
    assert (Hsame : forall j, sfrom (sb' j) = sfrom (subs s j) /\ sk (sb' j) = sk (subs s j) /\ sfx (sb' j) = sfx (subs s j)).
    { intros j. subst sb'. upd_cases i j; cbn; auto. }
    constructor; ls; auto.
    + intros u q. upd_cases t u; [discriminate|apply (Hh u)].
    + intros u w q. upd_cases t u; [discriminate|]. upd_cases t w; [discriminate|apply Hd].
    + intros u q x. upd_cases t u; [discriminate|apply (Hw u)].
    + intros u k. upd_cases t u; [discriminate|apply (Hk u)].
    + intros j. destruct (Hsame j) as (E1 & E2 & E3). fold sb'. rewrite E1, E3. subst sb'. pose proof (Hs j). upd_cases i j; [cbn; lia|assumption].
    + intros u j g. fold sb'. destruct (Hsame j) as (-> & -> & _). upd_cases t u; [discriminate|apply (Hc u)].
    + intros u j. fold sb'. destruct (Hsame j) as (_ & -> & _). upd_cases t u; [discriminate|apply (Hc0 u)].
    + intros u j g. fold sb'. destruct (Hsame j) as (_ & -> & _). upd_cases t u; [discriminate|apply (Hc1 u)].
    + intros u j g. fold sb'. destruct (Hsame j) as (_ & -> & ->). upd_cases t u; [discriminate|apply (Hr u)].
    + intros u j p x Hin. fold sb'. destruct (Hsame j) as (-> & -> & ->). apply in_snoc_inv in Hin. destruct Hin as [Hin|Hin]; [now apply (Hg u)|discriminate].
  - (* LC3: the read *)
    destruct (Hc t i h) as [Hf Hk0]; [rewrite E; reflexivity|]. destruct (Hr t i h E) as [Hv0 Hfx].
    constructor; ls; auto.
    + intros u q. upd_cases t u; [discriminate|apply (Hh u)].
    + intros u w q. upd_cases t u; [discriminate|]. upd_cases t w; [discriminate|apply Hd].
    + intros u q x. upd_cases t u; [discriminate|apply (Hw u)].
    + intros u k. upd_cases t u; [discriminate|apply (Hk u)].
    + intros u j g. upd_cases t u; [discriminate|apply (Hc u)].
    + intros u j. upd_cases t u; [discriminate|apply (Hc0 u)].
    + intros u j g. upd_cases t u; [discriminate|apply (Hc1 u)].
    + intros u j g. upd_cases t u; [discriminate|apply (Hr u)].
    + intros u j p x Hin. apply in_snoc_inv in Hin. destruct Hin as [Hin|Hin]; [now apply (Hg u)|].
      injection Hin as E1 E2 E3 E4. subst u j p x. repeat split; auto; try lia; try (now apply Hv).
  - (* LSN: the load of consumer_tail *)
    constructor; ls; auto.
    + intros u q. upd_cases t u; [discriminate|apply (Hh u)].
    + intros u w q. upd_cases t u; [discriminate|]. upd_cases t w; [discriminate|apply Hd].
    + intros u q x. upd_cases t u; [discriminate|apply (Hw u)].
    + intros u k. upd_cases t u; [cbn; intros H; injection H as <-; lia|apply (Hk u)].
    + intros u j g. upd_cases t u; [discriminate|apply (Hc u)].
    + intros u j. upd_cases t u; [discriminate|apply (Hc0 u)].
    + intros u j g. upd_cases t u; [discriminate|apply (Hc1 u)].
    + intros u j g. upd_cases t u; [discriminate|apply (Hr u)].
  - (* LSN2: install *)
    assert (Hkk : 0 <= k <= ctail s) by (apply (Hk t); rewrite E; reflexivity).
    set (sb' := match sk (subs s i) with SNone => upd (subs s) i {| sk := SDyn; shd := k; sfx := 0; sfrom := k |} | _ => subs s end).
    assert (Hst : stable_subs (subs s) sb').
    { intros j Hj. subst sb'. destruct (sk (subs s i)) eqn:Ek; auto. upd_cases i j; [congruence|auto]. }
    assert (Hsub' : forall j, 0 <= sfrom (sb' j) <= shd (sb' j) /\ sfrom (sb' j) <= ctail s /\ sfx (sb' j) <= ctail s).
    { intros j. subst sb'. destruct (sk (subs s i)); try apply Hs. upd_cases i j; [cbn; lia|apply Hs]. }
    constructor; ls; auto.
    + intros u q. upd_cases t u; [discriminate|apply (Hh u)].
    + intros u w q. upd_cases t u; [discriminate|]. upd_cases t w; [discriminate|apply Hd].
    + intros u q x. upd_cases t u; [discriminate|apply (Hw u)].
    + intros u k0. upd_cases t u; [discriminate|apply (Hk u)].
    + intros u j g. upd_cases t u; [discriminate|]. intros H. destruct (Hc u j g H) as [H1 H2]. destruct (Hst j H2) as (-> & -> & _). auto.
    + intros u j. upd_cases t u; [discriminate|]. intros H. pose proof (Hc0 u j H) as H2. destruct (Hst j H2) as (-> & _). auto.
    + intros u j g. upd_cases t u; [discriminate|]. intros H. pose proof (Hc1 u j g H).
      destruct (sk (subs s j)) eqn:Ej.
      * (* not installed: impossible for a thread at LC1 *) destruct (Hc u j g) as [_ Hx]; [rewrite H; reflexivity|]. congruence.
      * destruct (Hst j) as (-> & _); [congruence|congruence].
      * congruence.
    + intros u j g. upd_cases t u; [discriminate|]. intros H. destruct (Hr u j g H) as [H1 H2].
      destruct (Hc u j g) as [_ Hx]; [rewrite H; reflexivity|]. destruct (Hst j Hx) as (-> & _ & ->). auto.
    + intros u j p x Hin. apply in_snoc_inv in Hin. destruct Hin as [Hin|Hin]; [|discriminate].
      destruct (Hg u j p x Hin) as (H1 & H2 & H3 & H4 & H5). destruct (Hst j H5) as (-> & -> & ->). auto.
  - (* LSS *)
    constructor; ls; auto.
    + intros u q. upd_cases t u; [discriminate|apply (Hh u)].
    + intros u w q. upd_cases t u; [discriminate|]. upd_cases t w; [discriminate|apply Hd].
    + intros u q x. upd_cases t u; [discriminate|apply (Hw u)].
    + intros u k. upd_cases t u; [cbn; intros H; injection H as <-; lia|apply (Hk u)].
    + intros u j0 g. upd_cases t u; [discriminate|apply (Hc u)].
    + intros u j0. upd_cases t u; [discriminate|apply (Hc0 u)].
    + intros u j0 g. upd_cases t u; [discriminate|apply (Hc1 u)].
    + intros u j0 g. upd_cases t u; [discriminate|apply (Hr u)].
  - (* LSS2 *)
    assert (Hkk : 0 <= k <= ctail s) by (apply (Hk t); rewrite E; reflexivity).
    constructor; ls; auto.
    + intros u q. upd_cases t u; [discriminate|apply (Hh u)].
    + intros u w q. upd_cases t u; [discriminate|]. upd_cases t w; [discriminate|apply Hd].
    + intros u q x. upd_cases t u; [discriminate|apply (Hw u)].
    + intros u k0. upd_cases t u; [cbn; intros H; injection H as <-; lia|apply (Hk u)].
    + intros u j0 g. upd_cases t u; [discriminate|apply (Hc u)].
    + intros u j0. upd_cases t u; [discriminate|apply (Hc0 u)].
    + intros u j0 g. upd_cases t u; [discriminate|apply (Hc1 u)].
    + intros u j0 g. upd_cases t u; [discriminate|apply (Hr u)].
  - (* LSS3: install both *)
    assert (Hkk : 0 <= k <= ctail s) by (apply (Hk t); rewrite E; reflexivity).
    set (sb' := match sk (subs s i), sk (subs s j) with
                | SNone, SNone => upd (upd (subs s) i {| sk := SFix; shd := 0; sfx := k; sfrom := 0 |}) j {| sk := SDyn; shd := k; sfx := 0; sfrom := k |}
                | _, _ => subs s end).
    assert (Hst : stable_subs (subs s) sb').
    { intros j0 Hj. subst sb'. destruct (sk (subs s i)) eqn:Ei, (sk (subs s j)) eqn:Ej; auto.
      upd_cases j j0; [congruence|]. upd_cases i j0; [congruence|auto]. }
    assert (Hsub' : forall j0, 0 <= sfrom (sb' j0) <= shd (sb' j0) /\ sfrom (sb' j0) <= ctail s /\ sfx (sb' j0) <= ctail s).
    { intros j0. subst sb'. destruct (sk (subs s i)), (sk (subs s j)); try apply Hs.
      upd_cases j j0; [cbn; lia|]. upd_cases i j0; [cbn; lia|apply Hs]. }
    constructor; ls; auto.
    + intros u q. upd_cases t u; [discriminate|apply (Hh u)].
    + intros u w q. upd_cases t u; [discriminate|]. upd_cases t w; [discriminate|apply Hd].
    + intros u q x. upd_cases t u; [discriminate|apply (Hw u)].
    + intros u k0. upd_cases t u; [discriminate|apply (Hk u)].
    + intros u j0 g. upd_cases t u; [discriminate|]. intros H. destruct (Hc u j0 g H) as [H1 H2]. destruct (Hst j0 H2) as (-> & -> & _). auto.
    + intros u j0. upd_cases t u; [discriminate|]. intros H. pose proof (Hc0 u j0 H) as H2. destruct (Hst j0 H2) as (-> & _). auto.
    + intros u j0 g. upd_cases t u; [discriminate|]. intros H. pose proof (Hc1 u j0 g H).
      destruct (Hc u j0 g) as [_ Hx]; [rewrite H; reflexivity|]. destruct (Hst j0 Hx) as (-> & _). assumption.
    + intros u j0 g. upd_cases t u; [discriminate|]. intros H. destruct (Hr u j0 g H) as [H1 H2].
      destruct (Hc u j0 g) as [_ Hx]; [rewrite H; reflexivity|]. destruct (Hst j0 Hx) as (-> & _ & ->). auto.
    + intros u j0 p x Hin. apply in_snoc_inv in Hin. destruct Hin as [Hin|Hin]; [|discriminate].
      destruct (Hg u j0 p x Hin) as (H1 & H2 & H3 & H4 & H5). destruct (Hst j0 H5) as (-> & -> & ->). auto.
  - (* LSJ *)
    set (sb' := match sk (subs s i) with SNone => upd (subs s) i {| sk := SDyn; shd := 0; sfx := 0; sfrom := 0 |} | _ => subs s end).
    assert (Hst : stable_subs (subs s) sb').
    { intros j Hj. subst sb'. destruct (sk (subs s i)) eqn:Ek; auto. upd_cases i j; [congruence|auto]. }
    assert (Hsub' : forall j, 0 <= sfrom (sb' j) <= shd (sb' j) /\ sfrom (sb' j) <= ctail s /\ sfx (sb' j) <= ctail s).
    { intros j. subst sb'. destruct (sk (subs s i)); try apply Hs. upd_cases i j; [cbn; lia|apply Hs]. }
    constructor; ls; auto.
    + intros u q. upd_cases t u; [discriminate|apply (Hh u)].
    + intros u w q. upd_cases t u; [discriminate|]. upd_cases t w; [discriminate|apply Hd].
    + intros u q x. upd_cases t u; [discriminate|apply (Hw u)].
    + intros u k0. upd_cases t u; [discriminate|apply (Hk u)].
    + intros u j g. upd_cases t u; [discriminate|]. intros H. destruct (Hc u j g H) as [H1 H2]. destruct (Hst j H2) as (-> & -> & _). auto.
    + intros u j. upd_cases t u; [discriminate|]. intros H. pose proof (Hc0 u j H) as H2. destruct (Hst j H2) as (-> & _). auto.
    + intros u j g. upd_cases t u; [discriminate|]. intros H. pose proof (Hc1 u j g H).
      destruct (Hc u j g) as [_ Hx]; [rewrite H; reflexivity|]. destruct (Hst j Hx) as (-> & _). assumption.
    + intros u j g. upd_cases t u; [discriminate|]. intros H. destruct (Hr u j g H) as [H1 H2].
      destruct (Hc u j g) as [_ Hx]; [rewrite H; reflexivity|]. destruct (Hst j Hx) as (-> & _ & ->). auto.
    + intros u j p x Hin. apply in_snoc_inv in Hin. destruct Hin as [Hin|Hin]; [|discriminate].
      destruct (Hg u j p x Hin) as (H1 & H2 & H3 & H4 & H5). destruct (Hst j H5) as (-> & -> & ->). auto.
  - (* LNo *)
    apply linv_quiet; auto; try discriminate.
    intros u i q v Hin. apply in_snoc_inv in Hin. destruct Hin as [Hin|Hin]; [assumption|discriminate].
Qed.

Theorem linv_reachable evs : LInv (fold_left lexec evs linit).
Proof. apply fold_inv; [|apply linv_init]. intros s e I. destruct e; cbn; [now apply linv_step|now apply linv_start]. Qed.

(* ---- runner ---- *)
Definition lres_code (r : lres) : list Z :=
  match r with LPubbed v pos => [60; v; pos] | LGot i pos v => [61; v; pos] | LNone i => [62; Z.of_nat i; 0] | LSubbed k => [63; 0; 0] | LNoSub => [64; 0; 0] end.
Definition lemit (before after : list (nat * lres)) : list (list Z) :=
  map (fun e => 2 :: Z.of_nat (fst e) :: lres_code (snd e)) (skipn (length before) after).
Definition lgrant (s : lst) (progs : nat -> list lop) (t : nat) : lst * (nat -> list lop) * list (list Z) :=
  match lthr s t with
  | LIdle => match progs t with
             | [] => (s, progs, [skip t])
             | o :: rest => let s1 := lstart s t o in let s2 := lstep s1 t in (s2, upd progs t rest, lobs s1 t :: lemit (llog s1) (llog s2))
             end
  | _ => let s2 := lstep s t in (s2, progs, lobs s t :: lemit (llog s) (llog s2))
  end.
Fixpoint lrun (s : lst) (progs : nat -> list lop) (sched : list nat) : lst * list (list Z) :=
  match sched with
  | [] => (s, [])
  | t :: rest => let '(s1, p1, lines) := lgrant s progs t in let '(s2, more) := lrun s1 p1 rest in (s2, lines ++ more)
  end.
Definition run_log (progs : list (list lop)) (sched : list nat) : list Z :=
  let '(s, lines) := lrun linit (fun t => nth t progs []) sched in concat lines ++ [9; ptail s; ctail s].

(* the log only grows: what was visible stays, at the same positions *)
Lemma logv_step_grows s t : exists x, logv (lstep s t) = logv s ++ x.
Proof.
  unfold lstep. destruct (lthr s t); try (exists []; rewrite app_nil_r; reflexivity);
  repeat match goal with |- context[if ?b then _ else _] => destruct b end;
  try (exists []; rewrite app_nil_r; reflexivity); try (eexists; reflexivity).
Qed.
Lemma logv_exec_grows s e : exists x, logv (lexec s e) = logv s ++ x.
Proof.
  destruct e; cbn; [apply logv_step_grows|]. unfold lstart. destruct (lthr s t); exists []; rewrite app_nil_r; reflexivity.
Qed.
Theorem logv_prefix evs1 evs2 : exists x, logv (fold_left lexec (evs1 ++ evs2) linit) = logv (fold_left lexec evs1 linit) ++ x.
Proof.
  rewrite fold_left_app. generalize (fold_left lexec evs1 linit). induction evs2 as [|e evs IH]; intros s.
  - exists []. now rewrite app_nil_r.
  - cbn [fold_left]. destruct (IH (lexec s e)) as [x Hx]. destruct (logv_exec_grows s e) as [y Hy].
    exists (y ++ x). rewrite Hx, Hy, app_assoc. reflexivity.
Qed.
