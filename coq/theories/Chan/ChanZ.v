(* The Uni channel machine of Chan.v for queue components that hand a consumer a payload HANDLE whose drop gives the slot back
   (the zero-copy Uni channels: /repo/src/uni/channels/zero_copy/{atomic,full_sync}.rs): after a poll yielded an event the task
   drops the handle - the release phase `XRel`, steps of the queue component's release operation - before it polls again (or ends
   its single poll).  Everything else - wake protocol, cancel, location codes, trace encoding - is Chan.v's, shared. *)
From RM Require Export RingModel FullSync.
From RM Require Import Chan ZeroCopy ZcUni PoolRun.

Module ZC.

Inductive cpc :=
| XIdle
| XSendQ (v : Z)
| XSendW (v : Z) (w : wpc)
| XDrive (i : nat)
| XPollQ (i : nat) (drv : bool)
| XPollK (i : nat) (drv : bool)
| XReg (i : nat) (r : rpc) (drv : bool)
| XParked (i : nat)
| XCancelU (j : nat)
| XCancelK (j : nat)
| XCancelW (j : nat) (w : wpc)
| XLenQ
| XRel (i : nat) (drv : bool).               (* dropping the handle of the event just yielded *)

Section Chan.
Variable Q : Type.
Variable qstep : Q -> nat -> Q.
Variable qstart : Q -> nat -> op -> Q.
Variable qidle : Q -> nat -> bool.
Variable qlog : Q -> list (nat * res).
Variable qobs : Q -> nat -> list Z.
Variable qrel : Q -> nat -> Q.               (* thread t starts dropping the handle it holds *)
Variable M : nat.                          (* MAX_STREAMS *)
Variable k : nat.                          (* streams created: ids 0..k-1 *)
Variable wake_rule : Z -> option nat.      (* len_after -> stream to wake *)

Record cst := { q : Q; m : sm; cthr : nat -> cpc; clog : list (nat * cres) }.

Definition qres (x : Q) : res := snd (last (qlog x) (0%nat, REmpty)).

Definition mk (x : Q) (y : sm) (th : nat -> cpc) (l : list (nat * cres)) : cst := {| q := x; m := y; cthr := th; clog := l |}.
Definition setpc (s : cst) (t : nat) (p : cpc) : cst := mk (q s) (m s) (upd (cthr s) t p) (clog s).
Definition finish (s : cst) (t : nat) (r : cres) (p : cpc) : cst := mk (q s) (m s) (upd (cthr s) t p) (clog s ++ [(t, r)]).

(* the queue operation of thread t completed in state x (its response is the last entry of the queue's log) *)
Definition after_send (s : cst) (x : Q) (t : nat) (v : Z) : cst :=
  match qres x with
  | ROk _ len =>
      match wake_rule len with
      | Some i => mk x (m s) (upd (cthr s) t (XSendW v (W0 i))) (clog s)
      | None => mk x (m s) (upd (cthr s) t XIdle) (clog s ++ [(t, CSendOk v)])
      end
  | _ => mk x (m s) (upd (cthr s) t XIdle) (clog s ++ [(t, CSendFull v)])
  end.
Definition after_cons (s : cst) (x : Q) (t : nat) (i : nat) (drv : bool) : cst :=
  match qres x with
  | RGot v => mk (qrel x t) (m s) (upd (cthr s) t (XRel i drv)) (clog s ++ [(t, CYield i v)])
  | _ => mk x (m s) (upd (cthr s) t (XPollK i drv)) (clog s)
  end.
(* cancel_all_streams moves on to entry j of used_streams (the loop ends without an access after MAX_STREAMS entries) *)
Definition cancel_next (s : cst) (t : nat) (j : nat) : cst :=
  if (M <=? j)%nat then finish s t CCancelled XIdle else setpc s t (XCancelU j).

Definition cstep (s : cst) (t : nat) : cst :=
  match cthr s t with
  | XIdle => s
  | XSendQ v =>
      let x := qstep (q s) t in
      if qidle x t then after_send s x t v else mk x (m s) (cthr s) (clog s)
  | XSendW v w =>
      let '(m', w') := wstep (m s) w in
      match w' with
      | Some w'' => mk (q s) m' (upd (cthr s) t (XSendW v w'')) (clog s)
      | None => mk (q s) m' (upd (cthr s) t XIdle) (clog s ++ [(t, CSendOk v)])
      end
  | XDrive i =>
      let x := qstep (qstart (q s) t OpCons) t in
      if qidle x t then after_cons s x t i true else mk x (m s) (upd (cthr s) t (XPollQ i true)) (clog s)
  | XPollQ i drv =>
      let x := qstep (q s) t in
      if qidle x t then after_cons s x t i drv else mk x (m s) (cthr s) (clog s)
  | XPollK i drv =>
      if keep (m s) i then setpc s t (XReg i R0 drv) else finish s t (CEnd i) XIdle
  | XReg i R0 drv =>
      if wakers (m s) i then finish s t (CPending i) (if drv then XParked i else XIdle)
      else setpc s t (XReg i RL drv)
  | XReg i RL drv =>
      if wlock (m s) then s
      else mk (q s) {| wakers := wakers (m s); keep := keep (m s); wlock := true; notified := notified (m s) |}
              (upd (cthr s) t (XReg i RW drv)) (clog s)
  | XReg i RW drv =>
      mk (q s) {| wakers := upd (wakers (m s)) i true; keep := keep (m s); wlock := wlock (m s); notified := notified (m s) |}
         (upd (cthr s) t (XReg i RU drv)) (clog s)
  | XReg i RU drv =>
      mk (q s) {| wakers := wakers (m s); keep := keep (m s); wlock := false; notified := notified (m s) |}
         (upd (cthr s) t (XReg i RS drv)) (clog s)
  | XReg i RS drv =>
      mk (q s) {| wakers := wakers (m s); keep := keep (m s); wlock := wlock (m s); notified := upd (notified (m s)) i true |}
         (upd (cthr s) t (if drv then XParked i else XIdle)) (clog s ++ [(t, CPending i)])
  | XParked i =>
      if notified (m s) i then
        mk (q s) {| wakers := wakers (m s); keep := keep (m s); wlock := wlock (m s); notified := upd (notified (m s)) i false |}
           (upd (cthr s) t (XDrive i)) (clog s)
      else s
  | XCancelU j =>
      if (j <? k)%nat then setpc s t (XCancelK j) else finish s t CCancelled XIdle
  | XCancelK j =>
      mk (q s) {| wakers := wakers (m s); keep := upd (keep (m s)) j false; wlock := wlock (m s); notified := notified (m s) |}
         (upd (cthr s) t (XCancelW j (W0 j))) (clog s)
  | XCancelW j w =>
      let '(m', w') := wstep (m s) w in
      match w' with
      | Some w'' => mk (q s) m' (upd (cthr s) t (XCancelW j w'')) (clog s)
      | None => cancel_next (mk (q s) m' (cthr s) (clog s)) t (S j)
      end
  | XRel i drv =>
      let x := qstep (q s) t in
      if qidle x t then mk x (m s) (upd (cthr s) t (if drv then XDrive i else XIdle)) (clog s)
      else mk x (m s) (cthr s) (clog s)
  | XLenQ =>
      let x := qstep (q s) t in
      if qidle x t then
        match qres x with
        | RLen n => mk x (m s) (upd (cthr s) t XIdle) (clog s ++ [(t, CLen n)])
        | _ => mk x (m s) (upd (cthr s) t XIdle) (clog s)
        end
      else mk x (m s) (cthr s) (clog s)
  end.

(* an idle thread begins an operation; `send`, `poll` and `len` enter the queue component here (no access yet) *)
Definition cstart (s : cst) (t : nat) (o : cop) : cst :=
  match cthr s t with
  | XIdle =>
      match o with
      | CoSend v => mk (qstart (q s) t (OpPub v)) (m s) (upd (cthr s) t (XSendQ v)) (clog s)
      | CoPoll i => mk (qstart (q s) t OpCons) (m s) (upd (cthr s) t (XPollQ i false)) (clog s)
      | CoDrive i => setpc s t (XDrive i)
      | CoCancelAll => cancel_next s t 0
      | CoLen => mk (qstart (q s) t OpLen) (m s) (upd (cthr s) t XLenQ) (clog s)
      end
  | _ => s
  end.

Inductive cev := CStep (t : nat) | CStart (t : nat) (o : cop).
Definition cexec (s : cst) (e : cev) : cst :=
  match e with CStep t => cstep s t | CStart t o => cstart s t o end.

Definition cobs (s : cst) (t : nat) : list Z :=
  match cthr s t with
  | XIdle => skip t
  | XSendQ _ | XPollQ _ _ | XLenQ | XRel _ _ => qobs (q s) t
  | XDrive _ => qobs (qstart (q s) t OpCons) t
  | XSendW _ w | XCancelW _ w => wobs (m s) t w
  | XPollK i _ => acc t (L_KEEP + Z.of_nat i) K_KEEP_R (b2z (keep (m s) i)) (-1) true
  | XReg i R0 _ => acc t (L_WAKERS + Z.of_nat i) K_WAKERS_R (b2z (wakers (m s) i)) (-1) true
  | XReg i RL _ => if wlock (m s) then acc t L_WLOCK K_CAS 1 (-1) false else acc t L_WLOCK K_CAS 0 1 true
  | XReg i RW _ => acc t (L_WAKERS + Z.of_nat i) K_WAKERS_W 1 (-1) true
  | XReg i RU _ => acc t L_WLOCK K_STORE 0 0 true
  | XReg i RS _ => acc t (L_NOTIFIED + Z.of_nat i) K_WAKE 0 (-1) true
  | XParked i => acc t (L_NOTIFIED + Z.of_nat i) K_PARKED (b2z (notified (m s) i)) (-1) true
  | XCancelU j => acc t (L_USED + Z.of_nat j) K_USED_R (if (j <? k)%nat then Z.of_nat j else 4294967295) (-1) true
  | XCancelK j => acc t (L_KEEP + Z.of_nat j) K_KEEP_W 0 (-1) true
  end.

Definition cinit (q0 : Q) : cst :=
  {| q := q0;
     m := {| wakers := fun _ => false; keep := fun i => (i <? k)%nat; wlock := false; notified := fun _ => false |};
     cthr := fun _ => XIdle; clog := [] |}.

(* ------------------------------------------------------------------------------------------- runner *)
Definition cres_code (r : cres) : list Z :=
  match r with
  | CSendOk v => [10; v; 0] | CSendFull v => [11; v; 0] | CYield i v => [12; v; Z.of_nat i]
  | CPending i => [13; Z.of_nat i; 0] | CEnd i => [14; Z.of_nat i; 0] | CLen n => [15; n; 0] | CCancelled => [16; 0; 0]
  end.
Definition cemit (before after : list (nat * cres)) : list (list Z) :=
  map (fun e => 2 :: Z.of_nat (fst e) :: cres_code (snd e)) (skipn (length before) after).

Definition cgrant (s : cst) (progs : nat -> list cop) (t : nat) : cst * (nat -> list cop) * list (list Z) :=
  match cthr s t with
  | XIdle =>
      match progs t with
      | [] => (s, progs, [skip t])
      | o :: rest =>
          let s1 := cstart s t o in
          match cthr s1 t with
          | XIdle => (s1, upd progs t rest, skip t :: cemit (clog s) (clog s1))      (* an operation without any access *)
          | _ => let s2 := cstep s1 t in (s2, upd progs t rest, cobs s1 t :: cemit (clog s) (clog s2))
          end
      end
  | _ => let s2 := cstep s t in (s2, progs, cobs s t :: cemit (clog s) (clog s2))
  end.

Fixpoint crun (s : cst) (progs : nat -> list cop) (sched : list nat) : cst * list (list Z) :=
  match sched with
  | [] => (s, [])
  | t :: rest =>
      let '(s1, progs1, lines) := cgrant s progs t in
      let '(s2, more) := crun s1 progs1 rest in
      (s2, lines ++ more)
  end.

End Chan.


Definition cprogs_of (l : list (list cop)) : nat -> list cop := fun t => nth t l [].

(* the two zero-copy Uni channels *)
Definition ring_idle0 (s : st) (t : nat) : bool := match thr s t with Idle => true | _ => false end.
Definition fs_idle0 (s : fsst) (t : nat) : bool := match fthr s t with FIdle => true | _ => false end.

Definition run_uni_zc_atomic (N : Z) (M k : nat) (progs : list (list cop)) (sched : list nat) : list Z :=
  let a0 := pfill st (step N u32 i32) start init (ids_upto N) 0 in
  let q0 := {| ua := a0; ub := init; upool := fun _ => 0; uthr := fun _ => UIdle; ulog := []; uheld := fun _ => None |} in
  let '(s, lines) := crun (ust st) (ustep st (step N u32 i32) start ring_idle0 log true (fun _ => 0)) (ustart st start true)
                          (uidle st) (ulog st) (uobs st (obs N u32) true) (urelease st start) M k (wake_rule_atomic M)
                          (cinit (ust st) k q0) (cprogs_of progs) sched in
  let b := ub _ (q _ s) in let a := ua _ (q _ s) in
  concat lines ++ [9; head b; tail b; etail b; dhead b; head a; tail a].
Definition run_uni_zc_fullsync (N : Z) (M k : nat) (progs : list (list cop)) (sched : list nat) : list Z :=
  let a0 := pfill fsst (fstep N u32) fstart finit (ids_upto N) 0 in
  let q0 := {| ua := a0; ub := finit; upool := fun _ => 0; uthr := fun _ => UIdle; ulog := []; uheld := fun _ => None |} in
  let '(s, lines) := crun (ust fsst) (ustep fsst (fstep N u32) fstart fs_idle0 flog false (fun b => u32 (ftail b - fhead b))) (ustart fsst fstart false)
                          (uidle fsst) (ulog fsst) (uobs fsst fobs false) (urelease fsst fstart) M k (wake_rule_fullsync M)
                          (cinit (ust fsst) k q0) (cprogs_of progs) sched in
  let b := ub _ (q _ s) in let a := ua _ (q _ s) in
  concat lines ++ [9; fhead b; ftail b; fhead a; ftail a].

(* ... with the sequence counters of both rings starting at `origin` (C15: the verif sequence_origin hook) *)
Definition run_uni_zc_atomic_at (origin : Z) (N : Z) (M k : nat) (progs : list (list cop)) (sched : list nat) : list Z :=
  let a0 := pfill st (step N u32 i32) start (init_at (u32 origin)) (ids_upto N) 0 in
  let q0 := {| ua := a0; ub := init_at (u32 origin); upool := fun _ => 0; uthr := fun _ => UIdle; ulog := []; uheld := fun _ => None |} in
  let '(s, lines) := crun (ust st) (ustep st (step N u32 i32) start ring_idle0 log true (fun _ => 0)) (ustart st start true)
                          (uidle st) (ulog st) (uobs st (obs N u32) true) (urelease st start) M k (wake_rule_atomic M)
                          (cinit (ust st) k q0) (cprogs_of progs) sched in
  let b := ub _ (q _ s) in let a := ua _ (q _ s) in
  concat lines ++ [9; head b; tail b; etail b; dhead b; head a; tail a].
Definition run_uni_zc_fullsync_at (origin : Z) (N : Z) (M k : nat) (progs : list (list cop)) (sched : list nat) : list Z :=
  let a0 := pfill fsst (fstep N u32) fstart (finit_at (u32 origin)) (ids_upto N) 0 in
  let q0 := {| ua := a0; ub := finit_at (u32 origin); upool := fun _ => 0; uthr := fun _ => UIdle; ulog := []; uheld := fun _ => None |} in
  let '(s, lines) := crun (ust fsst) (ustep fsst (fstep N u32) fstart fs_idle0 flog false (fun b => u32 (ftail b - fhead b))) (ustart fsst fstart false)
                          (uidle fsst) (ulog fsst) (uobs fsst fobs false) (urelease fsst fstart) M k (wake_rule_fullsync M)
                          (cinit (ust fsst) k q0) (cprogs_of progs) sched in
  let b := ub _ (q _ s) in let a := ua _ (q _ s) in
  concat lines ++ [9; fhead b; ftail b; fhead a; ftail a].

End ZC.
