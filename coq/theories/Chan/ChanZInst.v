(* The zero-copy atomic Uni channel as an instance of the machine of ChanZ.v over the ghost (unbounded Z) ring machines: its ring of
   slot ids and the free list of its payload pool are ring runs (ChanZProps.zc_components_reachable), so the ring theorems apply. *)
From RM Require Import RingModel RingInv RingProps FullSync Chan PoolRun ZeroCopy ZcUni ChanZ ChanZProps.
Import ZC.

Section ZcAtomic.
Variable N : Z.
Hypothesis Npos : 0 < N.
Variable M k : nat.
Variable wake_rule : Z -> option nat.

Definition zc_fl0 := pfill st (stepZ N) start init (ids_upto N) 0.
Definition zc_q0 : ust st := {| ua := zc_fl0; ub := init; upool := fun _ => 0; uthr := fun _ => UIdle; ulog := []; uheld := fun _ => None |}.
Definition zc_run (cevs : list cev) : cst (ust st) :=
  fold_left (cexec (ust st) (ustep st (stepZ N) start ring_idle0 log true (fun _ => 0)) (ustart st start true) (uidle st) (ulog st)
                   (urelease st start) M k wake_rule) cevs (cinit (ust st) k zc_q0).

Lemma fold_qexec0 evs s : fold_left (qexec0 st (stepZ N) start) evs s = fold_left (execZ N) evs s.
Proof. revert s. induction evs as [|e evs IH]; intros s; [reflexivity|]. cbn [fold_left]. rewrite IH. destruct e; reflexivity. Qed.

Lemma fold_repeat_comm (e : ev) n s : fold_left (execZ N) (repeat e n) (execZ N s e) = execZ N (fold_left (execZ N) (repeat e n) s) e.
Proof. revert s. induction n as [|n IH]; intros s; [reflexivity|]. cbn [repeat fold_left]. now rewrite IH. Qed.
Lemma iter_steps n s : Nat.iter n (fun x => stepZ N x 0%nat) s = fold_left (execZ N) (repeat (Step 0%nat) n) s.
Proof.
  induction n as [|n IH]; [reflexivity|].
  cbn [Nat.iter nat_rect]. change (Nat.iter n (fun x => stepZ N x 0%nat) s) with (Nat.iter n (fun x => stepZ N x 0%nat) s) in *.
  unfold Nat.iter in IH. rewrite IH. cbn [repeat fold_left]. rewrite fold_repeat_comm. reflexivity.
Qed.
Lemma pfill_reachable ids s : exists evs, pfill st (stepZ N) start s ids 0 = fold_left (execZ N) evs s.
Proof.
  revert s. induction ids as [|v ids IH]; intros s; [exists []; reflexivity|].
  cbn [pfill]. destruct (IH (Nat.iter 6 (fun x => stepZ N x 0%nat) (start s 0%nat (OpPub v)))) as [evs H].
  exists ([Start 0%nat (OpPub v)] ++ repeat (Step 0%nat) 6 ++ evs). rewrite H, iter_steps, !fold_left_app. reflexivity.
Qed.

(* the ring of slot ids inside the channel is a run of the lock-free ring machine *)
Theorem zc_atomic_id_ring_is_a_ring_run cevs : exists evs, ub st (q _ (zc_run cevs)) = fold_left (execZ N) evs init.
Proof.
  destruct (zc_components_reachable st (stepZ N) start ring_idle0 log true (fun _ => 0) M k wake_rule zc_q0 cevs) as [_ [evs H]].
  exists evs. unfold zc_run. rewrite H. apply fold_qexec0.
Qed.
(* ... and so is the free list of the payload pool (after the N publications of `new()`) *)
Theorem zc_atomic_free_list_is_a_ring_run cevs : exists evs, ua st (q _ (zc_run cevs)) = fold_left (execZ N) evs init.
Proof.
  destruct (zc_components_reachable st (stepZ N) start ring_idle0 log true (fun _ => 0) M k wake_rule zc_q0 cevs) as [[evs H] _].
  destruct (pfill_reachable (ids_upto N) init) as [e0 H0].
  exists (e0 ++ evs). unfold zc_run. rewrite H, fold_qexec0, fold_left_app. cbn [ua zc_q0]. unfold zc_fl0. now rewrite H0.
Qed.

(* hence: slot ids are handed to consumers exactly once, in the order they were published (C01 / C02 at the id level) ... *)
Theorem zc_atomic_ids_exactly_once_in_order cevs :
  let l := log (ub st (q _ (zc_run cevs))) in yielded_of l = firstn (length (yielded_of l)) (accepted_of l).
Proof. cbn zeta. destruct (zc_atomic_id_ring_is_a_ring_run cevs) as [evs ->]. apply (yielded_prefix N Npos). Qed.
(* ... and a pool slot is handed out by an allocation only after a publication of that very id into the free list (C13) *)
Theorem zc_atomic_pool_slots_exactly_once_in_order cevs :
  let l := log (ua st (q _ (zc_run cevs))) in yielded_of l = firstn (length (yielded_of l)) (accepted_of l).
Proof. cbn zeta. destruct (zc_atomic_free_list_is_a_ring_run cevs) as [evs ->]. apply (yielded_prefix N Npos). Qed.
(* the ring invariant (capacity, exclusive slot access, ...) holds of both *)
Theorem zc_atomic_components_invariant cevs : Inv N (ub st (q _ (zc_run cevs))) /\ Inv N (ua st (q _ (zc_run cevs))).
Proof.
  destruct (zc_atomic_id_ring_is_a_ring_run cevs) as [e1 ->]. destruct (zc_atomic_free_list_is_a_ring_run cevs) as [e2 ->].
  split; apply (inv_reachable N Npos).
Qed.
End ZcAtomic.


(* ---- the zero-copy full-sync Uni channel ---- *)
From RM Require Import ZcSolo.
Section ZcFullSync.
Variable N : Z.
Hypothesis Npos : 0 < N.
Variable M k : nat.
Variable wake_rule : Z -> option nat.

Definition zcf_fl0 := pfill fsst (fstepZ N) fstart finit (ids_upto N) 0.
Definition zcf_q0 : ust fsst := {| ua := zcf_fl0; ub := finit; upool := fun _ => 0; uthr := fun _ => UIdle; ulog := []; uheld := fun _ => None |}.
Definition zcf_run (cevs : list cev) : cst (ust fsst) :=
  fold_left (cexec (ust fsst) (zstep N) zstart (uidle fsst) (ulog fsst) zrelease M k wake_rule)
            cevs (cinit (ust fsst) k zcf_q0).

Lemma fold_qexec0_fs evs s : fold_left (qexec0 fsst (fstepZ N) fstart) evs s = fold_left (fexecZ N) evs s.
Proof. revert s. induction evs as [|e evs IH]; intros s; [reflexivity|]. cbn [fold_left]. rewrite IH. destruct e; reflexivity. Qed.
Lemma fs_fold_repeat_comm (e : ev) n s : fold_left (fexecZ N) (repeat e n) (fexecZ N s e) = fexecZ N (fold_left (fexecZ N) (repeat e n) s) e.
Proof. revert s. induction n as [|n IH]; intros s; [reflexivity|]. cbn [repeat fold_left]. now rewrite IH. Qed.
Lemma fs_iter_steps n s : Nat.iter n (fun x => fstepZ N x 0%nat) s = fold_left (fexecZ N) (repeat (Step 0%nat) n) s.
Proof.
  induction n as [|n IH]; [reflexivity|]. cbn [Nat.iter nat_rect]. unfold Nat.iter in IH. rewrite IH. cbn [repeat fold_left].
  rewrite fs_fold_repeat_comm. reflexivity.
Qed.
Lemma fs_pfill_reachable ids s : exists evs, pfill fsst (fstepZ N) fstart s ids 0 = fold_left (fexecZ N) evs s.
Proof.
  revert s. induction ids as [|v ids IH]; intros s; [exists []; reflexivity|].
  cbn [pfill]. destruct (IH (Nat.iter 6 (fun x => fstepZ N x 0%nat) (fstart s 0%nat (OpPub v)))) as [evs H].
  exists ([Start 0%nat (OpPub v)] ++ repeat (Step 0%nat) 6 ++ evs). rewrite H, fs_iter_steps, !fold_left_app. reflexivity.
Qed.

(* both components of the channel's queue are runs of the full-sync ring machine: its invariant (mutual exclusion, flag <-> holder ...) holds *)
Theorem zcf_components_invariant cevs : FInv N (ub fsst (q _ (zcf_run cevs))) /\ FInv N (ua fsst (q _ (zcf_run cevs))).
Proof.
  destruct (zc_components_reachable fsst (fstepZ N) fstart fsidle flog false (fun b => ftail b - fhead b) M k wake_rule zcf_q0 cevs) as [[ea Ha] [eb Hb]].
  assert (Ha' : ua fsst (q _ (zcf_run cevs)) = fold_left (qexec0 fsst (fstepZ N) fstart) ea (ua fsst zcf_q0)) by exact Ha.
  assert (Hb' : ub fsst (q _ (zcf_run cevs)) = fold_left (qexec0 fsst (fstepZ N) fstart) eb (ub fsst zcf_q0)) by exact Hb.
  split.
  - rewrite Hb', fold_qexec0_fs. apply (finv_reachable N Npos).
  - rewrite Ha', fold_qexec0_fs. cbn [ua zcf_q0]. unfold zcf_fl0. destruct (fs_pfill_reachable (ids_upto N) finit) as [e0 ->].
    rewrite <- fold_left_app. apply (finv_reachable N Npos).
Qed.

Definition all_idle (x : fsst) : Prop := (forall t, fthr x t = FIdle) /\ flock x = false.
Lemma fstp_idle_noop x t : fthr x t = FIdle -> fstepZ N x t = x.
Proof. intros H. unfold fstepZ, fstep. now rewrite H. Qed.
Lemma pfill_all_idle ids x : all_idle x -> all_idle (pfill fsst (fstepZ N) fstart x ids 0).
Proof.
  revert x. induction ids as [|v ids IH]; intros x A; [exact A|]. cbn [pfill]. apply IH. destruct A as [Ai Al].
  destruct (fs_solo N x 0%nat (OpPub v) (Ai 0%nat) Al) as (_ & B2 & B3 & _ & Both).
  cbn [Nat.iter nat_rect].
  set (x2 := fstepZ N (fstepZ N (fstart x 0%nat (OpPub v)) 0%nat) 0%nat) in *.
  assert (Hi0 : fthr x2 0%nat = FIdle) by (now apply fsidle_true).
  rewrite !(fstp_idle_noop x2 0%nat Hi0).
  split; [|exact B3]. intros t. destruct (Nat.eq_dec t 0) as [->|Hn]; [exact Hi0|]. rewrite (Both t Hn). apply Ai.
Qed.

Lemma ci_init : CI zcf_q0.
Proof.
  assert (A : all_idle zcf_fl0) by (apply pfill_all_idle; split; reflexivity).
  intros t. unfold phase_ok. cbn [uthr zcf_q0 ua ub]. split; [apply (proj1 A)|reflexivity].
Qed.

Theorem zcf_phase_invariant cevs : CI (q _ (zcf_run cevs)).
Proof.
  apply (zc_q_invariant fsst (fstepZ N) fstart fsidle flog false (fun b => ftail b - fhead b) M k wake_rule CI
           (ci_step N) ci_start ci_release zcf_q0 cevs ci_init).
Qed.

(* C20, positive half: in any state of any run of the zero-copy full-sync channel in which no thread stands between a flag CAS and the
   flag store - every other thread is idle, parked between two operations, or SUSPENDED inside send_with_async (slot allocated, id not
   yet published: `suspended`) - an idle thread's consume completes in 2 of its own steps, its send in at most 4, the release of a
   handle it holds in 2: nobody waits for the suspended producer. *)
Theorem zcf_suspended_send_blocks_nobody cevs t :
  let s := q _ (zcf_run cevs) in
  (forall u, holds_lock (fthr (ua _ s) u) = false /\ holds_lock (fthr (ub _ s) u) = false) ->
  uthr _ s t = UIdle ->
  done_with s (solo N 2 (zstart s t OpCons) t) t OpCons /\
  (forall v, exists n, (n <= 4)%nat /\ done_with s (solo N n (zstart s t (OpPub v)) t) t (OpPub v)) /\
  (forall id, uheld _ s t = Some id -> let s' := solo N 2 (zrelease s t) t in uthr _ s' t = UIdle /\ unlocked s' /\ ulog _ s' = ulog _ s).
Proof.
  intros s Hno Hi. destruct (zcf_components_invariant cevs) as [Ib Ia]. fold s in Ib, Ia.
  assert (U : unlocked s).
  { split.
    - destruct (flock (ua _ s)) eqn:El; [|reflexivity]. destruct (f_free _ _ Ia El) as [u Hu]. rewrite (proj1 (Hno u)) in Hu. discriminate.
    - destruct (flock (ub _ s)) eqn:El; [|reflexivity]. destruct (f_free _ _ Ib El) as [u Hu]. rewrite (proj2 (Hno u)) in Hu. discriminate. }
  assert (C : comp_idle s t).
  { pose proof (zcf_phase_invariant cevs t) as P. fold s in P. unfold phase_ok in P. rewrite Hi in P. exact P. }
  split; [now apply solo_consume|]. split; [intros v; now apply solo_publish|]. intros id Hh. now apply (solo_release N s t id).
Qed.
End ZcFullSync.
