(* The zero-copy atomic Uni channel as an instance of the machine of ChanZ.v over the ghost (unbounded Z) ring machines: its ring of
   slot ids and the free list of its payload pool are ring runs (ChanZProps.zc_components_reachable), so the ring theorems apply. *)
From RM Require Import RingModel RingInv RingProps FullSync Chan PoolRun ZeroCopy ZcUni ChanZ ChanZProps.
Import ZC.

Section ZcAtomic.
Variable N : Z.
Hypothesis Npos : 0 < N.
Variable M k : nat.
Variable wake_rule : Z -> option nat.

Definition zc_fl0 := pfill st (stepZ N) start init (ids_upto N) 0.
Definition zc_q0 : ust st := {| ua := zc_fl0; ub := init; upool := fun _ => 0; uthr := fun _ => UIdle; ulog := []; uheld := fun _ => None |}.
Definition zc_run (cevs : list cev) : cst (ust st) :=
  fold_left (cexec (ust st) (ustep st (stepZ N) start ring_idle0 log true (fun _ => 0)) (ustart st start true) (uidle st) (ulog st)
                   (urelease st start) M k wake_rule) cevs (cinit (ust st) k zc_q0).

Lemma fold_qexec0 evs s : fold_left (qexec0 st (stepZ N) start) evs s = fold_left (execZ N) evs s.
Proof. revert s. induction evs as [|e evs IH]; intros s; [reflexivity|]. cbn [fold_left]. rewrite IH. destruct e; reflexivity. Qed.

Lemma fold_repeat_comm (e : ev) n s : fold_left (execZ N) (repeat e n) (execZ N s e) = execZ N (fold_left (execZ N) (repeat e n) s) e.
Proof. revert s. induction n as [|n IH]; intros s; [reflexivity|]. cbn [repeat fold_left]. now rewrite IH. Qed.
Lemma iter_steps n s : Nat.iter n (fun x => stepZ N x 0%nat) s = fold_left (execZ N) (repeat (Step 0%nat) n) s.
Proof.
  induction n as [|n IH]; [reflexivity|].
  cbn [Nat.iter nat_rect]. change (Nat.iter n (fun x => stepZ N x 0%nat) s) with (Nat.iter n (fun x => stepZ N x 0%nat) s) in *.
  unfold Nat.iter in IH. rewrite IH. cbn [repeat fold_left]. rewrite fold_repeat_comm. reflexivity.
Qed.
Lemma pfill_reachable ids s : exists evs, pfill st (stepZ N) start s ids 0 = fold_left (execZ N) evs s.
Proof.
  revert s. induction ids as [|v ids IH]; intros s; [exists []; reflexivity|].
  cbn [pfill]. destruct (IH (Nat.iter 6 (fun x => stepZ N x 0%nat) (start s 0%nat (OpPub v)))) as [evs H].
  exists ([Start 0%nat (OpPub v)] ++ repeat (Step 0%nat) 6 ++ evs). rewrite H, iter_steps, !fold_left_app. reflexivity.
Qed.

(* the ring of slot ids inside the channel is a run of the lock-free ring machine *)
Theorem zc_atomic_id_ring_is_a_ring_run cevs : exists evs, ub st (q _ (zc_run cevs)) = fold_left (execZ N) evs init.
Proof.
  destruct (zc_components_reachable st (stepZ N) start ring_idle0 log true (fun _ => 0) M k wake_rule zc_q0 cevs) as [_ [evs H]].
  exists evs. unfold zc_run. rewrite H. apply fold_qexec0.
Qed.
(* ... and so is the free list of the payload pool (after the N publications of `new()`) *)
Theorem zc_atomic_free_list_is_a_ring_run cevs : exists evs, ua st (q _ (zc_run cevs)) = fold_left (execZ N) evs init.
Proof.
  destruct (zc_components_reachable st (stepZ N) start ring_idle0 log true (fun _ => 0) M k wake_rule zc_q0 cevs) as [[evs H] _].
  destruct (pfill_reachable (ids_upto N) init) as [e0 H0].
  exists (e0 ++ evs). unfold zc_run. rewrite H, fold_qexec0, fold_left_app. cbn [ua zc_q0]. unfold zc_fl0. now rewrite H0.
Qed.

(* hence: slot ids are handed to consumers exactly once, in the order they were published (C01 / C02 at the id level) ... *)
Theorem zc_atomic_ids_exactly_once_in_order cevs :
  let l := log (ub st (q _ (zc_run cevs))) in yielded_of l = firstn (length (yielded_of l)) (accepted_of l).
Proof. cbn zeta. destruct (zc_atomic_id_ring_is_a_ring_run cevs) as [evs ->]. apply (yielded_prefix N Npos). Qed.
(* ... and a pool slot is handed out by an allocation only after a publication of that very id into the free list (C13) *)
Theorem zc_atomic_pool_slots_exactly_once_in_order cevs :
  let l := log (ua st (q _ (zc_run cevs))) in yielded_of l = firstn (length (yielded_of l)) (accepted_of l).
Proof. cbn zeta. destruct (zc_atomic_free_list_is_a_ring_run cevs) as [evs ->]. apply (yielded_prefix N Npos). Qed.
(* the ring invariant (capacity, exclusive slot access, ...) holds of both *)
Theorem zc_atomic_components_invariant cevs : Inv N (ub st (q _ (zc_run cevs))) /\ Inv N (ua st (q _ (zc_run cevs))).
Proof.
  destruct (zc_atomic_id_ring_is_a_ring_run cevs) as [e1 ->]. destruct (zc_atomic_free_list_is_a_ring_run cevs) as [e2 ->].
  split; apply (inv_reachable N Npos).
Qed.
End ZcAtomic.

