(* The reserve API of the two zero-copy Uni channels (/repo/src/uni/channels/zero_copy/{atomic,full_sync}.rs), layered on the channel
   machine of ChanZ.v over the pool + id-ring component of ZcUni.v (as ChanX.v is layered on Chan.v):

     reserve k v     `reserve_slot`: channel.leak_slot() = allocator.alloc_ref()              one consume on the free list A; [the caller's
                                                                                              write of v into the slot: silent]
     sendres k       `try_send_reserved`: channel.publish_leaked_ref(slot) = queue.publish_movable(id)   one publish on the id ring B, then the
                                                                                              wake decision `len_after <= MAX_STREAMS -> wake_stream(len_after - 1)`
     cancelres k     `try_cancel_slot_reserve`: channel.release_leaked_ref(slot) = allocator.dealloc_ref  one publish on the free list A; answers true

   k is the harness's name for the reservation (its table of outstanding slot references).  Everything else is the machine of ChanZ.v. *)
From RM Require Export RingModel FullSync Chan ZeroCopy ZcUni ChanZ ChanX.
Import ZC.

Inductive zxop := ZoBase (o : cop) | ZoReserve (k : nat) (v : Z) | ZoSendRes (k : nat) | ZoCancelRes (k : nat).
Inductive zxpc :=
| ZN
| ZRes (k : nat) (v : Z)            (* inside the allocation *)
| ZSRes (k : nat) (id : Z)          (* inside the publication of the slot id *)
| ZSResW (k : nat) (w : wpc)        (* inside wake_stream after it *)
| ZCRes (k : nat)                   (* inside the deallocation *)
| ZNop (k : nat).                   (* a name that holds no reservation: the harness's own scheduling point, then the answer *)

Section ChanZX.
Variable Q : Type.
Variable qstep : Q -> nat -> Q.
Variable qstart : Q -> nat -> op -> Q.
Variable qidle : Q -> nat -> bool.
Variable qlog : Q -> list (nat * res).
Variable qobs : Q -> nat -> list Z.
Variable len_has_access : bool.
Variable qlen_now : Q -> Z.
Variable M k : nat.
Variable wake_send : Z -> option nat.      (* `send` / `send_with` *)
Variable wake_res : Z -> option nat.       (* `try_send_reserved` *)

Local Notation U := (ust Q).
Local Notation bst := (cst U).
Local Notation bstep := (cstep U (ustep Q qstep qstart qidle qlog len_has_access qlen_now) (ustart Q qstart len_has_access) (uidle Q) (ulog Q)
                               (urelease Q qstart) M k wake_send).
Local Notation bstart := (cstart U (ustart Q qstart len_has_access) M).
Local Notation bobs := (cobs U (ustart Q qstart len_has_access) (uobs Q qobs len_has_access) k).
Local Notation lastres := (lastres Q qlog).

Record zxst := { zb : bst; zthr : nat -> zxpc; zres : nat -> option Z; zlog : list (nat * xres) }.

Definition zsetq (b : bst) (u : U) : bst := mk U u (m U b) (cthr U b) (clog U b).
Definition zsetm (b : bst) (y : sm) : bst := mk U (q U b) y (cthr U b) (clog U b).
Definition zfinish (s : zxst) (b : bst) (t : nat) (rs : nat -> option Z) (r : xres) : zxst :=
  {| zb := b; zthr := upd (zthr s) t ZN; zres := rs; zlog := zlog s ++ [(t, r)] |}.
Definition zgoto (s : zxst) (b : bst) (t : nat) (p : zxpc) : zxst :=
  {| zb := b; zthr := upd (zthr s) t p; zres := zres s; zlog := zlog s |}.

Definition with_a (u : U) (a : Q) : U := umk Q a (ub Q u) (upool Q u) (uthr Q u) (ulog Q u) (uheld Q u).
Definition with_b (u : U) (b : Q) : U := umk Q (ua Q u) b (upool Q u) (uthr Q u) (ulog Q u) (uheld Q u).

Definition zxstep (s : zxst) (t : nat) : zxst :=
  let b := zb s in
  let u := q U b in
  match zthr s t with
  | ZN => {| zb := bstep b t; zthr := zthr s; zres := zres s; zlog := zlog s |}
  | ZRes j v =>
      let a := qstep (ua Q u) t in
      if qidle a t then
        match lastres a with
        | RGot id => zfinish s (zsetq b (umk Q a (ub Q u) (updz (upool Q u) id v) (uthr Q u) (ulog Q u) (uheld Q u))) t (upd (zres s) j (Some id)) (XSlot j)
        | _ => zfinish s (zsetq b (with_a u a)) t (zres s) (XNoSlot j)
        end
      else zgoto s (zsetq b (with_a u a)) t (ZRes j v)
  | ZSRes j id =>
      let x := qstep (ub Q u) t in
      if qidle x t then
        match lastres x with
        | ROk _ len =>
            match wake_res len with
            | Some i => {| zb := zsetq b (with_b u x); zthr := upd (zthr s) t (ZSResW j (W0 i)); zres := upd (zres s) j None; zlog := zlog s |}
            | None => zfinish s (zsetq b (with_b u x)) t (upd (zres s) j None) (XSent j)
            end
        | _ => zfinish s (zsetq b (with_b u x)) t (zres s) (XNotSent j)
        end
      else zgoto s (zsetq b (with_b u x)) t (ZSRes j id)
  | ZSResW j w =>
      let '(m', w') := wstep (m U b) w in
      match w' with
      | Some w'' => zgoto s (zsetm b m') t (ZSResW j w'')
      | None => zfinish s (zsetm b m') t (zres s) (XSent j)
      end
  | ZCRes j =>
      let a := qstep (ua Q u) t in
      if qidle a t then zfinish s (zsetq b (with_a u a)) t (upd (zres s) j None) (XCancelled j)
      else zgoto s (zsetq b (with_a u a)) t (ZCRes j)
  | ZNop j => zfinish s b t (zres s) (XNone j)
  end.

(* an idle thread begins an operation (no access yet) *)
Definition zxstart (s : zxst) (t : nat) (o : zxop) : zxst :=
  let b := zb s in
  let u := q U b in
  match zthr s t, cthr U b t with
  | ZN, XIdle =>
      match o with
      | ZoBase o' => {| zb := bstart b t o'; zthr := zthr s; zres := zres s; zlog := zlog s |}
      | ZoReserve j v => zgoto s (zsetq b (with_a u (qstart (ua Q u) t OpCons))) t (ZRes j v)
      | ZoSendRes j =>
          match zres s j with
          | Some id => zgoto s (zsetq b (with_b u (qstart (ub Q u) t (OpPub id)))) t (ZSRes j id)
          | None => zgoto s b t (ZNop j)
          end
      | ZoCancelRes j =>
          match zres s j with
          | Some id => zgoto s (zsetq b (with_a u (qstart (ua Q u) t (OpPub id)))) t (ZCRes j)
          | None => zgoto s b t (ZNop j)
          end
      end
  | _, _ => s
  end.

Inductive zxev := ZStep (t : nat) | ZStart (t : nat) (o : zxop).
Definition zxexec (s : zxst) (e : zxev) : zxst := match e with ZStep t => zxstep s t | ZStart t o => zxstart s t o end.

Definition zxobs (s : zxst) (t : nat) : list Z :=
  let b := zb s in
  let u := q U b in
  match zthr s t with
  | ZN => bobs b t
  | ZRes _ _ | ZCRes _ => shiftA (qobs (ua Q u) t)
  | ZSRes _ _ => qobs (ub Q u) t
  | ZSResW _ w => wobs (m U b) t w
  | ZNop _ => acc t 2 K_YIELD 0 (-1) true
  end.

Definition zxinit (u0 : U) : zxst := {| zb := cinit U k u0; zthr := fun _ => ZN; zres := fun _ => None; zlog := [] |}.

(* ------------------------------------------------------------------------------------------- runner *)
Definition zxemit (s s' : zxst) : list (list Z) :=
  cemit (clog U (zb s)) (clog U (zb s')) ++
  map (fun e => 2 :: Z.of_nat (fst e) :: xres_code (snd e)) (skipn (length (zlog s)) (zlog s')).

Definition zxbusy (s : zxst) (t : nat) : bool :=
  match zthr s t, cthr U (zb s) t with ZN, XIdle => false | _, _ => true end.

Definition zxgrant (s : zxst) (progs : nat -> list zxop) (t : nat) : zxst * (nat -> list zxop) * list (list Z) :=
  if zxbusy s t then let s2 := zxstep s t in (s2, progs, zxobs s t :: zxemit s s2)
  else
    match progs t with
    | [] => (s, progs, [skip t])
    | o :: rest =>
        let s1 := zxstart s t o in
        if zxbusy s1 t then let s2 := zxstep s1 t in (s2, upd progs t rest, zxobs s1 t :: zxemit s s2)
        else (s1, upd progs t rest, skip t :: zxemit s s1)          (* an operation without any access *)
    end.

Fixpoint zxrun (s : zxst) (progs : nat -> list zxop) (sched : list nat) : zxst * list (list Z) :=
  match sched with
  | [] => (s, [])
  | t :: rest =>
      let '(s1, progs1, lines) := zxgrant s progs t in
      let '(s2, more) := zxrun s1 progs1 rest in
      (s2, lines ++ more)
  end.

End ChanZX.

Definition zxprogs_of (l : list (list zxop)) : nat -> list zxop := fun t => nth t l [].

Definition run_unizx_atomic (N : Z) (M k : nat) (progs : list (list zxop)) (sched : list nat) : list Z :=
  let a0 := PoolRun.pfill st (step N u32 i32) start init (PoolRun.ids_upto N) 0 in
  let q0 := {| ua := a0; ub := init; upool := fun _ => 0; uthr := fun _ => UIdle; ulog := []; uheld := fun _ => None |} in
  let '(s, lines) := zxrun st (step N u32 i32) start ring_idle0 log (obs N u32) true (fun _ => 0) M k (wake_rule_atomic M) (wake_res_code M)
                           (zxinit st k q0) (zxprogs_of progs) sched in
  let b := ub _ (q _ (zb _ s)) in let a := ua _ (q _ (zb _ s)) in
  concat lines ++ [9; head b; tail b; etail b; dhead b; head a; tail a].
Definition run_unizx_fullsync (N : Z) (M k : nat) (progs : list (list zxop)) (sched : list nat) : list Z :=
  let a0 := PoolRun.pfill fsst (fstep N u32) fstart finit (PoolRun.ids_upto N) 0 in
  let q0 := {| ua := a0; ub := finit; upool := fun _ => 0; uthr := fun _ => UIdle; ulog := []; uheld := fun _ => None |} in
  let '(s, lines) := zxrun fsst (fstep N u32) fstart fs_idle0 flog fobs false (fun b => u32 (ftail b - fhead b)) M k (wake_rule_fullsync M) (wake_res_code M)
                           (zxinit fsst k q0) (zxprogs_of progs) sched in
  let b := ub _ (q _ (zb _ s)) in let a := ua _ (q _ (zb _ s)) in
  concat lines ++ [9; fhead b; ftail b; fhead a; ftail a].
