(* Also with the reserve API (ChanZX.v), in every run of the zero-copy Uni channels both components of the queue - the free list of the
   payload pool and the ring of slot ids - only move by their own start / step events, for every interleaving: they stay runs of the ring
   machine (resp. the full-sync ring), so the ring theorems keep holding of them (ids handed out exactly once, in publication order: a
   reserved-then-sent slot is delivered once, a cancelled one never enters the id ring; capacity; ownership of pool slots). *)
From RM Require Import RingModel FullSync Chan ZeroCopy ZcUni ChanZ ChanX ChanZProps ChanZX.
Import ZC.

Section ChanZXProps.
Variable Q : Type.
Variable qstep : Q -> nat -> Q.
Variable qstart : Q -> nat -> op -> Q.
Variable qidle : Q -> nat -> bool.
Variable qlog : Q -> list (nat * res).
Variable qobs : Q -> nat -> list Z.
Variable lha : bool.
Variable qlen_now : Q -> Z.
Variable M k : nat.
Variables wake_send wake_res : Z -> option nat.

Local Notation U := (ust Q).
Local Notation comps := (comps Q qstep qstart).
Local Notation zxexec := (zxexec Q qstep qstart qidle qlog lha qlen_now M k wake_send wake_res).
Local Notation cexec := (cexec U (ustep Q qstep qstart qidle qlog lha qlen_now) (ustart Q qstart lha) (uidle Q) (ulog Q) (urelease Q qstart) M k wake_send).

Definition zq (s : zxst Q) : U := q U (zb Q s).

Ltac same := first [apply comps_refl | (split; exists []; reflexivity)].
Ltac one_a e := split; [exists e; reflexivity|exists []; reflexivity].
Ltac one_b e := split; [exists []; reflexivity|exists e; reflexivity].

Lemma comps_zxexec (s : zxst Q) e : comps (zq s) (zq (zxexec s e)).
Proof.
  destruct e as [t|t o]; cbn.
  - unfold zxstep, zq. destruct (zthr Q s t) eqn:E; cbn [zb].
    + apply (comps_cexec Q qstep qstart qidle qlog lha qlen_now M k wake_send (zb Q s) (CStep t)).
    + destruct (qidle _ t); [destruct (lastres Q qlog _)|]; cbn; one_a [Step t].
    + destruct (qidle _ t); [destruct (lastres Q qlog _); try destruct (wake_res _)|]; cbn; one_b [Step t].
    + destruct (wstep _ w) as [m' [w'|]]; cbn; same.
    + destruct (qidle _ t); cbn; one_a [Step t].
    + cbn. same.
  - unfold zxstart, zq. destruct (zthr Q s t); try same. destruct (cthr U (zb Q s) t) eqn:Ec; try same.
    destruct o as [o'|j v|j|j]; cbn [zb].
    + apply (comps_cexec Q qstep qstart qidle qlog lha qlen_now M k wake_send (zb Q s) (CStart t o')).
    + cbn. one_a [Start t OpCons].
    + destruct (zres Q s j) as [id|]; cbn; [one_b [Start t (OpPub id)]|same].
    + destruct (zres Q s j) as [id|]; cbn; [one_a [Start t (OpPub id)]|same].
Qed.

Theorem zx_components_reachable q0 evs :
  comps q0 (zq (fold_left zxexec evs (zxinit Q k q0))).
Proof.
  assert (G : forall s, comps (zq s) (zq (fold_left zxexec evs s))).
  { induction evs as [|e evs IH]; intros s; [same|]. cbn [fold_left].
    eapply comps_trans; [apply comps_zxexec|apply IH]. }
  apply (G (zxinit Q k q0)).
Qed.

End ChanZXProps.
