(* The Uni channel machine of Chan.v, generalised in what the EXECUTOR may do: the task that drives a stream may be re-polled at any
   time (not only after a wake-up) and each poll may carry a DIFFERENT waker (a task that migrated, select_all / FuturesUnordered, a
   hand-written executor).  By the Waker contract only the waker passed to the latest poll has to be woken, so every waker has its
   own `notified` flag and a parked task looks at the flag of its current waker only.

   /repo/src/streams_manager.rs register_stream_waker: the slot keeps the registered waker; a poll whose waker `will_wake` the
   registered one leaves it, any other poll takes the lock, stores its waker and wakes it ("the producer might have just woken the
   old version of the waker").  wake_stream wakes whatever waker it finds in the slot - possibly a stale one.

   Differences from Chan.v (everything else is the same machine, same location codes, same trace encoding):
     sm      regid i  : the waker registered for stream i (None: empty slot) ; cur i : the waker of the task's latest poll ;
             notified i w : flag of waker w of stream i's task
     wpc     W1 i w / WW i w carry the waker that was read from the slot
     events  CRepoll i w : the executor polls stream i's task (again) with waker w - from the parked state without having been
             notified, or right before a poll; it is the only way `cur` changes                                                *)
From RM Require Export RingModel FullSync.
From RM Require Import Chan.

Module W.

Inductive wpc := W0 (i : nat) | W1 (i w : nat) | WL (i : nat) | WR (i : nat) | WW (i w : nat) | WU.
Inductive rpc := R0 | RL | RW | RU | RS.

Inductive cres := CSendOk (v : Z) | CSendFull (v : Z) | CYield (i : nat) (v : Z) | CPending (i : nat) | CEnd (i : nat)
                | CLen (n : Z) | CCancelled.
Inductive cop := CoSend (v : Z) | CoPoll (i : nat) | CoDrive (i : nat) | CoCancelAll | CoLen.

Inductive cpc :=
| XIdle
| XSendQ (v : Z)                          (* inside the queue's publish *)
| XSendW (v : Z) (w : wpc)                (* inside wake_stream after a successful publish *)
| XDrive (i : nat)                        (* a driven stream about to call poll_next *)
| XPollQ (i : nat) (drv : bool)           (* inside the queue's consume *)
| XPollK (i : nat) (drv : bool)           (* about to read keep_streams_running[i] *)
| XReg (i : nat) (r : rpc) (drv : bool)   (* inside register_stream_waker *)
| XParked (i : nat)                       (* task parked: each grant reads its `notified` flag *)
| XCancelU (j : nat)                      (* cancel_all_streams: about to read used_streams[j] *)
| XCancelK (j : nat)                      (* about to clear keep_streams_running[j] *)
| XCancelW (j : nat) (w : wpc)            (* inside wake_stream(j) *)
| XLenQ.

Record sm := { regid : nat -> option nat; cur : nat -> nat; keep : nat -> bool; wlock : bool; notified : nat -> nat -> bool }.
(* the registered waker is the task's current one / the slot is occupied / the current waker's flag *)
Definition wakers (m : sm) (i : nat) : bool := match regid m i with Some w => Nat.eqb w (cur m i) | None => false end.
Definition occupied (m : sm) (i : nat) : bool := match regid m i with Some _ => true | None => false end.
Definition nflag (m : sm) (i : nat) : bool := notified m i (cur m i).
Definition upd2 (f : nat -> nat -> bool) (i w : nat) (x : bool) : nat -> nat -> bool :=
  fun j v => if (Nat.eqb j i && Nat.eqb v w)%bool then x else f j v.
Definition notify (m : sm) (i w : nat) : sm :=
  {| regid := regid m; cur := cur m; keep := keep m; wlock := wlock m; notified := upd2 (notified m) i w true |}.
Definition set_lock (m : sm) (b : bool) : sm :=
  {| regid := regid m; cur := cur m; keep := keep m; wlock := b; notified := notified m |}.

(* one step of wake_stream; None = the call returns *)
Definition wstep (m : sm) (w : wpc) : sm * option wpc :=
  match w with
  | W0 i => (m, Some (match regid m i with Some v => W1 i v | None => WL i end))
  | W1 i v => (notify m i v, None)
  | WL i => if wlock m then (m, Some (WL i)) else (set_lock m true, Some (WR i))
  | WR i => (m, Some (match regid m i with Some v => WW i v | None => WU end))
  | WW i v => (notify m i v, Some WU)
  | WU => (set_lock m false, None)
  end.

(* the flag of waker w of stream i's task: L_NOTIFIED + 20 * w + i (the harness has two wakers per task: 0 and 1) *)
Definition nloc (i w : nat) : Z := L_NOTIFIED + 20 * Z.of_nat w + Z.of_nat i.

Definition wobs (m : sm) (t : nat) (w : wpc) : list Z :=
  match w with
  | W0 i | WR i => acc t (L_WAKERS + Z.of_nat i) K_WAKERS_R (b2z (occupied m i)) (-1) true
  | W1 i v | WW i v => acc t (nloc i v) K_WAKE 0 (-1) true
  | WL i => if wlock m then acc t L_WLOCK K_CAS 1 (-1) false else acc t L_WLOCK K_CAS 0 1 true
  | WU => acc t L_WLOCK K_STORE 0 0 true
  end.

Section Chan.
Variable Q : Type.
Variable qstep : Q -> nat -> Q.
Variable qstart : Q -> nat -> op -> Q.
Variable qidle : Q -> nat -> bool.
Variable qlog : Q -> list (nat * res).
Variable qobs : Q -> nat -> list Z.
Variable M : nat.                          (* MAX_STREAMS *)
Variable k : nat.                          (* streams created: ids 0..k-1 *)
Variable wake_rule : Z -> option nat.      (* len_after -> stream to wake *)

Record cst := { q : Q; m : sm; cthr : nat -> cpc; clog : list (nat * cres) }.

Definition qres (x : Q) : res := snd (last (qlog x) (0%nat, REmpty)).

Definition mk (x : Q) (y : sm) (th : nat -> cpc) (l : list (nat * cres)) : cst := {| q := x; m := y; cthr := th; clog := l |}.
Definition setpc (s : cst) (t : nat) (p : cpc) : cst := mk (q s) (m s) (upd (cthr s) t p) (clog s).
Definition finish (s : cst) (t : nat) (r : cres) (p : cpc) : cst := mk (q s) (m s) (upd (cthr s) t p) (clog s ++ [(t, r)]).

(* the queue operation of thread t completed in state x (its response is the last entry of the queue's log) *)
Definition after_send (s : cst) (x : Q) (t : nat) (v : Z) : cst :=
  match qres x with
  | ROk _ len =>
      match wake_rule len with
      | Some i => mk x (m s) (upd (cthr s) t (XSendW v (W0 i))) (clog s)
      | None => mk x (m s) (upd (cthr s) t XIdle) (clog s ++ [(t, CSendOk v)])
      end
  | _ => mk x (m s) (upd (cthr s) t XIdle) (clog s ++ [(t, CSendFull v)])
  end.
Definition after_cons (s : cst) (x : Q) (t : nat) (i : nat) (drv : bool) : cst :=
  match qres x with
  | RGot v => mk x (m s) (upd (cthr s) t (if drv then XDrive i else XIdle)) (clog s ++ [(t, CYield i v)])
  | _ => mk x (m s) (upd (cthr s) t (XPollK i drv)) (clog s)
  end.
(* cancel_all_streams moves on to entry j of used_streams (the loop ends without an access after MAX_STREAMS entries) *)
Definition cancel_next (s : cst) (t : nat) (j : nat) : cst :=
  if (M <=? j)%nat then finish s t CCancelled XIdle else setpc s t (XCancelU j).

Definition cstep (s : cst) (t : nat) : cst :=
  match cthr s t with
  | XIdle => s
  | XSendQ v =>
      let x := qstep (q s) t in
      if qidle x t then after_send s x t v else mk x (m s) (cthr s) (clog s)
  | XSendW v w =>
      let '(m', w') := wstep (m s) w in
      match w' with
      | Some w'' => mk (q s) m' (upd (cthr s) t (XSendW v w'')) (clog s)
      | None => mk (q s) m' (upd (cthr s) t XIdle) (clog s ++ [(t, CSendOk v)])
      end
  | XDrive i =>
      let x := qstep (qstart (q s) t OpCons) t in
      if qidle x t then after_cons s x t i true else mk x (m s) (upd (cthr s) t (XPollQ i true)) (clog s)
  | XPollQ i drv =>
      let x := qstep (q s) t in
      if qidle x t then after_cons s x t i drv else mk x (m s) (cthr s) (clog s)
  | XPollK i drv =>
      if keep (m s) i then setpc s t (XReg i R0 drv) else finish s t (CEnd i) XIdle
  | XReg i R0 drv =>
      (* the registered waker `will_wake` the one of this poll: nothing to do *)
      if wakers (m s) i then finish s t (CPending i) (if drv then XParked i else XIdle)
      else setpc s t (XReg i RL drv)
  | XReg i RL drv =>
      if wlock (m s) then s
      else mk (q s) (set_lock (m s) true) (upd (cthr s) t (XReg i RW drv)) (clog s)
  | XReg i RW drv =>
      mk (q s) {| regid := upd (regid (m s)) i (Some (cur (m s) i)); cur := cur (m s); keep := keep (m s); wlock := wlock (m s); notified := notified (m s) |}
         (upd (cthr s) t (XReg i RU drv)) (clog s)
  | XReg i RU drv =>
      mk (q s) (set_lock (m s) false) (upd (cthr s) t (XReg i RS drv)) (clog s)
  | XReg i RS drv =>
      (* the self-wake of the waker just stored *)
      mk (q s) (notify (m s) i (cur (m s) i))
         (upd (cthr s) t (if drv then XParked i else XIdle)) (clog s ++ [(t, CPending i)])
  | XParked i =>
      if nflag (m s) i then
        mk (q s) {| regid := regid (m s); cur := cur (m s); keep := keep (m s); wlock := wlock (m s);
                    notified := upd2 (notified (m s)) i (cur (m s) i) false |}
           (upd (cthr s) t (XDrive i)) (clog s)
      else s
  | XCancelU j =>
      if (j <? k)%nat then setpc s t (XCancelK j) else finish s t CCancelled XIdle
  | XCancelK j =>
      mk (q s) {| regid := regid (m s); cur := cur (m s); keep := upd (keep (m s)) j false; wlock := wlock (m s); notified := notified (m s) |}
         (upd (cthr s) t (XCancelW j (W0 j))) (clog s)
  | XCancelW j w =>
      let '(m', w') := wstep (m s) w in
      match w' with
      | Some w'' => mk (q s) m' (upd (cthr s) t (XCancelW j w'')) (clog s)
      | None => cancel_next (mk (q s) m' (cthr s) (clog s)) t (S j)
      end
  | XLenQ =>
      let x := qstep (q s) t in
      if qidle x t then
        match qres x with
        | RLen n => mk x (m s) (upd (cthr s) t XIdle) (clog s ++ [(t, CLen n)])
        | _ => mk x (m s) (upd (cthr s) t XIdle) (clog s)
        end
      else mk x (m s) (cthr s) (clog s)
  end.

(* an idle thread begins an operation; `send`, `poll` and `len` enter the queue component here (no access yet) *)
Definition cstart (s : cst) (t : nat) (o : cop) : cst :=
  match cthr s t with
  | XIdle =>
      match o with
      | CoSend v => mk (qstart (q s) t (OpPub v)) (m s) (upd (cthr s) t (XSendQ v)) (clog s)
      | CoPoll i => mk (qstart (q s) t OpCons) (m s) (upd (cthr s) t (XPollQ i false)) (clog s)
      | CoDrive i => setpc s t (XDrive i)
      | CoCancelAll => cancel_next s t 0
      | CoLen => mk (qstart (q s) t OpLen) (m s) (upd (cthr s) t XLenQ) (clog s)
      end
  | _ => s
  end.

(* the executor polls the task run by thread t with waker w: from the parked state - whether it was notified or not - or right
   before a poll; while the task is inside a poll nothing happens (a task is polled by one thread at a time) *)
Definition set_cur (y : sm) (i w : nat) : sm :=
  {| regid := regid y; cur := upd (cur y) i w; keep := keep y; wlock := wlock y; notified := notified y |}.
Definition crepoll (s : cst) (t w : nat) : cst :=
  match cthr s t with
  | XParked j | XDrive j => mk (q s) (set_cur (m s) j w) (upd (cthr s) t (XDrive j)) (clog s)
  | _ => s
  end.

Inductive cev := CStep (t : nat) | CStart (t : nat) (o : cop) | CRepoll (t w : nat).
Definition cexec (s : cst) (e : cev) : cst :=
  match e with CStep t => cstep s t | CStart t o => cstart s t o | CRepoll t w => crepoll s t w end.

Definition cobs (s : cst) (t : nat) : list Z :=
  match cthr s t with
  | XIdle => skip t
  | XSendQ _ | XPollQ _ _ | XLenQ => qobs (q s) t
  | XDrive _ => qobs (qstart (q s) t OpCons) t
  | XSendW _ w | XCancelW _ w => wobs (m s) t w
  | XPollK i _ => acc t (L_KEEP + Z.of_nat i) K_KEEP_R (b2z (keep (m s) i)) (-1) true
  | XReg i R0 _ => acc t (L_WAKERS + Z.of_nat i) K_WAKERS_R (b2z (occupied (m s) i)) (-1) true
  | XReg i RL _ => if wlock (m s) then acc t L_WLOCK K_CAS 1 (-1) false else acc t L_WLOCK K_CAS 0 1 true
  | XReg i RW _ => acc t (L_WAKERS + Z.of_nat i) K_WAKERS_W 1 (-1) true
  | XReg i RU _ => acc t L_WLOCK K_STORE 0 0 true
  | XReg i RS _ => acc t (nloc i (cur (m s) i)) K_WAKE 0 (-1) true
  | XParked i => acc t (nloc i (cur (m s) i)) K_PARKED (b2z (nflag (m s) i)) (-1) true
  | XCancelU j => acc t (L_USED + Z.of_nat j) K_USED_R (if (j <? k)%nat then Z.of_nat j else 4294967295) (-1) true
  | XCancelK j => acc t (L_KEEP + Z.of_nat j) K_KEEP_W 0 (-1) true
  end.

Definition cinit (q0 : Q) : cst :=
  {| q := q0;
     m := {| regid := fun _ => None; cur := fun _ => 0%nat; keep := fun i => (i <? k)%nat; wlock := false; notified := fun _ _ => false |};
     cthr := fun _ => XIdle; clog := [] |}.

(* ------------------------------------------------------------------------------------------- runner *)
Definition cres_code (r : cres) : list Z :=
  match r with
  | CSendOk v => [10; v; 0] | CSendFull v => [11; v; 0] | CYield i v => [12; v; Z.of_nat i]
  | CPending i => [13; Z.of_nat i; 0] | CEnd i => [14; Z.of_nat i; 0] | CLen n => [15; n; 0] | CCancelled => [16; 0; 0]
  end.
Definition cemit (before after : list (nat * cres)) : list (list Z) :=
  map (fun e => 2 :: Z.of_nat (fst e) :: cres_code (snd e)) (skipn (length before) after).

(* the waker the harness's task passes to its next poll: `plans t` lists them poll by poll (the last entry serves every later poll);
   the harness's task never re-polls without having been notified, so the runner only switches wakers right before a poll *)
Definition pre_poll (s : cst) (plans : nat -> list nat) (t : nat) : cst * (nat -> list nat) :=
  match cthr s t, plans t with
  | XDrive _, w :: rest => (crepoll s t w, upd plans t (match rest with [] => [w] | _ => rest end))
  | _, _ => (s, plans)
  end.

Definition cgrant (s : cst) (progs : nat -> list cop) (plans : nat -> list nat) (t : nat)
  : cst * (nat -> list cop) * (nat -> list nat) * list (list Z) :=
  match cthr s t with
  | XIdle =>
      match progs t with
      | [] => (s, progs, plans, [skip t])
      | o :: rest =>
          let s1 := cstart s t o in
          match cthr s1 t with
          | XIdle => (s1, upd progs t rest, plans, skip t :: cemit (clog s) (clog s1))      (* an operation without any access *)
          | _ => let '(s1', plans') := pre_poll s1 plans t in
                 let s2 := cstep s1' t in (s2, upd progs t rest, plans', cobs s1' t :: cemit (clog s) (clog s2))
          end
      end
  | _ => let '(s', plans') := pre_poll s plans t in
         let s2 := cstep s' t in (s2, progs, plans', cobs s' t :: cemit (clog s) (clog s2))
  end.

Fixpoint crun (s : cst) (progs : nat -> list cop) (plans : nat -> list nat) (sched : list nat) : cst * list (list Z) :=
  match sched with
  | [] => (s, [])
  | t :: rest =>
      let '(s1, progs1, plans1, lines) := cgrant s progs plans t in
      let '(s2, more) := crun s1 progs1 plans1 rest in
      (s2, lines ++ more)
  end.

End Chan.


Definition cprogs_of (l : list (list cop)) : nat -> list cop := fun t => nth t l [].
Definition plans_of (l : list (list nat)) : nat -> list nat := fun t => nth t l [].

Definition run_uni_atomic (N : Z) (M k : nat) (origin : Z) (progs : list (list cop)) (plans : list (list nat)) (sched : list nat) : list Z :=
  let '(s, lines) := crun st (step N u32 i32) start ring_idle log (obs N u32) M k (wake_rule_atomic M)
                          (cinit st k (init_at (u32 origin))) (cprogs_of progs) (plans_of plans) sched in
  concat lines ++ [9; head (q _ s); tail (q _ s); etail (q _ s); dhead (q _ s)].
Definition run_uni_fullsync (N : Z) (M k : nat) (origin : Z) (progs : list (list cop)) (plans : list (list nat)) (sched : list nat) : list Z :=
  let '(s, lines) := crun fsst (fstep N u32) fstart fs_idle flog fobs M k (wake_rule_fullsync M)
                          (cinit fsst k (finit_at (u32 origin))) (cprogs_of progs) (plans_of plans) sched in
  concat lines ++ [9; fhead (q _ s); ftail (q _ s); b2z (flock (q _ s))].

End W.
