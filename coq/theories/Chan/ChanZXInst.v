(* The zero-copy atomic Uni channel WITH its reserve API (ChanZX.v) over the ghost (unbounded Z) ring machines: the ring of slot ids and
   the pool's free list are still ring runs, so slot ids - reserved-and-sent ones included - are handed to consumers exactly once, in the
   order they entered the id ring, and pool slots are handed out only after they were given back. *)
From RM Require Import RingModel RingInv RingProps FullSync Chan PoolRun ZeroCopy ZcUni ChanZ ChanX ChanZProps ChanZInst ChanZX ChanZXProps.
Import ZC.

Section ZxAtomic.
Variable N : Z.
Hypothesis Npos : 0 < N.
Variable M k : nat.
Variables wake_send wake_res : Z -> option nat.

Definition zx_run (evs : list zxev) : zxst st :=
  fold_left (zxexec st (stepZ N) start ring_idle0 log true (fun _ => 0) M k wake_send wake_res) evs (zxinit st k (zc_q0 N)).

Theorem zx_atomic_id_ring_is_a_ring_run evs : exists revs, ub st (zq st (zx_run evs)) = fold_left (execZ N) revs init.
Proof.
  destruct (zx_components_reachable st (stepZ N) start ring_idle0 log true (fun _ => 0) M k wake_send wake_res (zc_q0 N) evs) as [_ [revs H]].
  exists revs. unfold zx_run. rewrite H. apply fold_qexec0.
Qed.
Theorem zx_atomic_free_list_is_a_ring_run evs : exists revs, ua st (zq st (zx_run evs)) = fold_left (execZ N) revs init.
Proof.
  destruct (zx_components_reachable st (stepZ N) start ring_idle0 log true (fun _ => 0) M k wake_send wake_res (zc_q0 N) evs) as [[revs H] _].
  destruct (pfill_reachable N (ids_upto N) init) as [e0 H0].
  exists (e0 ++ revs). unfold zx_run. rewrite H, fold_qexec0, fold_left_app. cbn [ua zc_q0]. unfold zc_fl0. now rewrite H0.
Qed.
Theorem zx_atomic_ids_exactly_once_in_order evs :
  let l := log (ub st (zq st (zx_run evs))) in yielded_of l = firstn (length (yielded_of l)) (accepted_of l).
Proof. cbn zeta. destruct (zx_atomic_id_ring_is_a_ring_run evs) as [revs ->]. apply (yielded_prefix N Npos). Qed.
Theorem zx_atomic_pool_slots_exactly_once_in_order evs :
  let l := log (ua st (zq st (zx_run evs))) in yielded_of l = firstn (length (yielded_of l)) (accepted_of l).
Proof. cbn zeta. destruct (zx_atomic_free_list_is_a_ring_run evs) as [revs ->]. apply (yielded_prefix N Npos). Qed.
Theorem zx_atomic_components_invariant evs : Inv N (ub st (zq st (zx_run evs))) /\ Inv N (ua st (zq st (zx_run evs))).
Proof.
  destruct (zx_atomic_id_ring_is_a_ring_run evs) as [e1 ->]. destruct (zx_atomic_free_list_is_a_ring_run evs) as [e2 ->].
  split; apply (inv_reachable N Npos).
Qed.
End ZxAtomic.
