(* C07 for the generic Uni channel machine of Chan.v, WHATEVER its queue component is (lock-free ring, full-sync ring, the reserve
   machine ...): after cancel_all_streams a targeted stream is never left parked un-notified with its keep flag cleared - every
   schedule, any number of producers / length queries / cancel_all callers, every MAX_STREAMS, 0 < k <= MAX_STREAMS streams each driven
   by its own task.  The argument never looks inside the queue: whatever a consume attempt answers, the stream goes on to read its
   keep flag (or yields and polls again); only the waker slot, the notified flag, the keep flag and the wakes in progress matter. *)
From RM Require Import RingModel FullSync Chan.

Section UniCancel.
Variable Q : Type.
Variable qstep : Q -> nat -> Q.
Variable qstart : Q -> nat -> op -> Q.
Variable qidle : Q -> nat -> bool.
Variable qlog : Q -> list (nat * res).
Variable M k : nat.
Variable wake_rule : Z -> option nat.
Hypothesis kpos : (0 < k)%nat.
Hypothesis kM : (k <= M)%nat.

Local Notation cst := (cst Q).
Local Notation stp := (cstep Q qstep qstart qidle qlog M k wake_rule).
Local Notation strt := (cstart Q qstart M).
Local Notation exec := (cexec Q qstep qstart qidle qlog M k wake_rule).

Definition wf_ev (e : cev) : Prop :=
  match e with
  | CStep _ => True
  | CStart t (CoDrive i) => t = i /\ (i < k)%nat
  | CStart t (CoPoll _) => False
  | CStart t _ => (k <= t)%nat
  end.

Definition wk (s : cst) (i : nat) : bool := wakers (m _ s) i.
Definition nt (s : cst) (i : nat) : bool := notified (m _ s) i.
Definition kp (s : cst) (i : nat) : bool := keep (m _ s) i.

(* thread p is inside a wake_stream call that will notify stream i *)
Definition wpending (w : wpc) (wi : bool) (i : nat) : Prop :=
  match w with
  | W0 j | W1 j | WW j => j = i
  | WL j | WR j => j = i /\ wi = true
  | WU => False
  end.
Definition pending (s : cst) (p i : nat) : Prop :=
  match cthr _ s p with
  | XSendW _ w | XCancelW _ w => wpending w (wk s i) i
  | _ => False
  end.

Definition will_check (c : cpc) (w n : bool) : Prop :=
  match c with
  | XIdle | XDrive _ | XPollQ _ _ | XPollK _ _ => True
  | XReg _ R0 _ => w = false \/ n = true
  | XReg _ _ _ => True
  | XParked _ => n = true
  | _ => False
  end.
Definition WillCheck (s : cst) (i : nat) : Prop :=
  will_check (cthr _ s i) (wk s i) (nt s i) \/ exists p, pending s p i.

Definition on_the_way (c : cpc) : Prop :=
  match c with
  | XIdle | XDrive _ | XPollQ _ _ | XPollK _ _ | XReg _ R0 _ | XReg _ RL _ | XReg _ RW _ => True
  | _ => False
  end.
Definition stream_pc (i : nat) (c : cpc) : Prop :=
  match c with
  | XIdle => True
  | XDrive j | XPollQ j true | XPollK j true | XReg j _ true | XParked j => j = i
  | _ => False
  end.
Definition producer_pc (c : cpc) : Prop :=
  match c with
  | XIdle | XSendQ _ | XSendW _ _ | XLenQ | XCancelU _ | XCancelK _ | XCancelW _ _ => True
  | _ => False
  end.
Definition registered (c : cpc) : Prop := match c with XReg _ RU _ | XReg _ RS _ | XParked _ => True | _ => False end.

Record CInv (s : cst) : Prop := {
  c_str  : forall i, (i < k)%nat -> stream_pc i (cthr _ s i);
  c_prod : forall t, (k <= t)%nat -> producer_pc (cthr _ s t);
  c_reg  : forall i, (i < k)%nat -> registered (cthr _ s i) -> wk s i = true;
  c_J    : forall i, (i < k)%nat -> wk s i = false -> nt s i = true \/ on_the_way (cthr _ s i);
  c_c07  : forall i, (i < k)%nat -> kp s i = false -> WillCheck s i
}.

Definition stuck_cancelled (s : cst) (i : nat) : Prop :=
  (forall t, (k <= t)%nat -> cthr _ s t = XIdle) /\ kp s i = false /\ cthr _ s i = XParked i /\ nt s i = false.

Lemma no_pending s p i :
  (forall t, (k <= t)%nat -> cthr _ s t = XIdle) -> (forall j, (j < k)%nat -> stream_pc j (cthr _ s j)) -> ~ pending s p i.
Proof.
  intros Hp Hs Hpd. unfold pending in Hpd. destruct (Nat.lt_ge_cases p k) as [Hlt|Hge].
  - specialize (Hs p Hlt). destruct (cthr _ s p); cbn in *; try contradiction; try (destruct drv; contradiction).
  - rewrite (Hp p Hge) in Hpd. exact Hpd.
Qed.

Lemma cinv_not_stuck s i : (i < k)%nat -> CInv s -> ~ stuck_cancelled s i.
Proof.
  intros Hi I (Hp & Hk & Hc & Hn). destruct (c_c07 _ I i Hi Hk) as [W|[p W]].
  - rewrite Hc in W. cbn in W. congruence.
  - eapply no_pending; eauto. apply (c_str _ I).
Qed.

(* ------------------------------------------------------------------------------------------------ framing *)
Record Frame (s s' : cst) (t : nat) : Prop := {
  fr_c  : forall u, u <> t -> cthr _ s' u = cthr _ s u;
  fr_w  : forall i, i <> t -> wk s' i = wk s i;
  fr_wt : wk s t = true -> wk s' t = true;
  fr_n  : forall i, i <> t -> nt s i = true -> nt s' i = true;
  fr_k  : forall i, kp s' i = true -> kp s i = true
}.

Lemma will_check_mono c w n n' : will_check c w n -> (n = true -> n' = true) -> will_check c w n'.
Proof. unfold will_check. destruct c; auto; try (destruct r; auto); intros [?|?]; auto. Qed.
Lemma wpending_mono w a b i : wpending w a i -> (a = true -> b = true) -> wpending w b i.
Proof. unfold wpending. destruct w; auto. all: intros [? ?]; auto. Qed.

Lemma pending_other s s' t p i : Frame s s' t -> p <> t -> pending s p i -> pending s' p i.
Proof.
  intros F Hp. unfold pending. rewrite (fr_c _ _ _ F p Hp).
  destruct (cthr _ s p); auto; intros H; eapply wpending_mono; eauto;
    (destruct (Nat.eq_dec i t) as [->|Hn]; [apply (fr_wt _ _ _ F)|rewrite (fr_w _ _ _ F i Hn); auto]).
Qed.

Lemma transport s s' t i : Frame s s' t -> i <> t -> WillCheck s i -> WillCheck s' i \/ pending s t i.
Proof.
  intros F Hi. unfold WillCheck. rewrite (fr_c _ _ _ F i Hi), (fr_w _ _ _ F i Hi).
  intros [H|[p Hp]];
    [left; left; eapply will_check_mono; eauto; apply (fr_n _ _ _ F i Hi)
    |destruct (Nat.eq_dec p t) as [->|Hn]; [now right|left; right; exists p; eapply pending_other; eauto]].
Qed.

Lemma notified_will s i : stream_pc i (cthr _ s i) -> nt s i = true -> WillCheck s i.
Proof.
  intros Ht Hn. unfold WillCheck, will_check. rewrite Hn.
  left; destruct (cthr _ s i); cbn in Ht; try contradiction; auto; destruct r; auto.
Qed.
Lemma J_will s i : stream_pc i (cthr _ s i) -> wk s i = false -> nt s i = true \/ on_the_way (cthr _ s i) -> WillCheck s i.
Proof.
  intros Ht Hw [Hn|Ho]; [now apply notified_will|].
  unfold WillCheck, will_check. rewrite Hw.
  left; destruct (cthr _ s i); cbn in Ht, Ho; try contradiction; auto; destruct r; auto; contradiction.
Qed.

Lemma cinv_frame s s' t :
  CInv s -> Frame s s' t ->
  ((t < k)%nat -> stream_pc t (cthr _ s' t)) -> ((k <= t)%nat -> producer_pc (cthr _ s' t)) ->
  ((t < k)%nat -> registered (cthr _ s' t) -> wk s' t = true) ->
  ((t < k)%nat -> wk s' t = false -> nt s' t = true \/ on_the_way (cthr _ s' t)) ->
  (forall i, (i < k)%nat -> i <> t -> pending s t i -> WillCheck s' i) ->
  ((t < k)%nat -> kp s' t = false -> will_check (cthr _ s t) (wk s t) (nt s t) -> WillCheck s' t) ->
  (forall i, (i < k)%nat -> kp s' i = false -> kp s i = true -> WillCheck s' i) ->
  CInv s'.
Proof.
  intros I F Ls Lp Lr LJ Lpend Lselfc Lc07.
  assert (Hpself : forall p, pending s p t -> p <> t -> pending s' p t) by (intros p Hp Hn; eapply pending_other; eauto).
  assert (Hnotself : (t < k)%nat -> ~ pending s t t).
  { intros Ht Hp. pose proof (c_str _ I t Ht) as Hs. unfold pending in Hp. destruct (cthr _ s t); cbn in Hs; try contradiction; try (destruct drv; contradiction). }
  constructor; auto.
  - intros i Hi. destruct (Nat.eq_dec i t) as [->|Hn]; [auto|rewrite (fr_c _ _ _ F i Hn); apply (c_str _ I i Hi)].
  - intros u Hu. destruct (Nat.eq_dec u t) as [->|Hn]; [auto|rewrite (fr_c _ _ _ F u Hn); apply (c_prod _ I u Hu)].
  - intros i Hi. destruct (Nat.eq_dec i t) as [->|Hn]; [auto|].
    rewrite (fr_c _ _ _ F i Hn), (fr_w _ _ _ F i Hn). apply (c_reg _ I i Hi).
  - intros i Hi. destruct (Nat.eq_dec i t) as [->|Hn]; [auto|].
    rewrite (fr_c _ _ _ F i Hn), (fr_w _ _ _ F i Hn). intros Hw. destruct (c_J _ I i Hi Hw) as [H|H]; [left; now apply (fr_n _ _ _ F i Hn)|now right].
  - intros i Hi Hk. destruct (kp s i) eqn:Ek; [now apply Lc07|].
    pose proof (c_c07 _ I i Hi Ek) as W.
    destruct (Nat.eq_dec i t) as [->|Hn].
    + destruct W as [W|[p Hp]]; [now apply Lselfc|].
      right. exists p. apply Hpself; auto. intros ->. now apply (Hnotself Hi).
    + destruct (transport s s' t i F Hn W) as [W'|Hp]; [assumption|]. now apply (Lpend i Hi Hn Hp).
Qed.

Ltac un := unfold wk, nt, kp in *; cbn [q m cthr clog mk setpc finish wakers keep wlock notified] in *.

Lemma wstep_frame mm w mm' w' :
  wstep mm w = (mm', w') ->
  wakers mm' = wakers mm /\ keep mm' = keep mm /\ (forall i, notified mm i = true -> notified mm' i = true).
Proof.
  destruct w; cbn; try (destruct (wlock mm)); intros H; injection H as <- <-; cbn; auto.
  all: repeat split; auto; intros j Hj; unfold upd; destruct (Nat.eqb j i); auto.
Qed.

Lemma is_producer s t : CInv s -> ~ stream_pc t (cthr _ s t) -> (k <= t)%nat.
Proof. intros I H. destruct (Nat.lt_ge_cases t k) as [Hl|]; [exfalso; apply H, (c_str _ I t Hl)|assumption]. Qed.
Lemma is_stream s t : CInv s -> ~ producer_pc (cthr _ s t) -> (t < k)%nat.
Proof. intros I H. destruct (Nat.lt_ge_cases t k) as [|Hg]; [assumption|exfalso; apply H, (c_prod _ I t Hg)]. Qed.

Lemma wake_will s s' t i :
  CInv s -> Frame s s' t -> (i < k)%nat -> i <> t ->
  nt s' i = true \/ (wk s i = false /\ (forall j, nt s j = true -> nt s' j = true)) -> WillCheck s' i.
Proof.
  intros I F Hi Hn H.
  assert (Hs : stream_pc i (cthr _ s' i)) by (rewrite (fr_c _ _ _ F i Hn); apply (c_str _ I i Hi)).
  destruct H as [H|[Hw Hm]]; [now apply notified_will|].
  apply J_will; auto; [rewrite (fr_w _ _ _ F i Hn); exact Hw|].
  rewrite (fr_c _ _ _ F i Hn). destruct (c_J _ I i Hi Hw) as [H|H]; [left; now apply Hm|now right].
Qed.

Definition ppend (c : cpc) (wi : bool) (i : nat) : Prop :=
  match c with XSendW _ w | XCancelW _ w => wpending w wi i | _ => False end.
Lemma pending_ppend s p i : pending s p i = ppend (cthr _ s p) (wk s i) i.
Proof. reflexivity. Qed.

(* one step of a wake_stream call (inside send or cancel_all) *)
Lemma wake_step s t w mm' w' p' l' :
  CInv s -> (k <= t)%nat ->
  (forall i, pending s t i <-> wpending w (wk s i) i) ->
  wstep (m _ s) w = (mm', w') ->
  producer_pc p' ->
  (forall i wi, ppend p' wi i <-> match w' with Some w'' => wpending w'' wi i | None => False end) ->
  CInv (mk _ (q _ s) mm' (upd (cthr _ s) t p') l').
Proof.
  intros I Ht Hpd Hw Hp Hpp. destruct (wstep_frame _ _ _ _ Hw) as (Ewk & Ekp & Hnt).
  set (s' := mk _ (q _ s) mm' (upd (cthr _ s) t p') l').
  assert (F : Frame s s' t).
  { subst s'. constructor; un; intros; rewrite ?Ewk, ?Ekp in *; auto; try now rewrite upd_other. }
  assert (Hpend' : forall i, pending s' t i <-> match w' with Some w'' => wpending w'' (wk s i) i | None => False end).
  { intros i. rewrite pending_ppend. subst s'. un. rewrite upd_same, Ewk. apply Hpp. }
  apply (cinv_frame s s' t I F); try (intros; exfalso; lia); auto.
  - intros _. subst s'. un. now rewrite upd_same.
  - intros i Hi Hn Hpi. apply Hpd in Hpi.
    assert (Hstay : forall w'', w' = Some w'' -> wpending w'' (wk s i) i -> WillCheck s' i).
    { intros w'' -> Hw''. right; exists t; apply Hpend'; exact Hw''. }
    destruct w as [j|j|j|j|j|]; cbn in Hpi, Hw.
    + subst j. destruct (wakers (m _ s) i) eqn:Ew; injection Hw as <- <-.
      * eapply Hstay; [reflexivity|reflexivity].
      * apply (wake_will s s' t i I F Hi Hn). right. split; [exact Ew|auto].
    + subst j. injection Hw as <- <-. apply (wake_will s s' t i I F Hi Hn). left. subst s'. un. now rewrite upd_same.
    + destruct Hpi as [-> Hwi]. destruct (wlock (m _ s)); injection Hw as <- <-; (eapply Hstay; [reflexivity|cbn; auto]).
    + destruct Hpi as [-> Hwi]. pose proof Hwi as Hwi'. unfold wk in Hwi'. rewrite Hwi' in Hw. injection Hw as <- <-. eapply Hstay; [reflexivity|reflexivity].
    + subst j. injection Hw as <- <-. apply (wake_will s s' t i I F Hi Hn). left. subst s'. un. now rewrite upd_same.
    + contradiction.
  - intros i Hi Hk Hk0. exfalso. subst s'. un. rewrite Ekp in Hk. congruence.
Qed.

(* a producer-side step that leaves the streams manager alone and neither starts nor loses a wake that is already in progress *)
Lemma producer_local s t q' th' p' l' :
  CInv s -> (k <= t)%nat -> th' t = p' -> (forall u, u <> t -> th' u = cthr _ s u) ->
  producer_pc p' ->
  (forall i, ppend (cthr _ s t) (wk s i) i -> ppend p' (wk s i) i) ->
  CInv (mk _ q' (m _ s) th' l').
Proof.
  intros I Ht Hth1 Hth2 Hp Hpp. set (s' := mk _ q' (m _ s) th' l').
  assert (F : Frame s s' t) by (subst s'; constructor; un; intros; auto).
  apply (cinv_frame s s' t I F); try (intros; exfalso; lia); auto.
  - intros _. subst s'. un. now rewrite Hth1.
  - intros i Hi Hn Hpi. rewrite pending_ppend in Hpi. apply Hpp in Hpi.
    right; exists t; rewrite pending_ppend; subst s'; un; rewrite Hth1; exact Hpi.
  - intros i Hi Hk Hk0. subst s'. un. congruence.
Qed.

(* a stream-side step *)
Lemma stream_step s t q' mm' th' p' l' :
  CInv s -> (t < k)%nat -> th' t = p' -> (forall u, u <> t -> th' u = cthr _ s u) ->
  (forall i, i <> t -> wakers mm' i = wk s i) -> (wk s t = true -> wakers mm' t = true) ->
  (forall i, i <> t -> nt s i = true -> notified mm' i = true) ->
  keep mm' = keep (m _ s) ->
  stream_pc t p' -> (registered p' -> wakers mm' t = true) ->
  (wakers mm' t = false -> notified mm' t = true \/ on_the_way p') ->
  (keep mm' t = false -> will_check (cthr _ s t) (wk s t) (nt s t) -> will_check p' (wakers mm' t) (notified mm' t)) ->
  CInv (mk _ q' mm' th' l').
Proof.
  intros I Ht Hth1 Hth2 Hw Hwt Hn Hk Hs Hr HJ Hcheck. set (s' := mk _ q' mm' th' l').
  assert (F : Frame s s' t) by (subst s'; constructor; un; intros; auto; now rewrite Hk in *).
  assert (Hstr : stream_pc t (cthr _ s t)) by (apply (c_str _ I t Ht)).
  apply (cinv_frame s s' t I F); try (intros; exfalso; lia); auto.
  - intros _. subst s'. un. now rewrite Hth1.
  - intros _. subst s'. un. now rewrite Hth1.
  - intros _. subst s'. un. now rewrite Hth1.
  - intros i Hi Hne Hpi. exfalso. rewrite pending_ppend in Hpi.
    destruct (cthr _ s t); cbn in Hstr, Hpi; try contradiction; destruct drv; contradiction.
  - intros _ Hkf W. left. subst s'. un. rewrite Hth1. now apply Hcheck.
  - intros i Hi Hk1 Hk0. exfalso. subst s'. un. rewrite Hk in Hk1. congruence.
Qed.

Lemma stream_index s t i : CInv s -> (t < k)%nat ->
  (cthr _ s t = XDrive i \/ (exists d, cthr _ s t = XPollQ i d) \/ (exists d, cthr _ s t = XPollK i d) \/
   (exists r d, cthr _ s t = XReg i r d) \/ cthr _ s t = XParked i) -> i = t.
Proof.
  intros I Ht H. pose proof (c_str _ I t Ht) as Hs.
  destruct H as [H|[[d H]|[[d H]|[[r [d H]]|H]]]]; rewrite H in Hs; cbn in Hs; try (destruct d; try contradiction); auto.
Qed.
Lemma stream_drv s t : CInv s -> (t < k)%nat ->
  forall i d, (cthr _ s t = XPollQ i d \/ cthr _ s t = XPollK i d \/ exists r, cthr _ s t = XReg i r d) -> d = true.
Proof.
  intros I Ht i d H. pose proof (c_str _ I t Ht) as Hs.
  destruct H as [H|[H|[r H]]]; rewrite H in Hs; cbn in Hs; destruct d; auto; contradiction.
Qed.

Ltac side :=
  first [ assumption | reflexivity | apply upd_same | (intros; now apply upd_other) | (cbn; auto; fail)
        | (intros; cbn; now rewrite upd_other) | (intros; cbn; apply upd_same)
        | (intros; cbn; rewrite upd_same; discriminate) | (intros; discriminate) | (intros; cbn in *; congruence)
        | (intros; cbn in *; rewrite upd_same in *; discriminate) ].

Ltac prod_local I Ht E :=
  eapply (producer_local _ _ _ _ _ _ I Ht);
  [ apply upd_same | (intros; now apply upd_other) | exact Logic.I | (let i := fresh "i" in intros i; rewrite E; cbn; contradiction) ].

Ltac strm I Ht := eapply (stream_step _ _ _ _ _ _ _ I Ht); [apply upd_same | try side ..].

Lemma cinv_step s t : CInv s -> CInv (stp s t).
Proof.
  intros I. unfold cstep. destruct (cthr _ s t) eqn:E.
  - exact I.
  - (* XSendQ: a queue step; when the publication is over, the wake decision *)
    assert (Ht : (k <= t)%nat) by (apply (is_producer s t I); rewrite E; auto).
    destruct (qidle _ t).
    + unfold after_send. destruct (qres _ _ _); try destruct (wake_rule _); prod_local I Ht E.
    + apply (producer_local s t _ (cthr _ s) (XSendQ v)); auto; try side; try exact Logic.I. intros i. rewrite E. auto.
  - (* XSendW *)
    assert (Ht : (k <= t)%nat) by (apply (is_producer s t I); rewrite E; auto).
    destruct (wstep (m _ s) w) as [mm' [w''|]] eqn:Ew.
    + apply (wake_step s t w mm' (Some w'')); auto; [intros i; rewrite pending_ppend, E; reflexivity|exact Logic.I|reflexivity].
    + apply (wake_step s t w mm' None); auto; [intros i; rewrite pending_ppend, E; reflexivity|exact Logic.I|reflexivity].
  - (* XDrive: the consume attempt starts *)
    assert (Ht : (t < k)%nat) by (apply (is_stream s t I); rewrite E; auto).
    assert (i = t) by (apply (stream_index s t i I Ht); auto). subst i.
    destruct (qidle _ t).
    + unfold after_cons. destruct (qres _ _ _); strm I Ht.
    + strm I Ht.
  - (* XPollQ *)
    assert (Ht : (t < k)%nat) by (apply (is_stream s t I); rewrite E; auto).
    assert (i = t) by (apply (stream_index s t i I Ht); eauto). subst i.
    assert (drv = true) by (apply (stream_drv s t I Ht t drv); auto). subst drv.
    destruct (qidle _ t).
    + unfold after_cons. destruct (qres _ _ _); strm I Ht.
    + apply (stream_step s t _ _ (cthr _ s) (XPollQ t true)); auto; try side.
  - (* XPollK *)
    assert (Ht : (t < k)%nat) by (apply (is_stream s t I); rewrite E; auto).
    assert (i = t) by (apply (stream_index s t i I Ht); eauto 6). subst i.
    assert (drv = true) by (apply (stream_drv s t I Ht t drv); auto). subst drv.
    destruct (keep (m _ s) t) eqn:Ek; cbn [setpc finish].
    + apply (stream_step s t (q _ s) (m _ s) _ (XReg t R0 true)); auto; try side.
    + apply (stream_step s t (q _ s) (m _ s) _ XIdle); auto; try side.
  - (* XReg *)
    assert (Ht : (t < k)%nat) by (apply (is_stream s t I); rewrite E; auto).
    assert (i = t) by (apply (stream_index s t i I Ht); eauto 8). subst i.
    assert (drv = true) by (apply (stream_drv s t I Ht t drv); eauto). subst drv.
    pose proof (c_reg _ I t Ht) as Hreg. rewrite E in Hreg.
    destruct r.
    + destruct (wakers (m _ s) t) eqn:Ew; cbn [setpc finish].
      * apply (stream_step s t (q _ s) (m _ s) _ (XParked t)); auto; try side.
        intros _. rewrite E. cbn. unfold wk. rewrite Ew. intros [W|W]; [discriminate|assumption].
      * apply (stream_step s t (q _ s) (m _ s) _ (XReg t RL true)); auto; try side.
    + destruct (wlock (m _ s)); [exact I|].
      apply (stream_step s t (q _ s) _ _ (XReg t RW true)); auto; try side.
    + apply (stream_step s t (q _ s) _ _ (XReg t RU true)); auto; try side.
    + specialize (Hreg Logic.I). unfold wk in Hreg.
      apply (stream_step s t (q _ s) _ _ (XReg t RS true)); auto; try side.
    + specialize (Hreg Logic.I). unfold wk in Hreg.
      apply (stream_step s t (q _ s) _ _ (XParked t)); auto; try side.
  - (* XParked *)
    assert (Ht : (t < k)%nat) by (apply (is_stream s t I); rewrite E; auto).
    assert (i = t) by (apply (stream_index s t i I Ht); eauto 6). subst i.
    destruct (notified (m _ s) t) eqn:En; [|exact I].
    apply (stream_step s t (q _ s) _ _ (XDrive t)); auto; try side.
  - (* XCancelU *)
    assert (Ht : (k <= t)%nat) by (apply (is_producer s t I); rewrite E; auto).
    destruct (j <? k)%nat; unfold setpc, finish; prod_local I Ht E.
  - (* XCancelK: the keep flag is cleared, the wake of that stream begins *)
    assert (Ht : (k <= t)%nat) by (apply (is_producer s t I); rewrite E; auto).
    match goal with |- CInv ?x => set (s' := x) end.
    assert (F : Frame s s' t).
    { subst s'; constructor; un; intros; auto; try now rewrite upd_other.
      unfold upd in *. destruct (Nat.eqb i j); [discriminate|assumption]. }
    apply (cinv_frame s s' t I F); try (intros; exfalso; lia); auto.
    + intros _. subst s'. un. rewrite upd_same. exact Logic.I.
    + intros i Hi Hn Hpi. exfalso. rewrite pending_ppend, E in Hpi. exact Hpi.
    + intros i Hi Hk Hk0. right. exists t. rewrite pending_ppend. subst s'. un. rewrite upd_same. cbn.
      unfold upd in Hk. destruct (Nat.eqb_spec i j); [auto|congruence].
  - (* XCancelW *)
    assert (Ht : (k <= t)%nat) by (apply (is_producer s t I); rewrite E; auto).
    destruct (wstep (m _ s) w) as [mm' [w''|]] eqn:Ew.
    + apply (wake_step s t w mm' (Some w'')); auto; [intros i; rewrite pending_ppend, E; reflexivity|exact Logic.I|reflexivity].
    + unfold cancel_next. destruct (M <=? S j)%nat; cbn [finish setpc q m cthr clog mk];
        (apply (wake_step s t w mm' None); auto; [intros i; rewrite pending_ppend, E; reflexivity|exact Logic.I|reflexivity]).
  - (* XLenQ *)
    assert (Ht : (k <= t)%nat) by (apply (is_producer s t I); rewrite E; auto).
    destruct (qidle _ t); [destruct (qres _ _ _); prod_local I Ht E|].
    apply (producer_local s t _ (cthr _ s) XLenQ); auto; try side; try exact Logic.I. intros i. rewrite E. auto.
Qed.

Lemma cinv_start s t o : wf_ev (CStart t o) -> CInv s -> CInv (strt s t o).
Proof.
  intros Hwf I. unfold cstart. destruct (cthr _ s t) eqn:E; try exact I.
  destruct o; cbn in Hwf.
  - prod_local I Hwf E.
  - contradiction.
  - destruct Hwf as [-> Hi]. cbn [setpc]. apply (stream_step s i (q _ s) (m _ s) _ (XDrive i)); auto; try side.
  - unfold cancel_next. destruct (M <=? 0)%nat eqn:EM; [apply Nat.leb_le in EM; lia|]. cbn [setpc].
    unfold setpc. prod_local I Hwf E.
  - prod_local I Hwf E.
Qed.

Lemma cinv_init q0 : CInv (cinit Q k q0).
Proof.
  constructor.
  - intros i Hi. exact Logic.I.
  - intros t Ht. exact Logic.I.
  - intros i Hi [].
  - intros i Hi _. right. exact Logic.I.
  - intros i Hi Hk. exfalso. unfold kp, cinit in Hk. cbn [m keep] in Hk. apply Nat.ltb_lt in Hi. rewrite Hi in Hk. discriminate.
Qed.

Theorem cinv_reachable q0 cevs : Forall wf_ev cevs -> CInv (fold_left exec cevs (cinit Q k q0)).
Proof.
  generalize (cinit Q k q0) (cinv_init q0).
  induction cevs as [|e cevs IH]; intros s I Hwf; [exact I|].
  inversion Hwf as [|? ? He Hrest]; subst. cbn [fold_left]. apply IH; [|exact Hrest].
  destruct e; [apply cinv_step|apply cinv_start]; assumption.
Qed.

(* C07, whatever the queue component: a cancelled stream never stays parked without having been notified *)
Theorem cancel_terminates_any_queue q0 cevs i :
  Forall wf_ev cevs -> (i < k)%nat -> ~ stuck_cancelled (fold_left exec cevs (cinit Q k q0)) i.
Proof. intros H Hi. apply cinv_not_stuck; [exact Hi|apply cinv_reachable, H]. Qed.

End UniCancel.
