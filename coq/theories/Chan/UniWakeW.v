(* C04 / C07 on the movable full-sync Uni channel (the very machine the correspondence check runs):
   no lost wake-up, and cancel terminates parked streams - for every schedule, any number of producers / cancellers,
   any MAX_STREAMS, any number 0 < k <= M of streams each driven by its own task. *)
From RM Require Import RingModel FullSync Chan ChanProps UniInst ChanW.
Import W.

(* what the queue component of thread t is doing is what its channel pc says (the typing half of ChanProps' glue invariant) *)
Definition expectsW (p : cpc) : option op :=
  match p with XSendQ v => Some (OpPub v) | XPollQ _ _ => Some OpCons | XLenQ => Some OpLen | _ => None end.

Section UniWake.
Variable N : Z.
Hypothesis Npos : 0 < N.
Variable M k : nat.
Hypothesis kpos : (0 < k)%nat.
Hypothesis kM : (k <= M)%nat.

Local Notation cst := (cst fsst).
Local Notation exec := (cexec fsst (fstepZ N) fstart fs_idle flog M k (wake_rule_fullsync M)).
Local Notation stp := (cstep fsst (fstepZ N) fstart fs_idle flog M k (wake_rule_fullsync M)).
Local Notation strt := (cstart fsst fstart M).

Definition wuf_init := cinit fsst k finit.
Definition wuf_run (cevs : list cev) := fold_left exec cevs wuf_init.

(* well-formed use: stream i is driven by task (thread) i and by nobody else - that task may be re-polled by its executor at any
   time and with any waker; the other threads send, ask the length or cancel all streams *)
Definition wf_ev (e : cev) : Prop :=
  match e with
  | CStep _ => True
  | CStart t (CoDrive i) => t = i /\ (i < k)%nat
  | CStart t (CoPoll _) => False
  | CStart t _ => (k <= t)%nat
  | CRepoll t _ => (t < k)%nat
  end.

Definition TY (s : cst) : Prop := forall t, fs_qop (q _ s) t = expectsW (cthr _ s t).

Definition len (s : cst) : Z := ftail (q _ s) - fhead (q _ s).
Definition fth (s : cst) (t : nat) : fpc := fthr (q _ s) t.
Definition wk (s : cst) (i : nat) : bool := wakers (m _ s) i.       (* the registered waker is the one of the task's latest poll *)
Definition nt (s : cst) (i : nat) : bool := nflag (m _ s) i.        (* that waker was woken since *)
Definition kp (s : cst) (i : nat) : bool := keep (m _ s) i.
Definition cu (s : cst) (i : nat) : nat := cur (m _ s) i.

(* thread p is about to wake stream i's CURRENT waker *)
Definition wpending (w : wpc) (wi : bool) (c : nat) (i : nat) : Prop :=
  match w with
  | W0 j => j = i
  | W1 j v | WW j v => j = i /\ v = c
  | WL j | WR j => j = i /\ wi = true
  | WU => False
  end.
Definition pending (s : cst) (p i : nat) : Prop :=
  match cthr _ s p with
  | XSendQ _ => match fth s p with FPU _ (Some l) => wake_rule_fullsync M l = Some i | _ => False end
  | XSendW _ w | XCancelW _ w => wpending w (wk s i) (cu s i) i
  | _ => False
  end.

(* stream i, by itself, is on its way to look at the queue / the keep flag again *)
Definition will_look (c : cpc) (f : fpc) (w n : bool) : Prop :=
  match c with
  | XIdle | XDrive _ => True
  | XPollQ _ _ => match f with FCU None => w = false \/ n = true | _ => True end
  | XPollK _ _ | XReg _ R0 _ => w = false \/ n = true
  | XReg _ _ _ => True
  | XParked _ => n = true
  | _ => False
  end.
Definition WillSee (s : cst) (i : nat) : Prop :=
  will_look (cthr _ s i) (fth s i) (wk s i) (nt s i) \/ exists p, pending s p i.

(* stream i, by itself, is on its way to read its keep flag again (C07) *)
Definition will_check (c : cpc) (w n : bool) : Prop :=
  match c with
  | XIdle | XDrive _ | XPollQ _ _ | XPollK _ _ => True
  | XReg _ R0 _ => w = false \/ n = true
  | XReg _ _ _ => True
  | XParked _ => n = true
  | _ => False
  end.
Definition WillCheck (s : cst) (i : nat) : Prop :=
  will_check (cthr _ s i) (wk s i) (nt s i) \/ exists p, pending s p i.

(* ... and will then read the keep flag (a stream holding an item re-polls first) *)
Definition on_the_way (c : cpc) : Prop :=
  match c with
  | XIdle | XDrive _ | XPollQ _ _ | XPollK _ _ | XReg _ R0 _ | XReg _ RL _ | XReg _ RW _ => True
  | _ => False
  end.

Definition stream_pc (i : nat) (c : cpc) : Prop :=
  match c with
  | XIdle => True
  | XDrive j | XPollQ j true | XPollK j true | XReg j _ true | XParked j => j = i
  | _ => False
  end.
Definition producer_pc (c : cpc) : Prop :=
  match c with
  | XIdle | XSendQ _ | XSendW _ _ | XLenQ | XCancelU _ | XCancelK _ | XCancelW _ _ => True
  | _ => False
  end.
Definition registered (c : cpc) : Prop := match c with XReg _ RU _ | XReg _ RS _ | XParked _ => True | _ => False end.

Record WInv (s : cst) : Prop := {
  w_gi    : TY s;
  w_str   : forall i, (i < k)%nat -> stream_pc i (cthr _ s i);
  w_prod  : forall t, (k <= t)%nat -> producer_pc (cthr _ s t);
  w_reg   : forall i, (i < k)%nat -> registered (cthr _ s i) -> wk s i = true;
  w_len   : 0 <= len s;
  w_J     : forall i, (i < k)%nat -> wk s i = false -> nt s i = true \/ on_the_way (cthr _ s i);
  w_c04   : (forall i, (i < k)%nat -> kp s i = true) -> 0 < len s -> exists i, (i < k)%nat /\ WillSee s i;
  w_c07   : forall i, (i < k)%nat -> kp s i = false -> WillCheck s i
}.

Definition lost (s : cst) : Prop :=
  (forall t, (k <= t)%nat -> cthr _ s t = XIdle) /\ 0 < len s /\ (forall i, (i < k)%nat -> kp s i = true) /\
  forall i, (i < k)%nat -> cthr _ s i = XParked i /\ nt s i = false.

Definition stuck_cancelled (s : cst) (i : nat) : Prop :=
  (forall t, (k <= t)%nat -> cthr _ s t = XIdle) /\ kp s i = false /\ cthr _ s i = XParked i /\ nt s i = false.

Lemma no_pending s p i :
  (forall t, (k <= t)%nat -> cthr _ s t = XIdle) -> (forall j, (j < k)%nat -> stream_pc j (cthr _ s j)) -> ~ pending s p i.
Proof.
  intros Hp Hs Hpd. unfold pending in Hpd. destruct (Nat.lt_ge_cases p k) as [Hlt|Hge].
  - specialize (Hs p Hlt). destruct (cthr _ s p); cbn in *; try contradiction; try (destruct drv; contradiction).
  - rewrite (Hp p Hge) in Hpd. exact Hpd.
Qed.

Lemma willsee_not_parked s i :
  (forall t, (k <= t)%nat -> cthr _ s t = XIdle) -> (forall j, (j < k)%nat -> stream_pc j (cthr _ s j)) ->
  cthr _ s i = XParked i -> nt s i = false -> ~ WillSee s i /\ ~ WillCheck s i.
Proof.
  intros Hp Hs Hc Hn. split; intros [Hl|[p Hpd]]; try (eapply no_pending; eassumption);
    rewrite Hc in Hl; cbn in Hl; congruence.
Qed.

Lemma winv_not_lost s : WInv s -> ~ lost s.
Proof.
  intros I (Hp & Hl & Hk & Hs). destruct (w_c04 _ I Hk Hl) as (i & Hi & W).
  destruct (Hs i Hi) as [Hc Hn]. eapply (proj1 (willsee_not_parked s i Hp (w_str _ I) Hc Hn)); eauto.
Qed.

Lemma winv_not_stuck s i : (i < k)%nat -> WInv s -> ~ stuck_cancelled s i.
Proof.
  intros Hi I (Hp & Hk & Hc & Hn). eapply (proj2 (willsee_not_parked s i Hp (w_str _ I) Hc Hn)). apply (w_c07 _ I); assumption.
Qed.

(* ------------------------------------------------------------------------------------------------ framing *)
Record Frame (s s' : cst) (t : nat) : Prop := {
  fr_c  : forall u, u <> t -> cthr _ s' u = cthr _ s u;
  fr_f  : forall u, u <> t -> fth s' u = fth s u;
  fr_w  : forall i, i <> t -> wk s' i = wk s i;
  fr_wt : wk s t = true -> wk s' t = true;
  fr_n  : forall i, i <> t -> nt s i = true -> nt s' i = true;
  fr_k  : forall i, kp s' i = true -> kp s i = true;
  fr_cu : forall i, cu s' i = cu s i
}.

Lemma will_look_mono c f w n n' : will_look c f w n -> (n = true -> n' = true) -> will_look c f w n'.
Proof. unfold will_look. destruct c; auto; try (destruct r; auto); try (destruct f as [| | | |[?|]|]; auto); intros [?|?]; auto. Qed.
Lemma will_check_mono c w n n' : will_check c w n -> (n = true -> n' = true) -> will_check c w n'.
Proof. unfold will_check. destruct c; auto; try (destruct r; auto); intros [?|?]; auto. Qed.
Lemma wpending_mono w a b c i : wpending w a c i -> (a = true -> b = true) -> wpending w b c i.
Proof. unfold wpending. destruct w; auto. all: intros [? ?]; auto. Qed.

Lemma pending_other s s' t p i : Frame s s' t -> p <> t -> pending s p i -> pending s' p i.
Proof.
  intros F Hp. unfold pending. rewrite (fr_c _ _ _ F p Hp), (fr_f _ _ _ F p Hp), (fr_cu _ _ _ F i).
  destruct (cthr _ s p); auto; intros H; eapply wpending_mono; eauto;
    (destruct (Nat.eq_dec i t) as [->|Hn]; [apply (fr_wt _ _ _ F)|rewrite (fr_w _ _ _ F i Hn); auto]).
Qed.

Lemma transport s s' t i : Frame s s' t -> i <> t ->
  (WillSee s i -> WillSee s' i \/ pending s t i) /\ (WillCheck s i -> WillCheck s' i \/ pending s t i).
Proof.
  intros F Hi. unfold WillSee, WillCheck.
  rewrite (fr_c _ _ _ F i Hi), (fr_f _ _ _ F i Hi), (fr_w _ _ _ F i Hi).
  split; (intros [H|[p Hp]];
    [left; left; first [eapply will_look_mono|eapply will_check_mono]; eauto; apply (fr_n _ _ _ F i Hi)
    |destruct (Nat.eq_dec p t) as [->|Hn]; [now right|left; right; exists p; eapply pending_other; eauto]]).
Qed.

(* when stream i is typed as a stream, being notified is enough *)
Lemma notified_will s i : stream_pc i (cthr _ s i) -> nt s i = true -> WillSee s i /\ WillCheck s i.
Proof.
  intros Ht Hn. unfold WillSee, WillCheck, will_look, will_check. rewrite Hn.
  split; left; destruct (cthr _ s i); cbn in Ht; try contradiction; auto; try (destruct (fth s i) as [| | | |[?|]|]; auto); destruct r; auto.
Qed.

(* J turns a lost pending wake (the waker slot was still empty) into a stream that is on its way *)
Lemma J_will s i : stream_pc i (cthr _ s i) -> wk s i = false -> nt s i = true \/ on_the_way (cthr _ s i) ->
  WillSee s i /\ WillCheck s i.
Proof.
  intros Ht Hw [Hn|Ho]; [now apply notified_will|].
  unfold WillSee, WillCheck, will_look, will_check. rewrite Hw.
  split; left; destruct (cthr _ s i); cbn in Ht, Ho; try contradiction; auto; try (destruct (fth s i) as [| | | |[?|]|]; auto); destruct r; auto; contradiction.
Qed.

(* the general step lemma *)
Lemma winv_frame s s' t :
  WInv s -> Frame s s' t -> TY s' ->
  ((t < k)%nat -> stream_pc t (cthr _ s' t)) -> ((k <= t)%nat -> producer_pc (cthr _ s' t)) ->
  ((t < k)%nat -> registered (cthr _ s' t) -> wk s' t = true) ->
  0 <= len s' ->
  ((t < k)%nat -> wk s' t = false -> nt s' t = true \/ on_the_way (cthr _ s' t)) ->
  (forall i, (i < k)%nat -> i <> t -> pending s t i -> (WillSee s' i /\ WillCheck s' i)) ->
  ((t < k)%nat -> 0 < len s' -> will_look (cthr _ s t) (fth s t) (wk s t) (nt s t) -> WillSee s' t) ->
  ((t < k)%nat -> kp s' t = false -> will_check (cthr _ s t) (wk s t) (nt s t) -> WillCheck s' t) ->
  ((forall i, (i < k)%nat -> kp s' i = true) -> 0 < len s' -> len s <= 0 \/ ((t < k)%nat /\ len s' < len s) -> exists i, (i < k)%nat /\ WillSee s' i) ->
  (forall i, (i < k)%nat -> kp s' i = false -> kp s i = true -> WillCheck s' i) ->
  WInv s'.
Proof.
  intros I F G Ls Lp Lr Ll LJ Lpend Lself Lselfc Lc04 Lc07.
  assert (Hpself : forall p, pending s p t -> p <> t -> pending s' p t) by (intros p Hp Hn; eapply pending_other; eauto).
  assert (Hnotself : (t < k)%nat -> ~ pending s t t).
  { intros Ht Hp. pose proof (w_str _ I t Ht) as Hs. unfold pending in Hp. destruct (cthr _ s t); cbn in Hs; try contradiction; try (destruct drv; contradiction). }
  constructor; auto.
  - intros i Hi. destruct (Nat.eq_dec i t) as [->|Hn]; [auto|rewrite (fr_c _ _ _ F i Hn); apply (w_str _ I i Hi)].
  - intros u Hu. destruct (Nat.eq_dec u t) as [->|Hn]; [auto|rewrite (fr_c _ _ _ F u Hn); apply (w_prod _ I u Hu)].
  - intros i Hi. destruct (Nat.eq_dec i t) as [->|Hn]; [auto|].
    rewrite (fr_c _ _ _ F i Hn), (fr_w _ _ _ F i Hn). apply (w_reg _ I i Hi).
  - intros i Hi. destruct (Nat.eq_dec i t) as [->|Hn]; [auto|].
    rewrite (fr_c _ _ _ F i Hn), (fr_w _ _ _ F i Hn). intros Hw. destruct (w_J _ I i Hi Hw) as [H|H]; [left; now apply (fr_n _ _ _ F i Hn)|now right].
  - (* C04 *)
    intros Hk Hl. destruct (Z.lt_ge_cases 0 (len s)) as [Hpos|Hz]; [|apply Lc04; auto; left; lia].
    assert (Hk0 : forall i, (i < k)%nat -> kp s i = true) by (intros i Hi; apply (fr_k _ _ _ F), Hk, Hi).
    destruct (w_c04 _ I Hk0 Hpos) as (i & Hi & W).
    destruct (Nat.eq_dec i t) as [->|Hn].
    + exists t. split; [assumption|]. destruct W as [W|[p Hp]]; [now apply Lself|].
      right. exists p. apply Hpself; auto. intros ->. now apply (Hnotself Hi).
    + destruct (proj1 (transport s s' t i F Hn) W) as [W'|Hp]; [now exists i|].
      exists i. split; [assumption|]. now apply (Lpend i Hi Hn Hp).
  - (* C07 *)
    intros i Hi Hk. destruct (kp s i) eqn:Ek; [now apply Lc07|].
    pose proof (w_c07 _ I i Hi Ek) as W.
    destruct (Nat.eq_dec i t) as [->|Hn].
    + destruct W as [W|[p Hp]]; [now apply Lselfc|].
      right. exists p. apply Hpself; auto. intros ->. now apply (Hnotself Hi).
    + destruct (proj2 (transport s s' t i F Hn) W) as [W'|Hp]; [assumption|]. now apply (Lpend i Hi Hn Hp).
Qed.

Lemma fstep_fthr_other x t u : u <> t -> fthr (fstepZ N x t) u = fthr x u.
Proof.
  intros Hn. unfold fstepZ, fstep, idz. destruct (fthr x t) eqn:E; try reflexivity;
  repeat match goal with |- context[if ?b then _ else _] => destruct b end; try reflexivity;
  cbn [fthr]; now rewrite upd_other.
Qed.
Lemma fstart_fthr_other x t o u : u <> t -> fthr (fstart x t o) u = fthr x u.
Proof. intros Hn. unfold fstart. destruct (fthr x t); try reflexivity. cbn. now rewrite upd_other. Qed.
Lemma fstart_len x t o : ftail (fstart x t o) - fhead (fstart x t o) = ftail x - fhead x.
Proof. unfold fstart. destruct (fthr x t); reflexivity. Qed.

Ltac un := unfold len, fth, wk, nt, kp, cu in *; cbn [q m cthr clog mk setpc finish regid cur keep wlock notified fthr fhead ftail flock flog] in *.

(* the sm part of a wake_stream step *)
Lemma wstep_frame mm w mm' w' :
  wstep mm w = (mm', w') ->
  regid mm' = regid mm /\ cur mm' = cur mm /\ keep mm' = keep mm /\
  (forall i v, notified mm i v = true -> notified mm' i v = true).
Proof.
  destruct w as [i|i v|i|i|i v|]; cbn; try (destruct (wlock mm)); intros H; injection H as <- <-; cbn; auto.
  all: repeat split; auto; intros j u Hj; unfold upd2; destruct (_ && _)%bool; auto.
Qed.
Lemma wstep_views mm w mm' w' :
  wstep mm w = (mm', w') ->
  (forall i, wakers mm' i = wakers mm i) /\ (forall i, cur mm' i = cur mm i) /\ keep mm' = keep mm /\
  (forall i, nflag mm i = true -> nflag mm' i = true).
Proof.
  intros H. destruct (wstep_frame _ _ _ _ H) as (Er & Ec & Ek & Hn). repeat split; auto.
  - intros i. unfold wakers. now rewrite Er, Ec.
  - intros i. now rewrite Ec.
  - intros i. unfold nflag. rewrite Ec. apply Hn.
Qed.

(* ---- typing: the queue operation of a thread is the one its channel pc stands in ---- *)
Lemma ty_not_idle x t o : fs_qop x t = Some o -> fs_idle x t = false.
Proof. intros H. destruct (fs_idle x t) eqn:E; auto. apply fs_idle_spec in E. congruence. Qed.
Lemma ty_idle x t : fs_qop x t = None -> fs_idle x t = true.
Proof. intros H. now apply fs_idle_spec. Qed.

Lemma ty_set (s : cst) x mm th l t :
  TY s -> (forall u, u <> t -> fs_qop x u = fs_qop (q _ s) u) -> (forall u, u <> t -> th u = cthr _ s u) ->
  fs_qop x t = expectsW (th t) -> TY (mk _ x mm th l).
Proof.
  intros T Hq Hth Ht u. cbn [q cthr]. destruct (Nat.eq_dec u t) as [->|Hn]; [exact Ht|]. rewrite Hq, Hth by assumption. apply T.
Qed.

Lemma ty_qstep (s : cst) t o :
  TY s -> expectsW (cthr _ s t) = Some o ->
  (fs_idle (fstepZ N (q _ s) t) t = false /\ fs_qop (fstepZ N (q _ s) t) t = Some o) \/
  (fs_idle (fstepZ N (q _ s) t) t = true /\ fs_qop (fstepZ N (q _ s) t) t = None).
Proof.
  intros T E. assert (Hq : fs_qop (q _ s) t = Some o) by (rewrite (T t); exact E).
  destruct (fs_step_spec N _ _ _ Hq) as [[Hb _]|[Hd _]]; [left; split; [eapply ty_not_idle; eassumption|assumption]|right; split; [now apply ty_idle|assumption]].
Qed.

Lemma ty_local (s : cst) t mm p l : TY s -> expectsW (cthr _ s t) = None -> expectsW p = None -> TY (mk _ (q _ s) mm (upd (cthr _ s) t p) l).
Proof.
  intros T E Ep. apply (ty_set s _ _ _ _ t T); auto; [intros; now apply upd_other|]. rewrite upd_same, Ep, (T t). exact E.
Qed.

Ltac split_match := repeat match goal with |- context[match ?x with _ => _ end] => destruct x end.
Lemma ty_step s t : TY s -> TY (stp s t).
Proof.
  intros T. unfold cstep. destruct (cthr _ s t) eqn:E.
  - exact T.
  - (* XSendQ *)
    destruct (ty_qstep s t (OpPub v) T ltac:(rewrite E; reflexivity)) as [[Hi Hq]|[Hi Hq]]; rewrite Hi.
    + apply (ty_set s _ _ _ _ t T); auto; [intros; now apply fs_step_other|]. rewrite E. exact Hq.
    + unfold after_send. split_match;
        (apply (ty_set s _ _ _ _ t T); [intros; now apply fs_step_other|intros; now apply upd_other|rewrite upd_same; exact Hq]).
  - (* XSendW *)
    destruct (wstep (m _ s) w) as [mm' [w''|]]; apply ty_local; auto; rewrite E; reflexivity.
  - (* XDrive *)
    assert (Hn : fs_qop (q _ s) t = None) by (rewrite (T t), E; reflexivity).
    destruct (fs_start_spec (q _ s) t OpCons Hn) as (Hs & _ & Hso).
    destruct (fs_step_spec N _ _ _ Hs) as [[Hb _]|[Hd _]].
    + rewrite (ty_not_idle _ _ _ Hb).
      apply (ty_set s _ _ _ _ t T); [intros u Hu; rewrite fs_step_other by assumption; now apply Hso|intros; now apply upd_other|rewrite upd_same; exact Hb].
    + rewrite (ty_idle _ _ Hd). unfold after_cons. split_match;
        (apply (ty_set s _ _ _ _ t T); [intros u Hu; rewrite fs_step_other by assumption; now apply Hso|intros; now apply upd_other|rewrite upd_same; exact Hd]).
  - (* XPollQ *)
    destruct (ty_qstep s t OpCons T ltac:(rewrite E; reflexivity)) as [[Hi Hq]|[Hi Hq]]; rewrite Hi.
    + apply (ty_set s _ _ _ _ t T); auto; [intros; now apply fs_step_other|]. rewrite E. exact Hq.
    + unfold after_cons. split_match;
        (apply (ty_set s _ _ _ _ t T); [intros; now apply fs_step_other|intros; now apply upd_other|rewrite upd_same; exact Hq]).
  - (* XPollK *)
    destruct (keep _ _); unfold setpc, finish; apply ty_local; auto; rewrite E; reflexivity.
  - (* XReg *)
    destruct r; try (destruct (wakers _ _)); try (destruct (wlock _)); try exact T; unfold setpc, finish;
      try (destruct drv); apply ty_local; auto; rewrite E; reflexivity.
  - (* XParked *)
    destruct (nflag _ _); [|exact T]. apply ty_local; auto; rewrite E; reflexivity.
  - destruct (j <? k)%nat; unfold setpc, finish; apply ty_local; auto; rewrite E; reflexivity.
  - apply ty_local; auto; rewrite E; reflexivity.
  - destruct (wstep (m _ s) w) as [mm' [w''|]]; [apply ty_local; auto; rewrite E; reflexivity|].
    unfold cancel_next. destruct (M <=? S j)%nat; unfold setpc, finish; cbn [q m cthr clog mk]; apply ty_local; auto; rewrite E; reflexivity.
  - (* XLenQ *)
    destruct (ty_qstep s t OpLen T ltac:(rewrite E; reflexivity)) as [[Hi Hq]|[Hi Hq]]; rewrite Hi.
    + apply (ty_set s _ _ _ _ t T); auto; [intros; now apply fs_step_other|]. rewrite E. exact Hq.
    + split_match;
        (apply (ty_set s _ _ _ _ t T); [intros; now apply fs_step_other|intros; now apply upd_other|rewrite upd_same; exact Hq]).
Qed.

Lemma ty_start s t o : TY s -> TY (strt s t o).
Proof.
  intros T. unfold cstart. destruct (cthr _ s t) eqn:E; try exact T.
  assert (Hn : fs_qop (q _ s) t = None) by (rewrite (T t), E; reflexivity).
  destruct o.
  - destruct (fs_start_spec (q _ s) t (OpPub v) Hn) as (Hs & _ & Hso).
    apply (ty_set s _ _ _ _ t T); auto; [intros; now apply upd_other|rewrite upd_same; exact Hs].
  - destruct (fs_start_spec (q _ s) t OpCons Hn) as (Hs & _ & Hso).
    apply (ty_set s _ _ _ _ t T); auto; [intros; now apply upd_other|rewrite upd_same; exact Hs].
  - unfold setpc. apply ty_local; auto; rewrite E; reflexivity.
  - unfold cancel_next. destruct (M <=? 0)%nat; unfold setpc, finish; apply ty_local; auto; rewrite E; reflexivity.
  - destruct (fs_start_spec (q _ s) t OpLen Hn) as (Hs & _ & Hso).
    apply (ty_set s _ _ _ _ t T); auto; [intros; now apply upd_other|rewrite upd_same; exact Hs].
Qed.
Definition uf_gi_step := ty_step.
Definition uf_gi_start := ty_start.

(* typing helpers *)
Lemma is_producer s t : WInv s -> ~ stream_pc t (cthr _ s t) -> (k <= t)%nat.
Proof. intros I H. destruct (Nat.lt_ge_cases t k) as [Hl|]; [exfalso; apply H, (w_str _ I t Hl)|assumption]. Qed.
Lemma is_stream s t : WInv s -> ~ producer_pc (cthr _ s t) -> (t < k)%nat.
Proof. intros I H. destruct (Nat.lt_ge_cases t k) as [|Hg]; [assumption|exfalso; apply H, (w_prod _ I t Hg)]. Qed.

(* wake_stream steps, shared by send and cancel_all *)
Lemma wake_will s s' t i :
  WInv s -> Frame s s' t -> (i < k)%nat -> i <> t ->
  nt s' i = true \/ (wk s i = false /\ (forall j, nt s j = true -> nt s' j = true)) ->
  WillSee s' i /\ WillCheck s' i.
Proof.
  intros I F Hi Hn H.
  assert (Hs : stream_pc i (cthr _ s' i)) by (rewrite (fr_c _ _ _ F i Hn); apply (w_str _ I i Hi)).
  destruct H as [H|[Hw Hm]]; [now apply notified_will|].
  apply J_will; auto; [rewrite (fr_w _ _ _ F i Hn); exact Hw|].
  rewrite (fr_c _ _ _ F i Hn). destruct (w_J _ I i Hi Hw) as [H|H]; [left; now apply Hm|now right].
Qed.

Definition ppend (c : cpc) (f : fpc) (wi : bool) (cw : nat) (i : nat) : Prop :=
  match c with
  | XSendQ _ => match f with FPU _ (Some l) => wake_rule_fullsync M l = Some i | _ => False end
  | XSendW _ w | XCancelW _ w => wpending w wi cw i
  | _ => False
  end.
Lemma pending_ppend s p i : pending s p i = ppend (cthr _ s p) (fth s p) (wk s i) (cu s i) i.
Proof. reflexivity. Qed.

Lemma wakers_true mm i : wakers mm i = true -> regid mm i = Some (cur mm i).
Proof. unfold wakers. destruct (regid mm i) as [v|]; [|discriminate]. intros H. apply Nat.eqb_eq in H. now subst. Qed.
Lemma nflag_notify mm i : nflag (notify mm i (cur mm i)) i = true.
Proof. unfold nflag, notify, upd2. cbn. now rewrite !Nat.eqb_refl. Qed.

Lemma wake_step s t w mm' w' p' l' :
  WInv s -> (k <= t)%nat ->
  (forall i, pending s t i <-> wpending w (wk s i) (cu s i) i) ->
  wstep (m _ s) w = (mm', w') ->
  TY (mk _ (q _ s) mm' (upd (cthr _ s) t p') l') ->
  producer_pc p' ->
  (forall i wi c, ppend p' (fth s t) wi c i <-> match w' with Some w'' => wpending w'' wi c i | None => False end) ->
  WInv (mk _ (q _ s) mm' (upd (cthr _ s) t p') l').
Proof.
  intros I Ht Hpd Hw G Hp Hpp. destruct (wstep_views _ _ _ _ Hw) as (Ewk & Ecu & Ekp & Hnt).
  set (s' := mk _ (q _ s) mm' (upd (cthr _ s) t p') l').
  assert (F : Frame s s' t).
  { subst s'. constructor; un; intros; rewrite ?Ewk, ?Ekp, ?Ecu in *; auto; try now rewrite upd_other. }
  assert (Hlen : len s' = len s) by reflexivity.
  assert (Hpend' : forall i, pending s' t i <-> match w' with Some w'' => wpending w'' (wk s i) (cu s i) i | None => False end).
  { intros i. rewrite pending_ppend. subst s'. un. rewrite upd_same, Ewk, Ecu. apply Hpp. }
  apply (winv_frame s s' t I F G); try (intros; exfalso; lia); auto.
  - intros _. subst s'. un. now rewrite upd_same.
  - rewrite Hlen. apply (w_len _ I).
  - (* what t's pending wake turns into *)
    intros i Hi Hn Hpi. apply Hpd in Hpi.
    assert (Hstay : forall w'', w' = Some w'' -> wpending w'' (wk s i) (cu s i) i -> WillSee s' i /\ WillCheck s' i).
    { intros w'' -> Hw''. split; right; exists t; apply Hpend'; exact Hw''. }
    destruct w as [j|j v|j|j|j v|]; cbn in Hpi, Hw.
    + (* W0: reads the slot *)
      subst j. destruct (wakers (m _ s) i) eqn:Ew.
      * rewrite (wakers_true _ _ Ew) in Hw. injection Hw as <- <-. eapply Hstay; [reflexivity|split; reflexivity].
      * assert (mm' = m _ s) by (destruct (regid (m _ s) i); injection Hw as <- _; reflexivity). subst mm'.
        apply (wake_will s s' t i I F Hi Hn). right. split; [exact Ew|auto].
    + (* W1: wakes the waker it read - the current one *)
      destruct Hpi as [-> ->]. injection Hw as <- <-. apply (wake_will s s' t i I F Hi Hn). left. subst s'. un. apply nflag_notify.
    + destruct Hpi as [-> Hwi]. destruct (wlock (m _ s)); injection Hw as <- <-; (eapply Hstay; [reflexivity|cbn; auto]).
    + destruct Hpi as [-> Hwi]. pose proof Hwi as Hwi'. unfold wk in Hwi'. rewrite (wakers_true _ _ Hwi') in Hw. injection Hw as <- <-.
      eapply Hstay; [reflexivity|split; reflexivity].
    + destruct Hpi as [-> ->]. injection Hw as <- <-. apply (wake_will s s' t i I F Hi Hn). left. subst s'. un. apply nflag_notify.
    + contradiction.
  - intros i Hi Hk Hk0. exfalso. subst s'. un. rewrite Ekp in Hk. congruence.
Qed.

Lemma wake_rule_one : wake_rule_fullsync M 1 = Some 0%nat.
Proof. unfold wake_rule_fullsync. destruct (Z.leb_spec 1 (Z.of_nat M)); [reflexivity|lia]. Qed.

Lemma typing_of (s : cst) t : WInv s -> fs_qop (q _ s) t = expectsW (cthr _ s t).
Proof. intros I. apply (w_gi _ I). Qed.

(* ---- producer-side steps ---- *)
Lemma step_sendw s t v w : WInv s -> cthr _ s t = XSendW v w -> WInv (stp s t).
Proof.
  intros I E. assert (Ht : (k <= t)%nat) by (apply (is_producer s t I); rewrite E; auto).
  pose proof (uf_gi_step s t (w_gi _ I)) as G. revert G. unfold cstep. rewrite E.
  destruct (wstep (m _ s) w) as [mm' [w''|]] eqn:Ew; intros G.
  - apply (wake_step s t w mm' (Some w'')); auto; [intros i; rewrite pending_ppend, E; reflexivity|exact Logic.I|reflexivity].
  - apply (wake_step s t w mm' None); auto; [intros i; rewrite pending_ppend, E; reflexivity|exact Logic.I|reflexivity].
Qed.

Lemma step_cancelw s t j w : WInv s -> cthr _ s t = XCancelW j w -> WInv (stp s t).
Proof.
  intros I E. assert (Ht : (k <= t)%nat) by (apply (is_producer s t I); rewrite E; auto).
  pose proof (uf_gi_step s t (w_gi _ I)) as G. revert G. unfold cstep. rewrite E.
  destruct (wstep (m _ s) w) as [mm' [w''|]] eqn:Ew.
  - intros G. apply (wake_step s t w mm' (Some w'')); auto; [intros i; rewrite pending_ppend, E; reflexivity|exact Logic.I|reflexivity].
  - unfold cancel_next. destruct (M <=? S j)%nat; cbn [finish setpc q m cthr clog mk]; intros G;
      (apply (wake_step s t w mm' None); auto; [intros i; rewrite pending_ppend, E; reflexivity|exact Logic.I|reflexivity]).
Qed.

(* a producer-side step that touches neither the streams manager nor the queue length, and neither starts nor ends a
   pending wake *)
Lemma producer_local s t q' th' p' l' :
  WInv s -> (k <= t)%nat -> th' t = p' -> (forall u, u <> t -> th' u = cthr _ s u) ->
  (forall u, u <> t -> fthr q' u = fthr (q _ s) u) -> ftail q' - fhead q' = ftail (q _ s) - fhead (q _ s) ->
  TY (mk _ q' (m _ s) th' l') ->
  producer_pc p' ->
  (forall i, ppend (cthr _ s t) (fth s t) (wk s i) (cu s i) i -> ppend p' (fthr q' t) (wk s i) (cu s i) i) ->
  WInv (mk _ q' (m _ s) th' l').
Proof.
  intros I Ht Hth1 Hth2 Hf Hl G Hp Hpp. set (s' := mk _ q' (m _ s) th' l').
  assert (F : Frame s s' t) by (subst s'; constructor; un; intros; auto).
  apply (winv_frame s s' t I F G); try (intros; exfalso; lia); auto.
  - intros _. subst s'. un. now rewrite Hth1.
  - unfold len. subst s'. un. rewrite Hl. apply (w_len _ I).
  - intros i Hi Hn Hpi. rewrite pending_ppend in Hpi. apply Hpp in Hpi.
    split; right; exists t; rewrite pending_ppend; subst s'; un; rewrite Hth1; exact Hpi.
  - intros Hk Hpos [Hz|[Hlt _]]; [|lia]. exfalso. unfold len in *. subst s'. un. lia.
  - intros i Hi Hk Hk0. subst s'. un. congruence.
Qed.


Lemma step_sendq s t v : WInv s -> cthr _ s t = XSendQ v -> WInv (stp s t).
Proof.
  intros I E. assert (Ht : (k <= t)%nat) by (apply (is_producer s t I); rewrite E; auto).
  pose proof (uf_gi_step s t (w_gi _ I)) as G. pose proof (typing_of s t I) as Ty. rewrite E in Ty. cbn in Ty.
  revert G. unfold cstep. rewrite E. unfold fs_qop in Ty.
  destruct (fthr (q _ s) t) as [|v0|v0 r| |r|] eqn:Ef; cbn in Ty; try discriminate; injection Ty as ->.
  - (* FPL: the flag CAS *)
    unfold fstepZ, fstep, idz, fs_idle. rewrite Ef.
    destruct (flock (q _ s)) eqn:El.
    + rewrite Ef. intros G.
      apply (producer_local s t (q _ s) (cthr _ s) (XSendQ v)); auto; [exact Logic.I|].
      intros i. rewrite E. unfold fth. now rewrite Ef.
    + destruct (Z.ltb_spec (ftail (q _ s) - fhead (q _ s)) N) as [Hlt|Hge]; cbn [fthr]; rewrite upd_same; intros G.
      * (* accepted: the length grows *)
        match goal with |- WInv ?x => set (s' := x) end.
        assert (F : Frame s s' t) by (subst s'; constructor; un; intros; auto; now rewrite upd_other).
        apply (winv_frame s s' t I F G); try (intros; exfalso; lia); auto.
        -- intros _. subst s'. un. now rewrite E.
        -- pose proof (w_len _ I). subst s'. un. lia.
        -- intros i Hi Hn Hpi. exfalso. rewrite pending_ppend, E in Hpi. unfold fth in Hpi. now rewrite Ef in Hpi.
        -- intros Hk Hpos [Hz|[Hlt' _]]; [|lia].
           exists 0%nat. split; [assumption|]. right. exists t. rewrite pending_ppend. subst s'. un. rewrite E, upd_same.
           pose proof (w_len _ I) as Hl0. unfold len in *. replace (ftail (q _ s) - fhead (q _ s) + 1) with 1 by lia. apply wake_rule_one.
        -- intros i Hi Hk Hk0. subst s'. un. congruence.
      * apply (producer_local s t _ (cthr _ s) (XSendQ v)); auto; [intros; cbn [fthr]; now rewrite upd_other|exact Logic.I|].
        intros i. rewrite E. unfold fth. now rewrite Ef.
  - (* FPU: the flag store, then the wake decision *)
    unfold fstepZ, fstep, idz, fs_idle. rewrite Ef. cbn [fthr]. rewrite upd_same.
    unfold after_send, qres. cbn [flog]. rewrite last_last. cbn [snd].
    destruct r as [l|]; cbn [pub_res].
    + destruct (wake_rule_fullsync M l) as [i0|] eqn:Ewr; intros G.
      * apply (producer_local s t _ _ (XSendW v (W0 i0))); auto; [apply upd_same|intros; now apply upd_other|intros; cbn [fthr]; now rewrite upd_other|exact Logic.I|].
        intros i. rewrite E. unfold fth. rewrite Ef. cbn. congruence.
      * apply (producer_local s t _ _ XIdle); auto; [apply upd_same|intros; now apply upd_other|intros; cbn [fthr]; now rewrite upd_other|exact Logic.I|].
        intros i. rewrite E. unfold fth. rewrite Ef. cbn. congruence.
    + intros G. apply (producer_local s t _ _ XIdle); auto; [apply upd_same|intros; now apply upd_other|intros; cbn [fthr]; now rewrite upd_other|exact Logic.I|].
      intros i. rewrite E. unfold fth. rewrite Ef. cbn. auto.
Qed.


Lemma step_cancelu s t j : WInv s -> cthr _ s t = XCancelU j -> WInv (stp s t).
Proof.
  intros I E. assert (Ht : (k <= t)%nat) by (apply (is_producer s t I); rewrite E; auto).
  pose proof (uf_gi_step s t (w_gi _ I)) as G. revert G. unfold cstep. rewrite E.
  destruct (j <? k)%nat; cbn [setpc finish]; intros G.
  - apply (producer_local s t (q _ s) _ (XCancelK j)); auto; [apply upd_same|intros; now apply upd_other|exact Logic.I|].
    intros i. rewrite E. cbn. contradiction.
  - apply (producer_local s t (q _ s) _ XIdle); auto; [apply upd_same|intros; now apply upd_other|exact Logic.I|].
    intros i. rewrite E. cbn. contradiction.
Qed.

Lemma step_cancelk s t j : WInv s -> cthr _ s t = XCancelK j -> WInv (stp s t).
Proof.
  intros I E. assert (Ht : (k <= t)%nat) by (apply (is_producer s t I); rewrite E; auto).
  pose proof (uf_gi_step s t (w_gi _ I)) as G. revert G. unfold cstep. rewrite E. intros G.
  match goal with |- WInv ?x => set (s' := x) end.
  assert (F : Frame s s' t).
  { subst s'; constructor; un; intros; auto; try now rewrite upd_other.
    unfold upd in *. destruct (Nat.eqb i j); [discriminate|assumption]. }
  apply (winv_frame s s' t I F G); try (intros; exfalso; lia); auto.
  - intros _. subst s'. un. rewrite upd_same. exact Logic.I.
  - apply (w_len _ I).
  - intros i Hi Hn Hpi. exfalso. rewrite pending_ppend, E in Hpi. exact Hpi.
  - intros Hk Hpos [Hz|[Hlt _]]; [|lia]. exfalso. unfold len in *. subst s'. un. lia.
  - intros i Hi Hk Hk0. right. exists t. rewrite pending_ppend. subst s'. un. rewrite upd_same. cbn.
    unfold upd in Hk. destruct (Nat.eqb_spec i j); [auto|congruence].
Qed.

Lemma step_lenq s t : WInv s -> cthr _ s t = XLenQ -> WInv (stp s t).
Proof.
  intros I E. assert (Ht : (k <= t)%nat) by (apply (is_producer s t I); rewrite E; auto).
  pose proof (uf_gi_step s t (w_gi _ I)) as G. pose proof (typing_of s t I) as Ty. rewrite E in Ty. cbn in Ty.
  revert G. unfold cstep. rewrite E. unfold fs_qop in Ty.
  destruct (fthr (q _ s) t) eqn:Ef; cbn in Ty; try discriminate.
  unfold fstepZ, fstep, idz, fs_idle. rewrite Ef. cbn [fthr]. rewrite upd_same. unfold qres. cbn [flog]. rewrite last_last. cbn [snd].
  intros G. apply (producer_local s t _ _ XIdle); auto; [apply upd_same|intros; now apply upd_other|intros; cbn [fthr]; now rewrite upd_other|exact Logic.I|].
  intros i. rewrite E. cbn. contradiction.
Qed.

(* ---- stream-side steps ---- *)
Lemma stream_step s t q' mm' th' p' l' :
  WInv s -> (t < k)%nat -> th' t = p' -> (forall u, u <> t -> th' u = cthr _ s u) ->
  (forall u, u <> t -> fthr q' u = fthr (q _ s) u) ->
  (forall i, i <> t -> wakers mm' i = wk s i) -> (wk s t = true -> wakers mm' t = true) ->
  (forall i, i <> t -> nt s i = true -> nflag mm' i = true) ->
  keep mm' = keep (m _ s) -> (forall i, cur mm' i = cu s i) ->
  TY (mk _ q' mm' th' l') ->
  stream_pc t p' -> (registered p' -> wakers mm' t = true) ->
  0 <= ftail q' - fhead q' <= len s ->
  (wakers mm' t = false -> nflag mm' t = true \/ on_the_way p') ->
  (0 < ftail q' - fhead q' -> will_look (cthr _ s t) (fth s t) (wk s t) (nt s t) \/ ftail q' - fhead q' < len s -> will_look p' (fthr q' t) (wakers mm' t) (nflag mm' t)) ->
  (keep mm' t = false -> will_check (cthr _ s t) (wk s t) (nt s t) -> will_check p' (wakers mm' t) (nflag mm' t)) ->
  WInv (mk _ q' mm' th' l').
Proof.
  intros I Ht Hth1 Hth2 Hf Hw Hwt Hn Hk Hcu G Hs Hr Hl HJ Hlook Hcheck. set (s' := mk _ q' mm' th' l').
  assert (F : Frame s s' t) by (subst s'; constructor; un; intros; auto; now rewrite Hk in *).
  assert (Hstr : stream_pc t (cthr _ s t)) by (apply (w_str _ I t Ht)).
  apply (winv_frame s s' t I F G); try (intros; exfalso; lia); auto.
  - intros _. subst s'. un. now rewrite Hth1.
  - intros _. subst s'. un. now rewrite Hth1.
  - subst s'. un. lia.
  - intros _. subst s'. un. now rewrite Hth1.
  - intros i Hi Hne Hpi. exfalso. rewrite pending_ppend in Hpi.
    destruct (cthr _ s t); cbn in Hstr, Hpi; try contradiction; destruct drv; contradiction.
  - intros _ Hpos W. left. subst s'. un. rewrite Hth1. apply Hlook; [exact Hpos|now left].
  - intros _ Hkf W. left. subst s'. un. rewrite Hth1. now apply Hcheck.
  - intros Hkk Hpos [Hz|[_ Hlt]].
    + exfalso. subst s'. un. lia.
    + exists t. split; [assumption|]. left. subst s'. un. rewrite Hth1. apply Hlook; [exact Hpos|right; exact Hlt].
  - intros i Hi Hk1 Hk0. exfalso. subst s'. un. rewrite Hk in Hk1. congruence.
Qed.


Lemma stream_index s t i : WInv s -> (t < k)%nat ->
  (cthr _ s t = XDrive i \/ (exists d, cthr _ s t = XPollQ i d) \/ (exists d, cthr _ s t = XPollK i d) \/
   (exists r d, cthr _ s t = XReg i r d) \/ cthr _ s t = XParked i) -> i = t.
Proof.
  intros I Ht H. pose proof (w_str _ I t Ht) as Hs.
  destruct H as [H|[[d H]|[[d H]|[[r [d H]]|H]]]]; rewrite H in Hs; cbn in Hs; try (destruct d; try contradiction); auto.
Qed.
Lemma stream_drv s t : WInv s -> (t < k)%nat ->
  forall i d, (cthr _ s t = XPollQ i d \/ cthr _ s t = XPollK i d \/ exists r, cthr _ s t = XReg i r d) -> d = true.
Proof.
  intros I Ht i d H. pose proof (w_str _ I t Ht) as Hs.
  destruct H as [H|[H|[r H]]]; rewrite H in Hs; cbn in Hs; destruct d; auto; contradiction.
Qed.

(* the consume attempt of a stream: the flag CAS (from XDrive, where the operation starts, or from XPollQ) *)
Lemma consume_cas s t x0 th' l' :
  WInv s -> (t < k)%nat ->
  fthr x0 t = FCL -> (forall u, u <> t -> fthr x0 u = fthr (q _ s) u) ->
  fhead x0 = fhead (q _ s) -> ftail x0 = ftail (q _ s) ->
  th' t = XPollQ t true -> (forall u, u <> t -> th' u = cthr _ s u) ->
  TY (mk _ (fstepZ N x0 t) (m _ s) th' l') ->
  WInv (mk _ (fstepZ N x0 t) (m _ s) th' l').
Proof.
  intros I Ht Ef Hoth Hh Htl Hth1 Hth2. unfold fstepZ, fstep, idz. rewrite Ef.
  pose proof (w_len _ I) as Hl0. unfold len in Hl0.
  destruct (flock x0) eqn:El.
  - intros G. apply (stream_step s t x0 (m _ s) th' (XPollQ t true)); auto; try (cbn; auto; fail); try (unfold len; lia).
    intros _ _. rewrite Ef. exact Logic.I.
  - destruct (Z.ltb_spec 0 (ftail x0 - fhead x0)) as [Hpos|Hz]; intros G.
    + apply (stream_step s t _ (m _ s) th' (XPollQ t true)); auto; try (cbn; auto; fail);
        try (intros; cbn [fthr]; rewrite upd_other by assumption; auto; fail).
      * cbn [fhead ftail]. unfold len. lia.
      * intros _ _. cbn [fthr]. rewrite upd_same. exact Logic.I.
    + apply (stream_step s t _ (m _ s) th' (XPollQ t true)); auto; try (cbn; auto; fail);
        try (intros; cbn [fthr]; rewrite upd_other by assumption; auto; fail).
      * cbn [fhead ftail]. unfold len. lia.
      * cbn [fhead ftail]. intros Hpos. exfalso. lia.
Qed.

Lemma step_drive s t i : WInv s -> cthr _ s t = XDrive i -> WInv (stp s t).
Proof.
  intros I E. assert (Ht : (t < k)%nat) by (apply (is_stream s t I); rewrite E; auto).
  assert (i = t) by (apply (stream_index s t i I Ht); auto). subst i.
  pose proof (uf_gi_step s t (w_gi _ I)) as G. pose proof (typing_of s t I) as Ty. rewrite E in Ty. cbn in Ty.
  unfold fs_qop in Ty. assert (Ef : fthr (q _ s) t = FIdle) by (destruct (fthr (q _ s) t); cbn in Ty; congruence).
  revert G. unfold cstep. rewrite E.
  assert (Es : fstart (q _ s) t OpCons = fset (q _ s) t FCL) by (unfold fstart; now rewrite Ef).
  rewrite Es.
  assert (Hnid : fs_idle (fstepZ N (fset (q _ s) t FCL) t) t = false).
  { unfold fs_idle, fstepZ, fstep, idz. cbn [fthr fset]. rewrite upd_same. cbn [flock fhead ftail fset].
    destruct (flock (q _ s)); [cbn [fthr fset]; now rewrite upd_same|].
    destruct (0 <? _); cbn [fthr]; now rewrite upd_same. }
  rewrite Hnid. intros G.
  apply (consume_cas s t (fset (q _ s) t FCL)); auto; try apply upd_same; try (intros; now apply upd_other);
    try (cbn; apply upd_same); try (intros u Hu; cbn; now apply upd_other).
Qed.

Lemma step_pollq s t i d : WInv s -> cthr _ s t = XPollQ i d -> WInv (stp s t).
Proof.
  intros I E. assert (Ht : (t < k)%nat) by (apply (is_stream s t I); rewrite E; auto).
  assert (i = t) by (apply (stream_index s t i I Ht); eauto). subst i.
  assert (d = true) by (apply (stream_drv s t I Ht t d); auto). subst d.
  pose proof (uf_gi_step s t (w_gi _ I)) as G. pose proof (typing_of s t I) as Ty. rewrite E in Ty. cbn in Ty.
  revert G. unfold cstep. rewrite E. unfold fs_qop in Ty.
  destruct (fthr (q _ s) t) as [| | | |r|] eqn:Ef; cbn in Ty; try discriminate.
  - (* FCL *)
    assert (Hnid : fs_idle (fstepZ N (q _ s) t) t = false).
    { unfold fs_idle, fstepZ, fstep, idz. rewrite Ef. destruct (flock (q _ s)); [now rewrite Ef|].
      destruct (0 <? _); cbn [fthr]; now rewrite upd_same. }
    rewrite Hnid. intros G. apply (consume_cas s t (q _ s)); auto.
  - (* FCU: the flag store, then yield or go on to the keep flag *)
    unfold fstepZ, fstep, idz, fs_idle. rewrite Ef. cbn [fthr]. rewrite upd_same.
    unfold after_cons, qres. cbn [flog]. rewrite last_last. cbn [snd].
    destruct r as [v|]; cbn [cons_res]; intros G.
    + apply (stream_step s t _ (m _ s) _ (XDrive t)); auto; try apply upd_same; try (intros; now apply upd_other);
        try (cbn; auto; fail); try (intros; cbn [fthr]; rewrite upd_other by assumption; auto; fail).
      cbn [fhead ftail]. pose proof (w_len _ I). unfold len in *. lia.
    + apply (stream_step s t _ (m _ s) _ (XPollK t true)); auto; try apply upd_same; try (intros; now apply upd_other);
        try (cbn; auto; fail); try (intros; cbn [fthr]; rewrite upd_other by assumption; auto; fail).
      * cbn [fhead ftail]. pose proof (w_len _ I). unfold len in *. lia.
      * cbn [fhead ftail]. intros _ [W|Hlt]; [|unfold len in Hlt; lia]. rewrite E in W. unfold fth in W. rewrite Ef in W. exact W.
Qed.

Lemma step_pollk s t i d : WInv s -> cthr _ s t = XPollK i d -> WInv (stp s t).
Proof.
  intros I E. assert (Ht : (t < k)%nat) by (apply (is_stream s t I); rewrite E; auto).
  assert (i = t) by (apply (stream_index s t i I Ht); eauto 6). subst i.
  assert (d = true) by (apply (stream_drv s t I Ht t d); auto). subst d.
  pose proof (uf_gi_step s t (w_gi _ I)) as G. pose proof (w_len _ I) as Hl0. revert G. unfold cstep. rewrite E.
  destruct (keep (m _ s) t) eqn:Ek; cbn [setpc finish]; intros G.
  - apply (stream_step s t (q _ s) (m _ s) _ (XReg t R0 true)); auto; try apply upd_same; try (intros; now apply upd_other);
      try (cbn; auto; fail); try (unfold len in *; lia); try (rewrite Ek; intro; discriminate).
    intros _ [W|Hlt]; [|unfold len in Hlt; lia]. rewrite E in W. exact W.
  - apply (stream_step s t (q _ s) (m _ s) _ XIdle); auto; try apply upd_same; try (intros; now apply upd_other);
      try (cbn; auto; fail); try (unfold len in *; lia).
Qed.

Lemma views_set_lock mm b i : wakers (set_lock mm b) i = wakers mm i /\ nflag (set_lock mm b) i = nflag mm i.
Proof. split; reflexivity. Qed.
Lemma nflag_upd2_other mm i j w x : i <> j ->
  nflag {| regid := regid mm; cur := cur mm; keep := keep mm; wlock := wlock mm; notified := upd2 (notified mm) j w x |} i = nflag mm i.
Proof. intros H. unfold nflag, upd2. cbn. destruct (Nat.eqb_spec i j); [contradiction|reflexivity]. Qed.
Lemma nflag_notify_other mm i j w : i <> j -> nflag (notify mm j w) i = nflag mm i.
Proof. intros H. unfold notify. now apply nflag_upd2_other. Qed.

Ltac vw := unfold wakers, nflag, set_lock, notify, upd2 in *; cbn [regid cur keep wlock notified] in *.
Ltac side :=
  first [ assumption | reflexivity | apply upd_same | (intros; now apply upd_other) | (cbn; auto; fail)
        | (unfold len in *; lia) | (intros; cbn; now rewrite upd_other) | (intros; cbn; apply upd_same)
        | (intros; cbn; rewrite upd_same; discriminate) | (intros; discriminate) | (intros; cbn in *; congruence)
        | (intros; cbn in *; rewrite upd_same in *; discriminate)
        | (intros; un; vw; auto; fail) | (intros; un; vw; rewrite ?upd_same, ?Nat.eqb_refl; auto; fail)
        | (intros; un; vw; rewrite upd_other by assumption; auto; fail)
        | (intros; rewrite nflag_notify_other by assumption; auto; fail)
        | (intros; rewrite nflag_upd2_other by assumption; auto; fail)
        | (intros; exfalso; un; vw; rewrite ?upd_same, ?Nat.eqb_refl in *; discriminate)
        | (intros; exfalso; un; vw; congruence) ].

Lemma step_parked s t i : WInv s -> cthr _ s t = XParked i -> WInv (stp s t).
Proof.
  intros I E. assert (Ht : (t < k)%nat) by (apply (is_stream s t I); rewrite E; auto).
  assert (i = t) by (apply (stream_index s t i I Ht); eauto 6). subst i.
  pose proof (uf_gi_step s t (w_gi _ I)) as G. pose proof (w_len _ I) as Hl0. revert G. unfold cstep. rewrite E.
  destruct (nflag (m _ s) t) eqn:En; [|intros _; exact I].
  intros G.
  apply (stream_step s t (q _ s) _ _ (XDrive t)); auto; try side.
Qed.

Lemma step_reg s t i r d : WInv s -> cthr _ s t = XReg i r d -> WInv (stp s t).
Proof.
  intros I E. assert (Ht : (t < k)%nat) by (apply (is_stream s t I); rewrite E; auto).
  assert (i = t) by (apply (stream_index s t i I Ht); eauto 8). subst i.
  assert (d = true) by (apply (stream_drv s t I Ht t d); eauto). subst d.
  pose proof (uf_gi_step s t (w_gi _ I)) as G. pose proof (w_len _ I) as Hl0.
  pose proof (w_reg _ I t Ht) as Hreg. rewrite E in Hreg.
  revert G. unfold cstep. rewrite E.
  destruct r.
  - (* R0 *)
    destruct (wakers (m _ s) t) eqn:Ew; cbn [setpc finish]; intros G.
    + apply (stream_step s t (q _ s) (m _ s) _ (XParked t)); auto; try side.
      * intros _ [W|Hlt]; [|unfold len in Hlt; lia]. rewrite E in W. cbn in W. unfold wk in W. rewrite Ew in W. destruct W; [discriminate|assumption].
      * intros _. rewrite E. cbn. unfold wk. rewrite Ew. intros [W|W]; [discriminate|assumption].
    + apply (stream_step s t (q _ s) (m _ s) _ (XReg t RL true)); auto; try side.
  - (* RL *)
    destruct (wlock (m _ s)); [intros _; exact I|]. intros G.
    apply (stream_step s t (q _ s) _ _ (XReg t RW true)); auto; try side.
  - (* RW *)
    intros G. apply (stream_step s t (q _ s) _ _ (XReg t RU true)); auto; try side.
  - (* RU *)
    intros G. specialize (Hreg Logic.I). unfold wk in Hreg.
    apply (stream_step s t (q _ s) _ _ (XReg t RS true)); auto; try side.
  - (* RS *)
    intros G. specialize (Hreg Logic.I). unfold wk in Hreg.
    apply (stream_step s t (q _ s) _ _ (XParked t)); auto; try side; intros; cbn; apply nflag_notify.
Qed.

Lemma winv_step s t : WInv s -> WInv (stp s t).
Proof.
  intros I. destruct (cthr _ s t) eqn:E.
  - unfold cstep. rewrite E. exact I.
  - eapply step_sendq; eauto.
  - eapply step_sendw; eauto.
  - eapply step_drive; eauto.
  - eapply step_pollq; eauto.
  - eapply step_pollk; eauto.
  - eapply step_reg; eauto.
  - eapply step_parked; eauto.
  - eapply step_cancelu; eauto.
  - eapply step_cancelk; eauto.
  - eapply step_cancelw; eauto.
  - eapply step_lenq; eauto.
Qed.

Lemma winv_start s t o : wf_ev (CStart t o) -> WInv s -> WInv (strt s t o).
Proof.
  intros Hwf I. pose proof (uf_gi_start s t o (w_gi _ I)) as G. pose proof (typing_of s t I) as Ty.
  revert G. unfold cstart. destruct (cthr _ s t) eqn:E; try (intros _; exact I).
  cbn in Ty. unfold fs_qop in Ty. assert (Ef : fthr (q _ s) t = FIdle) by (destruct (fthr (q _ s) t); cbn in Ty; congruence).
  pose proof (w_len _ I) as Hl0.
  destruct o; cbn in Hwf.
  - (* send *)
    unfold fstart. rewrite Ef. intros G.
    apply (producer_local s t _ _ (XSendQ v)); auto; try side. rewrite E. cbn. contradiction.
  - contradiction.
  - (* drive *)
    destruct Hwf as [-> Hi]. cbn [setpc]. intros G.
    apply (stream_step s i (q _ s) (m _ s) _ (XDrive i)); auto; try side.
  - (* cancel_all *)
    unfold cancel_next. destruct (M <=? 0)%nat eqn:EM; [apply Nat.leb_le in EM; lia|]. cbn [setpc]. intros G.
    apply (producer_local s t (q _ s) _ (XCancelU 0)); auto; try side. rewrite E. cbn. contradiction.
  - (* len *)
    unfold fstart. rewrite Ef. intros G.
    apply (producer_local s t _ _ XLenQ); auto; try side. rewrite E. cbn. contradiction.
Qed.

Lemma winv_init : WInv (wuf_init).
Proof.
  constructor.
  - intros t. reflexivity.
  - intros i Hi. exact Logic.I.
  - intros t Ht. exact Logic.I.
  - intros i Hi []. 
  - cbn. lia.
  - intros i Hi _. right. exact Logic.I.
  - cbn. lia.
  - intros i Hi Hk. exfalso. unfold kp, wuf_init, cinit in Hk. cbn [m keep] in Hk. apply Nat.ltb_lt in Hi. rewrite Hi in Hk. discriminate.
Qed.

(* the executor re-polls the task of stream t with waker w (whatever w is, notified or not) *)
Lemma winv_repoll s t w : (t < k)%nat -> WInv s -> WInv (crepoll _ s t w).
Proof.
  intros Ht I. unfold crepoll.
  assert (Hcase : (exists j, cthr _ s t = XParked j \/ cthr _ s t = XDrive j) \/ crepoll _ s t w = s).
  { unfold crepoll. destruct (cthr _ s t); eauto. }
  destruct Hcase as [[j Hj]|Hs]; [|unfold crepoll in Hs; rewrite Hs; exact I].
  assert (j = t) by (destruct Hj as [Hj|Hj]; apply (stream_index s t j I Ht); eauto 8). subst j.
  assert (Eq : crepoll _ s t w = mk _ (q _ s) (set_cur (m _ s) t w) (upd (cthr _ s) t (XDrive t)) (clog _ s)).
  { unfold crepoll. destruct Hj as [-> | ->]; reflexivity. }
  unfold crepoll in Eq. rewrite Eq. clear Eq. set (s' := mk _ (q _ s) (set_cur (m _ s) t w) (upd (cthr _ s) t (XDrive t)) (clog _ s)).
  assert (Hexp : expectsW (cthr _ s t) = None) by (destruct Hj as [-> | ->]; reflexivity).
  assert (Hc : forall u, u <> t -> cthr _ s' u = cthr _ s u) by (intros; subst s'; un; now apply upd_other).
  assert (Hct : cthr _ s' t = XDrive t) by (subst s'; un; apply upd_same).
  assert (Hv : forall i, i <> t -> wk s' i = wk s i /\ nt s' i = nt s i /\ cu s' i = cu s i).
  { intros i Hi. subst s'. un. unfold wakers, nflag, set_cur. cbn [regid cur notified]. rewrite !upd_other by assumption. auto. }
  assert (Hnp : forall i, ~ pending s t i).
  { intros i Hp. unfold pending in Hp. destruct Hj as [Hj|Hj]; rewrite Hj in Hp; exact Hp. }
  assert (Hpend : forall p i, i <> t -> pending s p i -> pending s' p i).
  { intros p i Hi Hp. destruct (Nat.eq_dec p t) as [->|Hn]; [exfalso; now apply (Hnp i)|].
    unfold pending in *. rewrite (Hc p Hn). destruct (Hv i Hi) as (E1 & _ & E3). rewrite E1, E3. exact Hp. }
  assert (Hsee : forall i, i <> t -> (WillSee s i -> WillSee s' i) /\ (WillCheck s i -> WillCheck s' i)).
  { intros i Hi. destruct (Hv i Hi) as (E1 & E2 & _). unfold WillSee, WillCheck. rewrite (Hc i Hi), E1, E2.
    split; (intros [H|[p Hp]]; [left; exact H|right; exists p; now apply Hpend]). }
  constructor.
  - apply ty_local; [apply (w_gi _ I)|exact Hexp|reflexivity].
  - intros i Hi. destruct (Nat.eq_dec i t) as [->|Hn]; [rewrite Hct; reflexivity|rewrite (Hc i Hn); apply (w_str _ I i Hi)].
  - intros u Hu. rewrite (Hc u ltac:(lia)). apply (w_prod _ I u Hu).
  - intros i Hi. destruct (Nat.eq_dec i t) as [->|Hn]; [rewrite Hct; intros []|].
    rewrite (Hc i Hn), (proj1 (Hv i Hn)). apply (w_reg _ I i Hi).
  - apply (w_len _ I).
  - intros i Hi. destruct (Nat.eq_dec i t) as [->|Hn]; [intros _; right; rewrite Hct; exact Logic.I|].
    destruct (Hv i Hn) as (E1 & E2 & _). rewrite (Hc i Hn), E1, E2. apply (w_J _ I i Hi).
  - intros Hk Hl. destruct (w_c04 _ I Hk Hl) as (i & Hi & W).
    destruct (Nat.eq_dec i t) as [->|Hn].
    + exists t. split; [assumption|]. left. rewrite Hct. exact Logic.I.
    + exists i. split; [assumption|]. now apply (proj1 (Hsee i Hn)).
  - intros i Hi Hk. destruct (Nat.eq_dec i t) as [->|Hn]; [left; rewrite Hct; exact Logic.I|].
    apply (proj2 (Hsee i Hn)). now apply (w_c07 _ I i Hi).
Qed.

Theorem winv_reachable cevs : Forall wf_ev cevs -> WInv (wuf_run cevs).
Proof.
  unfold wuf_run. generalize (wuf_init) winv_init.
  induction cevs as [|e cevs IH]; intros s I Hwf; [exact I|].
  inversion Hwf as [|? ? He Hrest]; subst. cbn [fold_left]. apply IH; [|exact Hrest].
  destruct e; [apply winv_step|apply winv_start|apply winv_repoll]; assumption.
Qed.

(* C04: no lost wake-up, for every schedule *)
Theorem no_lost_wakeup cevs : Forall wf_ev cevs -> ~ lost (wuf_run cevs).
Proof. intros H. apply winv_not_lost, winv_reachable, H. Qed.

(* C07: a cancelled stream never stays parked without having been notified *)
Theorem cancel_terminates cevs i : Forall wf_ev cevs -> (i < k)%nat -> ~ stuck_cancelled (wuf_run cevs) i.
Proof. intros H Hi. apply winv_not_stuck; [exact Hi|apply winv_reachable, H]. Qed.

End UniWake.
