(* The remaining entry points of the movable atomic Uni channel that can accept an event
   (/repo/src/uni/channels/movable/atomic.rs): reserve_slot / try_send_reserved / try_cancel_slot_reserve and send_with_async,
   layered on the channel machine of Chan.v instantiated with the reserve machine of Reserve.v as its queue component.

     reserve k v     `reserve_slot`: leak_slot_internal(|| false)                         (the accesses of Reserve.RRes)
     sendres k       `try_send_reserved`: [the caller's write of v into the slot, silent]
                      try_publish_leaked_internal_index; on Some(len_after) the channel's wake decision `wake_res len_after`
                      and wake_stream                                                      (Reserve.RSendG / RSendH, then Chan.wstep)
     cancelres k     `try_cancel_slot_reserve`: try_unleak_slot_index_internal              (Reserve.RCanG)
     senda v         `send_with_async` with a setter that is ready at its first poll: leak_slot_internal, [the setter's write,
                      silent: it has no hook], publish_leaked_internal (spins on the tail CAS), then `wake_async len_after`
   Everything else (send, poll, drive, cancel_all, len) is the machine of Chan.v, untouched.

   The two wake decisions are parameters: the code's are `wake_res_code` / `wake_async_code` below; the rule the code had
   before the repair of finding F2 (`len_after % MAX_STREAMS`) is `wake_res_f2` (refutation in props/C04.v). *)
From RM Require Export RingModel FullSync Chan Reserve.

Inductive xop := XoBase (o : cop) | XoReserve (k : nat) (v : Z) | XoSendRes (k : nat) | XoCancelRes (k : nat) | XoSendAsync (v : Z).
Inductive xres :=
| XSlot (k : nat) | XNoSlot (k : nat) | XSent (k : nat) | XNotSent (k : nat) | XCancelled (k : nat) | XNotCancelled (k : nat)
| XNone (k : nat) | XAOk (v : Z) | XAFull (v : Z).
Inductive xpc :=
| XN
| XRes (k : nat) | XSRes (k : nat) | XSResW (k : nat) (w : wpc) | XCRes (k : nat)
| XAsyQ (v : Z) | XAsyW (v : Z) (w : wpc).

(* the ring-level responses inside the reserve machine's log *)
Definition ring_results (l : list (nat * rres)) : list (nat * res) :=
  flat_map (fun e => match snd e with RrRing r => [(fst e, r)] | _ => [] end) l.
Definition rs_idle (x : rst) (t : nat) : bool := match rthr x t with RIdle => true | _ => false end.
Definition rs_last (x : rst) : rres := snd (last (rlog x) (0%nat, RrNone 0)).

Section ChanX.
Variable N : Z.
Variables norm sgn : Z -> Z.
Variable M k : nat.
Variable wake_send : Z -> option nat.      (* `send` / `send_with` *)
Variable wake_res : Z -> option nat.       (* `try_send_reserved` *)
Variable wake_async : Z -> option nat.     (* `send_with_async` *)

Local Notation qstep := (restep N norm sgn).
Definition qstartR (x : rst) (t : nat) (o : op) : rst := restart N norm sgn x t (RoRing o).
Definition qlogR (x : rst) : list (nat * res) := ring_results (rlog x).
Definition qobsR (x : rst) (t : nat) : list Z := reobs N norm x t.

Local Notation bst := (cst rst).
Local Notation bstep := (cstep rst qstep qstartR rs_idle qlogR M k wake_send).
Local Notation bstart := (cstart rst qstartR M).
Local Notation bobs := (cobs rst qstartR qobsR k).

Record xst := { xb : bst; xthr : nat -> xpc; xlog : list (nat * xres) }.

Definition setq (b : bst) (x : rst) : bst := mk rst x (m rst b) (cthr rst b) (clog rst b).
Definition setm (b : bst) (y : sm) : bst := mk rst (q rst b) y (cthr rst b) (clog rst b).
Definition xmk (b : bst) (th : nat -> xpc) (l : list (nat * xres)) : xst := {| xb := b; xthr := th; xlog := l |}.
Definition xfinish (s : xst) (b : bst) (t : nat) (r : xres) : xst := xmk b (upd (xthr s) t XN) (xlog s ++ [(t, r)]).
Definition xgoto (s : xst) (b : bst) (t : nat) (p : xpc) : xst := xmk b (upd (xthr s) t p) (xlog s).

(* one step of the ring operation `OpPub v` of thread t on behalf of send_with_async; the setter's write into the slot (ring pc P3)
   has no hook in the code: it is silent and rides on the access before it *)
Definition async_step (x : rst) (t : nat) : rst :=
  let x1 := qstep x t in
  match thr (ring x1) t with P3 _ _ _ => qstep x1 t | _ => x1 end.

Definition xstep (s : xst) (t : nat) : xst :=
  let b := xb s in
  match xthr s t with
  | XN => xmk (bstep b t) (xthr s) (xlog s)
  | XRes j =>
      let x := qstep (q rst b) t in
      if rs_idle x t then
        match rs_last x with
        | RrSlot _ _ => xfinish s (setq b x) t (XSlot j)
        | _ => xfinish s (setq b x) t (XNoSlot j)
        end
      else xgoto s (setq b x) t (XRes j)
  | XSRes j =>
      let x := qstep (q rst b) t in
      if rs_idle x t then
        match rs_last x with
        | RrSent _ len =>
            match wake_res len with
            | Some i => xgoto s (setq b x) t (XSResW j (W0 i))
            | None => xfinish s (setq b x) t (XSent j)
            end
        | RrNotSent _ => xfinish s (setq b x) t (XNotSent j)
        | _ => xfinish s (setq b x) t (XNone j)
        end
      else xgoto s (setq b x) t (XSRes j)
  | XSResW j w =>
      let '(m', w') := wstep (m rst b) w in
      match w' with
      | Some w'' => xgoto s (setm b m') t (XSResW j w'')
      | None => xfinish s (setm b m') t (XSent j)
      end
  | XCRes j =>
      let x := qstep (q rst b) t in
      if rs_idle x t then
        match rs_last x with
        | RrCancelled _ => xfinish s (setq b x) t (XCancelled j)
        | RrNotCancelled _ => xfinish s (setq b x) t (XNotCancelled j)
        | _ => xfinish s (setq b x) t (XNone j)
        end
      else xgoto s (setq b x) t (XCRes j)
  | XAsyQ v =>
      let x := async_step (q rst b) t in
      if rs_idle x t then
        match rs_last x with
        | RrRing (ROk _ len) =>
            match wake_async len with
            | Some i => xgoto s (setq b x) t (XAsyW v (W0 i))
            | None => xfinish s (setq b x) t (XAOk v)
            end
        | _ => xfinish s (setq b x) t (XAFull v)
        end
      else xgoto s (setq b x) t (XAsyQ v)
  | XAsyW v w =>
      let '(m', w') := wstep (m rst b) w in
      match w' with
      | Some w'' => xgoto s (setm b m') t (XAsyW v w'')
      | None => xfinish s (setm b m') t (XAOk v)
      end
  end.

(* an idle thread begins an operation (no access yet) *)
Definition xstart (s : xst) (t : nat) (o : xop) : xst :=
  let b := xb s in
  match xthr s t, cthr rst b t with
  | XN, XIdle =>
      match o with
      | XoBase o' => xmk (bstart b t o') (xthr s) (xlog s)
      | XoReserve j v => xgoto s (setq b (restart N norm sgn (q rst b) t (RoReserve j v))) t (XRes j)
      | XoSendRes j => xgoto s (setq b (restart N norm sgn (q rst b) t (RoSend j))) t (XSRes j)
      | XoCancelRes j => xgoto s (setq b (restart N norm sgn (q rst b) t (RoCancel j))) t (XCRes j)
      | XoSendAsync v => xgoto s (setq b (restart N norm sgn (q rst b) t (RoRing (OpPub v)))) t (XAsyQ v)
      end
  | _, _ => s
  end.

Inductive xev := XStep (t : nat) | XStart (t : nat) (o : xop).
Definition xexec (s : xst) (e : xev) : xst := match e with XStep t => xstep s t | XStart t o => xstart s t o end.

Definition xobs (s : xst) (t : nat) : list Z :=
  let b := xb s in
  match xthr s t with
  | XN => bobs b t
  | XRes _ | XSRes _ | XCRes _ | XAsyQ _ => qobsR (q rst b) t
  | XSResW _ w | XAsyW _ w => wobs (m rst b) t w
  end.

Definition xinit (q0 : rst) : xst := {| xb := cinit rst k q0; xthr := fun _ => XN; xlog := [] |}.

(* ------------------------------------------------------------------------------------------- runner *)
Definition xres_code (r : xres) : list Z :=
  match r with
  | XSlot j => [20; Z.of_nat j; 0] | XNoSlot j => [21; Z.of_nat j; 0] | XSent j => [27; Z.of_nat j; 0] | XNotSent j => [23; Z.of_nat j; 0]
  | XCancelled j => [24; Z.of_nat j; 0] | XNotCancelled j => [25; Z.of_nat j; 0] | XNone j => [26; Z.of_nat j; 0]
  | XAOk v => [10; v; 0] | XAFull v => [11; v; 0]
  end.
Definition xemit (s s' : xst) : list (list Z) :=
  cemit (clog rst (xb s)) (clog rst (xb s')) ++
  map (fun e => 2 :: Z.of_nat (fst e) :: xres_code (snd e)) (skipn (length (xlog s)) (xlog s')).

Definition xbusy (s : xst) (t : nat) : bool :=
  match xthr s t, cthr rst (xb s) t with XN, XIdle => false | _, _ => true end.

Definition xgrant (s : xst) (progs : nat -> list xop) (t : nat) : xst * (nat -> list xop) * list (list Z) :=
  if xbusy s t then let s2 := xstep s t in (s2, progs, xobs s t :: xemit s s2)
  else
    match progs t with
    | [] => (s, progs, [skip t])
    | o :: rest =>
        let s1 := xstart s t o in
        if xbusy s1 t then let s2 := xstep s1 t in (s2, upd progs t rest, xobs s1 t :: xemit s s2)
        else (s1, upd progs t rest, skip t :: xemit s s1)          (* an operation without any access *)
    end.

Fixpoint xrun (s : xst) (progs : nat -> list xop) (sched : list nat) : xst * list (list Z) :=
  match sched with
  | [] => (s, [])
  | t :: rest =>
      let '(s1, progs1, lines) := xgrant s progs t in
      let '(s2, more) := xrun s1 progs1 rest in
      (s2, lines ++ more)
  end.

End ChanX.

(* the wake decisions of /repo/src/uni/channels/movable/atomic.rs *)
Definition wake_res_code (M : nat) (len : Z) : option nat :=
  if len <=? Z.of_nat M then Some (Z.to_nat (len - 1)) else None.
Definition wake_async_code (M : nat) (len : Z) : option nat :=            (* len_before < M -> wake_stream(len_before) *)
  if len - 1 <? Z.of_nat M then Some (Z.to_nat (len - 1)) else None.
(* ... and the decision try_send_reserved took before the repair of F2: wake_stream(len_after % MAX_STREAMS) *)
Definition wake_res_f2 (M : nat) (len : Z) : option nat :=
  if len <=? Z.of_nat M then Some (Z.to_nat (len mod Z.of_nat M)) else None.

Definition xprogs_of (l : list (list xop)) : nat -> list xop := fun t => nth t l [].
Definition run_unix_atomic_with (wr : nat -> Z -> option nat) (N : Z) (M k : nat) (origin : Z) (progs : list (list xop)) (sched : list nat) : list Z :=
  let '(s, lines) := xrun N u32 i32 M k (wake_rule_atomic M) (wr M) (wake_async_code M)
                          (xinit k (reinit_at (u32 origin))) (xprogs_of progs) sched in
  let r := ring (q rst (xb s)) in
  concat lines ++ [9; head r; tail r; etail r; dhead r].
Definition run_unix_atomic := run_unix_atomic_with wake_res_code.
