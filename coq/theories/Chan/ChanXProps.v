(* The reserve machine inside the extended channel machine (ChanX.v) only ever moves by the reserve machine's own events, and
   under the single-producer discipline of the property (one thread reserves / sends-reserved / cancels; every thread may poll,
   drive streams, ask the length, cancel all streams) those events satisfy ReserveInv's `wf_ev`: every theorem of the reserve
   layer (wrong guesses unreachable, exactly once with the written content, cancelled never, no leak) holds at the channel level,
   for every interleaving and whatever the wake decisions are. *)
From RM Require Import RingModel RingInv RingProps Reserve ReserveInv Chan ChanX.

Section ChanXProps.
Variable N : Z.
Hypothesis Npos : 0 < N.
Variable M k : nat.
Variables wake_send wake_res wake_async : Z -> option nat.

Local Notation xexecZ := (xexec N idz idz M k wake_send wake_res wake_async).
Local Notation xstepZ := (xstep N idz idz M k wake_send wake_res wake_async).
Local Notation xstartZ := (xstart N idz idz M).
Local Notation reexecZ := (reexec N idz idz).
Local Notation restepZ := (restep N idz idz).
Local Notation restartZ := (restart N idz idz).

(* which operations the theorem covers: reservations by thread 0 only; consumer-side operations by anybody; plain sends and
   send_with_async are in the lock-step suites but outside this theorem (as in ReserveInv) *)
Definition xop_ok (t : nat) (o : xop) : Prop :=
  match o with
  | XoBase (CoSend _) | XoSendAsync _ => False
  | XoBase _ => True
  | XoReserve _ _ | XoSendRes _ | XoCancelRes _ => t = 0%nat
  end.
Definition xwf_ev (e : xev) : Prop :=
  match e with XStep t => real t | XStart t o => real t /\ xop_ok t o end.

Definition qx (s : xst) : rst := q rst (xb s).

Lemma wf_step t : real t -> wf_ev (RStep t).
Proof. intros H. exact H. Qed.
Lemma wf_start_cons t : real t -> wf_ev (RStart t (RoRing OpCons)).
Proof. intros H. cbn. repeat split; auto. Qed.
Lemma wf_start_len t : real t -> wf_ev (RStart t (RoRing OpLen)).
Proof. intros H. cbn. repeat split; auto. Qed.

Lemma q_cancel_nextR (b : cst rst) t j : q rst (cancel_next rst M b t j) = q rst b.
Proof. unfold cancel_next. destruct (M <=? j)%nat; reflexivity. Qed.

Ltac split_ifs := repeat match goal with
  | |- context[if ?b then _ else _] => destruct b
  | |- context[match ?x with _ => _ end] => destruct x
  end.
Ltac done_with l :=
  exists l; split;
  [ repeat (first [apply Forall_nil | apply Forall_cons]); auto using wf_step, wf_start_cons, wf_start_len
  | cbn [fold_left reexec xb xmk xfinish xgoto setq setm q mk]; unfold after_send, after_cons, finish, setpc, qstartR, async_step;
    split_ifs; cbn [xb xmk xfinish xgoto setq setm q mk]; rewrite ?q_cancel_nextR; try reflexivity ].

(* one step of the extended machine = at most two events of the reserve machine, each well-formed *)
Lemma qx_step s t : real t -> exists revs, Forall wf_ev revs /\ qx (xstepZ s t) = fold_left reexecZ revs (qx s).
Proof.
  intros Hr. unfold xstep, qx. destruct (xthr s t) eqn:E.
  - (* a step of the base channel machine *)
    cbn [xb xmk]. unfold cstep. destruct (cthr rst (xb s) t) eqn:Ec.
    + done_with (@nil rev).
    + done_with [RStep t].
    + done_with (@nil rev).
    + done_with [RStart t (RoRing OpCons); RStep t].
    + done_with [RStep t].
    + done_with (@nil rev).
    + done_with (@nil rev).
    + done_with (@nil rev).
    + done_with (@nil rev).
    + done_with (@nil rev).
    + done_with (@nil rev).
    + done_with [RStep t].
  - done_with [RStep t].
  - done_with [RStep t].
  - done_with (@nil rev).
  - done_with [RStep t].
  - (* send_with_async: one or two steps of the ring operation *)
    unfold async_step.
    destruct (thr (ring (restepZ (q rst (xb s)) t)) t) eqn:Ep;
    try (done_with [RStep t]; fail).
    done_with [RStep t; RStep t].
  - done_with (@nil rev).
Qed.

Lemma qx_start s t o : real t -> xop_ok t o -> exists revs, Forall wf_ev revs /\ qx (xstartZ s t o) = fold_left reexecZ revs (qx s).
Proof.
  intros Hr Ho. unfold xstart, qx. destruct (xthr s t); try (done_with (@nil rev); fail).
  destruct (cthr rst (xb s) t) eqn:Ec; try (done_with (@nil rev); fail).
  destruct o as [o'|j v|j|j|v]; cbn in Ho.
  - cbn [xb xmk]. unfold cstart. rewrite Ec. destruct o'; try contradiction.
    + done_with [RStart t (RoRing OpCons)].
    + done_with (@nil rev).
    + done_with (@nil rev).
    + done_with [RStart t (RoRing OpLen)].
  - subst t. exists [RStart 0%nat (RoReserve j v)]. split; [apply Forall_cons; [cbn; repeat split; auto; intros []; reflexivity|apply Forall_nil]|reflexivity].
  - subst t. exists [RStart 0%nat (RoSend j)]. split; [apply Forall_cons; [cbn; repeat split; auto; intros []; reflexivity|apply Forall_nil]|reflexivity].
  - subst t. exists [RStart 0%nat (RoCancel j)]. split; [apply Forall_cons; [cbn; repeat split; auto; intros []; reflexivity|apply Forall_nil]|reflexivity].
  - contradiction.
Qed.

Theorem qx_reachable xevs : Forall xwf_ev xevs ->
  exists revs, Forall wf_ev revs /\
    qx (fold_left xexecZ xevs (xinit k (reinit_at 0))) = fold_left reexecZ revs (reinit_at 0).
Proof.
  intros H.
  assert (G : forall s, exists revs, Forall wf_ev revs /\ qx (fold_left xexecZ xevs s) = fold_left reexecZ revs (qx s)).
  { induction H as [|e xevs He Hrest IH]; intros s; [exists []; split; [constructor|reflexivity]|].
    cbn [fold_left]. destruct (IH (xexecZ s e)) as [r2 [W2 H2]].
    assert (S1 : exists r1, Forall wf_ev r1 /\ qx (xexecZ s e) = fold_left reexecZ r1 (qx s)).
    { destruct e as [t|t o]; cbn in He |- *; [now apply qx_step|destruct He; now apply qx_start]. }
    destruct S1 as [r1 [W1 H1]]. exists (r1 ++ r2). split; [now apply Forall_app|].
    rewrite fold_left_app, <- H1. exact H2. }
  destruct (G (xinit k (reinit_at 0))) as [revs [W Hq]]. exists revs. split; [exact W|exact Hq].
Qed.

(* ---- the reserve layer's theorems, at the channel level ---- *)
Theorem chan_reserve_never_bad xevs : Forall xwf_ev xevs ->
  bad (qx (fold_left xexecZ xevs (xinit k (reinit_at 0)))) = false.
Proof. intros H. destruct (qx_reachable xevs H) as [revs [W Hq]]. rewrite Hq. now apply reserve_never_bad. Qed.

Theorem chan_reserve_exactly_once xevs : Forall xwf_ev xevs ->
  let x := ring (qx (fold_left xexecZ xevs (xinit k (reinit_at 0)))) in
  yielded_of (log x) = firstn (length (yielded_of (log x))) (accepted_of (log x)).
Proof. intros H. destruct (qx_reachable xevs H) as [revs [W Hq]]. cbn zeta. rewrite Hq. now apply reserve_exactly_once. Qed.

Theorem chan_reserve_no_leak xevs : Forall xwf_ev xevs ->
  let s := qx (fold_left xexecZ xevs (xinit k (reinit_at 0))) in
  (forall u, thr (ring s) u = Idle) -> etail (ring s) = tail (ring s) /\ dhead (ring s) = head (ring s).
Proof. intros H. destruct (qx_reachable xevs H) as [revs [W Hq]]. cbn zeta. rewrite Hq. now apply reserve_no_leak. Qed.

End ChanXProps.
